"""C08 — Loops reported parallelisable have no loop-carried dependence (DESIGN 5/C08).

Anchor: psyclone/psyir/tools/dependency_tools.py (DependencyTools.can_loop_be_parallelised and helpers).

What the check does on every run
 1. translate.py regenerates coq/C08/GenSrc.v from the working tree (does the fresh-name loop of
    _get_dependency_distance increment idx?) and the Coq theorems of Properties/C08.v are rebuilt.
 2. Generates loops / loop nests (targeted shapes + seeded random ones), writes them as Fortran, reads
    them with FortranReader, and runs DependencyTools().can_loop_be_parallelised on the outermost loop
    under a time limit.  A time-out or an exception = the analysis does not answer (the second sentence
    of the property).
 3. Evaluates the property itself: whenever the implementation answers True the loop is executed by the
    MiniFortran interpreter (vlib.minifort.interp, mirror of coq/Fort/Sem.v) over a grid of stores and
    the Bernstein conditions are checked on the per-iteration read/write sets.  A conflict is a concrete
    failing input; it is classified by a reason code.
 4. Correspondence: verdict and message code/variable of the implementation vs the faithful Gallina model
    (coq/C08/Model.v, vm_compute in coqc), with every answer of _get_dependency_distance /
    _independent_0_var recorded from the implementation and replayed as the model's oracle table
    (the model decides affine subscripts itself; the recorded answers for those are compared too).
Known findings (props/C08/known_findings.json) are re-demonstrated on every run; anything else is a
VIOLATION."""
import importlib.util
import signal
import time

from vlib import core, minifort as mf

# ------------------------------------------------------------------------------------------------
# vocabulary of the generated loops
X = "i"                                # the loop that is analysed
INNER = "j"
SC_RO = ["n", "m"]                     # scalars the bodies only read
SC_W = ["k", "s", "t"]                 # scalars the bodies may write
DNAMES = ["d_i", "d1_i", "d2_i", "d_j", "d_ji", "d1_ji", "tmp"]   # names like the ones the analysis invents (d_<var>, d<k>_<var>)
X2 = "ji"                              # second loop-variable name used by targeted shapes
ARR1 = ["a", "b", "c"]
IDX = "idx"
ARR2 = ["d", "e"]
LB, UB = -40, 40
DECLS = ([(v, "integer", []) for v in [X, INNER, X2] + SC_RO + SC_W + DNAMES] +
         [(a, "integer", [(LB, UB)]) for a in ARR1 + [IDX]] +
         [(a, "integer", [(LB, UB), (LB, UB)]) for a in ARR2])


def V(x):
    return ("var", x)


def L(z):
    return ("lit", z)


def B(o, l, r):
    return ("bin", o, l, r)


def addc(e, c):
    if c == 0:
        return e
    return B("Add", e, L(c)) if c > 0 else B("Sub", e, L(-c))


# ------------------------------------------------------------------------------------------------
# generator
class LoopGen:
    """Random loops `do i = ..` whose bodies use the subscript shapes named in the property."""

    def __init__(self, rng):
        self.r = rng

    def sub(self, inner, simple=0.45):
        """one subscript expression; `inner` = an inner loop variable is in scope."""
        r = self.r
        i, n, k = V(X), V("n"), V("k")
        if r.random() < simple:
            return r.choice([i, i, i, addc(i, 1), addc(i, -1), addc(i, 2), i, B("Add", i, n)])
        shapes = [
            (4, lambda: L(r.randint(-2, 5))),
            (3, lambda: addc(n, r.choice([0, 0, 1, -1]))),
            (3, lambda: addc(B("Mul", L(2), i), r.choice([0, 1, -1]))),
            (1, lambda: addc(B("Mul", L(3), i), -1)),
            (2, lambda: ("un", "Neg", i)),
            (4, lambda: B("Div", i, L(2))),
            (2, lambda: B("Div", addc(i, 1), L(2))),
            (1, lambda: B("Div", i, n)),
            (1, lambda: B("Mul", L(2), B("Div", i, L(2)))),
            (3, lambda: ("intr", "IMod", [i, L(r.choice([2, 3]))])),
            (1, lambda: addc(("intr", "IMod", [i, L(3)]), 1)),
            (2, lambda: B("Mul", i, i)),
            (3, lambda: B("Mul", n, i)),
            (1, lambda: addc(B("Mul", i, n), 1)),
            (2, lambda: B("Sub", i, n)),
            (3, lambda: B("Add", i, k)),
            (2, lambda: addc(k, r.choice([0, 1]))),
            (3, lambda: ("idx", IDX, [i])),
            (1, lambda: addc(("idx", IDX, [i]), 1)),
            (1, lambda: B("Add", i, ("idx", IDX, [i]))),
            (1, lambda: ("idx", IDX, [addc(i, 1)])),
            (1, lambda: ("idx", IDX, [L(3)])),
            (3, lambda: B("Add", i, V("d_i"))),
            (1, lambda: B("Sub", i, V("d_i"))),
            (1, lambda: B("Add", i, V(r.choice(["d1_i", "tmp", "d_j"])))),
            (1, lambda: B("Add", addc(i, r.choice([1, -1])), V("d_i"))),
            (2, lambda: B("Div", n, L(2))),
            (1, lambda: B("Div", addc(n, r.choice([1, 2])), L(2))),
            (1, lambda: ("intr", "IAbs", [i])),
            (1, lambda: B("Sub", B("Add", i, n), n)),
            (1, lambda: addc(B("Sub", i, i), 1)),
        ]
        if inner:
            j = V(INNER)
            shapes += [
                (5, lambda: B("Add", i, j)),
                (6, lambda: addc(j, r.choice([0, 0, 1, -1]))),
                (2, lambda: B("Sub", i, j)),
                (2, lambda: B("Add", B("Mul", L(2), i), j)),
                (1, lambda: B("Div", j, L(2))),
                (1, lambda: B("Sub", B("Mul", L(2), j), j)),
            ]
        tot = sum(w for w, _ in shapes)
        x = r.random() * tot
        for w, f in shapes:
            x -= w
            if x <= 0:
                return f()
        return i

    def ref(self, inner, arr=None, like=None, lhs=False):
        """an array reference; `like` = subscripts to stay close to (same / offset by a constant)."""
        r = self.r
        if arr is None:
            pool = self.written if lhs else (self.readonly * 3 + self.written)
            arr = r.choice(pool)
        a = arr
        nd = 2 if a in ARR2 else 1
        if like is not None and len(like) == nd and r.random() < 0.8:
            ix = [e if r.random() < 0.75 else addc(e, r.choice([1, -1])) for e in like]
            if r.random() < 0.12:                       # a(i) = a(i + d_i): offset known only at run time
                k = r.randrange(nd)
                ix[k] = B("Add", ix[k], V(r.choice(["d_i", "d_i", "d_i", "d1_i", "tmp"])))
            return ("idx", a, ix)
        simple = 0.7 if lhs else 0.4
        if nd == 2 and r.random() < 0.6:
            # typical 2-D shapes: d(i,j) d(j,i) d(c,i) d(i+j,j) ...
            p = self.sub(inner, simple=0.85)
            q = self.sub(inner, simple=0.1)
            return ("idx", a, [p, q] if r.random() < 0.5 else [q, p])
        return ("idx", a, [self.sub(inner, simple) for _ in range(nd)])

    def rhs(self, inner, target=None):
        r = self.r
        c = r.random()
        if c < 0.2:
            return L(r.randint(0, 4))
        if c < 0.4:
            return V(r.choice(SC_RO + SC_W + [X] + ([INNER] if inner else [])))
        if c < 0.85:
            if target is not None and r.random() < 0.35:
                return self.ref(inner, arr=target[1], like=target[2])
            return self.ref(inner)
        return B(r.choice(["Add", "Sub", "Mul"]), self.rhs(inner, target), self.rhs(inner, target))

    def cond(self, inner):
        r = self.r
        return B(r.choice(["Gt", "Lt", "Ge", "Ne", "Eq"]), self.rhs(inner), L(r.randint(0, 2)))

    def stmt(self, inner, depth):
        """-> list of statements"""
        r = self.r
        c = r.random()
        if c < 0.5:
            t = self.ref(inner, lhs=True)
            return [("assign", t[1], t[2], self.rhs(inner, t))]
        if c < 0.68:
            v = r.choice(SC_W)
            c2 = r.random()
            if c2 < 0.15:                               # reduction
                return [("assign", v, [], B("Add", V(v), self.rhs(inner)))]
            out = [("assign", v, [], self.rhs(inner))]
            if c2 < 0.8:                                # ... and a use of the scalar
                t = self.ref(inner, lhs=True)
                out.append(("assign", t[1], t[2], B("Add", V(v), self.rhs(inner, t)) if r.random() < 0.5 else V(v)))
            return out
        if c < 0.84 and depth < 2:
            th = self.block(inner, depth + 1, r.randint(1, 2))
            el = self.block(inner, depth + 1, r.choice([0, 0, 1]))
            return [("if", self.cond(inner), th, el)]
        if not inner and depth < 2:
            lo, hi = r.choice([(L(1), L(3)), (L(0), L(2)), (L(1), V(X)), (L(2), V(X)), (V(X), L(3)), (L(1), V("n")),
                               (L(2), L(1))])
            body = self.block(True, depth + 1, r.randint(1, 2))
            return [("do", INNER, lo, hi, L(1), body)]
        t = self.ref(inner, lhs=True)
        return [("assign", t[1], t[2], self.rhs(inner, t))]

    def block(self, inner, depth, n):
        out = []
        for _ in range(n):
            out += self.stmt(inner, depth)
        return out

    def loop(self):
        r = self.r
        lo, hi, st = r.choice([(L(1), L(4), L(1)), (L(0), L(3), L(1)), (L(-2), L(2), L(1)), (L(4), L(1), L(-1)),
                               (L(1), L(6), L(2)), (L(1), V("n"), L(1)), (L(2), L(5), L(1)),
                               (L(1), B("Add", L(3), V("d_i")), L(1))])
        arrs = ARR1 + ARR2
        r.shuffle(arrs)
        nw = r.choice([1, 1, 2, 2, 3])
        self.written, self.readonly = arrs[:nw], arrs[nw:] + [IDX]
        body = self.block(False, 0, r.choice([1, 1, 2, 2, 3]))
        return ("do", X, lo, hi, st, body)


# targeted shapes (Fortran bodies): every known finding's witness and the shapes DESIGN names
TARGETED = [
    ("plain", "do i = 1, 4\n a(i) = b(i) + 1\nend do"),
    ("offset-read", "do i = 1, 4\n a(i) = a(i - 1)\nend do"),
    ("const-write", "do i = 1, 4\n a(3) = b(i)\nend do"),
    ("div2", "do i = 1, 4\n a(i / 2) = b(i)\nend do"),
    ("div2-rw", "do i = 1, 4\n a(i / 2) = a(i / 2) + 1\nend do"),
    ("div-0var", "do i = 1, 4\n d(n / 2, i) = d((n + 2) / 2, i + 1)\nend do"),
    ("div-0var-half", "do i = 1, 4\n d(n / 2, i) = d((n + 1) / 2, i + 1)\nend do"),
    ("div-0var-half-w", "do i = 1, 4\n d(i, (m + 1) / 2) = d(i + 1, m / 2) + 1\nend do"),
    ("mod2", "do i = 1, 4\n a(mod(i, 2)) = b(i)\nend do"),
    ("twice", "do i = 1, 4\n a(2 * i) = a(2 * i + 1)\nend do"),
    ("square", "do i = -2, 2\n a(i * i) = b(i)\nend do"),
    ("symcoef", "do i = 1, 4\n a(n * i) = b(i)\nend do"),
    ("divn", "do i = 1, 4\n a(i / n) = b(i)\nend do"),
    ("idxarr", "do i = 1, 4\n a(idx(i)) = b(i)\nend do"),
    ("idxarr-read", "do i = 1, 4\n a(i) = b(idx(i))\nend do"),
    ("dname1", "do i = 1, 4\n a(i + d_i) = b(i)\nend do"),
    ("dname2", "do i = 1, 4\n a(i + d_i + d1_i) = b(i)\nend do"),
    ("dname-offset-read", "do i = 1, 4\n a(i) = a(i + d_i) + 1\nend do"),
    ("dname-offset-read2", "do ji = 1, 4\n b(ji) = b(ji + d_ji)\nend do"),
    ("dname-offset-write", "do i = 1, 4\n a(i + d_i) = a(i)\nend do"),
    ("dname-offset-minus", "do i = 1, 4\n a(i) = a(i - d_i)\nend do"),
    ("dname-offset-both", "do i = 1, 4\n a(i + d_i) = a(i + d_i) + b(i + d1_i)\nend do"),
    ("dname-offset-2d", "do i = 1, 3\n do j = 1, 3\n  d(j, i) = d(j + d_j, i + d_i)\n end do\nend do"),
    ("dname-offset-tmp", "do i = 1, 4\n a(i) = a(i + tmp)\nend do"),
    ("dname-offset-d1", "do ji = 1, 4\n c(ji + d_ji) = c(ji + d_ji + d1_ji)\nend do"),
    ("dname-bound", "do i = 1, 3 + d_i\n a(i) = a(i + d_i)\nend do"),
    ("dname-skip", "do i = 1, 4\n a(i + d1_i) = b(i + d2_i)\nend do"),
    ("cond-scalar", "do i = 1, 4\n if (b(i) > 0) then\n  t = b(i)\n end if\n c(i) = t\nend do"),
    ("cond-scalar-ww", "do i = 1, 4\n if (b(i) > 0) then\n  t = 1\n end if\n if (b(i) < 0) then\n  t = 2\n end if\nend do"),
    ("scalar-ok", "do i = 1, 4\n t = b(i)\n c(i) = t\nend do"),
    ("scalar-ww", "do i = 1, 4\n t = b(i)\n t = c(i)\nend do"),
    ("reduction", "do i = 1, 4\n s = s + b(i)\nend do"),
    ("written-once", "do i = 1, 4\n t = b(i)\nend do"),
    ("rbw", "do i = 1, 4\n c(i) = t\n t = b(i)\nend do"),
    ("scalar-in-sub", "do i = 1, 4\n k = b(i)\n a(i + k) = 1\nend do"),
    ("scalar-0var", "do i = 1, 4\n k = b(i)\n d(k, i) = d(k + 1, i + 1)\nend do"),
    ("idx-0var-written", "do i = 1, 4\n idx(i) = b(i)\n d(idx(3), i) = d(idx(3) + 1, i + 1)\nend do"),
    ("nest-ok", "do i = 1, 3\n do j = 1, 3\n  d(j, i) = d(j, i) + 1\n end do\nend do"),
    ("nest-swap", "do i = 1, 3\n do j = 1, 3\n  d(i, j) = d(j, i)\n end do\nend do"),
    ("nest-sum", "do i = 1, 3\n do j = 1, 3\n  a(i + j) = 1\n end do\nend do"),
    ("nest-multi", "do i = 1, 3\n do j = 1, 3\n  d(i + j, j) = d(i + j, j + 1)\n end do\nend do"),
    ("nest-multi-w", "do i = 1, 3\n do j = 1, 3\n  d(i + j, j - j) = 1\n end do\nend do"),
    ("nest-multi-ok", "do i = 1, 3\n do j = 1, 3\n  d(i, i + j) = d(i, j) + 1\n end do\nend do"),
    ("nest-inner-only", "do i = 1, 3\n do j = 1, 3\n  a(j) = b(i)\n end do\nend do"),
    ("nest-tri", "do i = 1, 3\n do j = 2, i\n  t = d(j, i)\n end do\n c(i) = t\nend do"),
    ("two-d-col", "do i = 1, 4\n d(i, 1) = d(i + 1, 2)\nend do"),
    ("two-d-const", "do i = 1, 4\n d(3, i) = d(5, i + 1)\nend do"),
    ("neg", "do i = 1, 4\n a(-i) = a(-i) + 1\nend do"),
    ("cancel", "do i = 1, 4\n a(i) = a(i + n - n)\nend do"),
    ("cancel-i", "do i = 1, 4\n a(i - i + 1) = 1\nend do"),
    ("half-half", "do i = 1, 4\n a((i + 1) / 2) = a(i / 2)\nend do"),
    ("twohalf", "do i = 1, 4\n a(2 * (i / 2)) = 1\nend do"),
    ("abs", "do i = -2, 2\n a(abs(i)) = 1\nend do"),
    ("max", "do i = 1, 4\n a(max(i, 3)) = 1\nend do"),
    ("min", "do i = 1, 4\n a(min(i, n)) = b(i)\nend do"),
    ("neg-step", "do i = 4, 1, -1\n a(i) = a(i) + b(i + 1)\nend do"),
    ("bound-written", "do i = 1, n\n a(i) = 1\n n = 3\nend do"),
    ("n-plus", "do i = 1, 4\n a(i + n) = a(i + m)\nend do"),
    ("read-only", "do i = 1, 4\n s = s + a(i) * b(3)\nend do"),
    ("if-array", "do i = 1, 4\n if (a(i) > 0) then\n  b(i) = a(i)\n else\n  b(i) = 0\n end if\nend do"),
]


# only in the thorough tier (each non-terminating analysis costs the whole time limit)
TARGETED_THOROUGH = [
    ("dname3", "do i = 1, 4\n a(i + d_i + d1_i + d2_i) = a(i + d_i + d1_i + d2_i) + 1\nend do"),
    ("dname-nest", "do i = 1, 3\n do j = 1, 3\n  d(i + d_i + d1_i, j) = d(i + d_i + d1_i, j) + 1\n end do\nend do"),
]


def fortran_of(stmts):
    return mf.to_fortran("sub", stmts, DECLS)


def fortran_of_body(text):
    return mf.to_fortran("sub", [], DECLS).replace("end subroutine sub", text + "\nend subroutine sub")


# ------------------------------------------------------------------------------------------------
# running the implementation
class AnalysisTimeout(Exception):
    pass


def _alarm(*_a):
    raise AnalysisTimeout()


class Impl:
    """Wraps the real DependencyTools: timed call, recorded oracle answers."""

    def __init__(self, limit):
        from psyclone.psyir.frontend.fortran import FortranReader
        from psyclone.psyir.tools import dependency_tools as dtm
        self.reader = FortranReader()
        self.dtm = dtm
        self.limit = limit
        self.rec_dist = []
        self.rec_neq = []
        orig_dist = dtm.DependencyTools._get_dependency_distance
        orig_neq = dtm.DependencyTools._independent_0_var
        me = self

        def dist(var_name, index_read, index_written):
            res = orig_dist(var_name, index_read, index_written)
            try:
                me.rec_dist.append((var_name, mf.expr_from_psyir(index_read), mf.expr_from_psyir(index_written),
                                    bool(res == 0)))
            except mf.OutOfSubset:
                me.rec_dist.append(None)
            return res

        def neq(e1, e2):
            res = orig_neq(e1, e2)
            try:
                me.rec_neq.append((mf.expr_from_psyir(e1), mf.expr_from_psyir(e2), bool(res)))
            except mf.OutOfSubset:
                me.rec_neq.append(None)
            return res
        self._orig = (orig_dist, orig_neq)
        dtm.DependencyTools._get_dependency_distance = staticmethod(dist)
        dtm.DependencyTools._independent_0_var = staticmethod(neq)
        signal.signal(signal.SIGVTALRM, _alarm)     # CPU time of this process: robust against machine load

    def close(self):
        self.dtm.DependencyTools._get_dependency_distance = staticmethod(self._orig[0])
        self.dtm.DependencyTools._independent_0_var = staticmethod(self._orig[1])
        signal.setitimer(signal.ITIMER_VIRTUAL, 0)

    def analyse(self, text):
        """-> dict(loop=tuple stmt, verdict=('par',)|('notpar', code, var)|('timeout',)|('exc', type, msg),
                   dist=[...], neq=[...], secs=float)"""
        from psyclone.psyir.nodes import Loop, Routine
        psy = self.reader.psyir_from_source(text)
        routine = psy.walk(Routine)[0]
        stmts = mf.from_psyir(routine)                      # OutOfSubset propagates to the caller
        loops = [c for c in routine.children if isinstance(c, Loop)]
        if len(stmts) != 1 or len(loops) != 1:
            raise mf.OutOfSubset("expected exactly one outer loop")
        self.rec_dist, self.rec_neq = [], []
        dt = self.dtm.DependencyTools()
        t0 = time.process_time()
        signal.setitimer(signal.ITIMER_VIRTUAL, self.limit)
        try:
            res = dt.can_loop_be_parallelised(loops[0])
            signal.setitimer(signal.ITIMER_VIRTUAL, 0)
            if res is True:
                verdict = ("par",)
            else:
                msgs = dt.get_all_messages()
                verdict = ("notpar", int(msgs[0].code), msgs[0].var_names[0].strip().lower()) if msgs else \
                    ("notpar", 0, "")
        except AnalysisTimeout:
            verdict = ("timeout",)
        except Exception as e:                              # pylint: disable=broad-except
            signal.setitimer(signal.ITIMER_VIRTUAL, 0)
            verdict = ("exc", type(e).__name__, str(e).strip()[:120])
        finally:
            signal.setitimer(signal.ITIMER_VIRTUAL, 0)
        return {"loop": stmts[0], "verdict": verdict, "dist": list(self.rec_dist), "neq": list(self.rec_neq),
                "secs": time.process_time() - t0}


# ------------------------------------------------------------------------------------------------
# the property itself: Bernstein conditions on the per-iteration footprints
def dovars(stmts, acc=None):
    acc = [] if acc is None else acc
    for s in stmts:
        if s[0] == "do":
            acc.append(s[1])
            dovars(s[5], acc)
        elif s[0] == "if":
            dovars(s[2], acc)
            dovars(s[3], acc)
    return acc


def split_iterations(loop, trace):
    """per-iteration body traces of the outer loop (Sem.do_loop emits Wr (x,[]) before every iteration
    and once more at the end; the body never writes x)."""
    x = (loop[1], ())
    its, cur = [], None
    for ev in trace:
        if ev == ("W", x):
            if cur is not None:
                its.append(cur)
            cur = []
        elif cur is not None:
            cur.append(ev)
    return its            # the events after the final Wr x (none) are dropped; header reads precede the first Wr


def exposed(tr):
    written, out = set(), set()
    for k, l in tr:
        if k == "W":
            written.add(l)
        elif k == "R" and l not in written:
            out.add(l)
    return out


def in_bounds(loc):
    return all(LB <= v <= UB for v in loc[1])


def bernstein_conflict(loop, vals):
    """Run the loop from the store `vals`; return None (property holds on this input / input invalid) or a
    dict describing a conflict between two distinct iterations."""
    r = mf.interp([loop], vals, {})
    if r[0] != "ok":
        return None
    its = split_iterations(loop, r[2])
    if len(its) < 2:
        return None
    if not all(in_bounds(l) for k, l in r[2] if k in ("R", "W")):
        return None                                   # not a valid Fortran execution: ignore this input
    private = set(dovars([loop]))                     # DO variables (x itself and inner loops): private by rule
    R = [set(l for k, l in t if k == "R") for t in its]
    W = [set(l for k, l in t if k == "W") for t in its]
    E = [exposed(t) for t in its]
    for p in range(len(its)):
        for loc in sorted(W[p]):
            if loc[1] == () and loc[0] in private:
                continue
            for q in range(len(its)):
                if q == p or not (loc in R[q] or loc in W[q]):
                    continue
                if loc[1] == () and all(loc in W[k] and loc not in E[k] for k in range(len(its))):
                    continue                          # scalar every iteration writes before reading
                return {"reads": sorted(set(l for k, l in r[2] if k == "R")),
                        "location": "%s%s" % (loc[0], list(loc[1]) if loc[1] else ""), "name": loc[0],
                        "is_scalar": loc[1] == (), "iterations": [p, q],
                        "kind": "write-write" if loc in W[q] else "write-read"}
    return None


def stores(rng, loop, count):
    """grid of initial stores: targeted small values for the free scalars, random small array contents."""
    out = []
    ns = [0, 1, 2, 3, -1, 4]
    for t in range(count):
        vals = {}
        for v in SC_RO + SC_W + DNAMES:
            vals[(v, ())] = rng.randint(-2, 3)
        for k, v in enumerate(DNAMES):
            vals[(v, ())] = 0 if t % 7 == 6 else [1, -1, 2, 1, -2, 3, 1][(t + k) % 7]
        vals[("n", ())] = ns[t % len(ns)] if loop[3] != V("n") else [4, 3, 2, 4, 3, 2][t % 6]
        for a in ARR1 + [IDX]:
            for i in range(-12, 13):
                vals[(a, (i,))] = rng.randint(-2, 4)
        for a in ARR2:
            for i in range(-8, 9):
                for j in range(-8, 9):
                    vals[(a, (i, j))] = rng.randint(-2, 4)
        out.append(vals)
    return out


# ------------------------------------------------------------------------------------------------
# classification of failures (reason codes)
def e_walk(e):
    yield e
    k = e[0]
    if k in ("idx", "intr"):
        for x in e[2]:
            yield from e_walk(x)
    elif k == "un":
        yield from e_walk(e[2])
    elif k == "bin":
        yield from e_walk(e[2])
        yield from e_walk(e[3])


def s_exprs(stmts):
    """(expr, role) of all expressions in the statements; array references are also yielded by e_walk."""
    for s in stmts:
        if s[0] == "assign":
            yield ("idx", s[1], s[2]) if s[2] else ("var", s[1])
            yield s[3]
        elif s[0] == "if":
            yield s[1]
            yield from s_exprs(s[2])
            yield from s_exprs(s[3])
        elif s[0] == "do":
            yield s[2]
            yield s[3]
            yield s[4]
            yield from s_exprs(s[5])


def subscripts_of(loop, name):
    out = []
    for e in s_exprs([loop]):
        for x in e_walk(e):
            if x[0] == "idx" and x[1] == name:
                out += list(x[2])
    return out


def assigned(stmts, acc=None):
    acc = set() if acc is None else acc
    for s in stmts:
        if s[0] == "assign":
            acc.add(s[1])
        elif s[0] == "if":
            assigned(s[2], acc)
            assigned(s[3], acc)
        elif s[0] == "do":
            assigned(s[5], acc)
    return acc


def is_const(e):
    return not (mf.expr_names(e, set()))


def first_write_context(stmts, v, ctx=()):
    """syntactic context ('if'/'do' nesting) of the first assignment to scalar v, or None."""
    for s in stmts:
        if s[0] == "assign" and s[1] == v and not s[2]:
            return ctx
        if s[0] == "if":
            for blk in (s[2], s[3]):
                c = first_write_context(blk, v, ctx + ("if",))
                if c is not None:
                    return c
        if s[0] == "do":
            c = first_write_context(s[5], v, ctx + ("do",))
            if c is not None:
                return c
    return None


def classify_conflict(loop, conf):
    """reason code of a concrete Bernstein conflict in a loop the implementation reported parallelisable."""
    x = loop[1]
    body = loop[5]
    if conf["is_scalar"]:
        ctx = first_write_context(body, conf["name"])
        if ctx is None:
            return "scalar/unclassified"
        if "if" in ctx:
            return "scalar/conditional-write"
        if "do" in ctx:
            return "scalar/inner-loop-write"
        return "scalar/unclassified"
    subs = subscripts_of(loop, conf["name"])
    written = assigned(body)
    inner = set(dovars(body))
    names = [mf.expr_names(e, set()) for e in subs]
    # a subscript mixing the parallel loop variable with an inner loop variable (multi-subscript test)
    mixed = any(x in ns and (ns & inner) for ns in names)
    if any((ns - {x}) & written for ns in names):
        return "array/subscript-var-written-in-loop"
    if mixed:
        return "array/multi-subscript-inner-var"
    if any(y[0] == "bin" and y[1] == "Div" for e in subs for y in e_walk(e)):
        return "array/integer-division"
    if any(y[0] == "bin" and y[1] == "Mul" and not is_const(y[2]) and not is_const(y[3])
           for e in subs for y in e_walk(e)):
        return "array/symbolic-coefficient"
    return "array/unclassified"


def classify_timeout(loop):
    """the only established cause of non-termination: d_<x> and d1_<x> both occur in one subscript pair."""
    x = loop[1]
    arrays = set(e[1] for ex in s_exprs([loop]) for e in e_walk(ex) if e[0] == "idx")
    for a in sorted(arrays):
        ns = set()
        for e in subscripts_of(loop, a):
            ns |= mf.expr_names(e, set())
        if x in ns and ("d_" + x) in ns and ("d1_" + x) in ns:
            return "distance/dvar-name-loop-nontermination"
    return "analysis/timeout-unclassified"


def classify_exception(loop, verdict):
    has_minmax = any(e[0] == "intr" and e[1] in ("IMin", "IMax") for ex in s_exprs([loop]) for e in e_walk(ex))
    if verdict[1] == "NotImplementedError" and has_minmax:
        return "distance/minmax-sympy-exception"
    return "analysis/exception-" + verdict[1]


# ------------------------------------------------------------------------------------------------
# Coq side of the correspondence
HEADER = ("From Coq Require Import List ZArith Bool. Import ListNotations.\n"
          "From PV Require Import Fort.Syntax C08.Model C08.Safe C08.GenSrc.\n")


def dtab_of(loop, nm):
    import re
    out = []
    for n, i in sorted(nm.ids.items()):
        m = re.fullmatch(r"d([1-9][0-9]*)?_" + re.escape(loop[1]), n)
        if m:
            out.append((int(m.group(1)) if m.group(1) else 0, i))
    return out


def verdict_to_coq(v, nm):
    if v[0] == "par":
        return "Par"
    if v[0] == "notpar":
        return "(NotPar %d %d)" % (v[1], nm.ids.get(v[2], 9999))
    if v[0] == "timeout":
        return "Diverges"
    raise ValueError(v)


def case_to_coq(res):
    loop = res["loop"]
    nm = mf.Names().collect([loop])
    dist, neq = [], []
    for r in res["dist"]:                          # the same call is repeated for many access pairs: keep one
        if r is not None and r not in dist:
            dist.append(r)
    for r in res["neq"]:
        if r is not None and r not in neq:
            neq.append(r)
    E = lambda e: mf.expr_to_coq(e, nm)            # noqa: E731
    return ("(mkCase %d %s %s %s %s %s %s %s %s)" % (
        nm.get(loop[1]), E(loop[2]), E(loop[3]), E(loop[4]), mf.stmts_to_coq(loop[5], nm),
        core.coq_list("(%d, %d)" % p for p in dtab_of(loop, nm)),
        core.coq_list("(%d, %s, %s, %s)" % (nm.get(x), E(w), E(o), "true" if b else "false") for x, w, o, b in dist),
        core.coq_list("(%s, %s, %s)" % (E(w), E(o), "true" if b else "false") for w, o, b in neq),
        verdict_to_coq(res["verdict"], nm))), nm


def safe_case_to_coq(res):
    """only what Safe.case_safe looks at (loop variable and body)"""
    loop = res["loop"]
    nm = mf.Names().collect([loop])
    return "(mkCase %d (ELit 0) (ELit 0) (ELit 0) %s [] [] [] Par)" % (nm.get(loop[1]), mf.stmts_to_coq(loop[5], nm))


def model_verdict_term(case_term):
    return ("let c := %s in can_par (odist_tab (c_dist c)) (oneq_tab (c_neq c)) src_idx_incremented (c_dtab c) "
            "(c_x c) (c_lo c) (c_hi c) (c_st c) (c_body c)" % case_term)


# ------------------------------------------------------------------------------------------------
def load_translator():
    spec = importlib.util.spec_from_file_location("c08_translate", core.VERIF / "props" / "C08" / "translate.py")
    mod = importlib.util.module_from_spec(spec)
    spec.loader.exec_module(mod)
    return mod


REPLAY_HOW = ("write `fortran` to a file, read it with psyclone.psyir.frontend.fortran.FortranReader, take the first "
              "Loop of the routine and call psyclone.psyir.tools.DependencyTools().can_loop_be_parallelised(loop) "
              "(PYTHONPATH=<tree>/src PSYCLONE_CONFIG=<tree>/config/psyclone.cfg); `store` lists the non-zero "
              "initial values of the locations the execution reads (all others 0); iterations are numbered from 0")


def run(ctx):
    ctx.cov["rule"] = (
        "loops `do i = ..` (literal / variable bounds, steps 1, 2, -1) with 1-4 statements: assignments to 1-D/2-D "
        "arrays and scalars, IF blocks, one level of inner `do j` (bounds possibly depending on i); subscripts from "
        "i, i+c, c, n, 2*i, -i, i/2, (i+1)/2, i/n, MOD(i,c), i*i, n*i, i+k (k written in the loop), idx(i), i+j, j, "
        "i+d_i (names colliding with the analysis' d_<var>), ABS/MAX/MIN; scalars written conditionally, "
        "unconditionally, read before written, reductions; plus %d targeted shapes. evaluation = one loop analysed by "
        "the real DependencyTools under a time limit; non-trivial = the implementation answered True and the loop "
        "was executed on the store grid with the Bernstein conditions checked per iteration pair; distinct = "
        "distinct Fortran text" % len(TARGETED))
    ctx.cov["trusted_base"] = core.BASE_TRUST + [
        "coq/C08/Model.v is a hand-written model of dependency_tools.py on the MiniFortran subset, tied to the code by "
        "this correspondence run (verdict, message code, variable, and every recorded answer of "
        "_get_dependency_distance/_independent_0_var); only the fresh-name loop is translated from the source "
        "(props/C08/translate.py)",
        "MiniFortran semantics coq/Fort/Sem.v and its Python mirror vlib.minifort.interp (validated by ./check _FORT "
        "against Coq exec and gfortran) define 'iteration touches location'",
        "sympy's answers for non-affine subscripts enter the model as an oracle table recorded from the "
        "implementation; affine subscripts are decided inside Coq and compared with sympy's recorded answers",
        "PSyIR -> MiniFortran serialiser vlib.minifort.from_psyir (fail-closed)"]
    ctx.assumptions = [
        "sympy_solveset_exact: if the oracle answers 'distance 0' for translation-exact subscripts w, o of loop "
        "variable x, then w and o evaluate to the same index only when x has the same value (premise of "
        "C08_par_sound_partial)",
        "sympy_simplify_exact: if the oracle answers 'never equal' for translation-exact subscripts then they never "
        "evaluate to the same index (premise of C08_par_sound_partial)",
        "DO variables of loops nested in the analysed loop are private (the analysis ignores them by design)"]

    # 1. translator + proofs
    tr = load_translator()
    translator_error = None
    try:
        incr = tr.generate(str(core.REPO))
    except Exception as e:                             # pylint: disable=broad-except
        # fail-closed: the obligation over the source can no longer be regenerated.  Keep the last GenSrc.v so that
        # the model still runs, go on with the search for a concrete failing input, and report at the end.
        translator_error = "%s: %s" % (type(e).__name__, e)
        gen = core.COQ / "C08" / "GenSrc.v"
        if not gen.exists():
            core.write_if_changed(gen, "Definition src_idx_incremented : bool := true.\n")
        incr = ":= true" in gen.read_text()
        ctx.log("translator failed closed (%s); continuing the search with the previous GenSrc.v" % translator_error)
    ctx.notes["src_idx_incremented"] = incr
    ok, rep = ctx.prove()
    ctx.log("proof ok=%s discharged=%d/%d idx_incremented=%s" % (ok, ctx.cov["discharged"], ctx.cov["obligations"], incr))
    if ok and ctx.thorough:
        # independent re-check of the compiled closure by coqchk (DESIGN section 3)
        rc, out = core.sh(["coqchk", "-silent", "-o", "-Q", str(core.COQ), core.LOGICAL, "PV.Properties.C08"],
                          timeout=1500, cwd=core.COQ)
        axioms_none = "* Axioms: <none>" in out
        ctx.notes["coqchk"] = {"rc": rc, "axioms_none": axioms_none}
        ctx.log("coqchk rc=%d axioms:<none>=%s" % (rc, axioms_none))
        if rc == 124:
            ctx.notes["coqchk"]["note"] = "timed out (machine load); not counted"
        elif rc != 0 or not axioms_none:
            ok = False
            rep = dict(rep, coqchk_tail=out[-1500:])

    # 2. cases
    limit = ctx.pick(8, 20)          # seconds of CPU time of this process (normal analyses need < 0.5 s)
    impl = Impl(limit)
    rng = ctx.rng("gen")
    srng = ctx.rng("stores")
    texts = [("targeted:" + n, fortran_of_body(t)) for n, t in TARGETED + ctx.pick([], TARGETED_THOROUGH)]
    g = LoopGen(rng)
    for k in range(ctx.pick(190, 4000)):
        texts.append(("random:%d" % k, fortran_of([g.loop()])))
    nstores = ctx.pick(7, 14)
    results = []
    oos = 0
    t_an = time.time()
    try:
        for name, txt in texts:
            try:
                res = impl.analyse(txt)
            except mf.OutOfSubset as e:
                oos += 1
                ctx.hist("out_of_subset", str(e)[:40])
                continue
            res["name"], res["text"] = name, txt
            v = res["verdict"]
            res["conflict"] = None
            if v[0] == "par":
                for vals in stores(srng, res["loop"], nstores):
                    conf = bernstein_conflict(res["loop"], vals)
                    if conf:
                        # the part of the initial store the execution read (everything else is irrelevant)
                        conf["store"] = {("%s%s" % (k[0], list(k[1]) if k[1] else "")): vals.get(k, 0)
                                         for k in conf.pop("reads") if vals.get(k, 0) != 0}
                        res["conflict"] = conf
                        break
            ctx.count(txt, v[0] == "par")
            ctx.hist("verdict", v[0] if v[0] != "notpar" else "notpar-%d" % v[1])
            ctx.hist("statements_in_body", len(res["loop"][5]))
            ctx.hist("has_inner_loop", bool(dovars(res["loop"][5])))
            results.append(res)
    finally:
        impl.close()
    ctx.notes["out_of_subset"] = oos
    ctx.notes["analysis_max_cpu_seconds_answered"] = round(max([r["secs"] for r in results if r["verdict"][0] != "timeout"] or [0]), 2)
    ctx.log("analysed %d loops in %.0fs (out of subset %d)" % (len(results), time.time() - t_an, oos))

    # 3. the model on the same cases
    corr = [r for r in results if r["verdict"][0] != "exc"]
    terms = [case_to_coq(r)[0] for r in corr]
    failing = set(ctx.coq_eval_failing(HEADER, "ccase", "agrees src_idx_incremented", terms, shard=ctx.pick(62, 250))) if ok or \
        (core.COQ / "C08" / "Model.vo").exists() else None
    accepted = [r for r in corr if r["verdict"][0] == "par"]
    gap = set()
    if failing is not None and accepted:
        gap = set(ctx.coq_eval_failing(HEADER, "ccase", "case_safe", [safe_case_to_coq(r) for r in accepted],
                                        shard=ctx.pick(100, 400)))
    for k, r in enumerate(accepted):
        r["bucket"] = "gap" if k in gap else "safe"
        ctx.hist("accepted_bucket", r["bucket"])
    ctx.hist("accepted_bucket", "refused-or-no-answer", len(results) - len(accepted))

    # 4. verdicts
    n_find = 0
    reported = set()
    for r in results:
        v = r["verdict"]
        base = {"property": "C08", "case": r["name"], "fortran": r["text"], "impl_verdict": list(v), "replay": REPLAY_HOW}
        if v[0] == "exc":
            key = classify_exception(r["loop"], v)
            ctx.hist("failure_reason", key)
            n_find += 1
            ctx.finding(key, "the analysis raises %s instead of answering" % v[1],
                        dict(base, observed="exception %s: %s" % (v[1], v[2]), expected="an answer (True/False) for every loop"))
        elif v[0] == "timeout":
            key = classify_timeout(r["loop"])
            ctx.hist("failure_reason", key)
            n_find += 1
            ctx.finding(key, "the analysis does not answer within %ds of CPU time" % limit,
                        dict(base, observed="no answer within %d s of CPU time (normal analyses take < 0.5 s)" % limit,
                             expected="an answer for every loop"))
        elif r["conflict"]:
            key = classify_conflict(r["loop"], r["conflict"])
            ctx.hist("failure_reason", key)
            n_find += 1
            if r.get("bucket") == "safe":
                key = "theorem-contradicted/" + key      # inside the proved-safe fragment: model/glue is wrong
            ctx.finding(key, "loop reported parallelisable but two iterations touch %s" % r["conflict"]["location"],
                        dict(base, observed="can_loop_be_parallelised = True; " + str({k: v2 for k, v2 in r["conflict"].items() if k != "store"}),
                             store=r["conflict"]["store"], expected="no two distinct iterations touch the same location with a write"))
    ctx.notes["concrete_failures_seen"] = n_find
    soft = 0
    if failing is None:
        ctx.violation({"property": "C08", "broken": "coq/C08/Model.v does not build; correspondence not run",
                       "proof_report": rep}, no_input=True)
    else:
        ctx.cov["disagreements_checked"] = len(failing)
        hard = []
        if failing:
            idx = sorted(failing)
            shown = ctx.coq_eval_show(HEADER, [model_verdict_term(terms[i]) for i in idx[:40]])
            for i, mv in zip(idx[:40], shown):
                r = corr[i]
                v = r["verdict"]
                if v[0] == "notpar":
                    # the implementation refuses (stricter than the model, or only code/variable differ): no alarm,
                    # but recorded (must be 0 on the unchanged tree)
                    soft += 1
                    ctx.hist("soft_mismatch", "impl %s / model %s" % (v, " ".join(mv.split())[:60]))
                    continue
                hard.append((i, mv))
            hard += [(i, "?") for i in idx[40:]]
        for i, mv in hard[:3]:
            r = corr[i]
            body = {"property": "C08", "broken": "correspondence C08.Model.can_par = DependencyTools.can_loop_be_parallelised "
                    "(verdict or a recorded sympy answer differs)", "case": r["name"], "fortran": r["text"],
                    "impl_verdict": list(r["verdict"]), "model_verdict": " ".join(mv.split()),
                    "recorded_distance_calls": [list(map(str, x)) for x in r["dist"] if x], "n_differing": len(hard),
                    "replay": REPLAY_HOW}
            if r["conflict"]:
                ctx.violation(dict(body, observed=str(r["conflict"]), expected="no conflict between iterations"))
            elif r["verdict"][0] == "timeout":
                ctx.violation(dict(body, observed="no answer within %ds" % limit, expected="an answer"))
            else:
                ctx.violation(body, no_input=True)
    ctx.notes["soft_mismatches_impl_stricter_or_code_only"] = soft
    if translator_error and not any(not ni for _, ni in ctx.violations):
        ctx.violation({"property": "C08", "broken": "translator props/C08/translate.py no longer recognises the "
                       "fresh-name loop of _get_dependency_distance (obligation C08_analysis_answers_src cannot be "
                       "regenerated from the source)", "error": translator_error}, no_input=True)
    ctx.notes["translator_error"] = translator_error
    if not ok and not ctx.violations:
        ctx.violation({"property": "C08", "broken": "proof obligations of Properties/C08.v", "proof_report": rep},
                      no_input=True)
    for r in [x for x in results if x["verdict"][0] == "par"][:3] + [x for x in results if x["conflict"]][:2]:
        ctx.sample({"fortran": r["text"].split("\n")[-(len(r["text"].split("\n")) - len(DECLS) - 1):],
                    "impl": list(r["verdict"]), "bucket": r.get("bucket"), "conflict": r["conflict"] and r["conflict"]["location"]})
    ctx.log("cases=%d accepted=%d (safe %d / gap %d) concrete failures=%d model disagreements=%s soft=%d" % (
        len(results), len(accepted), len(accepted) - len(gap), len(gap), n_find,
        "n/a" if failing is None else len(failing), soft))
