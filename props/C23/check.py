"""C23 -- LFRic shared-DoF increments are only parallelised over colours.

Tie to /repo: translator (props/C23/translate.py -> coq/C23/Gen.v: the access types has_inc_arg
tests, the field-space shortcut of DynamoOMPParallelLoopTrans) + correspondence: bounded histories
of the six modelled transformations applied to every node / node range of invokes built from
generated kernel metadata (access x function-space combinations, operators, inter-grid, built-ins,
domain kernels, with and without distributed memory) and from real test algorithms.  Every step
(tree before, operation, accepted?, tree after) is compared with the Gallina `step`
(coq/C23/Model.v) by vm_compute; independently the property is evaluated directly on every
implementation tree reached (the failing-input search) and every new failure is classified into
a (site, reason) key: listed open in known_findings.json -> KNOWN-FINDING, otherwise VIOLATION.
"""
import hashlib
import importlib.util
import json
import os
import sys
from pathlib import Path

from vlib import core

HERE = Path(__file__).resolve().parent
_spec = importlib.util.spec_from_file_location("c23_translate", HERE / "translate.py")
translate = importlib.util.module_from_spec(_spec)
_spec.loader.exec_module(translate)

TESTFILES = "src/psyclone/tests/test_files/dynamo0p3"
HEADER = "From PV Require Import C23.Model C23.Gen."

# ------------------------------------------------------------------ kernel / algorithm generation
# argument descriptors: ("field", access, space[, mesh]) | ("op", access, to, from) | ("scalar", access)
KERNELS = {
    "k_inc_w0":      [("field", "gh_inc", "w0"), ("field", "gh_read", "w3")],
    "k_inc_w1":      [("field", "gh_inc", "w1"), ("field", "gh_read", "w1"), ("scalar", "gh_read")],
    "k_inc_w2":      [("field", "gh_read", "w0"), ("field", "gh_inc", "w2")],
    "k_inc_any":     [("field", "gh_inc", "any_space_1"), ("field", "gh_read", "any_space_1")],
    "k_inc_anyw2":   [("field", "gh_inc", "any_w2"), ("field", "gh_read", "w3")],
    "k_rinc_w0":     [("field", "gh_readinc", "w0"), ("field", "gh_read", "w0")],
    "k_rinc_w2":     [("field", "gh_readinc", "w2"), ("field", "gh_read", "w3")],
    "k_rinc_any":    [("field", "gh_readinc", "any_space_2"), ("field", "gh_read", "w0")],
    "k_inc_rinc":    [("field", "gh_inc", "w0"), ("field", "gh_readinc", "w1"), ("field", "gh_read", "w3")],
    "k_wr_w0":       [("field", "gh_write", "w0"), ("field", "gh_read", "w0")],
    "k_wr_any":      [("field", "gh_write", "any_space_1"), ("field", "gh_read", "w2")],
    "k_wr_w3":       [("field", "gh_write", "w3"), ("field", "gh_read", "w0")],
    "k_rw_w3":       [("field", "gh_readwrite", "w3"), ("field", "gh_read", "w2")],
    "k_rw_wth":      [("field", "gh_readwrite", "wtheta"), ("field", "gh_read", "w3")],
    "k_rw_anyd":     [("field", "gh_readwrite", "any_discontinuous_space_1"), ("field", "gh_read", "w1")],
    "k_wr_w3_inc":   [("field", "gh_write", "w3"), ("field", "gh_inc", "w2"), ("field", "gh_read", "w3")],
    "k_op_wr":       [("op", "gh_write", "w0", "w0"), ("field", "gh_read", "w0")],
    "k_op_rd_inc":   [("op", "gh_read", "w2", "w2"), ("field", "gh_inc", "w2"), ("field", "gh_read", "w2")],
    "k_op33_inc":    [("op", "gh_write", "w3", "w3"), ("field", "gh_inc", "w0"), ("field", "gh_read", "w3")],
    "k_op33_rinc":   [("op", "gh_readwrite", "w3", "w3"), ("field", "gh_readinc", "w1")],
    "k_op02_inc":    [("op", "gh_write", "w0", "w2"), ("field", "gh_inc", "w0")],
    "k_prol_w3":     [("field", "gh_inc", "w1", "gh_fine"), ("field", "gh_read", "w3", "gh_coarse")],
    "k_prol_w2":     [("field", "gh_inc", "w1", "gh_fine"), ("field", "gh_read", "w2", "gh_coarse")],
    "k_restr":       [("field", "gh_inc", "any_space_1", "gh_coarse"), ("field", "gh_read", "any_space_2", "gh_fine")],
    "k_dom_rw":      [("field", "gh_readwrite", "w3"), ("field", "gh_read", "wtheta")],
}
DOMAIN_KERNELS = {"k_dom_rw"}
BUILTINS = {   # name -> (argument pattern, where F = field, S = scalar variable, C = literal)
    "setval_c": "FC", "inc_X_plus_Y": "FF", "X_innerproduct_Y": "SFF", "X_plus_Y": "FFF",
    "sum_X": "SF", "inc_a_times_X": "CF",
}


def kern_src(name, args):
    lines = []
    for a in args:
        if a[0] == "field":
            extra = ", mesh_arg=%s" % a[3] if len(a) > 3 else ""
            lines.append("arg_type(gh_field, gh_real, %s, %s%s)" % (a[1], a[2], extra))
        elif a[0] == "op":
            lines.append("arg_type(gh_operator, gh_real, %s, %s, %s)" % (a[1], a[2], a[3]))
        else:
            lines.append("arg_type(gh_scalar, gh_real, %s)" % a[1])
    meta = ", &\n          ".join(lines)
    on = "domain" if name in DOMAIN_KERNELS else "cell_column"
    return ("module %s_mod\n  use argument_mod\n  use fs_continuity_mod\n  use kernel_mod\n"
            "  use constants_mod\n  implicit none\n  type, extends(kernel_type) :: %s_type\n"
            "     type(arg_type), dimension(%d) :: meta_args = (/ &\n          %s /)\n"
            "     integer :: operates_on = %s\n   contains\n     procedure, nopass :: code => %s_code\n"
            "  end type %s_type\ncontains\n  subroutine %s_code()\n  end subroutine %s_code\n"
            "end module %s_mod\n" % (name, name, len(args), meta, on, name, name, name, name, name))


def alg_src(calls):
    """calls: list of kernel or built-in names; arguments are made up from the metadata"""
    uses, invs = [], []
    nf = [0]

    def fld():
        nf[0] += 1
        return "f%d" % (1 + (nf[0] - 1) % 6)
    for c in calls:
        if c in KERNELS:
            uses.append("  use %s_mod, only: %s_type" % (c, c))
            actual = []
            for a in KERNELS[c]:
                actual.append(fld() if a[0] == "field" else ("op1" if a[0] == "op" else "s1"))
            invs.append("%s_type(%s)" % (c, ", ".join(actual)))
        else:
            actual = [fld() if ch == "F" else ("s1" if ch == "S" else "0.5_r_def") for ch in BUILTINS[c]]
            invs.append("%s(%s)" % (c, ", ".join(actual)))
    return ("program gen_alg\n  use field_mod, only: field_type\n  use operator_mod, only: operator_type\n"
            "  use constants_mod, only: r_def\n%s\n  implicit none\n  type(field_type) :: f1, f2, f3, f4, f5, f6\n"
            "  type(operator_type) :: op1\n  real(r_def) :: s1\n  call invoke( &\n       %s )\nend program gen_alg\n"
            % ("\n".join(sorted(set(uses))), ", &\n       ".join(invs)))


class Corpus:
    """builds (and caches the parse of) invokes; a spec is JSON-able so that it can go in a replay"""

    def __init__(self, scratch):
        self.dir = Path(scratch) / "kern"
        self.dir.mkdir(parents=True, exist_ok=True)
        for name, args in KERNELS.items():
            (self.dir / (name + "_mod.f90")).write_text(kern_src(name, args))
        self.cache = {}

    def info(self, spec):
        from psyclone.parse.algorithm import parse
        key = json.dumps({k: v for k, v in spec.items() if k != "dm"}, sort_keys=True)
        if key not in self.cache:
            if spec["kind"] == "gen":
                h = hashlib.sha1(key.encode()).hexdigest()[:10]
                f = self.dir / ("alg_%s.f90" % h)
                f.write_text(alg_src(spec["calls"]))
                _, info = parse(str(f), api="dynamo0.3", kernel_paths=[str(self.dir)])
            else:
                _, info = parse(str(core.REPO / TESTFILES / spec["file"]), api="dynamo0.3")
            self.cache[key] = info
        return self.cache[key]

    def build(self, spec):
        from psyclone.psyGen import PSyFactory
        psy = PSyFactory("dynamo0.3", distributed_memory=spec["dm"]).create(self.info(spec))
        return psy, psy.invokes.invoke_list[spec.get("invoke", 0)].schedule


# ------------------------------------------------------------------ implementation side
class Impl:
    def __init__(self):
        from psyclone import psyGen
        from psyclone.core import AccessType
        from psyclone.domain.lfric import LFRicConstants, LFRicLoop
        from psyclone.errors import InternalError
        from psyclone.psyir import nodes
        from psyclone.psyir.tools import DependencyTools
        from psyclone.psyir.transformations import TransformationError
        from psyclone import transformations as T
        self.psyGen, self.AccessType, self.LFRicLoop, self.nodes, self.T = psyGen, AccessType, LFRicLoop, nodes, T
        self.TransformationError, self.InternalError = TransformationError, InternalError
        from psyclone.configuration import Config
        Config.get().api = "dynamo0.3"
        self.const = LFRicConstants()
        self.DIRS = {nodes.OMPParallelDirective: "DOmpParallel", nodes.OMPDoDirective: "DOmpDo",
                     nodes.OMPParallelDoDirective: "DOmpParallelDo",
                     nodes.ACCParallelDirective: "DAccParallel", nodes.ACCLoopDirective: "DAccLoop"}
        self.LOOPDIRS = (nodes.OMPDoDirective, nodes.OMPParallelDoDirective, nodes.ACCLoopDirective)
        self.LT = {"": "LCells", "colours": "LColours", "colour": "LColour", "dof": "LDof", "null": "LNull"}
        self.ACCS = {"READ": "ARead", "WRITE": "AWrite", "READWRITE": "AReadWrite", "INC": "AInc",
                     "READINC": "AReadInc", "SUM": "ASum", "UNKNOWN": "AUnknown"}
        self.da = None
        self.shared = None          # when a dict: THE options object passed to every transformation
        self.options_modified = []  # (transformation, before, after) whenever a step changed that dict
        orig = DependencyTools.can_loop_be_parallelised
        me = self

        def wrapped(dt, *a, **k):
            try:
                r = orig(dt, *a, **k)
                me.da = "DaTrue" if r else "DaFalse"
                return r
            except (InternalError, KeyError):
                me.da = "DaCaught"
                raise
            except Exception:
                me.da = "DaOther"
                raise
        if not getattr(DependencyTools, "_c23_wrapped", False):
            DependencyTools.can_loop_be_parallelised = wrapped
            DependencyTools._c23_wrapped = True
        self.TRANS = {"OColour": T.Dynamo0p3ColourTrans, "OOmpParDo": T.DynamoOMPParallelLoopTrans,
                      "OOmpDo": T.Dynamo0p3OMPLoopTrans, "OAccLoop": T.ACCLoopTrans,
                      "OOmpParallel": T.OMPParallelTrans, "OAccParallel": T.ACCParallelTrans}

    # ---- abstraction of an implementation tree (fail-closed)
    def cont_of(self, arg):
        if arg.argument_type not in self.const.VALID_FIELD_NAMES:
            return "Disc"            # operators are cell-local data, scalars have no space
        name = arg.function_space.orig_name
        if name in self.const.VALID_ANY_SPACE_NAMES:
            return "Unknown"
        if name in self.const.VALID_DISCONTINUOUS_NAMES:
            return "Disc"
        if name in self.const.CONTINUOUS_FUNCTION_SPACES or name in self.const.READ_ONLY_FUNCTION_SPACES:
            return "Cont"
        raise ValueError("unknown function space " + name)

    def children(self, node):
        if isinstance(node, self.nodes.Loop):
            return node.loop_body.children
        if type(node) in self.DIRS:
            return node.dir_body.children
        return None

    def conv(self, node):
        if isinstance(node, self.LFRicLoop):
            disc = node.field_space.orig_name in self.const.VALID_DISCONTINUOUS_NAMES
            return ("L", self.LT[node.loop_type], disc, tuple(self.conv(c) for c in node.loop_body.children))
        if type(node) in self.DIRS:
            return ("D", self.dirkind(node), tuple(self.conv(c) for c in node.dir_body.children))
        if isinstance(node, self.psyGen.Kern):
            args = tuple((self.ACCS[a.access.name], self.cont_of(a)) for a in node.arguments.args)
            return ("K", isinstance(node, self.psyGen.CodedKern), bool(node.is_reduction), args)
        if isinstance(node, self.psyGen.HaloExchange):
            return ("H",)
        if isinstance(node, self.psyGen.GlobalSum):
            return ("O",)
        raise ValueError("node type outside the model: " + type(node).__name__)

    def dirkind(self, node):
        """model directive kind; for ACCLoopDirective the `seq` clause is read from the directive actually
        produced: its attribute and the text it generates must agree"""
        kind = self.DIRS[type(node)]
        if kind == "DAccLoop":
            text = node.begin_string().lower().split()
            if node.sequential != ("seq" in text):
                raise ValueError("ACCLoopDirective.sequential=%r but text is %r" % (node.sequential, text))
            if "seq" in text:
                return "DAccLoopSeq"
        return kind

    def parallel_dir(self, node):
        return type(node) in self.DIRS and self.dirkind(node) != "DAccLoopSeq"

    def tree(self, sched):
        return tuple(self.conv(c) for c in sched.children)

    def container(self, sched, path):
        kids = sched.children
        for i in path:
            kids = self.children(kids[i])
        return kids

    # ---- the property, evaluated directly on the implementation's tree
    def incrementing(self, arg):
        if arg.access not in (self.AccessType.INC, self.AccessType.READINC):
            return False
        if arg.argument_type not in self.const.VALID_FIELD_NAMES:
            return False
        name = arg.function_space.orig_name
        return name in self.const.CONTINUOUS_FUNCTION_SPACES or name in self.const.VALID_ANY_SPACE_NAMES

    def violations(self, sched):
        """(A, B): A = list of (loop, [offending args]) ; B = list of colours loops below a directive"""
        va, vb = [], []
        for d in sched.walk(self.LOOPDIRS):
            if type(d) not in self.DIRS or not self.parallel_dir(d):
                continue            # `acc loop seq`: the loop below is not a parallel loop
            for ch in d.dir_body.children:
                if isinstance(ch, self.LFRicLoop) and ch.loop_type == "":
                    bad = [a for k in ch.walk(self.psyGen.Kern) for a in k.arguments.args if self.incrementing(a)]
                    if bad:
                        va.append((ch, bad, d))
        for lp in sched.walk(self.LFRicLoop):
            if lp.loop_type == "colours":
                anc = lp.parent
                while anc is not None and not self.parallel_dir(anc):
                    anc = anc.parent
                if anc is not None:
                    vb.append(lp)
        return va, vb

    # ---- one transformation
    def apply(self, sched, op):
        """op = (name, path, i[, n]); returns (accepted, da, exception class name or None)"""
        kids = self.container(sched, op[1])
        trans = self.TRANS[op[0]]()
        self.da = None
        options = None
        if op[0] in ("OOmpParallel", "OAccParallel"):
            target = list(kids[op[2]:op[2] + op[3]])
        else:
            target = kids[op[2]]
            if op[0] == "OAccLoop" and len(op) > 3:
                seq, gang, vec, col2, indep = op[3]
                options = {"sequential": seq, "gang": gang, "vector": vec, "independent": indep}
                if col2:
                    options["collapse"] = 2
            elif op[0] == "OOmpDo" and len(op) > 3:
                options = {"reprod": op[3]}
        snapshot = None
        if self.shared is not None:
            options = self.shared            # the same object for every step of the history
            snapshot = dict(options)
        try:
            return self._apply(trans, target, options)
        finally:
            if snapshot is not None and snapshot != self.shared:
                self.options_modified.append((type(trans).__name__, snapshot, dict(self.shared)))

    def _apply(self, trans, target, options):
        try:
            if options is None:
                trans.apply(target)
            else:
                trans.apply(target, options)
            return True, self.da or "DaFalse", None
        except self.TransformationError:
            return False, self.da or "DaFalse", "TransformationError"
        except Exception as e:                       # noqa: BLE001 - classified, never silently dropped
            return False, self.da or "DaFalse", type(e).__name__


# ------------------------------------------------------------------ Coq printing
def coq_node(n):
    if n[0] == "L":
        return "NLoop %s %s %s" % (n[1], "true" if n[2] else "false", coq_tree(n[3]))
    if n[0] == "D":
        return "NDir %s %s" % (n[1], coq_tree(n[2]))
    if n[0] == "K":
        return "NKern %s %s %s" % ("true" if n[1] else "false", "true" if n[2] else "false",
                                   core.coq_list("(%s, %s)" % a for a in n[3]))
    return "NHalo" if n[0] == "H" else "NOther"


def coq_tree(t):
    return core.coq_list(coq_node(n) for n in t)


def coq_op(op, da):
    p = core.coq_list(str(i) for i in op[1])
    if op[0] == "OAccLoop":
        o = op[3] if len(op) > 3 else ACC_DEFAULT
        return "OAccLoop %s %d %s %s" % (p, op[2], da, " ".join("true" if x else "false" for x in o[:4]))
    if op[0] in ("OOmpParallel", "OAccParallel"):
        return "%s %s %d %d" % (op[0], p, op[2], op[3])
    return "%s %s %d" % (op[0], p, op[2])


def coq_case(tb, op, da, acc, ta, pa, pb):
    """tb, ta = numbers of the trees in the scratch tree library (Definition t<k>)"""
    b = lambda x: "true" if x else "false"      # noqa: E731
    return "mk t%d (%s) %s t%d %s %s" % (tb, coq_op(op, da), b(acc), ta, b(pa), b(pb))


ACC_DEFAULT = (False, False, False, False, True)      # sequential, gang, vector, collapse(2), independent
ACC_GRID = [ACC_DEFAULT, (True, False, False, False, True), (True, True, False, False, True),
            (True, False, True, False, False), (True, True, True, True, True), (False, True, True, False, True),
            (False, True, False, False, False), (False, False, False, True, True), (True, False, False, True, True)]
ACC_DEEP = [ACC_DEFAULT, (True, True, False, False, True), (True, False, True, True, True)]


def containers(t, path=()):
    """all (path, children) containers of an abstract tree"""
    yield path, t
    for i, n in enumerate(t):
        if n[0] == "L":
            yield from containers(n[3], path + (i,))
        elif n[0] == "D":
            yield from containers(n[2], path + (i,))


def enumerate_ops(t, all_targets=True, grids=True):
    """every transformation on every node / range of siblings; beyond the first step the four loop
    transformations are only tried on loops and directives (kernels, halo exchanges and global
    sums are refused the same way at every depth)"""
    ops = []
    for path, kids in containers(t):
        for i in range(len(kids)):
            if all_targets or kids[i][0] in ("L", "D"):
                for name in ("OColour", "OOmpParDo", "OOmpDo"):
                    ops.append((name, path, i))
                if kids[i][0] == "L" and grids:
                    # option grids: sequential x gang x vector x collapse x independent; reprod
                    for o in (ACC_GRID if all_targets or len(path) <= 1 else ACC_DEEP):
                        ops.append(("OAccLoop", path, i, o))
                    if all_targets:
                        ops.append(("OOmpDo", path, i, True))
                        ops.append(("OOmpDo", path, i, False))
                else:
                    ops.append(("OAccLoop", path, i, ACC_DEFAULT))
            for n in range(1, len(kids) - i + 1):
                ops.append(("OOmpParallel", path, i, n))
                ops.append(("OAccParallel", path, i, n))
    return ops


# ------------------------------------------------------------------ classification of a failure
def classify(impl, op, sched, new_a, new_b):
    """(key, what) for the first new failure of the property produced by the accepted op"""
    tname = impl.TRANS[op[0]].__name__
    if new_a:
        loop, bad, _ = new_a[0]
        accs = sorted({a.access.name for a in bad})
        disc = loop.field_space.orig_name in impl.const.VALID_DISCONTINUOUS_NAMES
        if op[0] not in ("OOmpParDo", "OOmpDo", "OAccLoop"):
            return tname + "/unexpected-parallel-increment", "a non-loop transformation produced a parallel incrementing loop"
        if not loop.has_inc_arg():
            if accs == ["READINC"]:
                return ("has_inc_arg/readinc-uncoloured",
                        "%s accepts an uncoloured loop over cells whose kernel has GH_READINC access on a "
                        "continuous/any_space field (has_inc_arg ignores READINC)" % tname)
            return "has_inc_arg/inc-missed", "has_inc_arg() is False although the loop has %s arguments" % accs
        if op[0] == "OOmpParDo" and disc:
            return ("DynamoOMPParallelLoopTrans/discontinuous-shortcut",
                    "DynamoOMPParallelLoopTrans skips the INC test because the loop's field_space (%s) is "
                    "discontinuous although the kernel increments a continuous field" % loop.field_space.orig_name)
        return tname + "/inc-uncoloured", "%s accepts an uncoloured loop although has_inc_arg() is True" % tname
    lp = new_b[0]
    if op[0] in ("OOmpParallel", "OAccParallel"):
        return tname + "/colours-loop-enclosed", "%s encloses a loop over colours in a parallel region" % tname
    if op[0] == "OColour":
        omp = lp.ancestor(impl.nodes.OMPDirective) is not None
        return ("Dynamo0p3ColourTrans/below-%s-directive" % ("omp" if omp else "acc"),
                "Dynamo0p3ColourTrans colours a loop that is below an %s directive" % ("OpenMP" if omp else "OpenACC"))
    return tname + "/colours-loop-parallelised", "%s puts a directive around a loop over colours" % tname


# ------------------------------------------------------------------ exploration
class Explorer:
    def __init__(self, ctx, impl, corpus):
        self.ctx, self.impl, self.corpus = ctx, impl, corpus
        self.cases = {}            # coq string -> python description
        self.tree_ids = {}         # abstract tree -> number in the scratch tree library
        self.shared_proto = None   # dict => every history passes ONE copy of it, as one object, to all its steps
        self.failures = {}         # key -> (what, replay dict)
        self.premise_bad = []
        self.other_exc = {}

    @staticmethod
    def _is_loop(t, op):
        kids = t
        for i in op[1]:
            kids = kids[i][3] if kids[i][0] == "L" else kids[i][2]
        return kids[op[2]][0] == "L"

    def tid(self, t):
        if t not in self.tree_ids:
            self.tree_ids[t] = len(self.tree_ids)
        return self.tree_ids[t]

    def rebuild(self, spec, hist):
        psy, sched = self.corpus.build(spec)
        self.impl.shared = dict(self.shared_proto) if self.shared_proto is not None else None
        for op in hist:
            ok, _, _ = self.impl.apply(sched, op)
            if not ok:
                raise RuntimeError("replay of an accepted history was refused: %r %r" % (spec, hist))
        return psy, sched

    def check_initial(self, spec, sched, t0):
        kerns = sched.walk(self.impl.psyGen.Kern)
        nodirs = not sched.walk(tuple(self.impl.DIRS))
        builtin_incr = any(self.impl.incrementing(a) for k in kerns
                           if not isinstance(k, self.impl.psyGen.CodedKern) for a in k.arguments.args)
        if not nodirs or builtin_incr:
            self.premise_bad.append({"spec": spec, "nodirs": nodirs, "builtin_incr": builtin_incr})
        wf = all(not (lp.field_space.orig_name in self.impl.const.VALID_DISCONTINUOUS_NAMES and
                      any(self.impl.incrementing(a) for k in lp.walk(self.impl.psyGen.Kern) for a in k.arguments.args))
                 for lp in sched.walk(self.impl.LFRicLoop))
        self.ctx.hist("initial_wf(disc loop => no increment)", wf)
        for k in kerns:
            for a in k.arguments.args:
                self.ctx.hist("kernel_arg", "%s/%s" % (a.access.name, self.impl.cont_of(a)))
        for lp in sched.walk(self.impl.LFRicLoop):
            self.ctx.hist("initial_loop_type", repr(lp.loop_type))

    def explore(self, spec, maxlen, width, rng):
        impl, ctx = self.impl, self.ctx
        shared = self.shared_proto is not None
        psy, sched = self.corpus.build(spec)
        t0 = impl.tree(sched)
        if not shared:
            self.check_initial(spec, sched, t0)
        seen = {(t0, None)}
        frontier = [()]
        impl.shared = dict(self.shared_proto) if shared else None
        for depth in range(maxlen):
            nxt = []
            if len(frontier) > width:
                frontier = rng.sample(frontier, width)
            for hist in frontier:
                psy, sched = self.rebuild(spec, hist)
                before = impl.tree(sched)
                va0, vb0 = impl.violations(sched)
                na0, nb0 = len(va0), len(vb0)
                for op in enumerate_ops(before, all_targets=(depth == 0 and not shared), grids=not shared):
                    nmod = len(impl.options_modified)
                    acc, da, exc = impl.apply(sched, op)
                    if shared:
                        ctx.hist("shared_options_dict", "modified by " + impl.options_modified[-1][0]
                                 if len(impl.options_modified) > nmod else "unchanged")
                    after = impl.tree(sched)
                    va, vb = impl.violations(sched)
                    cs = coq_case(self.tid(before), op, da, acc, self.tid(after), not va, not vb)
                    ctx.count(cs, nontrivial=acc)
                    ctx.hist("op", "%s:%s" % (op[0], "accepted" if acc else (exc or "refused")))
                    ctx.hist("history_length", depth + 1)
                    if op[0] == "OAccLoop" and impl.da is not None:
                        ctx.hist("dependency_analysis_outcome", da)
                    if op[0] == "OAccLoop" and before and self._is_loop(before, op):
                        ctx.hist("acc_loop_options(seq,gang,vector,collapse2,independent)",
                                 "%s:%s" % ("".join("T" if x else "F" for x in op[3]), "accepted" if acc else "refused"))
                    if exc not in (None, "TransformationError"):
                        self.other_exc.setdefault(exc, {"spec": spec, "history": list(hist), "op": op})
                    if cs not in self.cases:
                        self.cases[cs] = {"spec": spec, "history": [list(o) for o in hist], "op": list(op),
                                          "accepted": acc, "da": da, "exception": exc,
                                          "shared_options": self.shared_proto}
                    if acc and (len(va) > na0 or len(vb) > nb0):
                        key, what = classify(impl, op, sched, va[na0:] if len(va) > na0 else [],
                                             vb[nb0:] if len(vb) > nb0 else [])
                        if key not in self.failures:
                            self.failures[key] = (what, {
                                "spec": spec, "history": [list(o) for o in hist] + [list(op)],
                                "shared_options": self.shared_proto,
                                "shared_options_after": dict(impl.shared) if impl.shared is not None else None,
                                "options_modified_by": [list(m) for m in impl.options_modified[-3:]] if shared else None,
                                "tree_after": sched.view(colour=False),
                                "property_A_failures": len(va), "property_B_failures": len(vb),
                                "replay": "./check C23 --replay <this file>  (rebuilds the invoke and applies the history)"})
                    if acc:
                        state = (after, tuple(sorted(impl.shared.items())) if shared else None)
                        if state not in seen and depth + 1 < maxlen:
                            seen.add(state)
                            nxt.append(hist + (op,))
                        psy, sched = self.rebuild(spec, hist)
            frontier = nxt
            if not frontier:
                break
        return len(seen)


def gen_specs(ctx, rng):
    """quick: a fixed core (INC, READINC, operator+INC, inter-grid, WRITE on a continuous space) plus a
    seeded sample of the other kernels, one multi-kernel invoke and one real test algorithm;
    thorough: every kernel with and without distributed memory, many multi-kernel invokes, all files"""
    singles = list(KERNELS)
    multi = [["k_inc_w0", "setval_c"], ["k_rinc_w0", "k_inc_w1"], ["X_innerproduct_Y", "k_wr_w3"],
             ["k_rw_w3", "inc_X_plus_Y", "k_inc_any"], ["sum_X", "k_wr_w0"]]
    pool = [k for k in singles if k not in ("k_prol_w3", "k_prol_w2", "k_restr")] + list(BUILTINS)
    files = ["1_single_invoke.f90", "14.15_halo_readinc.f90", "15.14.4_builtin_and_normal_kernel_invoke.f90",
             "22.0_intergrid_prolong.f90", "25.0_domain.f90", "4.6_multikernel_invokes.f90", "10_operator.f90",
             "15.9.1_X_innerproduct_Y_builtin.f90", "4.8_multikernel_invokes.f90"]
    files = [f for f in files if (core.REPO / TESTFILES / f).exists()]
    specs = []
    if ctx.thorough:
        both = {"k_inc_w0", "k_rinc_w0", "k_op33_inc", "k_prol_w3", "k_wr_w0", "k_inc_any", "k_rw_w3", "k_dom_rw"}
        for k in singles:
            for dm in ((False, True) if k in both else (rng.random() < 0.5,)):
                specs.append({"kind": "gen", "calls": [k], "dm": dm})
        for _ in range(10):
            multi.append([rng.choice(pool) for _ in range(rng.choice([2, 2, 3]))])
        for calls in multi:
            specs.append({"kind": "gen", "calls": calls, "dm": rng.random() < 0.5})
        for f in files:
            specs.append({"kind": "file", "file": f, "invoke": 0, "dm": rng.random() < 0.5})
    else:
        core_k = [("k_inc_w0", False), ("k_rinc_w0", True), ("k_op33_inc", False), ("k_prol_w3", False),
                  ("k_wr_w0", False), ("k_inc_any", False)]
        rest = [k for k in singles if k not in {c for c, _ in core_k}]
        for k, dm in core_k + [(k, rng.random() < 0.5) for k in rng.sample(rest, 1)]:
            specs.append({"kind": "gen", "calls": [k], "dm": dm})
        if rng.random() < 0.5:
            specs.append({"kind": "gen", "calls": rng.choice(multi), "dm": rng.random() < 0.5})
        else:
            specs.append({"kind": "file", "file": rng.choice(files), "invoke": 0, "dm": rng.random() < 0.5})
    return specs


WITNESSES = [   # scripted histories re-demonstrating each listed finding on the tree under test
    ({"kind": "gen", "calls": ["k_rinc_w0"], "dm": False}, [("OOmpParDo", (), 0)]),
    ({"kind": "gen", "calls": ["k_rinc_w0"], "dm": False}, [("OOmpDo", (), 0)]),
    ({"kind": "gen", "calls": ["k_rinc_w0"], "dm": False}, [("OAccLoop", (), 0)]),
    ({"kind": "file", "file": "14.15_halo_readinc.f90", "invoke": 0, "dm": False}, [("OOmpParDo", (), 1)]),
    ({"kind": "gen", "calls": ["k_op33_inc"], "dm": False}, [("OOmpParDo", (), 0)]),
    ({"kind": "gen", "calls": ["k_prol_w3"], "dm": False}, [("OOmpParDo", (), 0)]),
    ({"kind": "gen", "calls": ["k_inc_w0"], "dm": False}, [("OColour", (), 0), ("OOmpParallel", (), 0, 1)]),
    ({"kind": "gen", "calls": ["k_inc_w0"], "dm": False}, [("OColour", (), 0), ("OAccParallel", (), 0, 1)]),
    ({"kind": "gen", "calls": ["k_wr_w0"], "dm": False}, [("OAccLoop", (), 0), ("OColour", (0,), 0)]),
]


def replay_witnesses(ctx, ex):
    impl = ex.impl
    for spec, hist in WITNESSES:
        try:
            psy, sched = ex.corpus.build(spec)
        except Exception as e:                      # noqa: BLE001
            ctx.log("witness invoke cannot be built (%s): %r" % (type(e).__name__, spec))
            continue
        for k, op in enumerate(hist):
            va0, vb0 = impl.violations(sched)
            acc, da, exc = impl.apply(sched, op)
            if not acc:
                break
            va, vb = impl.violations(sched)
            if len(va) > len(va0) or len(vb) > len(vb0):
                key, what = classify(impl, op, sched, va[len(va0):], vb[len(vb0):])
                ex.failures.setdefault(key, (what, {"spec": spec, "history": [list(o) for o in hist[:k + 1]],
                                                    "tree_after": sched.view(colour=False),
                                                    "replay": "./check C23 --replay <this file>"}))


def build_tree_library(ctx, tree_ids):
    """every distinct abstract tree is defined once (Definition t<k>) in small files compiled in
    parallel into the scratch directory; the case shards refer to the trees by name.  (coqc spends
    ~1 ms per constructor of a literal, so repeating the trees in every case is what costs.)"""
    import subprocess
    d = ctx.scratch / "cases"
    d.mkdir(exist_ok=True)
    trees = sorted(tree_ids.items(), key=lambda kv: kv[1])
    names, procs, per = [], [], 150
    jobs = int(os.environ.get("VERIF_JOBS", "4"))

    def reap(all_):
        while procs and (all_ or len(procs) >= jobs):
            f, p = procs.pop(0)
            try:
                out, _ = p.communicate(timeout=3600)
            except subprocess.TimeoutExpired:
                p.kill()
                out = "[timeout]"
            if p.returncode != 0:
                raise RuntimeError("coqc failed on %s:\n%s" % (f, out[-2000:]))
    for k in range(0, len(trees), per):
        name = "C23T_%d" % (k // per)
        body = ["From Coq Require Import List.", "Import ListNotations.", "From PV Require Import C23.Model."]
        local = {}          # top-level child nodes shared by the trees of this chunk
        for t, i in trees[k:k + per]:
            for n in t:
                if n not in local:
                    local[n] = "n%d_%d" % (k // per, len(local))
                    body.append("Definition %s : node := %s." % (local[n], coq_node(n)))
            body.append("Definition t%d : tree := %s." % (i, core.coq_list(local[n] for n in t)))
        (d / (name + ".v")).write_text("\n".join(body) + "\n")
        names.append(name)
        reap(False)
        procs.append((name, subprocess.Popen(["coqc", "-Q", str(core.COQ), core.LOGICAL, "-w",
                                              "-notation-overridden,-deprecated,-ambiguous-paths", name + ".v"],
                                             cwd=d, stdout=subprocess.PIPE, stderr=subprocess.STDOUT, text=True)))
    reap(True)
    return per


def eval_cases(ctx, per, check_fn, cases, shard=600):
    """indices of the cases on which `check_fn : case -> bool` is false.  Like Ctx.coq_eval_failing, but
    every shard imports only the tree-library chunks it refers to."""
    import re
    import subprocess
    d = ctx.scratch / "cases"
    jobs = int(os.environ.get("VERIF_JOBS", "4"))
    procs, failing = [], []
    eval_cases.count = getattr(eval_cases, "count", 0) + 1

    def reap(all_):
        while procs and (all_ or len(procs) >= jobs):
            k, f, p = procs.pop(0)
            try:
                out, _ = p.communicate(timeout=3600)
            except subprocess.TimeoutExpired:
                p.kill()
                out = "[timeout]"
            m = re.search(r"@@BAD-BEGIN(.*)@@BAD-END", out, re.S)
            if p.returncode != 0 or not m:
                raise RuntimeError("coqc failed on %s:\n%s" % (f, out[-3000:]))
            txt = m.group(1).split(":=", 1)[-1].rsplit(":", 1)[0]
            failing.extend(k + int(num) for num in re.findall(r"\d+", txt))
    for k in range(0, len(cases), shard):
        chunk = cases[k:k + shard]
        need = sorted({int(t) // per for c in chunk for t in re.findall(r"\bt(\d+)\b", c)})
        name = "C23C_%d_%d" % (eval_cases.count, k // shard)
        body = [HEADER, "Require Import Coq.Lists.List Coq.NArith.NArith. Import ListNotations."]
        body += ["Require Import C23T_%d." % n for n in need]
        body += ["Definition mk := Build_case.",
                 "Definition the_cases : list case := [\n%s\n]." % ";\n".join(chunk),
                 "Fixpoint failing_ (i : N) (l : list case) : list N := match l with [] => [] "
                 "| c :: r => if (%s) c then failing_ (N.succ i) r else i :: failing_ (N.succ i) r end." % check_fn,
                 "Definition bad_ := Eval vm_compute in failing_ 0%N the_cases.",
                 'Goal True. idtac "@@BAD-BEGIN". Abort.', "Print bad_.", 'Goal True. idtac "@@BAD-END". Abort.']
        (d / (name + ".v")).write_text("\n".join(body) + "\n")
        reap(False)
        procs.append((k, name, subprocess.Popen(
            ["coqc", "-Q", str(core.COQ), core.LOGICAL, "-w", "-notation-overridden,-deprecated,-ambiguous-paths",
             name + ".v"], cwd=d, stdout=subprocess.PIPE, stderr=subprocess.STDOUT, text=True)))
    reap(True)
    return sorted(failing)


SHARED_OPTIONS = {"reprod": True, "independent": True}
SHARED_SCRIPTS = [   # (calls, history) run with ONE options object; the invariant is evaluated after every step
    (["k_inc_w0", "k_inc_w1"], [("OColour", (), 0), ("OOmpParDo", (0,), 0), ("OAccLoop", (), 1), ("OAccParallel", (), 1, 1)]),
    (["k_inc_w0", "k_inc_w1"], [("OColour", (), 0), ("OOmpParDo", (0,), 0), ("OOmpDo", (), 1), ("OOmpParallel", (), 1, 1)]),
    (["k_inc_w0", "k_inc_w1"], [("OColour", (), 0), ("OOmpDo", (0,), 0), ("OAccLoop", (), 1)]),
    (["k_rinc_w0", "k_inc_any"], [("OColour", (), 1), ("OOmpParDo", (1,), 0), ("OAccLoop", (), 0)]),
]


def shared_scripts(ctx, ex):
    impl = ex.impl
    for calls, hist in SHARED_SCRIPTS:
        spec = {"kind": "gen", "calls": calls, "dm": False}
        psy, sched = ex.corpus.build(spec)
        impl.shared = dict(SHARED_OPTIONS)
        for k, op in enumerate(hist):
            va0, vb0 = impl.violations(sched)
            acc, da, exc = impl.apply(sched, op)
            ctx.hist("shared_script_step", "%s:%s" % (op[0], "accepted" if acc else "refused"))
            if not acc:
                continue
            va, vb = impl.violations(sched)
            if len(va) > len(va0) or len(vb) > len(vb0):
                key, what = classify(impl, op, sched, va[len(va0):], vb[len(vb0):])
                ex.failures.setdefault(key, (what, {
                    "spec": spec, "history": [list(o) for o in hist[:k + 1]], "shared_options": SHARED_OPTIONS,
                    "shared_options_after": dict(impl.shared), "options_modified_by": [list(m) for m in impl.options_modified[-3:]],
                    "tree_after": sched.view(colour=False), "replay": "./check C23 --replay <this file>"}))
    impl.shared = None


def gen_text_scenarios(ctx, ex):
    """ACCLoopTrans with `sequential` and every gang/vector/independent combination on (A) the uncoloured
    GH_INC loop and (B) the loop over colours of 1_single_invoke.f90, enclosed in an ACC parallel region;
    code is generated and the directive in front of `DO cell` / `DO colour` must carry `seq`."""
    impl = ex.impl
    spec = {"kind": "file", "file": "1_single_invoke.f90", "invoke": 0, "dm": False}
    n = 0
    for gang in (False, True):
        for vec in (False, True):
            for indep in (True, False):
                opts = (True, gang, vec, False, indep)
                for scen, var in (("inc-loop", "cell"), ("colours-loop", "colour")):
                    try:
                        psy, sched = ex.corpus.build(spec)
                    except Exception:                       # noqa: BLE001
                        return n
                    hist = []
                    if scen == "colours-loop":
                        hist.append(("OColour", (), 0))
                    hist.append(("OAccLoop", (), 0, opts))
                    hist.append(("OAccParallel", (), 0, 1))
                    if not all(impl.apply(sched, op)[0] for op in hist):
                        continue
                    try:
                        impl.T.ACCEnterDataTrans().apply(sched)
                        lines = str(psy.gen).split("\n")
                    except Exception as e:                  # noqa: BLE001 - generation refused: nothing emitted
                        ctx.hist("gen_text_scenario", "generation refused: " + type(e).__name__)
                        continue
                    n += 1
                    for k, line in enumerate(lines):
                        t = line.strip().lower()
                        prev = lines[k - 1].strip().lower() if k else ""
                        if (t.startswith("do %s=" % var) or t.startswith("do %s =" % var)) and \
                                prev.startswith("!$acc loop") and "seq" not in prev.split():
                            ex.failures.setdefault(
                                "ACCLoopTrans/generated-parallel-directive-on-" + scen,
                                ("ACCLoopTrans with options sequential=True emits '%s' in front of '%s'" % (prev, line.strip()),
                                 {"spec": spec, "history": [list(o) for o in hist], "generated": lines[k - 1:k + 1],
                                  "options": dict(zip(("sequential", "gang", "vector", "collapse2", "independent"), opts)),
                                  "replay": "./check C23 --replay <this file>"}))
                    ctx.hist("gen_text_scenario", "%s checked" % scen)
    return n


def run(ctx):
    ctx.cov["rule"] = ("case = one step (abstract tree before, transformation + target, accepted?, tree after) taken from "
                       "breadth-first histories (length <= 3 quick / <= 5 thorough, frontier sampled beyond the width) of "
                       "Dynamo0p3ColourTrans, DynamoOMPParallelLoopTrans, Dynamo0p3OMPLoopTrans, ACCLoopTrans on every "
                       "node and OMPParallelTrans, ACCParallelTrans on every range of siblings, in every container of "
                       "every invoke; non-trivial = the implementation accepted (the tree changed); distinct = distinct "
                       "case terms")
    ctx.cov["trusted_base"] = core.BASE_TRUST + [
        "coq/C23/Model.v is hand-written; its parameters inc_accesses/disc_shortcut are regenerated from the source "
        "by props/C23/translate.py (static ast, fail-closed); everything else is tied by this correspondence run",
        "abstraction of PSyIR schedules to model trees (Impl.conv) and the direct property evaluator (Impl.violations)",
        "outcome of DependencyTools.can_loop_be_parallelised is an input recorded from the implementation (premise da_ok)"]
    ctx.assumptions = [
        "da_ok: the generic dependency analysis never answers True (nor raises InternalError/KeyError) for an uncoloured "
        "loop over cells containing an incrementing kernel (premise hist_ok da_ok of the part-A theorems; checked on every "
        "ACCLoopTrans step explored)",
        "no_builtin_incr: built-in kernels have no INC/READINC argument on a continuous/any_space field (checked on every invoke)",
        "initial schedules contain no directive (checked on every invoke)",
        "one kernel per dof loop (no loop fusion in the modelled histories)"]
    # ---- 1. translator
    tr_err = None
    try:
        incs, sc = translate.translate()
        translate.write_gen(incs, sc, "has_inc_arg tests %s; shortcut=%s" % (incs, sc))
    except translate.TranslateError as e:
        tr_err = str(e)
        incs, sc = translate.DEFAULT
        translate.write_gen(incs, sc, "FALLBACK: translator failed")
    ctx.notes["translated_parameters"] = {"inc_accesses": incs, "disc_shortcut": sc, "translator_error": tr_err}
    ctx.log("translator: inc_accesses=%s disc_shortcut=%s%s" % (incs, sc, " (FAILED: %s)" % tr_err if tr_err else ""))
    # ---- 2. proofs
    ok, rep = ctx.prove()
    ctx.log("proof ok=%s discharged=%d/%d" % (ok, ctx.cov["discharged"], ctx.cov["obligations"]))
    verdict = ctx.coq_eval_show(HEADER + "\nFrom PV Require Import C23.Refute.", ["current_ok"]) if ok else ["?"]
    ctx.notes["current_source_verdict"] = ("part A holds for all histories (left disjunct)" if "true" in verdict[0]
                                           else "part A refuted for the current source (right disjunct)")
    # ---- 3. exploration of the implementation
    impl = Impl()
    corpus = Corpus(ctx.scratch)
    ex = Explorer(ctx, impl, corpus)
    rng = ctx.rng("specs")
    specs = gen_specs(ctx, rng)
    maxlen, width = ctx.pick(3, 5), ctx.pick(3, 3)
    nbuilt = 0
    for spec in specs:
        try:
            corpus.build(spec)
        except Exception as e:                                  # noqa: BLE001 - invalid combination of kernels
            ctx.hist("invoke_not_buildable", type(e).__name__)
            ctx.notes.setdefault("unbuildable", []).append({"spec": spec, "error": str(e)[:200]})
            continue
        n = ex.explore(spec, maxlen, width, ctx.rng("explore:" + json.dumps(spec, sort_keys=True)))
        nbuilt += 1
        ctx.hist("invoke_kind", "%s dm=%s" % (spec["kind"], spec["dm"]))
        ctx.hist("distinct_trees_per_invoke", "%d+" % (min(n // 10 * 10, 200)))
    # histories in which ONE options dict (never containing 'force') is passed, as one object, to every step
    ex.shared_proto = SHARED_OPTIONS
    for calls, ml, wd in [(["k_inc_w0", "k_rw_w3"], 2, 99)] + ([(["k_inc_w0", "k_inc_w1"], 3, 6),
                                                              (["k_wr_w0", "k_inc_any", "setval_c"], 3, 6)]
                                                             if ctx.thorough else [(["k_inc_w0", "k_inc_w1"], 3, 2)]):
        spec = {"kind": "gen", "calls": calls, "dm": False}
        ex.explore(spec, ml, wd, ctx.rng("shared:" + json.dumps(spec, sort_keys=True)))
        ctx.hist("invoke_kind", "gen dm=False shared-options-dict")
    shared_scripts(ctx, ex)
    ex.shared_proto = None
    impl.shared = None
    ctx.notes["options_argument_modified"] = [list(m) for m in impl.options_modified[:5]]
    replay_witnesses(ctx, ex)
    ctx.notes["generated_code_scenarios_checked"] = gen_text_scenarios(ctx, ex)
    ctx.notes["invokes_explored"] = nbuilt
    ctx.notes["other_exceptions"] = {k: v for k, v in ex.other_exc.items()}
    for cs, d in list(ex.cases.items())[:: max(1, len(ex.cases) // 5)]:
        ctx.sample(d)
    # ---- 4. model vs implementation
    cases = list(ex.cases)
    per = build_tree_library(ctx, ex.tree_ids)
    import time as _t
    ctx.log("exploration done: invokes=%d step cases=%d distinct trees=%d (python cpu %.1fs)"
            % (nbuilt, len(cases), len(ex.tree_ids), _t.process_time()))
    # one pass with the strict relation (model refuses whenever the implementation does); only the cases
    # failing it are re-evaluated with the lenient relation (implementation accepts => model agrees)
    strict_bad = eval_cases(ctx, per, "case_strict inc_accesses disc_shortcut", cases)
    failing, stricter = [], []
    if strict_bad:
        sub = [cases[i] for i in strict_bad]
        bad2 = set(eval_cases(ctx, per, "case_ok inc_accesses disc_shortcut", sub))
        failing = [strict_bad[j] for j in range(len(sub)) if j in bad2]
        stricter = [strict_bad[j] for j in range(len(sub)) if j not in bad2]
    ctx.cov["disagreements_checked"] = len(failing)
    ctx.notes["implementation_stricter_than_model"] = len(stricter)
    if stricter:
        ctx.notes["first_stricter_case"] = ex.cases[cases[stricter[0]]]
    ctx.log("invokes=%d step cases=%d model/impl disagreements=%d impl-stricter=%d property failures (keys)=%s"
            % (nbuilt, len(cases), len(failing), len(stricter), sorted(ex.failures)))
    # ---- 5. verdict
    unlisted = 0
    for key in sorted(ex.failures):
        what, rp = ex.failures[key]
        if rp["spec"].get("kind") == "gen":
            rp = dict(rp, kernel_metadata={k: KERNELS[k] for k in rp["spec"]["calls"] if k in KERNELS})
        if ctx.finding(key, what, dict(rp, property="C23")):
            unlisted += 1
    for pb in ex.premise_bad[:3]:
        ctx.violation({"property": "C23", "broken": "premise of the part-A theorems fails on a generated schedule",
                       "detail": pb}, no_input=True)
    if unlisted == 0 and (failing or not ok or tr_err):
        first = ex.cases[cases[failing[0]]] if failing else None
        shown = []
        if failing:
            c0 = cases[failing[0]]
            import re as _re
            hdr = HEADER + "\n" + "".join("Require Import C23T_%d.\n" % n for n in
                                           sorted({int(t) // per for t in _re.findall(r"\bt(\d+)\b", c0)})) + \
                "Definition mk := Build_case."
            shown = ctx.coq_eval_show(hdr, ["step inc_accesses disc_shortcut (c_op (%s)) (c_before (%s))" % (c0, c0),
                                            "c_after (%s)" % c0])
        ctx.violation({"property": "C23",
                       "broken": ("translator props/C23/translate.py no longer recognises the source: " + tr_err) if tr_err
                       else ("correspondence C23.Model.step = implementation" if failing
                             else "proof obligations of Properties/C23.v"),
                       "proof_report": rep if not ok else None, "first_differing_case": first, "model_result": shown,
                       "n_differing": len(failing)}, no_input=True)


def replay(ctx, path):
    """./check C23 --replay replays/C23-xxxx.json : rebuild the invoke, apply the history, print the tree"""
    rp = json.loads(Path(path).read_text())
    impl = Impl()
    corpus = Corpus(ctx.scratch)
    psy, sched = corpus.build(rp["spec"])
    if rp.get("shared_options"):
        impl.shared = dict(rp["shared_options"])     # one object passed to every step
    for op in rp["history"]:
        op = (op[0], tuple(op[1])) + tuple(tuple(x) if isinstance(x, list) else x for x in op[2:])
        print(op, impl.apply(sched, op))
    va, vb = impl.violations(sched)
    print(sched.view(colour=False))
    print("property A failures: %d  property B failures: %d" % (len(va), len(vb)))
    ctx.finish()
    return 1 if (va or vb) else 0
