"""C23 translator (static, fail-closed): regenerates coq/C23/Gen.v from the CURRENT working tree.

Reads, with Python's ``ast``:
  * ``PSyLoop.has_inc_arg`` (domain/common/psylayer/psyloop.py) -> the list of AccessType members
    the method tests kernel arguments for (``inc_accesses``);
  * ``DynamoOMPParallelLoopTrans.validate`` (transformations.py) -> whether the INC test is nested
    in ``if node.field_space.orig_name not in const.VALID_DISCONTINUOUS_NAMES`` (``disc_shortcut``);
  * ``Dynamo0p3OMPLoopTrans.validate`` -> must contain the un-nested INC test (no parameter is
    produced; an unrecognised shape raises).
Any other shape raises TranslateError: the check then falls back to the last known parameters and
relies on the correspondence to find a concrete failing input.
"""
import ast
import copy
import os
import sys
from pathlib import Path

VERIF = Path(__file__).resolve().parent.parent.parent
sys.path.insert(0, str(VERIF))
from vlib import core  # noqa: E402

ACC = {"READ": "ARead", "WRITE": "AWrite", "READWRITE": "AReadWrite", "INC": "AInc",
       "READINC": "AReadInc", "SUM": "ASum", "UNKNOWN": "AUnknown"}
DEFAULT = (["INC", "READINC"], False)      # parameters of the tree at HEAD (fallback only)


class TranslateError(Exception):
    pass


def _find(tree, cls, fn):
    for n in tree.body:
        if isinstance(n, ast.ClassDef) and n.name == cls:
            for m in n.body:
                if isinstance(m, ast.FunctionDef) and m.name == fn:
                    return m
    raise TranslateError("%s.%s not found" % (cls, fn))


def _body(fn):
    """statements of a function without its docstring"""
    b = fn.body
    if b and isinstance(b[0], ast.Expr) and isinstance(b[0].value, ast.Constant) \
            and isinstance(b[0].value.value, str):
        b = b[1:]
    return b


class _StripRaise(ast.NodeTransformer):
    def visit_Raise(self, node):
        node = copy.deepcopy(node)
        if isinstance(node.exc, ast.Call):
            node.exc.args, node.exc.keywords = [], []
        return node


def _txt(stmt):
    return ast.unparse(_StripRaise().visit(copy.deepcopy(stmt)))


def _access_member(e):
    if isinstance(e, ast.Attribute) and isinstance(e.value, ast.Name) and e.value.id == "AccessType" \
            and e.attr in ACC:
        return e.attr
    raise TranslateError("not an AccessType member: " + ast.unparse(e))


def has_inc_arg_accesses(src):
    fn = _find(ast.parse(src), "PSyLoop", "has_inc_arg")
    b = _body(fn)
    if len(b) != 2 or _txt(b[1]) != "return False":
        raise TranslateError("has_inc_arg: unexpected statements: " + "; ".join(_txt(s) for s in b))
    f1 = b[0]
    if not (isinstance(f1, ast.For) and not f1.orelse and ast.unparse(f1.target) == "kern_call"
            and ast.unparse(f1.iter) == "self.coded_kernels()" and len(f1.body) == 1):
        raise TranslateError("has_inc_arg: outer loop not `for kern_call in self.coded_kernels()`")
    f2 = f1.body[0]
    if not (isinstance(f2, ast.For) and not f2.orelse and ast.unparse(f2.target) == "arg"
            and ast.unparse(f2.iter) == "kern_call.arguments.args" and len(f2.body) == 1):
        raise TranslateError("has_inc_arg: inner loop not `for arg in kern_call.arguments.args`")
    cond = f2.body[0]
    if not (isinstance(cond, ast.If) and not cond.orelse and len(cond.body) == 1
            and _txt(cond.body[0]) == "return True"):
        raise TranslateError("has_inc_arg: body of the inner loop is not `if <test>: return True`")
    return _access_test(cond.test)


def _access_test(t):
    """arg.access == AccessType.X | arg.access in (X, Y) / [X, Y] | disjunction of those"""
    if isinstance(t, ast.BoolOp) and isinstance(t.op, ast.Or):
        out = []
        for v in t.values:
            out += _access_test(v)
        return out
    if isinstance(t, ast.Compare) and len(t.ops) == 1 and ast.unparse(t.left) == "arg.access":
        rhs = t.comparators[0]
        if isinstance(t.ops[0], ast.Eq):
            return [_access_member(rhs)]
        if isinstance(t.ops[0], ast.In) and isinstance(rhs, (ast.Tuple, ast.List, ast.Set)):
            return [_access_member(e) for e in rhs.elts]
    raise TranslateError("has_inc_arg: unrecognised test: " + ast.unparse(t))


GUARD = "if node.loop_type != 'colour' and node.has_inc_arg():\n    raise TransformationError()"
SHORTCUT = "node.field_space.orig_name not in const.VALID_DISCONTINUOUS_NAMES"


def ompparloop_shortcut(tsrc):
    fn = _find(ast.parse(tsrc), "DynamoOMPParallelLoopTrans", "validate")
    b = _body(fn)
    pre = ["if not isinstance(node, LFRicLoop):\n    raise TransformationError()"]
    post = ["local_options = options.copy() if options else {}", "local_options['force'] = True",
            "super().validate(node, options=local_options)"]
    txt = [_txt(s) for s in b]
    if txt[:1] != pre or txt[-3:] != post:
        raise TranslateError("DynamoOMPParallelLoopTrans.validate: unexpected frame: " + " | ".join(txt))
    mid = b[1:-3]
    mid = [s for s in mid if _txt(s) != "const = LFRicConstants()"]
    if len(mid) != 1:
        raise TranslateError("DynamoOMPParallelLoopTrans.validate: unexpected statements: " + " | ".join(txt))
    s = mid[0]
    if _txt(s) == GUARD:
        return False
    if isinstance(s, ast.If) and not s.orelse and ast.unparse(s.test) == SHORTCUT and len(s.body) == 1 \
            and _txt(s.body[0]) == GUARD:
        return True
    raise TranslateError("DynamoOMPParallelLoopTrans.validate: INC test not recognised: " + _txt(s))


def omploop_guard_present(tsrc):
    fn = _find(ast.parse(tsrc), "Dynamo0p3OMPLoopTrans", "validate")
    txt = [_txt(s) for s in _body(fn)]
    want = ["if not options:\n    options = {}", "options = options.copy()",
            "options['reprod'] = options.get('reprod', Config.get().reproducible_reductions)",
            "options['force'] = True", "super().validate(node, options=options)", GUARD]
    if txt != want:
        raise TranslateError("Dynamo0p3OMPLoopTrans.validate: unexpected statements: " + " | ".join(txt))
    return True


def accloop_options_faithful(tsrc):
    """ACCLoopTrans.apply/_directive: the directive gets `seq` iff options["sequential"] (what the model's
    accloop_dir assumes); any other shape raises"""
    tree = ast.parse(tsrc)
    txt = [_txt(s) for s in _body(_find(tree, "ACCLoopTrans", "apply"))]
    want = ["if not options:\n    options = {}", "self._independent = options.get('independent', True)",
            "self._sequential = options.get('sequential', False)", "self._gang = options.get('gang', False)",
            "self._vector = options.get('vector', False)", "super().apply(node, options)"]
    if sorted(txt) != sorted(want):
        raise TranslateError("ACCLoopTrans.apply: unexpected statements: " + " | ".join(txt))
    txt = [_txt(s) for s in _body(_find(tree, "ACCLoopTrans", "_directive"))]
    want = ["directive = ACCLoopDirective(children=children, collapse=collapse, independent=self._independent, "
            "sequential=self._sequential, gang=self._gang, vector=self._vector)", "return directive"]
    if txt != want:
        raise TranslateError("ACCLoopTrans._directive: unexpected statements: " + " | ".join(txt))
    return True


def translate(repo=None):
    repo = Path(repo or core.REPO)
    psrc = (repo / "src/psyclone/domain/common/psylayer/psyloop.py").read_text()
    tsrc = (repo / "src/psyclone/transformations.py").read_text()
    incs = has_inc_arg_accesses(psrc)
    sc = ompparloop_shortcut(tsrc)
    omploop_guard_present(tsrc)
    accloop_options_faithful(tsrc)
    return incs, sc


def gen_text(incs, sc, note):
    return ("(* GENERATED by props/C23/translate.py from the working tree -- do not edit. %s *)\n"
            "From Coq Require Import List.\nImport ListNotations.\nFrom PV Require Import C23.Model.\n"
            "Definition inc_accesses : list acc := [%s].\n"
            "Definition disc_shortcut : bool := %s.\n"
            % (note, "; ".join(ACC[a] for a in incs), "true" if sc else "false"))


def write_gen(incs, sc, note=""):
    return core.write_if_changed(core.COQ / "C23" / "Gen.v", gen_text(incs, sc, note))


def main():
    try:
        incs, sc = translate()
        write_gen(incs, sc, "has_inc_arg tests %s; shortcut=%s" % (incs, sc))
        print("C23 translate: inc_accesses=%s disc_shortcut=%s" % (incs, sc))
        return 0
    except TranslateError as e:
        print("C23 translate FAILED (fail-closed): %s" % e)
        if not (core.COQ / "C23" / "Gen.v").exists():
            write_gen(*DEFAULT, note="FALLBACK (translator failed)")
        return 1


if __name__ == "__main__":
    sys.exit(main())
