"""C22 — Distributed-memory LFRic code never reads a dirty halo.

Model + theorems: coq/C22/{Model,Placement,Required,Access}.v, coq/Properties/C22.v.
Tie: correspondence.  For generated invokes (test kernels, kernels with generated metadata, built-ins;
annexed dofs on/off) x histories of accepted transformations (redundant computation, colouring, OpenMP,
asynchronous halo exchange, move) the check
  1. evaluates the PROPERTY ITSELF on the implementation's output: the generated PSy-layer code is read
     back (fail-closed) and run on the ground-truth abstract halo machine (props/C22/halo.py) from every
     initial state, halo depth M <= 3 and run-time stencil extents <= M;
  2. compares the implementation's HaloReadAccess / HaloWriteAccess / _create_depth_list / required() /
     _halo_read_access answers and the generated set_dirty/set_clean calls with the Coq model (vm_compute),
     evaluates the structural premises of the theorems, runs the Coq machine on the same serialised code
     (Python machine = Coq machine) and evaluates the proved-sufficient predicate well_placed on it.
Concrete failures with a known reason code -> KNOWN-FINDING, any other -> VIOLATION."""
import json
import time

from vlib import core
from props.C22 import halo

ACC = {"READ": "ARead", "WRITE": "AWrite", "READWRITE": "AReadWrite", "INC": "AInc", "READINC": "AReadInc"}
BND = {"ncells": "BNcells", "ncolour": "BNcolour", "ncolours": "BNcolours", "ndofs": "BNdofs",
       "nannexed": "BNannexed", "cell_halo": "BCellHalo", "colour_halo": "BColourHalo",
       "dof_halo": "BDofHalo", "inner": "BInner", "start": "BStart"}

F1 = "halo_read_access/gh-write-discontinuous-kernel-reads-annexed"
F2 = "create_depth_list/max-depth-minus-1-is-zero-at-halo-depth-1"
F3 = "required/max-depth-m1-compared-as-literal-0"


def b(x):
    return "true" if x else "false"


def optn(x):
    return "None" if x is None else "(Some %d)" % x


class Coqify:
    """Python facts -> Coq terms of coq/C22/Model.v"""

    def __init__(self, extvars):
        self.ids = {v: i for i, v in enumerate(extvars)}

    def var(self, name):
        """HaloDepth.var_depth: None / '' / 'ext' / '2*ext'"""
        if not name:
            return "None"
        dbl = name.startswith("2*")
        nm = name[2:] if dbl else name
        if nm not in self.ids:
            raise halo.OutOfSubset("extent variable %r" % name)
        return "(Some (%s, %d))" % (b(dbl), self.ids[nm])

    def extent(self, st):
        if st is None:
            return "None"
        if st[0] == "lit":
            return "(Some (ELit %d))" % st[1]
        if st[1] not in self.ids:
            raise halo.OutOfSubset("extent variable %r" % st[1])
        return "(Some (EVar %d))" % self.ids[st[1]]

    def hdepth(self, d):
        return "(Build_hdepth %s %s %s %d %s)" % (b(d.max_depth), b(d.max_depth_m1), self.var(d.var_depth),
                                                  d.literal_depth, b(d.annexed_only))

    def sdepth(self, e):
        """parsed depth expression of the generated code -> list of sdepth terms (max of the list)"""
        k = e[0]
        if k == "maxof":
            out = []
            for x in e[1]:
                out += self.sdepth(x)
            return out
        if k == "lit":
            return ["(SLit %d)" % e[1]]
        if k == "max":
            return ["SMax"]
        if k == "var":
            return ["(SVar false %d 0)" % self.vid(e[1])]
        if k == "add" and e[1][0] == "var" and e[2][0] == "lit":
            return ["(SVar false %d %d)" % (self.vid(e[1][1]), e[2][1])]
        if k == "sub" and e[1][0] == "max" and e[2] == ("lit", 1):
            return ["SMaxM1"]
        if k == "mul" and e[1] == ("lit", 2) and e[2][0] == "var":
            return ["(SVar true %d 0)" % self.vid(e[2][1])]
        if k == "add" and e[1][0] == "mul" and e[1][1] == ("lit", 2) and e[1][2][0] == "var" and e[2][0] == "lit":
            return ["(SVar true %d %d)" % (self.vid(e[1][2][1]), e[2][1])]
        raise halo.OutOfSubset("depth expression %r" % (e,))

    def vid(self, name):
        if name not in self.ids:
            raise halo.OutOfSubset("extent variable %r" % name)
        return self.ids[name]

    @staticmethod
    def lkind(bound):
        if bound[0] == "domain":
            return "KDomain"

        def ld(d):
            return "LDMax" if d == "max" else "(LD %d)" % d
        if bound[0] == "cells":
            return "(KCells %s)" % ld(bound[1])
        if bound[1] == "owned":
            return "KDofsOwned"
        if bound[1] == "annexed":
            return "KDofsAnnexed"
        return "(KDofsHalo %s)" % ld(bound[1])

    def targ(self, kern, arg, cont):
        return "(Build_targ %s %s %s %s)" % (ACC[arg["acc"]], b(cont), self.extent(arg["stencil"]),
                                             b(halo.kernel_gh_write_continuous(kern)))


class Impl:
    """read-only queries of the implementation's halo logic on a final schedule"""

    def __init__(self):
        from psyclone.domain.lfric import LFRicLoop
        from psyclone.dynamo0p3 import LFRicHaloExchange, LFRicHaloExchangeStart
        from psyclone.psyGen import Kern
        from psyclone.errors import PSycloneError
        self.LFRicLoop, self.Hx, self.HxStart, self.Kern, self.PSycloneError = \
            LFRicLoop, LFRicHaloExchange, LFRicHaloExchangeStart, Kern, PSycloneError

    @staticmethod
    def stencil_of(a):
        if not a.descriptor.stencil:
            return None
        ext = a.descriptor.stencil["extent"]
        if ext:
            return ("lit", int(ext))
        if a.stencil.extent_arg.is_literal():
            return ("lit", int(a.stencil.extent_arg.text))
        return ("var", a.stencil.extent_arg.varname)

    fix_f1 = False

    def auw(self, call, loop):
        """the condition of the GH_WRITE special case as the tree under test evaluates it"""
        v = getattr(call, "all_updates_are_writes", False)
        if v and self.fix_f1:
            from psyclone.domain.lfric import LFRicConstants
            v = loop.field_space.orig_name not in LFRicConstants().VALID_DISCONTINUOUS_NAMES
        return v

    def rarg(self, cq, arg):
        call = arg.call
        loop = call.ancestor(self.LFRicLoop)
        fine = bool(getattr(call, "is_intergrid", False)) and arg.mesh == "gh_fine"
        return "(Build_rarg %s %s %s %s %s %s %s %s)" % (
            ACC[arg.access.name], BND[loop.upper_bound_name], optn(loop.upper_bound_halo_depth), b(arg.discontinuous),
            b(call.iterates_over == "dof"), b(self.auw(call, loop)), cq.extent(self.stencil_of(arg)), b(fine))

    def warg(self, arg):
        call = arg.call
        loop = call.parent.parent
        fine = bool(getattr(call, "is_intergrid", False)) and arg.mesh == "gh_fine"
        return "(Build_warg %s %s %s %s %s)" % (b(arg.discontinuous), b(loop.iteration_space == "cell_column"),
                                               BND[loop.upper_bound_name], optn(loop.upper_bound_halo_depth), b(fine))


def field_program(cq, stmts, kerns, f, idx, cont):
    """the generated code as seen by component idx of field f -> Coq list fstmt (None: not expressible)"""
    out = []
    for s in stmts:
        if s[0] == "hx":
            if s[1] != f or s[2] != idx or s[5] == "start":
                continue
            out.append("FHx %s %s" % (core.coq_list(cq.sdepth(s[3])), b(s[4])))
        elif s[0] == "loop":
            args = [(kerns[ki], a) for ki in s[2] for a in kerns[ki]["args"] if a["field"] == f]
            if not args:
                continue
            if any(k["intergrid"] for k, _ in args):
                return None
            out.append("FLoop %s %s" % (cq.lkind(s[1]), core.coq_list(cq.targ(k, a, cont) for k, a in args)))
        elif s[0] == "dirty":
            if s[1] == f and s[2] == idx:
                out.append("FDirty")
        else:
            if s[1] == f and s[2] == idx:
                out.append("FClean %s" % cq.sdepth(s[3])[0])
    return core.coq_list(out)


def classify(e, ctxt, stmts, kerns, annexed):
    """reason code of a concrete failure of the property"""
    d = e.detail
    if e.code == "dirty-annexed-read" and not annexed:
        if d["access"] == "READ" and d["bound"] == ["cells", 0] and not d["stencil"] and d["all_updates_write"]:
            return F1
        if d["access"] == "INC" and d["bound"] == ["cells", "max"] and ctxt["M"] == 1:
            return F2
    if e.code == "dirty-halo-read" and d["access"] == "INC" and d["bound"] == ["cells", "max"] \
            and d["needs_depth"] == ctxt["M"] - 1:
        # last statement involving the field before the loop: a writer computing redundantly to a literal depth
        f = d["field"]
        for s in reversed(stmts[:d["stmt"]]):
            if s[0] == "hx" and s[1] == f:
                break
            if s[0] == "loop":
                wr = [a for ki in s[2] for a in kerns[ki]["args"] if a["field"] == f and a["acc"] != "READ"]
                rd = [a for ki in s[2] for a in kerns[ki]["args"] if a["field"] == f]
                if wr:
                    if s[1][0] in ("cells", "dofs") and isinstance(s[1][1], int) and s[1][1] >= 1:
                        return F3
                    break
                if rd:
                    continue
    return "unclassified/%s" % e.code


TARGETED = [
    # (name, spec, history)  -- replayed on every run: the witnesses of the known findings and classic shapes
    ("F1-witness", {"annexed": False, "kernels": {}, "calls": [
        {"kern": "setval_c", "builtin": True, "actual": ["f1", "0.5_r_def"]},
        {"kern": "testkern_eval_anydspace1_type", "builtin": False, "actual": ["f2", "f1", "f3"]}],
        "fields": {"f1": 1, "f2": 1, "f3": 1}}, []),
    ("F1-control-readwrite", {"annexed": False, "file": "14.7_halo_annexed.f90"}, []),
    ("F2-witness", {"annexed": False, "kernels": {}, "calls": [
        {"kern": "simple_type", "builtin": False, "actual": ["f1"]}], "fields": {"f1": 1}}, [["rc", 0, None]]),
    ("F3-witness", {"annexed": True, "kernels": {}, "calls": [
        {"kern": "setval_c", "builtin": True, "actual": ["f1", "0.5_r_def"]},
        {"kern": "simple_type", "builtin": False, "actual": ["f1"]}], "fields": {"f1": 1}},
     [["rc", 0, 1], ["rc", 1, None]]),
    ("F3-witness-depth2", {"annexed": False, "kernels": {}, "calls": [
        {"kern": "X_plus_Y", "builtin": True, "actual": ["f1", "f2", "f3"]},
        {"kern": "testkern_w0_type", "builtin": False, "actual": ["f1", "f4"]}],
        "fields": {"f1": 1, "f2": 1, "f3": 1, "f4": 1}}, [["rc", 0, 2], ["rc", 1, None]]),
    ("rc-chain", {"annexed": False, "kernels": {}, "calls": [
        {"kern": "setval_c", "builtin": True, "actual": ["f2", "0.5_r_def"]},
        {"kern": "testkern_stencil_type", "builtin": False, "actual": ["f1", "f2", "ext1", "f3", "f4"]},
        {"kern": "testkern_w3_type", "builtin": False, "actual": ["s1", "f5", "f1", "f3", "f4"]}],
        "fields": {"f1": 1, "f2": 1, "f3": 1, "f4": 1, "f5": 1}},
     [["rc", 0, 2], ["rc", 2, 1], ["colour", 1], ["omp", 1], ["async", 0]]),
    ("stencil-vector", {"annexed": True, "file": "19.1_single_stencil.f90"}, [["rc", 0, 2]]),
    ("readinc", {"annexed": False, "file": "14.15_halo_readinc.f90"}, [["rc", 0, 2], ["rc", 1, 3]]),
    ("multikernel", {"annexed": False, "file": "4.8_multikernel_invokes.f90"}, [["rc", 1, 2], ["colour", 2], ["omp", 2]]),
    ("builtin+kernel", {"annexed": True, "file": "15.14.4_builtin_and_normal_kernel_invoke.f90"}, [["rc", 0, None]]),
    # --- every branch of required() / _create_depth_list, deterministically
    ("req-several-depths-unknown", {"annexed": False, "kernels": {}, "calls": [
        {"kern": "setval_c", "builtin": True, "actual": ["f2", "0.5_r_def"]},
        {"kern": "testkern_stencil_w3_type", "builtin": False, "actual": ["f5", "f2", "ext1"]},
        {"kern": "testkern_w3_type", "builtin": False, "actual": ["s1", "f0", "f1", "f2", "f6"]}],
        "fields": {"f0": 1, "f1": 1, "f2": 1, "f5": 1, "f6": 1}}, [["rc", 0, 3], ["rc", 2, 2]]),
    ("req-several-depths-known", {"annexed": True, "kernels": {}, "calls": [
        {"kern": "setval_c", "builtin": True, "actual": ["f2", "0.5_r_def"]},
        {"kern": "testkern_stencil_w3_type", "builtin": False, "actual": ["f5", "f2", "ext1"]},
        {"kern": "testkern_w3_type", "builtin": False, "actual": ["s1", "f0", "f1", "f2", "f6"]}],
        "fields": {"f0": 1, "f1": 1, "f2": 1, "f5": 1, "f6": 1}}, [["rc", 0, 1], ["rc", 2, 2]]),
    ("same-extent-variable-two-depths", {"annexed": False, "kernels": {}, "calls": [
        {"kern": "testkern_stencil_w3_type", "builtin": False, "actual": ["f5", "f2", "ext1"]},
        {"kern": "testkern_stencil_type", "builtin": False, "actual": ["f1", "f2", "ext1", "f3", "f4"]}],
        "fields": {"f1": 1, "f2": 1, "f3": 1, "f4": 1, "f5": 1}}, []),
    ("coloured-inc-writer-rc", {"annexed": False, "kernels": {}, "calls": [
        {"kern": "testkern_w2_only_type", "builtin": False, "actual": ["f1", "f2"]},
        {"kern": "testkern_w3_type", "builtin": False, "actual": ["s1", "f0", "f3", "f1", "f6"]}],
        "fields": {"f0": 1, "f1": 1, "f2": 1, "f3": 1, "f6": 1}}, [["colour", 0], ["rc", 0, 2], ["rc", 1, 2]]),
    ("rc-on-coloured-reader", {"annexed": True, "kernels": {}, "calls": [
        {"kern": "setval_c", "builtin": True, "actual": ["f2", "0.5_r_def"]},
        {"kern": "testkern_w0_type", "builtin": False, "actual": ["f1", "f2"]}],
        "fields": {"f1": 1, "f2": 1}}, [["rc", 0, 1], ["colour", 1], ["rc", 1, 2]]),
    ("inc-max-writer-then-readers", {"annexed": False, "kernels": {}, "calls": [
        {"kern": "testkern_w0_type", "builtin": False, "actual": ["f1", "f2"]},
        {"kern": "testkern_w3_type", "builtin": False, "actual": ["s1", "f1", "f3", "f4", "f6"]},
        {"kern": "testkern_w0_type", "builtin": False, "actual": ["f1", "f2"]},
        {"kern": "testkern_w3_type", "builtin": False, "actual": ["s1", "f1", "f3", "f4", "f6"]}],
        "fields": {"f1": 1, "f2": 1, "f3": 1, "f4": 1, "f6": 1}},
     [["rc", 0, None], ["rc", 1, None], ["rc", 2, None], ["rc", 3, 2]]),
    ("inc-then-annexed-reader", {"annexed": False, "kernels": {}, "calls": [
        {"kern": "testkern_w0_type", "builtin": False, "actual": ["f1", "f2"]},
        {"kern": "testkern_w3_type", "builtin": False, "actual": ["s1", "f1", "f3", "f4", "f6"]},
        {"kern": "inc_X_plus_Y", "builtin": True, "actual": ["f1", "f2"]},
        {"kern": "testkern_w0_type", "builtin": False, "actual": ["f2", "f1"]}],
        "fields": {"f1": 1, "f2": 1, "f3": 1, "f4": 1, "f6": 1}}, []),
    ("annexed-on-inc-and-builtins", {"annexed": True, "kernels": {}, "calls": [
        {"kern": "simple_type", "builtin": False, "actual": ["f1"]},
        {"kern": "X_plus_Y", "builtin": True, "actual": ["f2", "f1", "f3"]},
        {"kern": "testkern_w3_type", "builtin": False, "actual": ["s1", "f0", "f2", "f4", "f6"]}],
        "fields": {"f0": 1, "f1": 1, "f2": 1, "f3": 1, "f4": 1, "f6": 1}}, [["rc", 1, 1], ["omp", 1]]),
    ("discontinuous-max", {"annexed": False, "kernels": {}, "calls": [
        {"kern": "testkern_w3_only_vector_type", "builtin": False, "actual": ["f1", "f2"]},
        {"kern": "testkern_w3_only_vector_type", "builtin": False, "actual": ["f2", "f1"]}],
        "fields": {"f1": 3, "f2": 3}}, [["rc", 0, None], ["rc", 1, 2], ["omp", 0], ["async", 1]]),
]


def probe_required_fix(drv, impl):
    """one-bit dynamic translator: does the tree under test contain the repair of props/C22/fix.patch
    (required() treats a lone max_depth-1 entry as 'unknown depth')?  Observed on the F3 witness: with the
    repair the exchange between the two loops is kept."""
    spec = json.loads(json.dumps(TARGETED_F3[1]))
    psy, sched = drv.build(spec)
    drv.apply_history(sched, TARGETED_F3[2])
    return any(not isinstance(h, impl.HxStart) and h.field.name == "f1" for h in sched.walk(impl.Hx))


TARGETED_F3 = [t for t in TARGETED if t[0] == "F3-witness"][0]
TARGETED_F1 = [t for t in TARGETED if t[0] == "F1-witness"][0]


def probe_f1_fix(drv, impl):
    """does the tree under test restrict the 'all updates are GH_WRITE' special case to loops over a
    non-discontinuous iteration space (second hunk of props/C22/fix.patch)?  Observed on the F1 witness: with
    the repair f1 gets a halo exchange."""
    psy, sched = drv.build(json.loads(json.dumps(TARGETED_F1[1])))
    return any(h.field.name == "f1" for h in sched.walk(impl.Hx))


class Runner:
    def __init__(self, ctx):
        self.ctx = ctx
        self.drv = halo.Driver(core.REPO, ctx.scratch)
        self.impl = Impl()
        try:
            self.fixed = probe_required_fix(self.drv, self.impl)
        except Exception:      # noqa: the witness no longer builds: compare with the model of the unchanged code
            self.fixed = False
        try:
            self.impl.fix_f1 = probe_f1_fix(self.drv, self.impl)
        except Exception:      # noqa
            self.impl.fix_f1 = False
        self.cases = []        # (kind, coq term, info)
        self.seen_terms = set()
        self.pcases = []       # (coq term of Harness2.pcase, info): place = generated code
        self.prop_failures = []   # (key, what, replay)
        self.first_spec = None

    def add(self, kind, term, info):
        self.ctx.hist("model_cases_generated", kind)
        if term in self.seen_terms:       # the same fact about the same kind of argument / loop / field: evaluated once
            return
        self.seen_terms.add(term)
        self.cases.append((kind, term, info))

    def one(self, name, spec, steps):
        ctx = self.ctx
        info = {"case": name, "spec": spec}
        try:
            psy, sched = self.drv.build(spec)
        except halo.Rejected as e:
            ctx.hist("outcome", "rejected-at-build")
            ctx.hist("reject_reason", str(e)[:60])
            return
        except Exception as e:     # noqa: a crash of the implementation on a generated input is not a C22 matter
            ctx.hist("outcome", "implementation-crashed-at-build")
            ctx.hist("reject_reason", "%s: %s" % (type(e).__name__, str(e)[:40]))
            return
        try:
            accepted, rejected = self.drv.apply_history(sched, steps)
        except halo.Rejected as e:
            ctx.hist("outcome", "apply-raised")
            ctx.hist("reject_reason", str(e)[:60])
            return
        except Exception as e:     # noqa
            ctx.hist("outcome", "implementation-crashed-in-apply")
            ctx.hist("reject_reason", "%s: %s" % (type(e).__name__, str(e)[:40]))
            return
        for a in accepted:
            ctx.hist("accepted_transformations", a[0])
        for r in rejected:
            ctx.hist("refused_transformations", r[0][0])
        info["history"] = accepted
        try:
            code = self.drv.generate(psy)
        except halo.Rejected as e:
            ctx.hist("outcome", "rejected-at-generation")
            ctx.hist("reject_reason", str(e)[:60])
            return
        except Exception as e:     # noqa (NotImplementedError for some OpenMP regions, ...)
            ctx.hist("outcome", "rejected-at-generation")
            ctx.hist("reject_reason", "%s: %s" % (type(e).__name__, str(e)[:40]))
            return
        try:
            kerns, proxies = halo.kernel_facts(sched)
            stmts = halo.read_generated(code, sched.name, kerns, proxies)
            vecs = {a["field"]: a["vec"] for k in kerns for a in k["args"]}
            res = halo.check_schedule(stmts, kerns, vecs, spec["annexed"])
        except halo.OutOfSubset as e:
            ctx.hist("outcome", "out-of-subset")
            ctx.hist("out_of_subset", str(e)[:60])
            return
        nhx = sum(1 for s in stmts if s[0] == "hx")
        ctx.count([spec, accepted], nontrivial=nhx > 0 or bool(accepted))
        ctx.hist("outcome", "checked")
        ctx.hist("n_kernels", len(kerns))
        ctx.hist("n_halo_exchanges", nhx)
        ctx.hist("history_length", len(accepted))
        ctx.hist("annexed", spec["annexed"])
        ctx.hist("valid_configs", len(res["configs"]))
        ctx.notes["machine_runs"] = ctx.notes.get("machine_runs", 0) + res["runs"]
        for s in stmts:
            if s[0] == "loop":
                ctx.hist("loop_bounds", "%s:%s" % (s[1][0], s[1][1] if len(s[1]) > 1 else ""))
                for ki in s[2]:
                    for a in kerns[ki]["args"]:
                        ctx.hist("arg_kinds", "%s%s%s" % (a["acc"], "+stencil" if a["stencil"] else "",
                                                         "" if not halo.meta_discontinuous(a["fs"]) else "/disc"))
            elif s[0] == "hx":
                ctx.hist("exchange_kinds", "%s%s" % (s[5], "+check" if s[4] else ""))
        if self.first_spec is None and nhx:
            ctx.sample({"case": name, "invoke": spec, "accepted_history": accepted, "abstract_code": stmts[:12]})
        elif accepted and len(ctx.cov["samples"]) < 5 and len(accepted) >= 3:
            ctx.sample({"case": name, "invoke": spec, "accepted_history": accepted, "abstract_code": stmts[:12]})
        self.first_spec = self.first_spec or name
        info["abstract_code"] = stmts
        # ---- 1. the property itself on the implementation's output
        for e, c in res["fails"]:
            key = classify(e, c, stmts, kerns, spec["annexed"])
            ctx.hist("property_failures", key)
            self.prop_failures.append((key, e.code, {
                "property": "C22", "case": name, "invoke": spec, "algorithm": None if spec.get("file") else halo.alg_src(spec),
                "accepted_history": accepted, "failure": e.code, "detail": e.detail, "configuration": c,
                "abstract_code": stmts,
                "replay": "props/C22/halo.py: Driver.build(invoke) ; Driver.apply_history(schedule, accepted_history) ; "
                          "str(psy.gen) ; read_generated ; run_machine from the given configuration"}))
        # ---- 2. correspondence cases
        try:
            self.collect(sched, stmts, kerns, vecs, res, spec, info)
        except halo.OutOfSubset as e:
            ctx.hist("out_of_subset", "model: " + str(e)[:50])

    def collect(self, sched, stmts, kerns, vecs, res, spec, info):
        cq = Coqify(res["extvars"])
        if len(res["extvars"]) > 2:
            raise halo.OutOfSubset("more than two extent variables")
        impl, cfg = self.impl, spec["annexed"]
        intergrid = any(k["intergrid"] for k in kerns)
        # (a) halo exchanges: HaloReadAccess, depth list, HaloWriteAccess, required
        for hx in sched.walk(impl.Hx):
            if isinstance(hx, impl.HxStart):
                continue
            try:
                rinfo = hx._compute_halo_read_info()
                dlist = hx._compute_halo_read_depth_info()
                winfo = hx._compute_halo_write_info()
                req = hx.required()
                rdeps = hx.field.forward_read_dependencies()
                wdeps = hx.field.backward_write_dependencies()
            except impl.PSycloneError as e:
                self.ctx.hist("impl_query_errors", type(e).__name__)
                continue
            readers = []
            for arg, h in zip(rdeps, rinfo):
                readers.append("(%s, Build_hread %s %s)" % (impl.rarg(cq, arg), cq.hdepth(h), b(h.needs_clean_outer)))
            w = "None"
            if winfo is not None:
                w = "(Some (%s, Build_hwrite %s %d %s))" % (impl.warg(wdeps[0]), b(winfo.max_depth),
                                                         winfo.literal_depth, b(winfo.dirty_outer))
            self.add("required", "CX %s %s %s %s %s (%s, %s)" % (
                b(self.fixed), b(cfg), core.coq_list(readers), core.coq_list(cq.hdepth(d) for d in dlist), w, b(req[0]), b(req[1])),
                dict(info, exchange=hx.node_str(colour=False), required=list(req)))
            self.ctx.hist("required_answers", "%s/%s" % req)
        # (b) every field argument of every kernel: _halo_read_access, structural premises, marks
        loops_of_kern = {}
        for s in stmts:
            if s[0] == "loop":
                for ki in s[2]:
                    loops_of_kern[ki] = s[1]
        for ki, k in enumerate(sched.walk(impl.Kern)):
            loop = k.ancestor(impl.LFRicLoop)
            if loop is None or loop.loop_type == "null" or kerns[ki]["intergrid"]:
                continue
            fi = 0
            for arg in k.arguments.args:
                if not arg.is_field:
                    continue
                facts = kerns[ki]["args"][fi]
                fi += 1
                try:
                    obs = "(Some %s)" % b(loop._halo_read_access(arg))
                except impl.PSycloneError:
                    obs = "None"
                larg = "(Build_larg %s %s %s %s %s %s)" % (
                    ACC[arg.access.name], b(bool(arg.descriptor.stencil)), BND[loop.upper_bound_name],
                    b(arg.discontinuous), b(k.iterates_over == "cell_column"), b(impl.auw(k, loop)))
                self.add("halo_read_access", "CL %s %s %s" % (b(cfg), larg, obs),
                         dict(info, kernel=k.name, arg=arg.name))
                bound = loops_of_kern[ki]
                for cont in res["cands"][facts["field"]]:
                    if arg.access.name != "WRITE":
                        self.add("premise_compat_r", "CR %s %s %s %s %s" % (
                            b(impl.fix_f1), b(cfg), impl.rarg(cq, arg), cq.lkind(bound), cq.targ(kerns[ki], facts, cont)),
                            dict(info, kernel=k.name, arg=arg.name, continuous=cont))
                    if arg.access.name != "READ":
                        self.add("premise_compat_w", "CW %s %s %s %s" % (
                            b(cfg), impl.warg(arg), cq.lkind(bound), cq.targ(kerns[ki], facts, cont)),
                            dict(info, kernel=k.name, arg=arg.name, continuous=cont))
        # marks: the block of set_dirty/set_clean calls that follows a loop (or an OpenMP region)
        pending = []      # kernels whose marks have not been seen yet
        i = 0
        while i <= len(stmts):
            s = stmts[i] if i < len(stmts) else ("end",)
            if s[0] == "loop":
                pending += s[2]
                i += 1
                continue
            if s[0] in ("dirty", "clean"):
                block = []
                while i < len(stmts) and stmts[i][0] in ("dirty", "clean"):
                    block.append(stmts[i])
                    i += 1
                self.marks_cases(cq, sched, kerns, pending, block, info)
                pending = []
                continue
            if pending:
                self.marks_cases(cq, sched, kerns, pending, [], info)
                pending = []
            i += 1
        # (c) the generated code as seen by each field: Python machine = Coq machine, well_placed
        if intergrid:
            return
        cfgs = core.coq_list("(%d, %d, %d)" % (M, env.get(res["extvars"][0], 1) if res["extvars"] else 1,
                                               env.get(res["extvars"][1], 1) if len(res["extvars"]) > 1 else 1)
                             for M, env in res["configs"])
        for f in sorted(res["cands"]):
            idxs = list(range(1, vecs[f] + 1)) if vecs[f] > 1 else [None]
            for cont in res["cands"][f]:
                safe = (f, cont) not in res["unsafe"]
                for idx in idxs[:1]:        # components of a vector field are treated alike by the reader
                    prog = field_program(cq, stmts, kerns, f, idx, cont)
                    if prog is None:
                        continue
                    finfo = dict(info, field=f, continuous=cont, python_machine_safe=safe)
                    if not info.get("history"):
                        self.placement_case(cq, sched, kerns, f, cont, cfg, prog, finfo)
                    self.add("machines_agree", "CF %s %s %s %s %s" % (b(cfg), b(cont), cfgs, prog, b(safe)), finfo)
                    self.add("well_placed", "CP %d %s %s %s" % (halo.needed_literals(stmts, kerns), b(cfg), b(cont), prog), finfo)

    def placement_case(self, cq, sched, kerns, f, cont, cfg, prog, finfo):
        """untransformed invoke: the loops touching field f as Place.ploop terms (model of create_halo_exchanges)"""
        impl = self.impl
        loops = []
        for ki, k in enumerate(sched.walk(impl.Kern)):
            args = [a for a in kerns[ki]["args"] if a["field"] == f]
            if not args:
                continue
            loop = k.ancestor(impl.LFRicLoop)
            nb = kerns[ki]["node_bound"]
            if len(args) != 1 or loop is None or nb is None or nb[2] == "null" or kerns[ki]["intergrid"]:
                return
            if nb[0] not in ("ncells", "cell_halo", "ndofs", "nannexed") or (nb[0] == "cell_halo" and nb[1] != 1):
                return
            a = args[0]
            loops.append("(Build_ploop %s %s %s %s %s %s %s)" % (
                BND[nb[0]], ACC[a["acc"]], b(halo.meta_discontinuous(a["fs"])), b(cont), cq.extent(a["stencil"]),
                b(impl.auw(k, loop)), b(halo.kernel_gh_write_continuous(kerns[ki]))))
        self.pcases.append(("CPL %s %s %s %s" % (b(cfg), b(cont), core.coq_list(loops), prog), finfo))
        self.ctx.hist("placement_cases_loops_per_field", len(loops))

    def marks_cases(self, cq, sched, kerns, kis, block, info):
        impl = self.impl
        knodes = sched.walk(impl.Kern)
        seen = set()
        for ki in kis:
            k = knodes[ki]
            loop = k.ancestor(impl.LFRicLoop)
            if loop is None or kerns[ki]["intergrid"]:
                continue
            for arg in k.arguments.args:
                if not arg.is_field or arg.access.name == "READ" or arg.name in seen:
                    continue
                seen.add(arg.name)
                mine = [m for m in block if m[1] == arg.name and m[2] in (None, 1)]
                dirty = any(m[0] == "dirty" for m in mine)
                cleans = [m for m in mine if m[0] == "clean"]
                if len(cleans) > 1:
                    raise halo.OutOfSubset("two set_clean calls for one field in one block")
                clean = "None" if not cleans else "(Some %s)" % cq.sdepth(cleans[0][3])[0]
                self.add("marks", "CM %s %s %s" % (impl.warg(arg), b(dirty), clean),
                         dict(info, kernel=k.name, arg=arg.name, observed_marks=mine))


def run(ctx):
    ctx.cov["rule"] = (
        "invokes of 1-4 calls drawn from 39 LFRic test kernels, kernels with generated metadata (all access modes x "
        "continuous/discontinuous/any_space spaces x stencil types, vectors, operators, domain kernels) and 17 built-ins, "
        "annexed-dofs setting on/off, x histories of 0-5 transformations (redundant computation to depth 1-3 or max, "
        "colouring, OpenMP parallel-do / parallel region, asynchronous halo exchange, move); plus 19 fixed cases "
        "(finding witnesses, PSyclone test algorithms). The generated PSy code of each accepted case is run on the "
        "abstract halo machine for every field from every initial state (recorded depth 0..M, annexed clean/dirty), "
        "M = 1..3, extents 1..M.  non-trivial = the generated code contains a halo exchange or a transformation was "
        "accepted; distinct = (invoke, accepted history)")
    ctx.cov["trusted_base"] = core.BASE_TRUST + [
        "ground truth of the abstract machine (what a kernel argument reads of the halo / what a loop leaves clean; "
        "LFRic run-time contract of halo_exchange/set_dirty/set_clean/is_dirty) is MODELLED from "
        "doc/developer_guide/APIs.rst, not verified (props/C22/NOTES.md)",
        "props/C22/halo.py: fail-closed reader of the generated Fortran, Python abstract machine (cross-checked "
        "against the Coq machine on every case)",
        "coq/C22/Model.v part A is a hand-written model of dynamo0p3.py / lfric_loop.py; tied by this correspondence run",
        "kernel metadata as parsed by PSyclone (property C21)"]
    ctx.assumptions = [
        "LFRic run-time contract: halo_exchange(d) cleans depths 1..d and annexed dofs; set_dirty(); set_clean(d) marks "
        "1..d clean; is_dirty(d) tests depth d; recorded flags are monotone in depth",
        "initial state: recorded = actual clean depth; annexed dofs clean if depth-1 halo clean; with "
        "COMPUTE_ANNEXED_DOFS annexed dofs are clean on entry (and the check demands them clean on exit)",
        "run-time stencil extents >= 1 and every loop/stencil stays within the halo depth M (otherwise the LFRic "
        "run time aborts: not a dirty read)",
        "theorem premises compat_r / compat_w (structural facts relating PSyclone's loop descriptors to the generated "
        "bounds) are evaluated on every generated argument"]
    ok, rep = ctx.prove()
    ctx.log("proof ok=%s discharged=%d/%d" % (ok, ctx.cov["discharged"], ctx.cov["obligations"]))
    okh, outh = ctx.coq_make(["C22/Harness.vo", "C22/Harness2.vo"])
    if not okh:
        ok = False
        rep.setdefault("errors", []).append("coq/C22/Harness.v does not build: " + outh[-1500:])
    rn = Runner(ctx)
    ctx.notes["required_fix_present_in_tree"] = rn.fixed
    ctx.notes["gh_write_special_case_fix_present_in_tree"] = rn.impl.fix_f1
    t0 = time.time()
    for name, spec, steps in TARGETED:
        rn.one(name, json.loads(json.dumps(spec)), steps)
    for name, spec, steps in TARGETED:
        if steps and (ctx.thorough or name in ("rc-chain", "req-several-depths-unknown", "inc-max-writer-then-readers",
                                               "multikernel", "annexed-on-inc-and-builtins")):
            rn.one(name + "-untransformed", json.loads(json.dumps(spec)), [])
    ctx.log("targeted cases done: %.0fs" % (time.time() - t0))
    t0 = time.time()
    rng = ctx.rng("gen")
    g = halo.Gen(rng, ctx.thorough)
    n = ctx.pick(34, 420)
    budget = ctx.pick(22, 480)
    done = 0
    for i in range(n):
        if time.time() - t0 > budget:
            break
        spec = g.gen_invoke()
        steps = g.gen_history()
        rn.one("gen%d" % i, spec, steps)
        done += 1
    ctx.notes["generated_cases_run"] = done
    ctx.notes["distinct_model_cases"] = len(rn.cases)
    ctx.log("cases run: %d targeted + %d generated in %.0fs; distinct model cases: %d; property failures: %d"
            % (len(TARGETED), done, time.time() - t0, len(rn.cases), len(rn.prop_failures)))
    # ---- Coq evaluation
    header = "From PV Require Import C22.Model C22.Required C22.Access C22.Harness.\nOpen Scope N_scope."
    failing = ctx.coq_eval_failing(header, "hcase", "check", [c[1] for c in rn.cases], shard=ctx.pick(max(60, (len(rn.cases) + 3) // 4), 1200))
    bykind = {}
    for c in rn.cases:
        ctx.hist("model_cases", c[0])
    for i in failing:
        bykind.setdefault(rn.cases[i][0], []).append(i)
    notwp = bykind.pop("well_placed", [])
    ctx.cov["disagreements_checked"] = sum(len(v) for v in bykind.values())
    ctx.notes["well_placed_false"] = len(notwp)
    ctx.log("model/impl disagreements: %s ; well_placed false: %d" % ({k: len(v) for k, v in bykind.items()}, len(notwp)))
    # ---- placement model (Place.place) = generated code, untransformed invokes
    seenp, pc = set(), []
    for t, i in rn.pcases:
        if t not in seenp:
            seenp.add(t)
            pc.append((t, i))
    pfail = ctx.coq_eval_failing("From PV Require Import C22.Model C22.Access C22.Harness C22.Place C22.Harness2.\nOpen Scope N_scope.",
                                 "pcase", "pcheck", [t for t, _ in pc], shard=max(60, (len(pc) + 3) // 4)) if pc else []
    ctx.notes["placement_cases"] = len(pc)
    ctx.log("placement model cases: %d, disagreements: %d" % (len(pc), len(pfail)))
    if pfail:
        bykind["placement"] = []
        ctx.cov["disagreements_checked"] += len(pfail)
        ctx.violation({"property": "C22", "broken": "correspondence Place.place (model of create_halo_exchanges, untransformed "
                       "invokes) = generated code: x%d" % len(pfail), "first_differing_case": pc[pfail[0]][1],
                       "coq_term": pc[pfail[0]][0]}, no_input=True)
        bykind.pop("placement")
    # ---- verdict
    reported = set()
    for key, code, replay in rn.prop_failures:
        if key in reported:
            continue
        reported.add(key)
        ctx.finding(key, "%s (%s)" % (key, code), replay)
    # well_placed must hold for every field on which the machine found nothing; where the machine found a
    # failure it must be false (the theorem says so): a field that fails the sufficient condition without a
    # concrete failing input is reported only if it is not explained by a concrete failure of the same case
    unexplained = [i for i in notwp if rn.cases[i][2]["python_machine_safe"]]
    ctx.notes["well_placed_false_without_failure"] = len(unexplained)
    if unexplained:
        i = unexplained[0]
        ctx.violation({"property": "C22", "broken": "generated invoke outside the proved-sufficient placement condition "
                       "(well_placed = false) although no failing configuration with M <= 3 was found",
                       "first_case": rn.cases[i][2], "coq_term": rn.cases[i][1], "n": len(unexplained)}, no_input=True)
    if bykind or not ok:
        first = None
        for kind, idxs in sorted(bykind.items()):
            first = first or {"kind": kind, "info": rn.cases[idxs[0]][2], "coq_term": rn.cases[idxs[0]][1]}
        ctx.violation({"property": "C22",
                       "broken": ("correspondence between coq/C22/Model.v and the implementation: "
                                  + ", ".join("%s x%d" % (k, len(v)) for k, v in sorted(bykind.items()))) if bykind
                       else "proof obligations of Properties/C22.v",
                       "proof_report": rep if not ok else None, "first_differing_case": first},
                      no_input=True)
