"""C22 harness library: invoke/kernel/history generator, PSyclone driver, fail-closed reader of the
generated PSy layer, and the ground-truth abstract halo machine (see NOTES.md for where the ground
truth comes from: doc/developer_guide/APIs.rst, sections "Cell iterators", "Dof iterators",
"Halo Exchange Logic").  Nothing in this file looks at PSyclone's halo logic (HaloReadAccess,
HaloWriteAccess, required, _halo_read_access): the machine only uses kernel metadata, the loop
bounds found in the generated code and the halo_exchange/set_dirty/set_clean/is_dirty calls found
in the generated code."""
import ast
import hashlib
import itertools
import re
from pathlib import Path

# ----------------------------------------------------------------------------- function spaces
CONT = ["w0", "w1", "w2", "w2trace", "w2h", "w2htrace"]
DISC = ["w3", "wtheta", "w2v", "w2vtrace", "w2broken"]
REAL_SPACES = CONT + DISC + ["wchi_c", "wchi_d"]   # wchi (read-only): continuity not fixed by the API -> both variants
ANY_W2 = ["w2", "w2h", "w2v", "w2broken"]


def admissible(meta_fs):
    """real function spaces a field passed to an argument with this metadata space may live on"""
    if meta_fs.startswith("any_space_"):
        return set(REAL_SPACES)
    if meta_fs.startswith("any_discontinuous_space_"):
        return set(DISC) | {"wchi_d"}
    if meta_fs == "any_w2":
        return set(ANY_W2)
    if meta_fs == "wchi":
        return {"wchi_c", "wchi_d"}
    return {meta_fs}


def real_continuous(space):
    return space in CONT or space == "wchi_c"


def continuity_candidates(uses):
    """possible continuity values (True = continuous) of a field; uses = [(metadata space, access)]"""
    adm = set(REAL_SPACES)
    for m, acc in uses:
        adm &= admissible(m)
        if acc != "READ":
            adm -= {"wchi_c", "wchi_d"}
    return sorted({real_continuous(s) for s in adm})


def meta_discontinuous(meta_fs):
    return meta_fs in DISC or meta_fs.startswith("any_discontinuous_space_")


# ----------------------------------------------------------------------------- kernel sources
def kern_src(name, spec):
    lines = []
    for a in spec["args"]:
        if a["t"] == "field":
            extra = ""
            if a.get("vec", 1) > 1:
                ftype = "gh_field*%d" % a["vec"]
            else:
                ftype = "gh_field"
            if a.get("stencil"):
                extra += ", stencil(%s)" % a["stencil"]
            if a.get("mesh"):
                extra += ", mesh_arg=%s" % a["mesh"]
            lines.append("arg_type(%s, gh_real, %s, %s%s)" % (ftype, a["acc"], a["fs"], extra))
        elif a["t"] == "op":
            lines.append("arg_type(gh_operator, gh_real, %s, %s, %s)" % (a["acc"], a["fs"], a["fs2"]))
        else:
            lines.append("arg_type(gh_scalar, gh_real, gh_read)")
    meta = ", &\n          ".join(lines)
    return ("module %s_mod\n  use argument_mod\n  use fs_continuity_mod\n  use kernel_mod\n"
            "  use constants_mod\n  implicit none\n  type, extends(kernel_type) :: %s_type\n"
            "     type(arg_type), dimension(%d) :: meta_args = (/ &\n          %s /)\n"
            "     integer :: operates_on = %s\n   contains\n     procedure, nopass :: code => %s_code\n"
            "  end type %s_type\ncontains\n  subroutine %s_code()\n  end subroutine %s_code\n"
            "end module %s_mod\n" % (name, name, len(spec["args"]), meta, spec["on"], name, name, name, name, name))


def kern_name(spec):
    h = hashlib.sha1(repr(sorted(spec.items())).encode()).hexdigest()[:8]
    return "k%s" % h


# real-valued built-ins used by the generator: name -> pattern (F field, C real literal, S real scalar variable)
BUILTINS = {
    "setval_c": "FC", "setval_x": "FF", "X_plus_Y": "FFF", "inc_X_plus_Y": "FF", "aX_plus_Y": "FCFF",
    "inc_aX_plus_Y": "CFF", "a_times_X": "FCF", "inc_a_times_X": "CF", "X_times_Y": "FFF",
    "inc_X_times_Y": "FF", "X_minus_Y": "FFF", "inc_X_powreal_a": "FC", "X_innerproduct_Y": "SFF",
    "sum_X": "SF", "X_innerproduct_X": "SF", "X_divideby_Y": "FFF", "setval_random": "F",
}

# test kernels of /repo/src/psyclone/tests/test_files/dynamo0p3 used by the generator: type name -> argument
# pattern as [(kind, meta_fs, vec, stencil)] in call order; kind f = field, s = real scalar, i = int scalar,
# o = operator.  The pattern is only used to build the algorithm call; all semantics come from PSyclone's
# parse of the kernel metadata.  (Verified against the metadata by Driver.check_testkern.)
TESTKERNS = {
    "testkern_type": [("s",), ("f", "w1"), ("f", "w2"), ("f", "w2"), ("f", "w3")],
    "testkern_w3_type": [("s",), ("f", "w0"), ("f", "w1"), ("f", "w2"), ("f", "w3")],
    "testkern_w2v_type": [("f", "w2v"), ("f", "wtheta")],
    "testkern_wtheta_type": [("f", "wtheta"), ("f", "any_discontinuous_space_1")],
    "testkern_w0_type": [("f", "w0"), ("f", "w0")],
    "testkern_w0_readinc_type": [("f", "w0"), ("f", "w0")],
    "testkern_w2_only_type": [("f", "w2"), ("f", "w2")],
    "testkern_stencil_type": [("f", "w1"), ("f", "w2", 1, "cross"), ("f", "w2"), ("f", "w3")],
    "testkern_stencil_region_type": [("f", "w1"), ("f", "w2", 1, "region"), ("f", "w2"), ("f", "w3")],
    "testkern_stencil_xory1d_type": [("f", "w1"), ("f", "w2", 1, "xory1d"), ("f", "w2"), ("f", "w3")],
    "testkern_stencil_cross2d_type": [("f", "w1"), ("f", "w2", 1, "cross2d"), ("f", "w2"), ("f", "w3")],
    "testkern_stencil_w3_type": [("f", "w3"), ("f", "w2", 1, "cross")],
    "testkern_stencil_depth_type": [("f", "w3"), ("f", "w1", 1, "cross"), ("f", "w2", 1, "cross"), ("f", "w3", 1, "cross")],
    "testkern_stencil_multi_type": [("f", "w1"), ("f", "w2", 1, "cross"), ("f", "w2", 1, "xory1d"), ("f", "w3", 1, "x1d")],
    "testkern_write_w2_stencil_type": [("f", "w2"), ("f", "w2", 1, "cross"), ("f", "w2", 1, "cross"), ("s",)],
    "testkern_same_anyspace_stencil_type": [("f", "w1"), ("f", "any_space_1", 1, "cross"), ("f", "any_space_1", 1, "cross")],
    "testkern_different_any_dscnt_space_stencil_type": [("f", "wtheta"), ("f", "any_discontinuous_space_1", 1, "cross"),
                                                        ("f", "any_discontinuous_space_2", 1, "cross")],
    "testkern_stencil_vector_type": [("f", "w0", 3), ("f", "w3", 4, "cross")],
    "testkern_any_space_1_type": [("f", "any_space_1"), ("s",), ("f", "any_space_2"), ("f", "w0", 3), ("q",)],
    "testkern_anyd_any_space_type": [("f", "any_discontinuous_space_1"), ("f", "any_space_1"), ("f", "any_w2")],
    "testkern_write_any_type": [("f", "any_space_1"), ("f", "w2")],
    "testkern_eval_anydspace1_type": [("f", "any_discontinuous_space_1"), ("f", "w0"), ("f", "w1")],
    "testkern_with_call_type": [("f", "w3"), ("f", "any_space_9", 3), ("s",), ("s2",)],
    "testkern_w3_only_vector_type": [("f", "w3", 3), ("f", "w3", 3)],
    "testkern_wtheta_only_vector_type": [("f", "wtheta", 3), ("f", "wtheta", 3)],
    "testkern_coord_w0_type": [("f", "w0"), ("f", "w0", 3), ("f", "w0")],
    "testkern_chi_read_type": [("f", "w0"), ("f", "wchi", 3)],
    "testkern_anyw2_stencil_type": [("f", "any_w2"), ("f", "any_w2", 1, "cross"), ("f", "any_w2", 1, "cross")],
    "testkern_multi_anyw2_type": [("f", "any_w2"), ("f", "any_w2"), ("f", "any_w2")],
    "testkern_writers_type": [("f", "w3"), ("f", "w1"), ("f", "w1"), ("f", "w1"), ("f", "w3"), ("f", "w3"), ("f", "w1"), ("f", "w1")],
    "testkern_domain_type": [("s",), ("f", "w3")],
    "ru_kernel_type": [("f", "w2"), ("f", "w3"), ("i",), ("s",), ("f", "w0"), ("f", "w0", 3), ("q",)],
    "simple_type": [("f", "w1")],
    "testkern_operator_read_type": [("o",), ("f", "w3", 3), ("i",), ("q",)],
    "matrix_vector_kernel_type": [("f", "any_space_1"), ("f", "any_space_1"), ("o",)],
    "testkern_eval_op_to_w0_type": [("o",), ("f", "w3"), ("f", "w0")],
    "tl_testkern_type": [("f", "w2"), ("f", "w1")],
}
TESTKERN_MODULE = {"simple_type": "testkern_simple_mod", "ru_kernel_type": "ru_kernel_mod",
                   "matrix_vector_kernel_type": "matrix_vector_kernel_mod", "tl_testkern_type": "tl_testkern_mod"}


# ----------------------------------------------------------------------------- generator
class Gen:
    """seeded generator of invoke specs (JSON-able dicts) and transformation histories"""

    def __init__(self, rng, thorough=False):
        self.rng = rng
        self.thorough = thorough

    # -- kernels with generated metadata
    def gen_kernel(self):
        r = self.rng
        on = r.choice(["cell_column"] * 12 + ["domain"])
        args = []
        if on == "domain":
            fs = r.choice(DISC + ["any_discontinuous_space_1"])
            args.append({"t": "field", "acc": r.choice(["gh_readwrite", "gh_write"]), "fs": fs})
            for _ in range(r.randint(0, 2)):
                args.append({"t": "field", "acc": "gh_read", "fs": r.choice(DISC)})
            return {"on": on, "args": args}
        nwr = r.choice([1, 1, 1, 2])
        for _ in range(nwr):
            kind = r.choice(["cinc", "cinc", "cwrite", "crinc", "dwrite", "drw", "ainc", "awrite"])
            if kind == "cinc":
                a = {"t": "field", "acc": "gh_inc", "fs": r.choice(CONT + ["any_w2"])}
            elif kind == "cwrite":
                a = {"t": "field", "acc": "gh_write", "fs": r.choice(CONT + ["any_w2"])}
            elif kind == "crinc":
                a = {"t": "field", "acc": "gh_readinc", "fs": r.choice(CONT + ["any_space_3"])}
            elif kind == "dwrite":
                a = {"t": "field", "acc": "gh_write", "fs": r.choice(DISC + ["any_discontinuous_space_2"])}
            elif kind == "drw":
                a = {"t": "field", "acc": "gh_readwrite", "fs": r.choice(DISC + ["any_discontinuous_space_2"])}
            elif kind == "ainc":
                a = {"t": "field", "acc": "gh_inc", "fs": "any_space_1"}
            else:
                a = {"t": "field", "acc": "gh_write", "fs": "any_space_1"}
            if r.random() < 0.12:
                a["vec"] = r.choice([2, 3])
            args.append(a)
        for _ in range(r.choice([0, 1, 1, 2, 2, 3])):
            fs = r.choice(CONT + DISC + ["any_space_1", "any_space_2", "any_discontinuous_space_1", "any_w2", "wchi"])
            a = {"t": "field", "acc": "gh_read", "fs": fs}
            if r.random() < 0.4:
                a["stencil"] = r.choice(["cross", "region", "x1d", "y1d", "xory1d", "cross2d"])
            if r.random() < 0.12:
                a["vec"] = r.choice([2, 3])
            args.append(a)
        if r.random() < 0.15:
            args.append({"t": "scalar"})
        if r.random() < 0.08:
            fs = r.choice(["w0", "w2", "w3"])
            args.append({"t": "op", "acc": r.choice(["gh_read", "gh_read", "gh_write"]), "fs": fs, "fs2": fs})
        r.shuffle(args)
        return {"on": on, "args": args}

    # -- invoke
    def gen_invoke(self, nmax=4):
        r = self.rng
        n = r.choice([1, 2, 2, 3, 3, 4][:max(1, nmax + 2)])
        n = min(n, nmax)
        fields = {}      # name -> {"space": real space, "vec": n}
        calls, kernels = [], {}
        nvars = {"ext": 0}

        def pick_field(meta_fs, vec, fixed_space=None, avoid=()):
            adm = admissible(meta_fs)
            if meta_fs != "wchi":
                adm = adm - {"wchi_c", "wchi_d"}     # a wchi (read-only) field is only passed to wchi arguments
            if fixed_space:
                adm = adm & {fixed_space}
            cands = [f for f, d in fields.items() if d["space"] in adm and d["vec"] == vec and f not in avoid]
            if cands and r.random() < 0.75:
                return r.choice(cands)
            name = "f%d" % (len(fields) + 1)
            fields[name] = {"space": r.choice(sorted(adm)), "vec": vec}
            return name

        def stencil_actuals(st):
            out = []
            if r.random() < 0.5:
                out.append(str(r.choice([1, 1, 2, 3])))
            else:
                v = "ext%d" % r.choice([1, 2])
                out.append(v)
            if st == "xory1d":
                out.append("x_direction")
            return out

        for _ in range(n):
            kind = r.choice(["test", "test", "gen", "gen", "gen", "builtin", "builtin"])
            if kind == "builtin":
                name = r.choice(sorted(BUILTINS))
                space = None
                actual, used = [], []
                for ch in BUILTINS[name]:
                    if ch == "F":
                        f = pick_field("any_space_1", 1, fixed_space=space, avoid=used)
                        space = fields[f]["space"]
                        used.append(f)
                        actual.append(f)
                    elif ch == "C":
                        actual.append("0.5_r_def")
                    else:
                        actual.append("s1")
                calls.append({"kern": name, "builtin": True, "actual": actual})
                continue
            if kind == "test":
                tname = r.choice(sorted(TESTKERNS))
                pattern = TESTKERNS[tname]
                kname = tname
            else:
                spec = self.gen_kernel()
                kname = kern_name(spec) + "_type"
                kernels[kname[:-5]] = spec
                pattern = []
                for a in spec["args"]:
                    if a["t"] == "field":
                        pattern.append(("f", a["fs"], a.get("vec", 1), a.get("stencil")))
                    elif a["t"] == "op":
                        pattern.append(("o",))
                    else:
                        pattern.append(("s",))
            actual, used, anymap = [], [], {}
            for p in pattern:
                if p[0] == "f":
                    fs = p[1]
                    vec = p[2] if len(p) > 2 else 1
                    st = p[3] if len(p) > 3 else None
                    f = pick_field(fs, vec, fixed_space=anymap.get(fs), avoid=used)
                    if fs.startswith("any_"):
                        anymap[fs] = fields[f]["space"]
                    used.append(f)
                    actual.append(f)
                    if st:
                        actual += stencil_actuals(st)
                elif p[0] == "s":
                    actual.append("s1")
                elif p[0] == "i":
                    actual.append("i1")
                elif p[0] == "q":
                    actual.append("qr")
                elif p[0] == "s2":
                    actual.append("s2")
                else:
                    actual.append("op1")
            calls.append({"kern": kname, "builtin": False, "actual": actual})
        return {"annexed": r.random() < 0.5, "calls": calls, "kernels": kernels,
                "fields": {f: d["vec"] for f, d in fields.items()}}

    def gen_history(self, maxlen=5):
        """abstract steps; indices are reduced modulo the number of candidates when applied"""
        r = self.rng
        n = r.choice([0, 1, 1, 2, 2, 3, 3, 4, 5])
        n = min(n, maxlen)
        steps = []
        for _ in range(n):
            k = r.choice(["rc", "rc", "rc", "rc", "colour", "colour", "omp", "omp", "region", "async", "async", "move", "move"])
            if k == "rc":
                steps.append(["rc", r.randrange(64), r.choice([1, 1, 2, 2, 3, None, None])])
            elif k in ("colour", "omp", "async"):
                steps.append([k, r.randrange(64)])
            elif k == "region":
                steps.append(["region", r.randrange(64), r.choice([1, 2, 2, 3])])
            else:
                steps.append(["move", r.randrange(64), r.randrange(64), r.choice(["before", "after"])])
        # order so that the commonly-required order (rc, colour, omp) is frequent but not forced
        if r.random() < 0.6:
            pri = {"rc": 0, "colour": 1, "move": 2, "async": 3, "omp": 4, "region": 4}
            steps.sort(key=lambda s: pri[s[0]])
        return steps


def alg_src(spec):
    uses, invs = set(), []
    for c in spec["calls"]:
        if c["builtin"]:
            invs.append("%s(%s)" % (c["kern"], ", ".join(c["actual"])))
        else:
            t = c["kern"]
            mod = TESTKERN_MODULE.get(t, t[:-5] + "_mod")
            uses.add("  use %s, only: %s" % (mod, t))
            invs.append("%s(%s)" % (t, ", ".join(c["actual"])))
    decl = []
    for f, vec in sorted(spec["fields"].items()):
        decl.append("  type(field_type) :: %s%s" % (f, "(%d)" % vec if vec > 1 else ""))
    return ("program gen_alg\n  use field_mod, only: field_type\n  use operator_mod, only: operator_type\n"
            "  use constants_mod, only: r_def, i_def\n  use flux_direction_mod, only: x_direction\n"
            "  use quadrature_xyoz_mod, only: quadrature_xyoz_type\n%s\n  implicit none\n%s\n"
            "  type(operator_type) :: op1\n  type(quadrature_xyoz_type) :: qr\n  real(r_def) :: s1, s2\n  integer(i_def) :: i1, ext1, ext2\n"
            "  call invoke( &\n       %s )\nend program gen_alg\n"
            % ("\n".join(sorted(uses)), "\n".join(decl), ", &\n       ".join(invs)))


# ----------------------------------------------------------------------------- PSyclone driver
class Rejected(Exception):
    """the invoke / history is not accepted by PSyclone (no output to check)"""


class Driver:
    TESTFILES = "src/psyclone/tests/test_files/dynamo0p3"

    def __init__(self, repo, scratch):
        self.repo = Path(repo)
        self.dir = Path(scratch) / "c22kern"
        self.dir.mkdir(parents=True, exist_ok=True)
        from psyclone.configuration import Config
        Config.get().api = "dynamo0.3"
        self.Config = Config
        self.written = set()

    def set_annexed(self, flag):
        self.Config.get().api_conf("lfric")._compute_annexed_dofs = bool(flag)

    def build(self, spec):
        """returns (psy, schedule); raises Rejected when PSyclone refuses the invoke"""
        from psyclone.parse.algorithm import parse
        from psyclone.psyGen import PSyFactory
        from psyclone.errors import PSycloneError
        from psyclone.parse.utils import ParseError
        self.set_annexed(spec["annexed"])
        if spec.get("file"):
            path = self.repo / self.TESTFILES / spec["file"]
        else:
            for k, ks in spec["kernels"].items():
                if k not in self.written:
                    (self.dir / (k + "_mod.f90")).write_text(kern_src(k, ks))
                    self.written.add(k)
            src = alg_src(spec)
            h = hashlib.sha1(src.encode()).hexdigest()[:12]
            path = self.dir / ("alg_%s.f90" % h)
            path.write_text(src)
        try:
            _, info = parse(str(path), api="dynamo0.3", kernel_paths=[str(self.dir), str(self.repo / self.TESTFILES)])
            psy = PSyFactory("dynamo0.3", distributed_memory=True).create(info)
        except (PSycloneError, ParseError) as e:
            raise Rejected("build: %s: %s" % (type(e).__name__, str(e)[:300]))
        inv = psy.invokes.invoke_list[spec.get("invoke", 0)]
        return psy, inv.schedule

    # ---- transformation histories
    def apply_history(self, sched, steps):
        """applies the abstract steps; returns the list of concrete accepted steps (for replay) and
        the list of rejected ones.  Raises Rejected if an apply() fails after validate() passed."""
        from psyclone import transformations as T
        from psyclone.domain.lfric import LFRicLoop
        from psyclone.dynamo0p3 import LFRicHaloExchange, LFRicHaloExchangeStart, LFRicHaloExchangeEnd
        from psyclone.psyir.transformations import TransformationError
        from psyclone.errors import PSycloneError
        accepted, rejected = [], []

        def leaf_loops():
            return [l for l in sched.walk(LFRicLoop) if l.loop_type != "colours"]

        for st in steps:
            kind = st[0]
            try:
                if kind == "rc":
                    ls = leaf_loops()
                    if not ls:
                        continue
                    i = st[1] % len(ls)
                    tr, tgt, opts = T.Dynamo0p3RedundantComputationTrans(), ls[i], ({"depth": st[2]} if st[2] else {})
                    tr.validate(tgt, opts)
                    desc = ["rc", i, st[2]]
                    call = lambda: tr.apply(tgt, opts)
                elif kind == "colour":
                    ls = leaf_loops()
                    if not ls:
                        continue
                    i = st[1] % len(ls)
                    tr, tgt = T.Dynamo0p3ColourTrans(), ls[i]
                    desc = ["colour", i]
                    call = lambda: tr.apply(tgt)
                elif kind == "omp":
                    ls = leaf_loops()
                    if not ls:
                        continue
                    i = st[1] % len(ls)
                    tr, tgt = T.DynamoOMPParallelLoopTrans(), ls[i]
                    desc = ["omp", i]
                    call = lambda: tr.apply(tgt)
                elif kind == "region":
                    ch = sched.children
                    i = st[1] % len(ch)
                    nodes = ch[i:i + st[2]]
                    tr = T.OMPParallelTrans()
                    tr.validate(nodes)
                    desc = ["region", i, len(nodes)]

                    def call(nodes=nodes, tr=tr):
                        inner = []
                        for n in nodes:
                            inner += [l for l in n.walk(LFRicLoop) if l.loop_type != "colours"]
                        tr.apply(nodes)
                        for l in inner:
                            try:
                                T.Dynamo0p3OMPLoopTrans().apply(l)
                            except TransformationError:
                                pass
                elif kind == "async":
                    hx = [h for h in sched.walk(LFRicHaloExchange)
                          if not isinstance(h, (LFRicHaloExchangeStart, LFRicHaloExchangeEnd))]
                    if not hx:
                        continue
                    i = st[1] % len(hx)
                    tr, tgt = T.Dynamo0p3AsyncHaloExchangeTrans(), hx[i]
                    desc = ["async", i]
                    call = lambda: tr.apply(tgt)
                elif kind == "move":
                    ch = sched.children
                    if len(ch) < 2:
                        continue
                    i, j = st[1] % len(ch), st[2] % len(ch)
                    if i == j:
                        continue
                    tr, node, loc, pos = T.MoveTrans(), ch[i], ch[j], st[3]
                    tr.validate(node, loc, {"position": pos})
                    desc = ["move", i, j, pos]
                    call = lambda: tr.apply(node, loc, {"position": pos})
                else:
                    raise ValueError(kind)
            except TransformationError as e:
                rejected.append([st, str(e)[:120]])
                continue
            except PSycloneError as e:
                # validate raised something else than TransformationError: treated as a refusal
                rejected.append([st, "%s: %s" % (type(e).__name__, str(e)[:120])])
                continue
            try:
                call()
            except TransformationError as e:
                # colour/omp/async have no separate validate call above
                rejected.append([st, str(e)[:120]])
                continue
            except PSycloneError as e:
                raise Rejected("apply %s raised %s: %s" % (desc, type(e).__name__, str(e)[:200]))
            accepted.append(desc)
        return accepted, rejected

    def generate(self, psy):
        from psyclone.errors import PSycloneError
        try:
            return str(psy.gen)
        except PSycloneError as e:
            raise Rejected("gen: %s: %s" % (type(e).__name__, str(e)[:300]))


# ----------------------------------------------------------------------------- schedule facts (metadata only)
def kernel_facts(sched):
    """[(kernel name, iterates_over, is_builtin, [arg facts])] in schedule (= generated code) order, and
    the proxy-name -> (field, vector size) map.  Only metadata-level facts are read from PSyclone."""
    from psyclone.psyGen import Kern
    from psyclone.domain.lfric import LFRicLoop
    kerns, proxies = [], {}
    for k in sched.walk(Kern):
        args = []
        for a in k.arguments.args:
            if not a.is_field:
                continue
            st = None
            if a.descriptor.stencil:
                ext = a.descriptor.stencil["extent"]
                if ext:
                    st = ("lit", int(ext))
                elif a.stencil.extent_arg.is_literal():
                    st = ("lit", int(a.stencil.extent_arg.text))
                else:
                    st = ("var", a.stencil.extent_arg.varname)
            acc = a.access.name
            args.append({"field": a.name, "acc": acc, "fs": a.function_space.orig_name, "vec": a.vector_size,
                         "stencil": st, "stype": a.descriptor.stencil["type"] if a.descriptor.stencil else None,
                         "mesh": a.mesh})
            proxies[a.proxy_name] = (a.name, a.vector_size)
        loop = k.ancestor(LFRicLoop)
        from psyclone.domain.lfric.lfric_builtins import LFRicBuiltIn
        kerns.append({"name": k.name, "on": k.iterates_over, "builtin": isinstance(k, LFRicBuiltIn),
                      "intergrid": bool(getattr(k, "is_intergrid", False)), "args": args,
                      "node_bound": (loop.upper_bound_name, loop.upper_bound_halo_depth, loop.loop_type) if loop else None})
    return kerns, proxies


# ----------------------------------------------------------------------------- reader of the generated code
class OutOfSubset(Exception):
    pass


_DEPTH_NAME = re.compile(r"^[a-z_][a-z0-9_]*$")


def parse_depth(expr):
    """depth expression of the generated code -> nested tuples ('lit', n) | ('var', name) | ('max',) |
    ('add', a, b) | ('sub', a, b) | ('mul', a, b) | ('maxof', [..]);  fail closed."""
    try:
        tree = ast.parse(expr.strip().lower(), mode="eval").body
    except SyntaxError:
        raise OutOfSubset("depth expression %r" % expr)

    def conv(n):
        if isinstance(n, ast.Constant) and isinstance(n.value, int):
            return ("lit", n.value)
        if isinstance(n, ast.Name):
            if n.id.startswith("max_halo_depth_mesh"):
                return ("max", n.id)
            return ("var", n.id)
        if isinstance(n, ast.BinOp) and isinstance(n.op, (ast.Add, ast.Sub, ast.Mult)):
            op = {ast.Add: "add", ast.Sub: "sub", ast.Mult: "mul"}[type(n.op)]
            return (op, conv(n.left), conv(n.right))
        if isinstance(n, ast.Call) and isinstance(n.func, ast.Name) and n.func.id == "max" and not n.keywords:
            return ("maxof", [conv(a) for a in n.args])
        raise OutOfSubset("depth expression %r" % expr)
    return conv(tree)


def eval_depth(e, M, env):
    k = e[0]
    if k == "lit":
        return e[1]
    if k == "var":
        if e[1] not in env:
            raise OutOfSubset("unknown variable %r in depth expression" % e[1])
        return env[e[1]]
    if k == "max":
        return M
    if k == "maxof":
        return max(eval_depth(x, M, env) for x in e[1])
    a, b = eval_depth(e[1], M, env), eval_depth(e[2], M, env)
    return a + b if k == "add" else (a - b if k == "sub" else a * b)


RE_DO = re.compile(r"^DO (\w+) = (.+?), (.+), 1$")
RE_HX = re.compile(r"^CALL (\w+)(?:\((\d+)\))?%(halo_exchange|halo_exchange_start|halo_exchange_finish)\(depth=(.+)\)$")
RE_IFD = re.compile(r"^IF \((\w+)(?:\((\d+)\))?%is_dirty\(depth=(.+)\)\) THEN$")
RE_DIRTY = re.compile(r"^CALL (\w+)(?:\((\d+)\))?%set_dirty\(\)$")
RE_CLEAN = re.compile(r"^CALL (\w+)(?:\((\d+)\))?%set_clean\((.+)\)$")
RE_CALL = re.compile(r"^CALL (\w+)\(")
RE_BUILTIN = re.compile(r"^! Built-in: (\w+)")
RE_BOUND = re.compile(r"^loop(\d+)_(start|stop) = (.+)$")
SENSITIVE = ("halo_exchange", "set_clean", "set_dirty", "is_dirty")


def classify_bound(expr):
    """upper-bound expression of the generated code -> ('cells', D) | ('dofs', 'owned'|'annexed'|D) |
    ('colours',) with D an int or 'max'"""
    e = expr.replace(" ", "")
    m = re.match(r"^(\w+)%get_last_edge_cell\(\)$", e)
    if m:
        return ("cells", 0)
    m = re.match(r"^(\w+)%get_last_halo_cell\((\d*)\)$", e)
    if m:
        return ("cells", int(m.group(2)) if m.group(2) else "max")
    m = re.match(r"^\w+(?:\(\d+\))?%vspace%get_last_dof_(owned|annexed)\(\)$", e)
    if m:
        return ("dofs", m.group(1))
    m = re.match(r"^\w+(?:\(\d+\))?%vspace%get_last_dof_halo\((\d*)\)$", e)
    if m:
        return ("dofs", int(m.group(1)) if m.group(1) else "max")
    if re.match(r"^ncolour(_\w+)?$", e):
        return ("colours",)
    m = re.match(r"^last_halo_cell_all_colours(?:_\w+)?\(colour,(\w+)\)$", e)
    if m:
        return ("cells", int(m.group(1)) if m.group(1).isdigit() else
                ("max" if m.group(1).startswith("max_halo_depth_mesh") else _bad(expr)))
    if re.match(r"^last_edge_cell_all_colours(?:_\w+)?\(colour\)$", e):
        return ("cells", 0)
    _bad(expr)


def _bad(x):
    raise OutOfSubset("loop bound %r" % x)


def read_generated(code, invoke_name, kerns, proxies):
    """the executable part of the generated invoke subroutine -> list of abstract statements:
       ('hx', field, idx|None, depth, checked, 'sync'|'start'|'finish')
       ('loop', bound, [kernel indices])            bound from classify_bound
       ('dirty', field, idx|None) / ('clean', field, idx|None, depth)
    Fail-closed (OutOfSubset) on anything that mentions the halo API and is not recognised."""
    m = re.search(r"SUBROUTINE %s\(.*?END SUBROUTINE %s" % (re.escape(invoke_name), re.escape(invoke_name)), code, re.S | re.I)
    if not m:
        raise OutOfSubset("subroutine %s not found" % invoke_name)
    body = m.group(0)
    if "! Call kernels and communication routines" not in body:
        raise OutOfSubset("no executable section marker")
    head, execpart = body.split("! Call kernels and communication routines", 1)
    bounds = {}
    for ln in head.split("\n"):
        ln = ln.strip()
        mb = RE_BOUND.match(ln)
        if mb:
            bounds["loop%s_%s" % (mb.group(1), mb.group(2))] = mb.group(3)
        elif any(s in ln for s in SENSITIVE):
            raise OutOfSubset("halo call in the declaration/initialisation part: %r" % ln)

    def fld(proxy, idx):
        if proxy not in proxies:
            raise OutOfSubset("unknown proxy %r" % proxy)
        name, vec = proxies[proxy]
        if (vec > 1) != (idx is not None):
            raise OutOfSubset("vector index mismatch for %r" % proxy)
        return name, (int(idx) if idx is not None else None)

    out = []
    dostack = []        # [bound or None]
    pending_if = None   # (field, idx, depth)
    kidx = 0
    for raw in execpart.split("\n"):
        ln = raw.strip()
        if not ln:
            continue
        up = ln
        mbi = RE_BUILTIN.match(up)
        if mbi:
            if kidx >= len(kerns) or not kerns[kidx]["builtin"] or kerns[kidx]["name"].lower() != mbi.group(1).lower():
                raise OutOfSubset("built-in %r out of order" % mbi.group(1))
            if not dostack or dostack[-1] is None:
                raise OutOfSubset("built-in outside a loop")
            dostack[-1][1].append(kidx)
            kidx += 1
            continue
        if up.startswith("!$omp") or up.startswith("!$acc"):
            continue
        if up.startswith("!"):
            continue
        md = RE_DO.match(up)
        if md:
            stop = md.group(3).strip()
            if re.match(r"^loop\d+_stop$", stop):
                if stop not in bounds:
                    raise OutOfSubset("no assignment to %s" % stop)
                stop = bounds[stop]
            start = md.group(2).strip()
            if re.match(r"^loop\d+_start$", start):
                start = bounds.get(start, "?")
            if start != "1":
                raise OutOfSubset("loop lower bound %r" % start)
            b = classify_bound(stop)
            ent = [b, []]
            dostack.append(ent)
            continue
        if up == "END DO":
            if not dostack:
                raise OutOfSubset("unbalanced END DO")
            ent = dostack.pop()
            if ent[0][0] != "colours":
                if not ent[1]:
                    raise OutOfSubset("loop without kernel")
                out.append(("loop", ent[0], ent[1]))
            continue
        mi = RE_IFD.match(up)
        if mi:
            if pending_if is not None:
                raise OutOfSubset("nested is_dirty")
            f, i = fld(mi.group(1), mi.group(2))
            pending_if = [f, i, parse_depth(mi.group(3)), 0]
            continue
        if up == "END IF":
            if pending_if is None or pending_if[3] != 1:
                raise OutOfSubset("END IF without matching is_dirty/halo_exchange")
            pending_if = None
            continue
        mh = RE_HX.match(up)
        if mh:
            # Redundant computation applied to an already coloured loop makes PSyclone insert the new exchanges
            # inside the loop over colours, before the loop over cells of one colour: executed once per colour.
            # Repeating an exchange between colours is value-preserving (NOTES.md): modelled as before the loop.
            if dostack and not (len(dostack) == 1 and dostack[0][0][0] == "colours" and not dostack[0][1]):
                raise OutOfSubset("halo exchange inside a loop")
            f, i = fld(mh.group(1), mh.group(2))
            d = parse_depth(mh.group(4))
            checked = False
            if pending_if is not None:
                if pending_if[:3] != [f, i, d]:
                    raise OutOfSubset("is_dirty test does not match the exchange: %r" % up)
                pending_if[3] += 1
                checked = True
            kind = {"halo_exchange": "sync", "halo_exchange_start": "start", "halo_exchange_finish": "finish"}[mh.group(3)]
            out.append(("hx", f, i, d, checked, kind))
            continue
        if pending_if is not None:
            raise OutOfSubset("unexpected statement inside is_dirty block: %r" % up)
        mdi = RE_DIRTY.match(up)
        if mdi:
            if dostack:
                raise OutOfSubset("set_dirty inside a loop")
            f, i = fld(mdi.group(1), mdi.group(2))
            out.append(("dirty", f, i))
            continue
        mc = RE_CLEAN.match(up)
        if mc:
            if dostack:
                raise OutOfSubset("set_clean inside a loop")
            f, i = fld(mc.group(1), mc.group(2))
            out.append(("clean", f, i, parse_depth(mc.group(3))))
            continue
        if any(s in up for s in SENSITIVE):
            raise OutOfSubset("unrecognised halo statement %r" % up)
        if up.startswith("DEALLOCATE (") or up.startswith("ALLOCATE ("):
            continue
        mcall = RE_CALL.match(up)
        if mcall:
            name = mcall.group(1)
            if name.upper() == "RANDOM_NUMBER" and dostack:
                continue       # body of the setval_random built-in
            if kidx < len(kerns) and not kerns[kidx]["builtin"] and kerns[kidx]["name"].lower() == name.lower():
                if dostack and dostack[-1] is not None:
                    dostack[-1][1].append(kidx)
                else:
                    if kerns[kidx]["on"] != "domain":
                        raise OutOfSubset("kernel call %s outside a loop" % name)
                    out.append(("loop", ("domain",), [kidx]))
                kidx += 1
                continue
            raise OutOfSubset("unexpected call %r" % up[:60])
        if up.startswith("DO ") or up.startswith("IF ") or up.startswith("CALL "):
            raise OutOfSubset("unrecognised control statement %r" % up[:80])
        if up.startswith("END SUBROUTINE"):
            break
        # assignments of built-ins / reductions: harmless
        if "=" in up:
            continue
        raise OutOfSubset("unrecognised statement %r" % up[:80])
    if dostack or pending_if is not None:
        raise OutOfSubset("unbalanced blocks")
    if kidx != len(kerns):
        raise OutOfSubset("only %d of %d kernels found in the generated code" % (kidx, len(kerns)))
    return out


# ----------------------------------------------------------------------------- ground truth
# (APIs.rst: "Cell iterators: Continuous", "Cell iterators: Discontinuous", "Dof iterators",
#  "Halo Exchange Logic / First Creation"; user guide dynamo0p3.rst "Stencils", "Redundant computation")
def depth_of(bound, M):
    d = bound[1]
    return M if d == "max" else d


def kernel_gh_write_continuous(kern):
    """developer guide, First Creation case 2: a kernel that modifies a continuous (or any_space) field and
    whose updates all have GH_WRITE access writes shared dofs with a cell-independent value and does not
    access annexed dofs of what it reads"""
    if kern["on"] != "cell_column":
        return False
    upd = [a for a in kern["args"] if a["acc"] != "READ"]
    return bool(upd) and all(a["acc"] == "WRITE" for a in upd) and any(not meta_discontinuous(a["fs"]) for a in upd)


def true_need(bound, kern, arg, cont, M, env):
    """what the kernel argument really reads of the field's halo: (depth, needs_annexed)"""
    acc = arg["acc"]
    if acc == "WRITE":
        return (0, False)
    mult = 2 if (kern["intergrid"] and arg["mesh"] == "gh_fine") else 1
    if bound[0] == "domain":
        return (0, False)
    if bound[0] == "dofs":
        b = bound[1]
        if b == "owned":
            return (0, False)
        if b == "annexed":
            return (0, cont)
        return (depth_of(bound, M), cont)
    D = depth_of(bound, M)
    if arg["stencil"]:
        e = arg["stencil"][1] if arg["stencil"][0] == "lit" else env[arg["stencil"][1]]
        return ((D + e) * mult, cont)
    if acc in ("READ", "READWRITE", "READINC"):
        if D == 0:
            if acc == "READ" and kernel_gh_write_continuous(kern):
                return (0, False)
            return (0, cont)
        return (D * mult, cont)
    if acc == "INC":
        # the outermost level is only partially summed anyway; annexed dofs are updated
        return (max(D * mult - 1, 0), cont)
    raise OutOfSubset("access %r" % acc)


def true_after(bound, kern, arg, cont, M):
    """state of the written field after the loop: (clean depth, annexed clean) -- assuming its reads were clean"""
    acc = arg["acc"]
    mult = 2 if (kern["intergrid"] and arg["mesh"] == "gh_fine") else 1
    if bound[0] == "domain":
        return (0, True)
    if bound[0] == "dofs":
        b = bound[1]
        if b == "owned":
            return (0, not cont)
        if b == "annexed":
            return (0, True)
        return (depth_of(bound, M), True)
    D = depth_of(bound, M) * mult
    if not cont:
        return (D, True)
    if acc == "WRITE":
        return (D, True)
    # INC / READINC on a continuous field: outermost computed level holds partial sums
    if D == 0:
        return (0, False)
    return (D - 1, True)


def needed_literals(stmts, kerns):
    """smallest M for which the generated code is a valid run-time configuration (literal depths)"""
    m = 1
    for s in stmts:
        if s[0] == "loop" and s[1][0] in ("cells", "dofs") and isinstance(s[1][1], int):
            m = max(m, s[1][1])
    return m


class Failure(Exception):
    def __init__(self, code, detail):
        Exception.__init__(self, code)
        self.code = code
        self.detail = detail


def config_valid(stmts, kerns, cont, M, env):
    """a run-time configuration is valid when no loop or stencil reaches beyond the halo depth M"""
    for s in stmts:
        if s[0] != "loop":
            continue
        bound = s[1]
        if bound[0] in ("cells", "dofs") and bound[1] not in ("owned", "annexed") and depth_of(bound, M) > M:
            return False
        for ki in s[2]:
            for a in kerns[ki]["args"]:
                if true_need(bound, kerns[ki], a, cont[a["field"]], M, env)[0] > M:
                    return False
                if a["acc"] != "READ" and true_after(bound, kerns[ki], a, cont[a["field"]], M)[0] > M:
                    return False
    return True


def run_machine(stmts, kerns, f, cont, vec, annexed_cfg, M, env, init):
    """Runs the abstract machine for ONE field f (fields evolve independently of each other).
    cont: is f continuous; vec: its vector size; init = (recorded depth, annexed clean).
    Returns None or raises Failure(reason code, detail)."""
    r0, ann0 = init
    idxs = list(range(1, vec + 1)) if vec > 1 else [None]
    st = {i: {"a": r0, "r": r0, "ann": (ann0 or r0 >= 1 or not cont), "pending": None} for i in idxs}

    def boundary(where):
        for i, s in st.items():
            if s["r"] > s["a"]:
                raise Failure("recorded-cleaner", {"field": f, "index": i, "recorded": s["r"], "actual": s["a"], "at": where})

    prev_mark = False
    for n, s in enumerate(stmts):
        kind = s[0]
        if kind in ("dirty", "clean"):
            if s[1] != f:
                continue
            if s[2] not in st:
                raise OutOfSubset("vector index %r of %s" % (s[2], f))
            if kind == "dirty":
                st[s[2]]["r"] = 0
            else:
                d = eval_depth(s[3], M, env)
                if d > M:
                    return None      # set_clean beyond the halo depth: not a valid run-time configuration
                st[s[2]]["r"] = max(st[s[2]]["r"], d)
            prev_mark = True
            continue
        # statements that do not involve f are invisible to f
        if kind == "hx" and s[1] != f:
            continue
        if kind == "loop" and not any(a["field"] == f for ki in s[2] for a in kerns[ki]["args"]):
            continue
        if prev_mark or kind == "hx":
            boundary(n)
        prev_mark = False
        if kind == "hx":
            if s[2] not in st:
                raise OutOfSubset("vector index %r of %s" % (s[2], f))
            d = min(eval_depth(s[3], M, env), M)
            cur = st[s[2]]
            if s[5] == "start":
                if cur["pending"] is not None:
                    raise Failure("async-nested", {"field": f, "stmt": n})
                go = (not s[4]) or cur["r"] < d
                cur["pending"] = (d, go)
                continue
            if s[5] == "finish":
                if cur["pending"] is None:
                    raise Failure("async-finish-without-start", {"field": f, "stmt": n})
                d0, go0 = cur["pending"]
                go = (not s[4]) or cur["r"] < d
                if d0 != d or go0 != go:
                    raise Failure("async-mismatch", {"field": f, "start": [d0, go0], "finish": [d, go], "stmt": n})
                cur["pending"] = None
            else:
                if cur["pending"] is not None:
                    raise Failure("async-overlap", {"field": f, "stmt": n})
                go = (not s[4]) or cur["r"] < d
            if go and d >= 1:
                cur["a"] = max(cur["a"], d)
                cur["r"] = max(cur["r"], d)
                cur["ann"] = True
            continue
        # loop
        bound, kis = s[1], s[2]
        update = None
        for ki in kis:
            k = kerns[ki]
            for a in k["args"]:
                if a["field"] != f:
                    continue
                need, need_ann = true_need(bound, k, a, cont, M, env)
                for i, cur in st.items():
                    if cur["pending"] is not None:
                        raise Failure("access-during-async-exchange", {"field": f, "kernel": k["name"], "stmt": n})
                    if need > cur["a"]:
                        raise Failure("dirty-halo-read", {"field": f, "index": i, "kernel": k["name"], "stmt": n,
                                                          "access": a["acc"], "needs_depth": need, "clean_depth": cur["a"],
                                                          "bound": list(bound), "stencil": a["stencil"], "fs": a["fs"],
                                                          "gh_write_kernel": kernel_gh_write_continuous(k),
                                                          "all_updates_write": all(x["acc"] in ("READ", "WRITE") for x in k["args"])})
                    if need_ann and not cur["ann"]:
                        raise Failure("dirty-annexed-read", {"field": f, "index": i, "kernel": k["name"], "stmt": n,
                                                             "access": a["acc"], "bound": list(bound), "fs": a["fs"],
                                                             "stencil": a["stencil"],
                                                             "all_updates_write": all(x["acc"] in ("READ", "WRITE") for x in k["args"])})
                if a["acc"] != "READ":
                    d, ann = true_after(bound, k, a, cont, M)
                    update = (min(d, update[0]), ann and update[1]) if update else (d, ann)
        if update:
            for cur in st.values():
                cur["a"] = min(update[0], M)
                cur["ann"] = update[1] or update[0] >= 1
    boundary("exit")
    for i, s in st.items():
        if s["pending"] is not None:
            raise Failure("async-unfinished", {"field": f})
        if annexed_cfg and cont and not s["ann"]:
            raise Failure("annexed-invariant-broken", {"field": f})
    return None


def initial_states(cont, annexed_cfg, M):
    """per-field initial states (recorded depth, annexed clean)"""
    out = [(d, True) for d in range(0, M + 1)]
    if cont and not annexed_cfg:
        out.insert(0, (0, False))
    return out


def check_schedule(stmts, kerns, vecs, annexed_cfg, Mmax=3):
    """Runs the machine for every field from every initial state, every admissible continuity of the
    field, every max halo depth M <= Mmax for which the code is a valid configuration and all run-time
    stencil extents in 1..M.  Returns a dict: runs, fails = [(Failure, context)] (one entry per distinct
    (reason code, field, statement)), configs = [(M, env)] valid configurations, extvars, cands
    (field -> continuity candidates), unsafe = set of (field, cont) with at least one failure."""
    fields_meta = {}
    for k in kerns:
        for a in k["args"]:
            fields_meta.setdefault(a["field"], []).append((a["fs"], a["acc"]))
    extvars = sorted({a["stencil"][1] for k in kerns for a in k["args"] if a["stencil"] and a["stencil"][0] == "var"})
    fnames = sorted(fields_meta)
    cands = {f: continuity_candidates(fields_meta[f]) for f in fnames}
    if any(not c for c in cands.values()):
        raise OutOfSubset("field with inconsistent function spaces")
    lo = needed_literals(stmts, kerns)
    # a reader at maximum depth after a writer at literal depth k only shows a problem for M >= k + 2
    Mmax = max(Mmax, lo + 2)
    runs, fails, seen, configs, unsafe = 0, [], set(), [], set()
    for M in range(lo, Mmax + 1):
        for exts in itertools.product(range(1, M + 1), repeat=len(extvars)):
            env = dict(zip(extvars, exts))
            # validity does not depend on continuity (only annexed flags do)
            if not config_valid(stmts, kerns, {f: cands[f][0] for f in fnames}, M, env):
                continue
            configs.append((M, env))
            for f in fnames:
                for cont in cands[f]:
                    for init in initial_states(cont, annexed_cfg, M):
                        runs += 1
                        try:
                            run_machine(stmts, kerns, f, cont, vecs.get(f, 1), annexed_cfg, M, env, init)
                        except Failure as e:
                            unsafe.add((f, cont))
                            key = (e.code, f, e.detail.get("stmt", e.detail.get("at")))
                            if key not in seen:
                                seen.add(key)
                                fails.append((e, {"field": f, "continuous": cont, "M": M, "extents": env,
                                                  "initial": {"recorded_clean_depth": init[0], "annexed_clean": init[1]}}))
    return {"runs": runs, "fails": fails, "configs": configs, "extvars": extvars, "cands": cands, "unsafe": unsafe}
