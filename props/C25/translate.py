"""C25 translator (dynamic, fail-closed):  /repo working tree  ->  coq/C25/Gen.v

1. empties GOLoop._bounds_lookup, calls GOLoop.setup_bounds() and dumps the whole table
   (offset x field type x iteration space x inner/outer x start/stop -> bound string);
2. writes a config file = the tree's config/psyclone.cfg + an ``iteration-spaces`` entry (fixed list
   CFG_ENTRIES below), loads it through Config/GOceanConfig (which calls GOLoop.add_bounds per
   line) and dumps the table again;
3. parses every bound string with the tiny parser below ({start}, {stop}, integer literals, + - * /,
   parentheses, white space; anything else raises) into the Gallina type C25.Model.bexpr.

Run stand-alone (``/venv/bin/python props/C25/translate.py`` with PYTHONPATH=<repo>/src:/verif and
PSYCLONE_CONFIG set, as ./check does) or through ``generate()``.  Always run in a fresh process:
it resets PSyclone's Config singleton and GOcean class-level tables."""
import os
import re
import shutil
import sys
from pathlib import Path

HERE = Path(__file__).resolve().parent
sys.path.insert(0, str(HERE.parent.parent))
from vlib import core  # noqa: E402

# The user-defined iteration spaces pushed through GOceanConfig (shapes: new space, literals only,
# override of a built-in name, blanks inside a bound, {stop}-{start}, same name for another
# offset/type, brand-new offset and type keys).
CFG_ENTRIES = [
    "go_offset_sw:go_ct:c25_ns_halo:{start}-1:{stop}+1:{start}:{stop}",
    "go_offset_ne:go_cu:c25_lit:1:2:3:4",
    "go_offset_ne:go_cu:go_all_pts:{start}:{stop}:{start}+1:{stop} - 1",
    "go_offset_any:go_cf:c25_mix: 1 :{stop}:3:{stop}-{start}",
    "go_offset_ne:go_cv:c25_ns_halo:{start}:{stop}+1:{start}-1:{stop}",
    "go_offset_zz:go_new:c25_newkeys:1:{stop}:2*{start}:({stop}+1)-1",
    # richer bound grammar: quotients, multi-digit literals, "2-1" as a proper substring after substitution
    "go_offset_sw:go_cf:c25_div:{start}:{stop}/2-1:2 - 1:{stop}-{start}-1",
    "go_offset_ne:go_ct:c25_lits:{start}-10+9:{stop}-12-1+12:22-1-20:({stop}+2)/2-1+{stop}/2",
]

LOOP_TYPES = ("outer", "inner")
SIDES = ("start", "stop")


class TranslateError(Exception):
    pass


# ------------------------------------------------------------------ bound-string parser
TOKEN = re.compile(r"\s*(\{start\}|\{stop\}|\d+|[-+*/()])")


def tokenize(s):
    pos, out = 0, []
    s = s.rstrip()
    while pos < len(s):
        m = TOKEN.match(s, pos)
        if not m:
            raise TranslateError("unrecognised text in loop bound %r at %d" % (s, pos))
        out.append(m.group(1))
        pos = m.end()
    if not out:
        raise TranslateError("empty loop bound %r" % s)
    return out


def parse_bound(s):
    """bound string -> AST: ('start',) | ('stop',) | ('lit', n) | ('add'|'sub'|'mul'|'div', a, b) | ('neg', a).
    Fortran precedence for the operators accepted: unary minus and * bind tighter than + and -,
    left associative."""
    toks = tokenize(s)
    pos = [0]

    def peek():
        return toks[pos[0]] if pos[0] < len(toks) else None

    def take():
        t = peek()
        pos[0] += 1
        return t

    def atom():
        t = take()
        if t == "{start}":
            return ("start",)
        if t == "{stop}":
            return ("stop",)
        if t is not None and t.isdigit():
            return ("lit", int(t))
        if t == "(":
            e = expr()
            if take() != ")":
                raise TranslateError("missing ')' in loop bound %r" % s)
            return e
        raise TranslateError("unexpected token %r in loop bound %r" % (t, s))

    def term():
        e = atom()
        while peek() in ("*", "/"):
            op = take()
            e = ("mul" if op == "*" else "div", e, atom())
        return e

    def expr():
        if peek() == "-":          # leading sign applies to the first term (Fortran level-2 expr)
            take()
            e = ("neg", term())
        elif peek() == "+":
            take()
            e = term()
        else:
            e = term()
        while peek() in ("+", "-"):
            op = take()
            e = ("add" if op == "+" else "sub", e, term())
        return e

    e = expr()
    if pos[0] != len(toks):
        raise TranslateError("trailing tokens in loop bound %r" % s)
    return e


def eval_bound(e, start, stop):
    k = e[0]
    if k == "start":
        return start
    if k == "stop":
        return stop
    if k == "lit":
        return e[1]
    if k == "neg":
        return -eval_bound(e[1], start, stop)
    a, b = eval_bound(e[1], start, stop), eval_bound(e[2], start, stop)
    if k == "div":
        return quot(a, b)
    return a + b if k == "add" else a - b if k == "sub" else a * b


def quot(a, b):
    """Fortran integer division (truncation toward zero); Coq's Z.quot, including x/0 = 0"""
    if b == 0:
        return 0
    q = abs(a) // abs(b)
    return q if (a >= 0) == (b >= 0) else -q




def coq_bexpr(e):
    k = e[0]
    if k == "start":
        return "BStart"
    if k == "stop":
        return "BStop"
    if k == "lit":
        return "(BLit %d)" % e[1]
    if k == "neg":
        return "(BNeg %s)" % coq_bexpr(e[1])
    return "(%s %s %s)" % ({"add": "BAdd", "sub": "BSub", "mul": "BMul", "div": "BDiv"}[k], coq_bexpr(e[1]), coq_bexpr(e[2]))


def coq_entry(key, b4):
    """key=(offset,type,space); b4 = dict outer/inner -> start/stop -> AST"""
    return "((%s, %s, %s), mkB %s %s %s %s)" % (
        core.coq_str(key[0]), core.coq_str(key[1]), core.coq_str(key[2]),
        coq_bexpr(b4["outer"]["start"]), coq_bexpr(b4["outer"]["stop"]),
        coq_bexpr(b4["inner"]["start"]), coq_bexpr(b4["inner"]["stop"]))


# ------------------------------------------------------------------ dumping the live table
def flatten(lookup):
    """GOLoop._bounds_lookup -> list of (key, {outer/inner: {start/stop: AST}}); {} leaves = absent."""
    out = []
    if not isinstance(lookup, dict):
        raise TranslateError("_bounds_lookup is not a dict")
    for off, d1 in lookup.items():
        if not isinstance(off, str) or not isinstance(d1, dict):
            raise TranslateError("unexpected offset level %r" % (off,))
        for typ, d2 in d1.items():
            if not isinstance(typ, str) or not isinstance(d2, dict):
                raise TranslateError("unexpected field-type level %r/%r" % (off, typ))
            for space, d3 in d2.items():
                if not isinstance(space, str) or not isinstance(d3, dict):
                    raise TranslateError("unexpected iteration-space level %r/%r/%r" % (off, typ, space))
                if d3 == {}:
                    continue            # e.g. go_external_pts for NE/SW: no bounds known
                if set(d3.keys()) != set(LOOP_TYPES):
                    raise TranslateError("entry %s/%s/%s has loop types %r" % (off, typ, space, sorted(d3)))
                b4 = {}
                for lt in LOOP_TYPES:
                    if not isinstance(d3[lt], dict) or set(d3[lt].keys()) != set(SIDES):
                        raise TranslateError("entry %s/%s/%s/%s has sides %r" % (off, typ, space, lt, d3[lt]))
                    b4[lt] = {}
                    for sd in SIDES:
                        if not isinstance(d3[lt][sd], str):
                            raise TranslateError("bound %s/%s/%s/%s/%s is not a string" % (off, typ, space, lt, sd))
                        b4[lt][sd] = parse_bound(d3[lt][sd])
                for ch in off + typ + space:
                    if not (32 <= ord(ch) < 127) or ch == '"':
                        raise TranslateError("unsupported character in key %r" % ((off, typ, space),))
                out.append(((off, typ, space), b4))
    return out


def parse_cfg_entry(line):
    """My own reading of one ``iteration-spaces`` line as the user guide documents it:
    offset:type:space:outer-start:outer-stop:inner-start:inner-stop."""
    d = line.split(":")
    if len(d) != 7:
        raise TranslateError("bad CFG entry " + line)
    return ((d[0], d[1], d[2]),
            {"outer": {"start": parse_bound(d[3]), "stop": parse_bound(d[4])},
             "inner": {"start": parse_bound(d[5]), "stop": parse_bound(d[6])}})


def reset_gocean_state():
    from psyclone.configuration import Config
    from psyclone.domain.gocean import GOceanConstants
    from psyclone.gocean1p0 import GOLoop
    Config._instance = None
    GOceanConstants.HAS_BEEN_INITIALISED = False
    GOLoop._bounds_lookup = {}


def write_config(path, entries, repo=None):
    """the tree's psyclone.cfg with an iteration-spaces entry inserted in the [gocean] section"""
    repo = Path(repo or core.REPO)
    text = (repo / "config" / "psyclone.cfg").read_text()
    if text.count("[gocean]\n") != 1:
        raise TranslateError("cannot find the [gocean] section of config/psyclone.cfg")
    if entries:
        ins = "iteration-spaces=" + "\n    ".join(e.replace("%", "%%") for e in entries) + "\n"
        text = text.replace("[gocean]\n", "[gocean]\n" + ins)
    Path(path).write_text(text)


def dump_tables(tmpdir):
    from psyclone.configuration import Config
    from psyclone.domain.gocean import GOceanConstants
    from psyclone.gocean1p0 import GOLoop
    reset_gocean_state()
    GOLoop.setup_bounds()
    builtin = flatten(GOLoop._bounds_lookup)
    const = GOceanConstants()
    consts = {"offsets": list(const.SUPPORTED_OFFSETS), "types": list(const.VALID_FIELD_GRID_TYPES),
              "spaces": list(const.VALID_ITERATES_OVER)}
    reset_gocean_state()
    cfg = Path(tmpdir) / "c25_translate.cfg"
    write_config(cfg, CFG_ENTRIES)
    Config.get().load(str(cfg))
    Config.get().api = "gocean"
    Config.get().api_conf("gocean")
    after = flatten(GOLoop._bounds_lookup)
    props = Config.get().api_conf("gocean").grid_properties
    grid_props = {k: props[k].fortran for k in
                  ["go_grid_xstop", "go_grid_ystop", "go_grid_data"] +
                  ["go_grid_%s_%s_%s" % (r, lt, sd) for r in ("internal", "whole") for lt in ("inner", "outer")
                   for sd in ("start", "stop")]}
    reset_gocean_state()
    return builtin, after, consts, grid_props


EXPECTED_GRID_PROPS = {
    "go_grid_xstop": "{0}%grid%subdomain%internal%xstop", "go_grid_ystop": "{0}%grid%subdomain%internal%ystop",
    "go_grid_data": "{0}%data",
    "go_grid_internal_inner_start": "{0}%internal%xstart", "go_grid_internal_inner_stop": "{0}%internal%xstop",
    "go_grid_internal_outer_start": "{0}%internal%ystart", "go_grid_internal_outer_stop": "{0}%internal%ystop",
    "go_grid_whole_inner_start": "{0}%whole%xstart", "go_grid_whole_inner_stop": "{0}%whole%xstop",
    "go_grid_whole_outer_start": "{0}%whole%ystart", "go_grid_whole_outer_stop": "{0}%whole%ystop",
}


def generate(out=None):
    out = Path(out or (core.COQ / "C25" / "Gen.v"))
    tmp = core.VERIF / ".scratch" / ("C25-translate-%d" % os.getpid())
    tmp.mkdir(parents=True, exist_ok=True)
    try:
        builtin, after, consts, grid_props = dump_tables(tmp)
    finally:
        shutil.rmtree(tmp, ignore_errors=True)
    if grid_props != EXPECTED_GRID_PROPS:
        raise TranslateError("config/psyclone.cfg maps the loop-bound grid properties differently from what the "
                             "C25 library model assumes: %r" % (grid_props,))
    user = [parse_cfg_entry(e) for e in CFG_ENTRIES]
    strs = lambda l: core.coq_list(core.coq_str(x) for x in l)  # noqa: E731
    lines = ["(* GENERATED by props/C25/translate.py from the PSyclone working tree - do not edit. *)",
             "From Coq Require Import List ZArith String.", "Import ListNotations.",
             "From PV Require Import C25.Model.", "Open Scope string_scope.", "",
             "(* GOLoop._bounds_lookup right after GOLoop.setup_bounds() *)",
             "Definition builtin_table : table := [",
             ";\n".join("  " + coq_entry(k, b) for k, b in builtin), "].", "",
             "(* the iteration-spaces lines given to GOceanConfig (read by the translator's own parser) *)",
             "Definition user_cfg_entries : table := [",
             ";\n".join("  " + coq_entry(k, b) for k, b in user), "].", "",
             "(* GOLoop._bounds_lookup after Config.load() of a config file holding those lines *)",
             "Definition table_after_config : table := [",
             ";\n".join("  " + coq_entry(k, b) for k, b in after), "].", "",
             "Definition gen_supported_offsets : list string := %s." % strs(consts["offsets"]),
             "Definition gen_field_types : list string := %s." % strs(consts["types"]),
             "Definition gen_iterates_over : list string := %s." % strs(consts["spaces"]), ""]
    changed = core.write_if_changed(out, "\n".join(lines))
    return {"changed": changed, "builtin_entries": len(builtin), "after_entries": len(after), "out": str(out)}


if __name__ == "__main__":
    info = generate()
    print("C25 translate:", info)
