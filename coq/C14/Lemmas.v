(* C14 — list, state and parent-chain lemmas used by Proofs.v *)
From Coq Require Import List ZArith Bool Lia Arith.
Import ListNotations.
From PV Require Import C14.Model.
Local Open Scope Z_scope.

(* ------------------------------------------------------------------ lists *)
Lemma split_at {A} (l : list A) k y :
  nth_error l k = Some y ->
  l = firstn k l ++ y :: skipn (S k) l /\ length (firstn k l) = k.
Proof.
  revert k; induction l as [|a l IH]; intros [|k] H; simpl in *; try discriminate.
  - inversion H; subst. split; reflexivity.
  - destruct (IH k H) as [E1 E2]. split; [f_equal; exact E1 | f_equal; exact E2].
Qed.

Lemma remove_at_split {A} (l1 l2 : list A) y : remove_at (length l1) (l1 ++ y :: l2) = l1 ++ l2.
Proof.
  unfold remove_at. induction l1 as [|a l1 IH]; simpl; [reflexivity | f_equal; exact IH].
Qed.
Lemma set_at_split {A} (l1 l2 : list A) y x : set_at (length l1) x (l1 ++ y :: l2) = l1 ++ x :: l2.
Proof.
  unfold set_at. induction l1 as [|a l1 IH]; simpl; [reflexivity | f_equal; exact IH].
Qed.

Lemma decompose {A} (l : list A) k y :
  nth_error l k = Some y -> exists l1 l2, l = l1 ++ y :: l2 /\ length l1 = k.
Proof.
  intro H. destruct (split_at l k y H) as [E1 E2]. eauto.
Qed.

Lemma nth_error_mid {A} (l1 l2 : list A) y i :
  nth_error (l1 ++ y :: l2) i =
  if (i <? length l1)%nat then nth_error l1 i
  else if (i =? length l1)%nat then Some y else nth_error l2 (i - length l1 - 1).
Proof.
  destruct (Nat.ltb_spec i (length l1)) as [H|H].
  - apply nth_error_app1; exact H.
  - rewrite nth_error_app2 by exact H. destruct (Nat.eqb_spec i (length l1)) as [E|E].
    + subst. rewrite Nat.sub_diag. reflexivity.
    + destruct (i - length l1)%nat as [|m] eqn:Em; [lia|]. simpl.
      f_equal. lia.
Qed.
Lemma nth_error_app_two {A} (l1 l2 : list A) i :
  nth_error (l1 ++ l2) i = if (i <? length l1)%nat then nth_error l1 i else nth_error l2 (i - length l1).
Proof.
  destruct (Nat.ltb_spec i (length l1)) as [H|H];
    [apply nth_error_app1 | apply nth_error_app2]; exact H.
Qed.

Lemma insert_at_app {A} (l : list A) k x : (k <= length l)%nat ->
  exists l1 l2, l = l1 ++ l2 /\ length l1 = k /\ insert_at k x l = l1 ++ x :: l2.
Proof.
  intro H. exists (firstn k l), (skipn k l). split; [symmetry; apply firstn_skipn|].
  split; [apply firstn_length_le; exact H | reflexivity].
Qed.

Lemma memb_In x l : memb x l = true <-> In x l.
Proof.
  unfold memb. rewrite existsb_exists. split.
  - intros [y [Hy E]]. apply Nat.eqb_eq in E. subst. exact Hy.
  - intro H. exists x. split; [exact H | apply Nat.eqb_refl].
Qed.
Lemma memb_false x l : memb x l = false <-> ~ In x l.
Proof.
  rewrite <- memb_In. destruct (memb x l); split; intro H; try congruence;
    try (exfalso; apply H; reflexivity); try (intro; congruence).
Qed.
Lemma has_dup_false l : has_dup l = false <-> NoDup l.
Proof.
  induction l as [|x l IH]; simpl.
  - split; [constructor | reflexivity].
  - rewrite orb_false_iff, IH, memb_false. split.
    + intros [H1 H2]. constructor; assumption.
    + intro H. inversion H; subst. split; assumption.
Qed.

Lemma index_of_spec x l j0 j :
  index_of x l j0 = Some j -> (j0 <= j)%nat /\ nth_error l (j - j0) = Some x.
Proof.
  revert j0; induction l as [|y l IH]; intros j0 H; simpl in H; [discriminate|].
  destruct (Nat.eqb_spec y x) as [E|E].
  - inversion H; subst. rewrite Nat.sub_diag. split; [lia | reflexivity].
  - destruct (IH _ H) as [H1 H2]. split; [lia|].
    replace (j - j0)%nat with (S (j - S j0)) by lia. exact H2.
Qed.
Lemma index_of_In x l j0 : In x l -> exists j, index_of x l j0 = Some j.
Proof.
  revert j0; induction l as [|y l IH]; intros j0 H; simpl in *; [contradiction|].
  destruct (Nat.eqb_spec y x) as [E|E]; [eauto|].
  destruct H as [H|H]; [congruence | apply IH; exact H].
Qed.

Lemma NoDup_nth_error_inj (l : list nat) i j x :
  NoDup l -> nth_error l i = Some x -> nth_error l j = Some x -> i = j.
Proof.
  intros ND Hi Hj. apply (proj1 (NoDup_nth_error l) ND).
  - apply nth_error_Some. congruence.
  - congruence.
Qed.

(* ------------------------------------------------------------------ states *)
Lemma kids_set_kids s c l d : kids (set_kids s c l) d = if Nat.eqb d c then l else kids s d.
Proof. reflexivity. Qed.
Lemma par_set_kids s c l x : par (set_kids s c l) x = par s x.
Proof. reflexivity. Qed.
Lemma kids_set_par s x p d : kids (set_par s x p) d = kids s d.
Proof. reflexivity. Qed.
Lemma par_set_par s x p y : par (set_par s x p) y = if Nat.eqb y x then p else par s y.
Proof. reflexivity. Qed.
Lemma kids_set_par_many s xs p d : kids (set_par_many s xs p) d = kids s d.
Proof. revert s; induction xs as [|x xs IH]; intro s; simpl; [reflexivity | rewrite IH; reflexivity]. Qed.
Lemma par_set_par_many s xs p y :
  par (set_par_many s xs p) y = if memb y xs then p else par s y.
Proof.
  revert s; induction xs as [|x xs IH]; intro s; simpl; [reflexivity|].
  rewrite IH, par_set_par. destruct (Nat.eqb y x); simpl; [|reflexivity].
  destruct (memb y xs); reflexivity.
Qed.

Lemma state_eq_refl s : state_eq s s.
Proof. split; reflexivity. Qed.

(* ------------------------------------------------------------------ chains *)
Lemma climbs_mono f s c : climbs f s c = false -> climbs (S f) s c = false.
Proof.
  revert c; induction f as [|f IH]; intros c H; [discriminate|].
  simpl in *. destruct (par s c) as [p|]; [apply IH in H; exact H | reflexivity].
Qed.

(* a state whose parent pointers are those of s except that some are reset to None *)
Definition par_cut (s s' : state) : Prop := forall y, par s' y = par s y \/ par s' y = None.

Lemma climbs_cut f s s' c : par_cut s s' -> climbs f s c = false -> climbs f s' c = false.
Proof.
  intro HC. revert c; induction f as [|f IH]; intros c H; [discriminate|].
  simpl in *. destruct (HC c) as [E|E]; rewrite E; [|reflexivity].
  destruct (par s c) as [p|]; [apply IH; exact H | reflexivity].
Qed.
Lemma on_chain_cut f s s' c x : par_cut s s' -> on_chain f s c x = Some false -> on_chain f s' c x = Some false.
Proof.
  intro HC. revert c; induction f as [|f IH]; intros c H; [discriminate|].
  simpl in *. destruct (Nat.eqb c x); [discriminate|].
  destruct (HC c) as [E|E]; rewrite E; [|reflexivity].
  destruct (par s c) as [p|]; [apply IH; exact H | reflexivity].
Qed.

Lemma on_chain_false_climbs f s c x : on_chain f s c x = Some false -> climbs f s c = false.
Proof.
  revert c; induction f as [|f IH]; intros c H; [discriminate|].
  simpl in *. destruct (Nat.eqb c x); [discriminate|].
  destruct (par s c) as [p|]; [apply IH; exact H | reflexivity].
Qed.

(* linking nodes that are not on the chain of c does not change the walk from c *)
Lemma climbs_link f s s' c :
  (forall y, par s' y = par s y \/ (exists g, on_chain g s c y = Some false)) ->
  climbs f s c = false -> climbs f s' c = false.
Proof.
  revert c. induction f as [|f IH]; intros c HL H; [discriminate|].
  simpl in *. destruct (HL c) as [E|[g Hg]].
  - rewrite E. destruct (par s c) as [p|] eqn:Ep; [|reflexivity].
    apply IH; [|exact H]. intro y. destruct (HL y) as [Ey|[g Hg]]; [left; exact Ey|].
    right. destruct g as [|g]; [discriminate|]. simpl in Hg.
    destruct (Nat.eqb c y); [discriminate|]. rewrite Ep in Hg. exists g. exact Hg.
  - destruct g as [|g]; [discriminate|]. simpl in Hg. rewrite Nat.eqb_refl in Hg. discriminate.
Qed.

(* a terminating chain does not pass through a child of its start *)
Lemma on_chain_true_step f s c y :
  on_chain f s c y = Some true -> c <> y -> forall g, climbs (S g) s c = false -> climbs g s y = false.
Proof.
  revert c; induction f as [|f IH]; intros c H Hne g Hc; [discriminate|].
  simpl in H. destruct (Nat.eqb_spec c y) as [E|E]; [contradiction|].
  simpl in Hc. destruct (par s c) as [p|] eqn:Ep; [|discriminate].
  destruct (Nat.eq_dec p y) as [Epy|Epy]; [subst; exact Hc|].
  destruct g as [|g]; [discriminate|].
  apply climbs_mono. apply (IH p H Epy g Hc).
Qed.
Lemma no_child_on_chain_aux s c y : par s y = Some c ->
  forall n f, on_chain f s c y = Some true -> climbs n s c = false -> False.
Proof.
  intro Hp. induction n as [n IHn] using lt_wf_ind. intros f H Hc.
  destruct n as [|n]; [discriminate|].
  destruct (Nat.eq_dec c y) as [E|E].
  - subst. simpl in Hc. rewrite Hp in Hc.
    apply (IHn n (Nat.lt_succ_diag_r _) f H Hc).
  - pose proof (on_chain_true_step f s c y H E n Hc) as Hy.
    destruct n as [|n]; [discriminate|]. simpl in Hy. rewrite Hp in Hy.
    apply (IHn n) with (f := f); [lia | exact H | exact Hy].
Qed.
Lemma on_chain_total f s c x : climbs f s c = false -> on_chain f s c x <> None.
Proof.
  revert c; induction f as [|f IH]; intros c H; [discriminate|].
  simpl in *. destruct (Nat.eqb c x); [discriminate|].
  destruct (par s c) as [p|]; [apply IH; exact H | discriminate].
Qed.
Lemma no_child_on_chain f s c y :
  par s y = Some c -> climbs f s c = false -> on_chain f s c y = Some false.
Proof.
  intros Hp Hc. destruct (on_chain f s c y) as [[|]|] eqn:E.
  - exfalso. exact (no_child_on_chain_aux s c y Hp f f E Hc).
  - reflexivity.
  - exfalso. exact (on_chain_total f s c y Hc E).
Qed.

(* ------------------------------------------------------------------ Python indices *)
Lemma py_norm_Some len i k : py_norm len i = Some k ->
  Z.of_nat k < len /\ (0 <= i -> Z.of_nat k = i) /\ (i < 0 -> Z.of_nat k = i + len).
Proof.
  unfold py_norm. destruct (Z.ltb_spec i 0) as [Hi|Hi];
  match goal with |- context[(0 <=? ?j) && (?j <? len)] =>
    destruct (Z.leb_spec 0 j); destruct (Z.ltb_spec j len); simpl; intro HH; inversion HH; subst end;
  rewrite Z2Nat.id by lia; repeat split; lia.
Qed.
Lemma py_clamp_le len i : 0 <= len -> Z.of_nat (py_clamp len i) <= len.
Proof.
  intro H. unfold py_clamp. destruct (i <? 0); rewrite Z2Nat.id; lia.
Qed.
Lemma py_get_nat {A} (l : list A) (j : nat) : (j < length l)%nat -> py_get l (Z.of_nat j) = nth_error l j.
Proof.
  intro H. unfold py_get, py_norm, zlen.
  destruct (Z.ltb_spec (Z.of_nat j) 0); [lia|].
  destruct (Z.leb_spec 0 (Z.of_nat j)); [|lia].
  destruct (Z.ltb_spec (Z.of_nat j) (Z.of_nat (length l))); [|lia].
  simpl. rewrite Nat2Z.id. reflexivity.
Qed.
Lemma py_get_beyond {A} (l : list A) (j : Z) : zlen l <= j -> py_get l j = None.
Proof.
  intro H. unfold py_get, py_norm, zlen in *.
  destruct (Z.ltb_spec j 0); [lia|].
  destruct (Z.leb_spec 0 j); destruct (Z.ltb_spec j (Z.of_nat (length l))); simpl; try reflexivity; lia.
Qed.

(* the displaced-sibling loop: positions pos .. pos+n-1 (natural numbers) were validated *)
Lemma validate_range_ok E c L n (pos : nat) shift :
  validate_range E c L n (Z.of_nat pos) shift = None ->
  forall j y, (pos <= j < pos + n)%nat -> nth_error L j = Some y ->
              validate E c (Z.of_nat j + shift) y = true.
Proof.
  revert pos; induction n as [|n IH]; intros pos H j y Hj Hy; [lia|].
  simpl in H.
  assert (Hlt : (j < length L)%nat) by (apply nth_error_Some; congruence).
  destruct (Nat.lt_ge_cases pos (length L)) as [Hp|Hp].
  - rewrite py_get_nat in H by exact Hp.
    destruct (nth_error L pos) as [y0|] eqn:E0; [|discriminate].
    destruct (validate E c (Z.of_nat pos + shift) y0) eqn:Ev; [|discriminate].
    destruct (Nat.eq_dec j pos) as [Ej|Ej].
    + subst. congruence.
    + replace (Z.of_nat pos + 1) with (Z.of_nat (S pos)) in H by lia.
      apply (IH (S pos) H j y); [lia | exact Hy].
  - lia.
Qed.
