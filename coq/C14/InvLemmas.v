(* C14 — the invariant is preserved by the six elementary list/parent updates *)
From Coq Require Import List ZArith Bool Lia Arith Permutation.
Import ListNotations.
From PV Require Import C14.Model C14.Lemmas.
Local Open Scope Z_scope.

Ltac eqb_cases :=
  repeat match goal with
         | |- context[Nat.eqb ?a ?b] => destruct (Nat.eqb_spec a b); subst
         | H : context[Nat.eqb ?a ?b] |- _ => destruct (Nat.eqb_spec a b); subst
         end.

Lemma In_mid_iff {A} (l1 l2 : list A) y z : In z (l1 ++ y :: l2) <-> z = y \/ In z (l1 ++ l2).
Proof.
  rewrite !in_app_iff. simpl. intuition.
Qed.

Lemma NoDup_app_disj {A} (l1 l2 : list A) :
  NoDup l1 -> NoDup l2 -> (forall z, In z l1 -> In z l2 -> False) -> NoDup (l1 ++ l2).
Proof.
  induction l1 as [|a l1 IH]; simpl; intros N1 N2 D; [exact N2|].
  inversion N1; subst. constructor.
  - intro Hin. apply in_app_or in Hin. destruct Hin as [Hin|Hin]; [contradiction|].
    apply (D a); [left; reflexivity | exact Hin].
  - apply IH; [assumption | assumption|]. intros z Hz1 Hz2. apply (D z); [right; exact Hz1 | exact Hz2].
Qed.

(* ---- remove the k-th child y of c (pop, __delitem__, remove) *)
Lemma inv_remove_at E s c k y :
  Inv E s -> nth_error (kids s c) k = Some y ->
  (forall j x, (k < j)%nat -> nth_error (kids s c) j = Some x -> validate E c (Z.of_nat j + -1) x = true) ->
  Inv E (set_kids (set_par s y None) c (remove_at k (kids s c))).
Proof.
  intros [P1 [P2 [P3 P4]]] Hk Hd.
  destruct (decompose _ _ _ Hk) as [l1 [l2 [EL Hl]]].
  assert (ND : NoDup (l1 ++ y :: l2)) by (rewrite <- EL; apply P2).
  assert (Hy : par s y = Some c) by (apply P1; rewrite EL; apply in_elt).
  assert (ER : remove_at k (kids s c) = l1 ++ l2) by (rewrite EL, <- Hl; apply remove_at_split).
  rewrite ER. unfold Inv. repeat split.
  - intros d x. rewrite kids_set_kids, par_set_kids, par_set_par. intro Hin.
    destruct (Nat.eqb_spec d c) as [->|Hdc].
    + destruct (Nat.eqb_spec x y) as [->|Hxy].
      * exfalso. exact (NoDup_remove_2 _ _ _ ND Hin).
      * apply P1. rewrite EL. apply In_mid_iff. right. exact Hin.
    + rewrite kids_set_par in Hin. destruct (Nat.eqb_spec x y) as [->|Hxy].
      * apply P1 in Hin. congruence.
      * apply P1. exact Hin.
  - intro d. rewrite kids_set_kids. destruct (Nat.eqb d c).
    + exact (NoDup_remove_1 _ _ _ ND).
    + apply P2.
  - intros x d. rewrite kids_set_kids, par_set_kids, par_set_par.
    destruct (Nat.eqb_spec x y) as [->|Hxy]; [discriminate|]. intro Hp. apply P3 in Hp.
    destruct (Nat.eqb_spec d c) as [->|Hdc]; [|exact Hp].
    rewrite EL in Hp. apply In_mid_iff in Hp. destruct Hp as [Hp|Hp]; [contradiction | exact Hp].
  - intros d i x. rewrite kids_set_kids. destruct (Nat.eqb_spec d c) as [->|Hdc]; [|apply P4].
    rewrite nth_error_app_two. intro Hn.
    destruct (Nat.ltb_spec i (length l1)) as [Hi|Hi].
    + apply P4. rewrite EL, nth_error_mid. destruct (Nat.ltb_spec i (length l1)); [exact Hn | lia].
    + assert (HL : nth_error (kids s c) (S i) = Some x).
      { rewrite EL, nth_error_mid. destruct (Nat.ltb_spec (S i) (length l1)); [lia|].
        destruct (Nat.eqb_spec (S i) (length l1)); [lia|].
        replace (S i - length l1 - 1)%nat with (i - length l1)%nat by lia. exact Hn. }
      specialize (Hd (S i) x ltac:(lia) HL). unfold validate in Hd.
      replace (Z.of_nat (S i) + -1) with (Z.of_nat i) in Hd by lia. exact Hd.
Qed.

(* ---- insert the orphan x at position k of c (append, insert, addchild) *)
Lemma inv_insert_at E s c k x :
  Inv E s -> par s x = None -> (k <= length (kids s c))%nat ->
  validate E c (Z.of_nat k) x = true ->
  (forall j y, (k <= j)%nat -> nth_error (kids s c) j = Some y -> validate E c (Z.of_nat j + 1) y = true) ->
  Inv E (set_par (set_kids s c (insert_at k x (kids s c))) x (Some c)).
Proof.
  intros [P1 [P2 [P3 P4]]] Hx Hk Hv Hd.
  destruct (insert_at_app (kids s c) k x Hk) as [l1 [l2 [EL [Hl EI]]]].
  rewrite EI.
  assert (Hnot : forall d, ~ In x (kids s d)) by (intros d Hin; apply P1 in Hin; congruence).
  unfold Inv. repeat split.
  - intros d z. rewrite kids_set_par, kids_set_kids, par_set_par, par_set_kids. intro Hin.
    destruct (Nat.eqb_spec d c) as [->|Hdc].
    + destruct (Nat.eqb_spec z x) as [->|Hzx]; [reflexivity|].
      apply P1. rewrite EL. apply In_mid_iff in Hin. destruct Hin; [contradiction | assumption].
    + destruct (Nat.eqb_spec z x) as [->|Hzx]; [exfalso; exact (Hnot d Hin) | apply P1; exact Hin].
  - intro d. rewrite kids_set_par, kids_set_kids. destruct (Nat.eqb d c); [|apply P2].
    apply (Permutation_NoDup (Permutation_middle l1 l2 x)). constructor.
    + rewrite <- EL. apply Hnot.
    + rewrite <- EL. apply P2.
  - intros z d. rewrite kids_set_par, kids_set_kids, par_set_par, par_set_kids.
    destruct (Nat.eqb_spec z x) as [->|Hzx].
    + intro H; inversion H; subst. rewrite Nat.eqb_refl. apply in_elt.
    + intro Hp. apply P3 in Hp. destruct (Nat.eqb_spec d c) as [->|Hdc]; [|exact Hp].
      apply In_mid_iff. right. rewrite <- EL. exact Hp.
  - intros d i z. rewrite kids_set_par, kids_set_kids. destruct (Nat.eqb_spec d c) as [->|Hdc]; [|apply P4].
    rewrite nth_error_mid. rewrite Hl.
    destruct (Nat.ltb_spec i k) as [Hi|Hi].
    + intro Hn. apply P4. rewrite EL, nth_error_app_two.
      destruct (Nat.ltb_spec i (length l1)); [exact Hn | lia].
    + destruct (Nat.eqb_spec i k) as [->|Hik].
      * intro H; inversion H; subst. exact Hv.
      * intro Hn.
        assert (HL : nth_error (kids s c) (i - 1) = Some z).
        { rewrite EL, nth_error_app_two. destruct (Nat.ltb_spec (i - 1) (length l1)); [lia|].
          replace (i - 1 - length l1)%nat with (i - k - 1)%nat by lia. exact Hn. }
        specialize (Hd (i - 1)%nat z ltac:(lia) HL). unfold validate in Hd.
        replace (Z.of_nat (i - 1) + 1) with (Z.of_nat i) in Hd by lia. exact Hd.
Qed.

(* ---- replace the k-th child old of c by the orphan x (__setitem__, replace_with) *)
Lemma inv_set_at E s c k x old :
  Inv E s -> par s x = None -> nth_error (kids s c) k = Some old ->
  validate E c (Z.of_nat k) x = true ->
  Inv E (set_par (set_kids (set_par s old None) c (set_at k x (kids s c))) x (Some c)).
Proof.
  intros [P1 [P2 [P3 P4]]] Hx Hk Hv.
  destruct (decompose _ _ _ Hk) as [l1 [l2 [EL Hl]]].
  assert (ND : NoDup (l1 ++ old :: l2)) by (rewrite <- EL; apply P2).
  assert (Hold : par s old = Some c) by (apply P1; rewrite EL; apply in_elt).
  assert (Hxo : x <> old) by congruence.
  assert (Hnot : forall d, ~ In x (kids s d)) by (intros d Hin; apply P1 in Hin; congruence).
  assert (ES : set_at k x (kids s c) = l1 ++ x :: l2) by (rewrite EL, <- Hl; apply set_at_split).
  rewrite ES. unfold Inv. repeat split.
  - intros d z. rewrite kids_set_par, kids_set_kids, par_set_par, par_set_kids, par_set_par, kids_set_par.
    intro Hin. destruct (Nat.eqb_spec d c) as [->|Hdc].
    + destruct (Nat.eqb_spec z x) as [->|Hzx]; [reflexivity|].
      apply In_mid_iff in Hin. destruct Hin as [Hin|Hin]; [contradiction|].
      destruct (Nat.eqb_spec z old) as [->|Hzo].
      * exfalso. exact (NoDup_remove_2 _ _ _ ND Hin).
      * apply P1. rewrite EL. apply In_mid_iff. right. exact Hin.
    + destruct (Nat.eqb_spec z x) as [->|Hzx]; [exfalso; exact (Hnot d Hin)|].
      destruct (Nat.eqb_spec z old) as [->|Hzo]; [apply P1 in Hin; congruence | apply P1; exact Hin].
  - intro d. rewrite kids_set_par, kids_set_kids, kids_set_par. destruct (Nat.eqb d c); [|apply P2].
    apply (Permutation_NoDup (Permutation_middle l1 l2 x)). constructor.
    + intro Hin. apply (Hnot c). rewrite EL. apply In_mid_iff. right. exact Hin.
    + exact (NoDup_remove_1 _ _ _ ND).
  - intros z d. rewrite kids_set_par, kids_set_kids, par_set_par, par_set_kids, par_set_par, kids_set_par.
    destruct (Nat.eqb_spec z x) as [->|Hzx].
    + intro H; inversion H; subst. rewrite Nat.eqb_refl. apply in_elt.
    + destruct (Nat.eqb_spec z old) as [->|Hzo]; [discriminate|].
      intro Hp. apply P3 in Hp. destruct (Nat.eqb_spec d c) as [->|Hdc]; [|exact Hp].
      rewrite EL in Hp. apply In_mid_iff in Hp. destruct Hp as [Hp|Hp]; [contradiction|].
      apply In_mid_iff. right. exact Hp.
  - intros d i z. rewrite kids_set_par, kids_set_kids, kids_set_par.
    destruct (Nat.eqb_spec d c) as [->|Hdc]; [|apply P4].
    rewrite nth_error_mid. destruct (Nat.ltb_spec i (length l1)) as [Hi|Hi].
    + intro Hn. apply P4. rewrite EL, nth_error_mid. destruct (Nat.ltb_spec i (length l1)); [exact Hn | lia].
    + destruct (Nat.eqb_spec i (length l1)) as [->|Hik].
      * intro H; inversion H; subst. exact Hv.
      * intro Hn. apply P4. rewrite EL, nth_error_mid.
        destruct (Nat.ltb_spec i (length l1)); [lia|]. destruct (Nat.eqb_spec i (length l1)); [lia | exact Hn].
Qed.

(* ---- append the distinct orphans xs to c (append, extend, children setter) *)
Lemma inv_extend E s c xs :
  Inv E s -> NoDup xs -> (forall x, In x xs -> par s x = None) ->
  (forall j x, nth_error xs j = Some x -> validate E c (zlen (kids s c) + Z.of_nat j) x = true) ->
  Inv E (set_par_many (set_kids s c (kids s c ++ xs)) xs (Some c)).
Proof.
  intros [P1 [P2 [P3 P4]]] ND Hx Hv.
  assert (Hnot : forall d x, In x xs -> ~ In x (kids s d)).
  { intros d x Hin Hk. apply P1 in Hk. rewrite (Hx x Hin) in Hk. discriminate. }
  unfold Inv. repeat split.
  - intros d z. rewrite kids_set_par_many, kids_set_kids, par_set_par_many, par_set_kids. intro Hin.
    destruct (memb z xs) eqn:Em.
    + apply memb_In in Em. destruct (Nat.eqb_spec d c) as [->|Hdc]; [reflexivity|].
      exfalso. exact (Hnot d z Em Hin).
    + apply memb_false in Em. destruct (Nat.eqb_spec d c) as [->|Hdc]; [|apply P1; exact Hin].
      apply in_app_or in Hin. destruct Hin as [Hin|Hin]; [apply P1; exact Hin | contradiction].
  - intro d. rewrite kids_set_par_many, kids_set_kids. destruct (Nat.eqb d c); [|apply P2].
    apply NoDup_app_disj; [apply P2 | exact ND|].
    intros z Hz Hz2. exact (Hnot c z Hz2 Hz).
  - intros z d. rewrite kids_set_par_many, kids_set_kids, par_set_par_many, par_set_kids.
    destruct (memb z xs) eqn:Em.
    + intro H; inversion H; subst. rewrite Nat.eqb_refl. apply in_or_app. right. apply memb_In. exact Em.
    + intro Hp. apply P3 in Hp. destruct (Nat.eqb_spec d c) as [->|Hdc]; [|exact Hp].
      apply in_or_app. left. exact Hp.
  - intros d i z. rewrite kids_set_par_many, kids_set_kids.
    destruct (Nat.eqb_spec d c) as [->|Hdc]; [|apply P4].
    rewrite nth_error_app_two. destruct (Nat.ltb_spec i (length (kids s c))) as [Hi|Hi].
    + apply P4.
    + intro Hn. specialize (Hv _ _ Hn). unfold validate, zlen in Hv.
      replace (Z.of_nat (length (kids s c)) + Z.of_nat (i - length (kids s c))) with (Z.of_nat i) in Hv by lia.
      exact Hv.
Qed.

(* ---- clear *)
Lemma inv_clear E s c :
  Inv E s -> Inv E (set_kids (set_par_many s (kids s c) None) c []).
Proof.
  intros [P1 [P2 [P3 P4]]]. unfold Inv. repeat split.
  - intros d z. rewrite kids_set_kids, par_set_kids, par_set_par_many, kids_set_par_many.
    destruct (Nat.eqb_spec d c) as [->|Hdc]; [intros []|]. intro Hin.
    destruct (memb z (kids s c)) eqn:Em; [|apply P1; exact Hin].
    apply memb_In in Em. apply P1 in Em. apply P1 in Hin. congruence.
  - intro d. rewrite kids_set_kids, kids_set_par_many. destruct (Nat.eqb d c); [constructor | apply P2].
  - intros z d. rewrite kids_set_kids, par_set_kids, par_set_par_many, kids_set_par_many.
    destruct (memb z (kids s c)) eqn:Em; [discriminate|]. intro Hp.
    destruct (Nat.eqb_spec d c) as [->|Hdc]; [|apply P3; exact Hp].
    apply P3 in Hp. apply memb_false in Em. contradiction.
  - intros d i z. rewrite kids_set_kids, kids_set_par_many.
    destruct (Nat.eqb_spec d c) as [->|Hdc]; [destruct i; discriminate | apply P4].
Qed.

Lemma nth_error_rev {A} (l : list A) i :
  (i < length l)%nat -> nth_error (rev l) i = nth_error l (length l - S i).
Proof.
  intro H. destruct l as [|a l]; [simpl in H; lia|]. remember (a :: l) as L.
  rewrite (nth_error_nth' (rev L) a) by (rewrite rev_length; exact H).
  rewrite (nth_error_nth' L a) by lia. f_equal. apply rev_nth. exact H.
Qed.

(* ---- reverse *)
Lemma inv_reverse E s c :
  Inv E s ->
  (forall j y, nth_error (kids s c) j = Some y -> validate E c (zlen (kids s c) - Z.of_nat j - 1) y = true) ->
  Inv E (set_kids s c (rev (kids s c))).
Proof.
  intros [P1 [P2 [P3 P4]]] Hv. unfold Inv. repeat split.
  - intros d z. rewrite kids_set_kids, par_set_kids. destruct (Nat.eqb_spec d c) as [->|Hdc]; [|apply P1].
    intro Hin. apply in_rev in Hin. apply P1. exact Hin.
  - intro d. rewrite kids_set_kids. destruct (Nat.eqb d c); [apply NoDup_rev | ]; apply P2.
  - intros z d. rewrite kids_set_kids, par_set_kids. intro Hp. apply P3 in Hp.
    destruct (Nat.eqb_spec d c) as [->|Hdc]; [apply in_rev; rewrite rev_involutive|]; exact Hp.
  - intros d i z. rewrite kids_set_kids. destruct (Nat.eqb_spec d c) as [->|Hdc]; [|apply P4].
    intro Hn. assert (Hi : (i < length (kids s c))%nat).
    { rewrite <- rev_length. apply nth_error_Some. congruence. }
    assert (HL : nth_error (kids s c) (length (kids s c) - S i) = Some z).
    { rewrite <- nth_error_rev by exact Hi. exact Hn. }
    specialize (Hv _ _ HL). unfold validate, zlen in Hv.
    replace (Z.of_nat (length (kids s c)) - Z.of_nat (length (kids s c) - S i) - 1) with (Z.of_nat i) in Hv by lia.
    exact Hv.
Qed.
