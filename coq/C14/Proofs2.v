(* C14 — theorems for the extended operation set of Model2.v *)
From Coq Require Import List ZArith Bool Lia Arith.
Import ListNotations.
From PV Require Import C14.Model C14.Lemmas C14.Proofs C14.Witness C14.Model2.
Local Open Scope Z_scope.

Theorem step2_safe_ P E fuel s o :
  Inv E s -> op_safe2 P E fuel s o = true ->
  Inv E (fst (step2 P E fuel s o)) /\
  (snd (step2 P E fuel s o) <> None -> state_eq (fst (step2 P E fuel s o)) s).
Proof.
  intros HI HS. unfold op_safe2 in HS. apply Nat.eqb_eq in HS.
  destruct o as [o|c xs|c n|c|c xs|c]; cbn [step2 reason2] in *.
  - apply step_safe_; [exact HI | unfold op_safe; rewrite HS; reflexivity].
  - destruct (f_iadd P).
    + apply (good_extend (base P) E fuel s c xs HI HS).
    + destruct xs; [|discriminate]. rewrite app_nil_r. cbn [fst snd]. split.
      * apply (Inv_state_eq E s); [|exact HI]. split; [|reflexivity].
        intro d. rewrite kids_set_kids. destruct (Nat.eqb_spec d c) as [->|]; reflexivity.
      * intro H; exfalso; apply H; reflexivity.
  - destruct (f_imul P); [apply good_err; exact HI|]. cbn [fst snd]. split; [|intro H; exfalso; apply H; reflexivity].
    apply (Inv_state_eq E s); [|exact HI]. split; [|reflexivity].
    intro d. rewrite kids_set_kids. destruct (Nat.eqb_spec d c) as [->|]; [|reflexivity].
    destruct (Z.eqb_spec n 1) as [->|Hn]; simpl in HS.
    + simpl. rewrite app_nil_r. reflexivity.
    + destruct (kids s c) eqn:EK; [|discriminate]. clear. induction (Z.to_nat n); simpl; auto.
  - apply good_same; exact HI.
  - apply good_err; exact HI.
  - apply good_err; exact HI.
Qed.

Theorem history2_safe_ P E fuel : forall ops s,
  Inv E s -> hist_safe2 P E fuel s ops = true ->
  Inv E (run2 P E fuel s ops) /\ failed_unchanged2 P E fuel s ops.
Proof.
  induction ops as [|o r IH]; intros s HI HS; [split; [exact HI | exact I]|].
  cbn [hist_safe2] in HS. apply andb_true_iff in HS. destruct HS as [H1 H2].
  destruct (step2_safe_ P E fuel s o HI H1) as [A B].
  destruct (IH _ A H2) as [C D]. split; [exact C | split; assumption].
Qed.

Lemma okb2_reason P E fuel s o : P2_okb P = true -> depth_ok2 fuel s o = true -> reason2 P E fuel s o = R_SAFE.
Proof.
  unfold P2_okb. intros HP HD. apply andb_true_iff in HP. destruct HP as [HP H3].
  apply andb_true_iff in HP. destruct HP as [HP H2]. apply P_okb_fixed in HP.
  destruct o as [o|c xs|c n|c|c xs|c]; cbn [reason2 depth_ok2] in *; try reflexivity.
  - rewrite HP. apply fixed_reason. exact HD.
  - rewrite H2, HP. apply fixed_extend. apply negb_true_iff. exact HD.
  - rewrite H3. reflexivity.
Qed.

Theorem history2_full_repaired_ P E fuel : P2_okb P = true -> forall ops s,
  Inv E s -> hist_depth_ok2 P E fuel s ops = true ->
  Inv E (run2 P E fuel s ops) /\ failed_unchanged2 P E fuel s ops.
Proof.
  intro HP. induction ops as [|o r IH]; intros s HI HS; [split; [exact HI | exact I]|].
  cbn [hist_depth_ok2] in HS. apply andb_true_iff in HS. destruct HS as [H1 H2].
  assert (HS1 : op_safe2 P E fuel s o = true).
  { unfold op_safe2. rewrite (okb2_reason P E fuel s o HP H1). reflexivity. }
  destruct (step2_safe_ P E fuel s o HI HS1) as [A B].
  destruct (IH _ A H2) as [C D]. split; [exact C | split; assumption].
Qed.

(* slices never change the forest, whatever the parameters *)
Theorem slices_refused_ P E fuel s c xs :
  step2 P E fuel s (OGetSlice c) = (s, None) /\
  fst (step2 P E fuel s (OSetSlice c xs)) = s /\ snd (step2 P E fuel s (OSetSlice c xs)) <> None /\
  step2 P E fuel s (ODelSlice c) = (s, Some EType).
Proof. repeat split. simpl. discriminate. Qed.

(* the two open findings as machine-checked statements (code of /repo HEAD = P2_head) *)
Lemma refuted_iadd_ :
  exists E ops, Inv E s0 /\ ~ Inv E (run2 P2_head E FUEL s0 ops).
Proof.
  exists (env_of [KSchedule; KReturn]), [OIAdd 0 [1%nat]]. split; [apply inv_s0|].
  intros [P1 _]. specialize (P1 0%nat 1%nat). vm_compute in P1. discriminate (P1 (or_introl eq_refl)).
Qed.
Lemma refuted_imul_ :
  exists E ops, Inv E s0 /\ ~ Inv E (run2 P2_head E FUEL s0 ops).
Proof.
  exists (env_of [KSchedule; KReturn]), [OBase (OAppend 0 1); OIMul 0 2]. split; [apply inv_s0|].
  intros [_ [P2 _]]. specialize (P2 0%nat). vm_compute in P2.
  inversion P2 as [|a l Hnot Hnd]; subst. apply Hnot. left. reflexivity.
Qed.
Lemma refuted_imul_zero_ :
  exists E ops, Inv E s0 /\ ~ Inv E (run2 P2_head E FUEL s0 ops).
Proof.
  exists (env_of [KSchedule; KReturn]), [OBase (OAppend 0 1); OIMul 0 0]. split; [apply inv_s0|].
  intros [_ [_ [P3 _]]]. specialize (P3 1%nat 0%nat). vm_compute in P3. destruct (P3 eq_refl).
Qed.
Lemma repaired2_nonvacuous_ :
  P2_okb P2_fixed = true /\ P2_okb P2_head = false /\
  kids (run2 P2_fixed (env_of [KSchedule; KReturn]) FUEL s0 [OIAdd 0 [1%nat]]) 0 = [1%nat] /\
  par (run2 P2_fixed (env_of [KSchedule; KReturn]) FUEL s0 [OIAdd 0 [1%nat]]) 1 = Some 0%nat /\
  snd (step2 P2_fixed (env_of [KSchedule; KLiteral]) FUEL s0 (OIAdd 0 [1%nat])) = Some EGen /\
  snd (step2 P2_fixed (env_of [KSchedule; KReturn]) FUEL s0 (OIMul 0 2)) = Some ENotImpl /\
  hist_depth_ok2 P2_fixed (env_of [KSchedule; KReturn]) FUEL s0 [OIAdd 0 [1%nat]; OIMul 0 2; ODelSlice 0] = true.
Proof. vm_compute. repeat split. Qed.
