(* C14 — model of ChildrenList / Node tree-editing operations
   (src/psyclone/psyir/nodes/node.py: ChildrenList lines 94-336, Node.addchild, children setter,
   replace_with, pop_all_children, detach, position, update_signal).

   No proofs in this file.  The model is FAITHFUL to the code as it is, including its defects; the
   places where the as-found code and the repaired code differ are the fields of [params]
   (index arithmetic as deep-embedded expressions [iexpr], four boolean switches).  The translator
   props/C14/translate.py regenerates coq/C14/Gen.v (the [params] value [P_src] read from the
   current source and the [valid_child] table read from the _validate_child methods). *)
From Coq Require Import List ZArith Bool Lia Arith.
Import ListNotations.
Local Open Scope Z_scope.

(* ------------------------------------------------------------------ kinds *)
Inductive kind :=
| KSchedule | KLoop | KIfBlock | KWhileLoop | KAssignment | KCall | KReturn
| KBinaryOperation | KUnaryOperation | KRange | KArrayReference | KReference | KLiteral
| KOMPParallelDirective | KOMPSingleDirective | KOMPDefaultClause | KOMPPrivateClause
| KOMPFirstprivateClause | KOMPReductionClause | KOMPNowaitClause.

Definition kind_code (k : kind) : nat :=
  match k with
  | KSchedule => 0 | KLoop => 1 | KIfBlock => 2 | KWhileLoop => 3 | KAssignment => 4 | KCall => 5
  | KReturn => 6 | KBinaryOperation => 7 | KUnaryOperation => 8 | KRange => 9
  | KArrayReference => 10 | KReference => 11 | KLiteral => 12 | KOMPParallelDirective => 13
  | KOMPSingleDirective => 14 | KOMPDefaultClause => 15 | KOMPPrivateClause => 16
  | KOMPFirstprivateClause => 17 | KOMPReductionClause => 18 | KOMPNowaitClause => 19
  end%nat.
Definition kind_eqb (a b : kind) : bool := Nat.eqb (kind_code a) (kind_code b).
Definition all_kinds : list kind :=
  [KSchedule; KLoop; KIfBlock; KWhileLoop; KAssignment; KCall; KReturn; KBinaryOperation;
   KUnaryOperation; KRange; KArrayReference; KReference; KLiteral; KOMPParallelDirective;
   KOMPSingleDirective; KOMPDefaultClause; KOMPPrivateClause; KOMPFirstprivateClause;
   KOMPReductionClause; KOMPNowaitClause].
Definition kind_in (k : kind) (l : list kind) : bool := existsb (kind_eqb k) l.

(* class hierarchy facts used by the frozen reference table *)
Definition is_statement (k : kind) : bool :=
  kind_in k [KLoop; KIfBlock; KWhileLoop; KAssignment; KCall; KReturn; KOMPParallelDirective;
             KOMPSingleDirective].
Definition is_datanode (k : kind) : bool :=
  kind_in k [KCall; KBinaryOperation; KUnaryOperation; KArrayReference; KReference; KLiteral].
Definition is_reference (k : kind) : bool := kind_in k [KArrayReference; KReference].

(* The frozen reference ("documented format") validity table: the specification of "a kind valid
   at its position" (positions are >= 0 there) used by the direct evaluation of the invariant on
   the real tree, and the table the generated [valid_child] must refine (Properties:
   C14_valid_child_refines_reference).  On negative positions (which only the defective index
   arithmetic ever passes in) it answers as the _validate_child methods did when it was frozen,
   so that it also serves as the validity function of the as-found witnesses. *)
Definition valid_ref (ck : kind) (pos : Z) (xk : kind) : bool :=
  match ck with
  | KSchedule => is_statement xk
  | KLoop => (((pos =? 0) || (pos =? 1) || (pos =? 2)) && is_datanode xk) || ((pos =? 3) && kind_eqb xk KSchedule)
  | KIfBlock => ((pos =? 0) && is_datanode xk) || (((pos =? 1) || (pos =? 2)) && kind_eqb xk KSchedule)
  | KWhileLoop => ((pos =? 0) && is_datanode xk) || ((pos =? 1) && kind_eqb xk KSchedule)
  | KAssignment => (pos <? 2) && is_datanode xk
  | KCall => if pos =? 0 then is_reference xk else is_datanode xk
  | KBinaryOperation => ((pos =? 0) || (pos =? 1)) && is_datanode xk
  | KUnaryOperation => (pos =? 0) && is_datanode xk
  | KRange => (pos <? 3) && is_datanode xk
  | KArrayReference => is_datanode xk || kind_eqb xk KRange
  | KOMPParallelDirective =>
      ((pos =? 0) && kind_eqb xk KSchedule) || ((pos =? 1) && kind_eqb xk KOMPDefaultClause) ||
      ((pos =? 2) && kind_eqb xk KOMPPrivateClause) || ((pos =? 3) && kind_eqb xk KOMPFirstprivateClause) ||
      ((4 <=? pos) && kind_eqb xk KOMPReductionClause)
  | KOMPSingleDirective =>
      ((pos =? 0) && kind_eqb xk KSchedule) || ((pos =? 1) && kind_eqb xk KOMPNowaitClause)
  | KOMPPrivateClause | KOMPFirstprivateClause => is_reference xk
  | KReturn | KReference | KLiteral | KOMPDefaultClause | KOMPReductionClause | KOMPNowaitClause => false
  end.

(* --------------------------------------------- index expressions (translator target) *)
Inductive cmp := CLt | CLe | CGt | CGe | CEq | CNe.
Inductive iexpr :=
| IIdx                       (* the `index` argument *)
| ILen                       (* len(self) *)
| IConst (z : Z)
| IAdd (a b : iexpr) | ISub (a b : iexpr) | IMin (a b : iexpr) | IMax (a b : iexpr)
| IIf (c : cmp) (l r : iexpr) (a b : iexpr).     (* a if l <c> r else b *)

Definition cmp_eval (c : cmp) (x y : Z) : bool :=
  match c with
  | CLt => x <? y | CLe => x <=? y | CGt => y <? x | CGe => y <=? x | CEq => x =? y | CNe => negb (x =? y)
  end.
Fixpoint ieval (e : iexpr) (len idx : Z) : Z :=
  match e with
  | IIdx => idx | ILen => len | IConst z => z
  | IAdd a b => ieval a len idx + ieval b len idx
  | ISub a b => ieval a len idx - ieval b len idx
  | IMin a b => Z.min (ieval a len idx) (ieval b len idx)
  | IMax a b => Z.max (ieval a len idx) (ieval b len idx)
  | IIf c l r a b => if cmp_eval c (ieval l len idx) (ieval r len idx) then ieval a len idx else ieval b len idx
  end.
Definition cmp_eqb (a b : cmp) : bool :=
  match a, b with
  | CLt, CLt | CLe, CLe | CGt, CGt | CGe, CGe | CEq, CEq | CNe, CNe => true
  | _, _ => false
  end.
Fixpoint iexpr_eqb (a b : iexpr) : bool :=
  match a, b with
  | IIdx, IIdx | ILen, ILen => true
  | IConst x, IConst y => x =? y
  | IAdd a1 a2, IAdd b1 b2 | ISub a1 a2, ISub b1 b2 | IMin a1 a2, IMin b1 b2 | IMax a1 a2, IMax b1 b2 =>
      iexpr_eqb a1 b1 && iexpr_eqb a2 b2
  | IIf c l r x y, IIf c' l' r' x' y' =>
      cmp_eqb c c' && iexpr_eqb l l' && iexpr_eqb r r' && iexpr_eqb x x' && iexpr_eqb y y'
  | _, _ => false
  end.

(* The variation points of the code. *)
Record params := mkParams {
  ie_insert : iexpr;        (* `positiveindex` of ChildrenList.insert *)
  ie_pop : iexpr;           (* `positiveindex` of ChildrenList.pop *)
  ie_del : iexpr;           (* `positiveindex` of ChildrenList.__delitem__ *)
  ie_set : iexpr;           (* position handed to _validate_item by ChildrenList.__setitem__ *)
  f_extend_dup : bool;      (* extend rejects an item listed twice in its argument *)
  f_remove_unlink : bool;   (* remove unlinks the node it really removes (not the argument) *)
  f_setter_atomic : bool;   (* children setter restores the old children when extend fails *)
  f_cycle_check : bool      (* _check_is_orphan rejects the container itself / its ancestors *)
}.

(* `index if index >= 0 else len(self) - index` — as found *)
Definition ie_found_neg : iexpr := IIf CGe IIdx (IConst 0) IIdx (ISub ILen IIdx).
(* `index if index >= 0 else len(self) + index` — repaired *)
Definition ie_norm : iexpr := IIf CGe IIdx (IConst 0) IIdx (IAdd ILen IIdx).
(* `max(0, min(len(self), index if index >= 0 else len(self) + index))` — repaired insert *)
Definition ie_clamp : iexpr := IMax (IConst 0) (IMin ILen ie_norm).

Definition P_found : params := mkParams ie_found_neg ie_found_neg ie_found_neg IIdx false false false false.
Definition P_fixed : params := mkParams ie_clamp ie_norm ie_norm ie_norm true true true true.

Definition params_eqb (p q : params) : bool :=
  iexpr_eqb (ie_insert p) (ie_insert q) && iexpr_eqb (ie_pop p) (ie_pop q) &&
  iexpr_eqb (ie_del p) (ie_del q) && iexpr_eqb (ie_set p) (ie_set q) &&
  Bool.eqb (f_extend_dup p) (f_extend_dup q) && Bool.eqb (f_remove_unlink p) (f_remove_unlink q) &&
  Bool.eqb (f_setter_atomic p) (f_setter_atomic q) && Bool.eqb (f_cycle_check p) (f_cycle_check q).

(* syntactic recognition of repaired code: sufficient for the full theorem *)
Definition P_okb (p : params) : bool :=
  iexpr_eqb (ie_insert p) ie_clamp && iexpr_eqb (ie_pop p) ie_norm && iexpr_eqb (ie_del p) ie_norm &&
  iexpr_eqb (ie_set p) ie_norm && f_extend_dup p && f_remove_unlink p && f_setter_atomic p && f_cycle_check p.

(* -------------------------------------------------- Python list index semantics *)
Definition zlen {A} (l : list A) : Z := Z.of_nat (length l).

(* index of getitem / setitem / delitem / pop: negative counts from the end, else IndexError *)
Definition py_norm (len i : Z) : option nat :=
  let j := if i <? 0 then i + len else i in
  if (0 <=? j) && (j <? len) then Some (Z.to_nat j) else None.
(* list.insert clamps *)
Definition py_clamp (len i : Z) : nat :=
  let j := if i <? 0 then i + len else i in Z.to_nat (Z.max 0 (Z.min j len)).
Definition py_get {A} (l : list A) (i : Z) : option A :=
  match py_norm (zlen l) i with Some k => nth_error l k | None => None end.
Definition remove_at {A} (k : nat) (l : list A) : list A := firstn k l ++ skipn (S k) l.
Definition insert_at {A} (k : nat) (x : A) (l : list A) : list A := firstn k l ++ x :: skipn k l.
Definition set_at {A} (k : nat) (x : A) (l : list A) : list A := firstn k l ++ x :: skipn (S k) l.

(* ------------------------------------------------------------------ state *)
Record state := mkSt { kids : nat -> list nat; par : nat -> option nat }.
Definition set_kids (s : state) (c : nat) (l : list nat) : state :=
  mkSt (fun d => if Nat.eqb d c then l else kids s d) (par s).
Definition set_par (s : state) (x : nat) (p : option nat) : state :=
  mkSt (kids s) (fun y => if Nat.eqb y x then p else par s y).
Fixpoint set_par_many (s : state) (xs : list nat) (p : option nat) : state :=
  match xs with [] => s | x :: r => set_par_many (set_par s x p) r p end.

(* static facts about the nodes: kind, the attribute compared by __eq__ (literal value, symbol
   name, loop variable, operator), the node class's validity rule, "has argument_names" *)
Record env := mkEnv {
  K : nat -> kind;
  A : nat -> nat;
  V : kind -> Z -> kind -> bool;
  argn : kind -> bool
}.

Inductive err := EGen | EIndex | EValue | ENotImpl | ERecursion | EType | EHang.
Definition err_code (e : err) : nat :=
  match e with EGen => 1 | EIndex => 2 | EValue => 3 | ENotImpl => 4 | ERecursion => 5 | EType => 6 | EHang => 7 end%nat.
Definition res := (state * option err)%type.

(* ---------------------------------------------------- walks over parent pointers *)
(* update_signal: recursion up the parent chain; [true] = does not end within [fuel] frames
   (RecursionError; [fuel] stands for the interpreter's recursion limit) *)
Fixpoint climbs (fuel : nat) (s : state) (c : nat) : bool :=
  match fuel with
  | O => true
  | S f => match par s c with None => false | Some p => climbs f s p end
  end.
(* is x the node c itself or one of its ancestors?  None = walk did not end within fuel *)
Fixpoint on_chain (fuel : nat) (s : state) (c x : nat) : option bool :=
  match fuel with
  | O => None
  | S f => if Nat.eqb c x then Some true
           else match par s c with None => Some false | Some p => on_chain f s p x end
  end.
Definition signal (fuel : nat) (s : state) (c : nat) : res :=
  (s, if climbs fuel s c then Some ERecursion else None).

(* Node.__eq__ and its overrides: same class, same number of children, children pairwise equal,
   same attribute.  None = recursion limit *)
Fixpoint node_eqb (fuel : nat) (E : env) (s : state) (a b : nat) : option bool :=
  match fuel with
  | O => None
  | S f =>
      if negb (kind_eqb (K E a) (K E b)) then Some false
      else if negb (Nat.eqb (length (kids s a)) (length (kids s b))) then Some false
      else
        (fix pairwise (l1 l2 : list nat) : option bool :=
           match l1, l2 with
           | x :: r1, y :: r2 =>
               match node_eqb f E s x y with
               | None => None
               | Some false => Some false
               | Some true => pairwise r1 r2
               end
           | _, _ => Some (Nat.eqb (A E a) (A E b))
           end) (kids s a) (kids s b)
  end.

(* list.index(item): first element that `is item or == item` *)
Inductive found := FAt (j : nat) | FNone | FExhaust.
Fixpoint find_eq (fuel : nat) (E : env) (s : state) (l : list nat) (x : nat) (j : nat) : found :=
  match l with
  | [] => FNone
  | y :: r => if Nat.eqb y x then FAt j
              else match node_eqb fuel E s y x with
                   | None => FExhaust
                   | Some true => FAt j
                   | Some false => find_eq fuel E s r x (S j)
                   end
  end.
(* Node.position: first element that `is self` *)
Fixpoint index_of (x : nat) (l : list nat) (j : nat) : option nat :=
  match l with [] => None | y :: r => if Nat.eqb y x then Some j else index_of x r (S j) end.
Definition memb (x : nat) (l : list nat) : bool := existsb (Nat.eqb x) l.

(* ------------------------------------------------------ ChildrenList helpers *)
Definition validate (E : env) (c : nat) (pos : Z) (x : nat) : bool := V E (K E c) pos (K E x).

(* _check_is_orphan (nodes are created without a constructor parent) *)
Definition check_orphan (P : params) (fuel : nat) (s : state) (c x : nat) : option err :=
  match par s x with
  | Some _ => Some EGen
  | None => if f_cycle_check P
            then match on_chain fuel s c x with
                 | Some true => Some EGen
                 | Some false => None
                 | None => Some EHang
                 end
            else None
  end.

(* `for position in range(lo, len(self)): self._validate_item(position + shift, self[position])`
   n = number of iterations *)
Fixpoint validate_range (E : env) (c : nat) (L : list nat) (n : nat) (pos shift : Z) : option err :=
  match n with
  | O => None
  | S n' => match py_get L pos with
            | None => Some EIndex
            | Some y => if validate E c (pos + shift) y
                        then validate_range E c L n' (pos + 1) shift
                        else Some EGen
            end
  end.
Definition range_count (lo hi : Z) : nat := Z.to_nat (hi - lo).

(* ------------------------------------------------------ ChildrenList methods *)
Definition ch_append (P : params) (E : env) (fuel : nat) (s : state) (c x : nat) : res :=
  let L := kids s c in
  if negb (validate E c (zlen L) x) then (s, Some EGen) else
  match check_orphan P fuel s c x with
  | Some e => (s, Some e)
  | None => signal fuel (set_par (set_kids s c (L ++ [x])) x (Some c)) c
  end.

Definition ch_setitem (P : params) (E : env) (fuel : nat) (s : state) (c : nat) (i : Z) (x : nat) : res :=
  let L := kids s c in
  if negb (validate E c (ieval (ie_set P) (zlen L) i) x) then (s, Some EGen) else
  match check_orphan P fuel s c x with
  | Some e => (s, Some e)
  | None =>
      match py_norm (zlen L) i with
      | None => (s, Some EIndex)
      | Some k =>
          match nth_error L k with
          | None => (s, Some EIndex)
          | Some old =>
              signal fuel (set_par (set_kids (set_par s old None) c (set_at k x L)) x (Some c)) c
          end
      end
  end.

Definition ch_insert (P : params) (E : env) (fuel : nat) (s : state) (c : nat) (i : Z) (x : nat) : res :=
  let L := kids s c in
  let pi := ieval (ie_insert P) (zlen L) i in
  if negb (validate E c pi x) then (s, Some EGen) else
  match check_orphan P fuel s c x with
  | Some e => (s, Some e)
  | None =>
      match validate_range E c L (range_count pi (zlen L)) pi 1 with
      | Some e => (s, Some e)
      | None => signal fuel (set_par (set_kids s c (insert_at (py_clamp (zlen L) i) x L)) x (Some c)) c
      end
  end.

(* the validation loop of extend; j = number of items already seen, seen = those items *)
Fixpoint extend_checks (P : params) (E : env) (fuel : nat) (s : state) (c : nat) (base : Z)
         (seen xs : list nat) : option err :=
  match xs with
  | [] => None
  | x :: r =>
      if negb (validate E c (base + zlen seen) x) then Some EGen else
      match check_orphan P fuel s c x with
      | Some e => Some e
      | None => if f_extend_dup P && memb x seen then Some EGen
                else extend_checks P E fuel s c base (seen ++ [x]) r
      end
  end.
Definition ch_extend (P : params) (E : env) (fuel : nat) (s : state) (c : nat) (xs : list nat) : res :=
  let L := kids s c in
  match extend_checks P E fuel s c (zlen L) [] xs with
  | Some e => (s, Some e)
  | None => signal fuel (set_par_many (set_kids s c (L ++ xs)) xs (Some c)) c
  end.

Definition ch_unlink_at (P : params) (E : env) (fuel : nat) (s : state) (c : nat) (ie : iexpr) (i : Z) : res :=
  let L := kids s c in
  let pi := ieval ie (zlen L) i in
  match validate_range E c L (range_count (pi + 1) (zlen L)) (pi + 1) (-1) with
  | Some e => (s, Some e)
  | None =>
      match py_norm (zlen L) i with
      | None => (s, Some EIndex)
      | Some k =>
          match nth_error L k with
          | None => (s, Some EIndex)
          | Some y => signal fuel (set_kids (set_par s y None) c (remove_at k L)) c
          end
      end
  end.
Definition ch_delitem P E fuel s c i := ch_unlink_at P E fuel s c (ie_del P) i.
Definition ch_pop P E fuel s c i := ch_unlink_at P E fuel s c (ie_pop P) i.

Definition ch_remove (P : params) (E : env) (fuel : nat) (s : state) (c x : nat) : res :=
  let L := kids s c in
  match find_eq fuel E s L x O with
  | FExhaust => (s, Some ERecursion)
  | FNone => (s, Some EValue)
  | FAt j =>
      match validate_range E c L (range_count (Z.of_nat j + 1) (zlen L)) (Z.of_nat j + 1) (-1) with
      | Some e => (s, Some e)
      | None =>
          match nth_error L j with
          | None => (s, Some EValue)
          | Some y =>
              let unlinked := if f_remove_unlink P then y else x in
              signal fuel (set_kids (set_par s unlinked None) c (remove_at j L)) c
          end
      end
  end.

(* `for index, item in enumerate(self): self._validate_item(len(self) - index - 1, item)` *)
Fixpoint reverse_checks (E : env) (c : nat) (len : Z) (j : Z) (l : list nat) : option err :=
  match l with
  | [] => None
  | y :: r => if validate E c (len - j - 1) y then reverse_checks E c len (j + 1) r else Some EGen
  end.
Definition ch_reverse (E : env) (fuel : nat) (s : state) (c : nat) : res :=
  let L := kids s c in
  match reverse_checks E c (zlen L) 0 L with
  | Some e => (s, Some e)
  | None => signal fuel (set_kids s c (rev L)) c
  end.
Definition ch_clear (fuel : nat) (s : state) (c : nat) : res :=
  signal fuel (set_kids (set_par_many s (kids s c) None) c []) c.

(* ------------------------------------------------------------- Node methods *)
Definition nd_detach (P : params) (E : env) (fuel : nat) (s : state) (x : nat) : res :=
  match par s x with
  | None => (s, None)
  | Some p => match index_of x (kids s p) O with
              | None => (s, Some EType)                 (* position is None: pop(None) *)
              | Some j => ch_pop P E fuel s p (Z.of_nat j)
              end
  end.

Definition nd_replace_with (P : params) (E : env) (fuel : nat) (s : state) (x y : nat) : res :=
  match par s x with
  | None => (s, Some EGen)
  | Some p =>
      match par s y with
      | Some _ => (s, Some EGen)
      | None =>
          match index_of x (kids s p) O with
          | None => (s, Some EType)
          | Some j =>
              (* parent.argument_names[position - 1] of a Call whose only child is its routine *)
              if argn E (K E p) && Nat.eqb j 0 && Nat.eqb (length (kids s p)) 1 then (s, Some EIndex)
              else ch_setitem P E fuel s p (Z.of_nat j) y
          end
      end
  end.

(* `while self.children: free_children.insert(0, self.children.pop())` *)
Fixpoint nd_pop_all_loop (n : nat) (P : params) (E : env) (fuel : nat) (s : state) (c : nat) : res :=
  match n with
  | O => (s, None)
  | S n' => match kids s c with
            | [] => (s, None)
            | _ => match ch_pop P E fuel s c (-1) with
                   | (s', None) => nd_pop_all_loop n' P E fuel s' c
                   | r => r
                   end
            end
  end.
Definition nd_pop_all (P : params) (E : env) (fuel : nat) (s : state) (c : nat) : res :=
  nd_pop_all_loop (length (kids s c)) P E fuel s c.

Definition nd_set_children (P : params) (E : env) (fuel : nat) (s : state) (c : nat) (xs : list nat) : res :=
  let old := kids s c in
  match nd_pop_all P E fuel s c with
  | (s1, Some e) => (s1, Some e)
  | (s1, None) =>
      match ch_extend P E fuel s1 c xs with
      | (s2, None) => (s2, None)
      | (s2, Some ERecursion) => (s2, Some ERecursion)
      | (s2, Some e) =>
          if f_setter_atomic P
          then (fst (ch_extend P E fuel s2 c old), Some e)    (* except: restore, re-raise *)
          else (s2, Some e)
      end
  end.

(* --------------------------------------------------------------- operations *)
Inductive op :=
| OAppend (c x : nat) | OInsert (c : nat) (i : Z) (x : nat) | OSetItem (c : nat) (i : Z) (x : nat)
| ODelItem (c : nat) (i : Z) | ORemove (c x : nat) | OPop (c : nat) (i : Z) | OPopLast (c : nat)
| OExtend (c : nat) (xs : list nat) | OClear (c : nat) | OReverse (c : nat) | OSort (c : nat)
| OAddChild (c x : nat) (i : option Z) | ODetach (x : nat) | OReplaceWith (x y : nat)
| OPopAll (c : nat) | OSetChildren (c : nat) (xs : list nat).

Definition step (P : params) (E : env) (fuel : nat) (s : state) (o : op) : res :=
  match o with
  | OAppend c x => ch_append P E fuel s c x
  | OInsert c i x => ch_insert P E fuel s c i x
  | OSetItem c i x => ch_setitem P E fuel s c i x
  | ODelItem c i => ch_delitem P E fuel s c i
  | ORemove c x => ch_remove P E fuel s c x
  | OPop c i => ch_pop P E fuel s c i
  | OPopLast c => ch_pop P E fuel s c (-1)
  | OExtend c xs => ch_extend P E fuel s c xs
  | OClear c => ch_clear fuel s c
  | OReverse c => ch_reverse E fuel s c
  | OSort c => (s, Some ENotImpl)
  | OAddChild c x None => ch_append P E fuel s c x
  | OAddChild c x (Some i) => ch_insert P E fuel s c i x
  | ODetach x => nd_detach P E fuel s x
  | OReplaceWith x y => nd_replace_with P E fuel s x y
  | OPopAll c => nd_pop_all P E fuel s c
  | OSetChildren c xs => nd_set_children P E fuel s c xs
  end.

Definition run (P : params) (E : env) (fuel : nat) (s : state) (ops : list op) : state :=
  fold_left (fun s o => fst (step P E fuel s o)) ops s.

(* ------------------------------------------- the sufficient ("safe") condition *)
(* reason codes: 0 = safe; otherwise the first defect the operation can run into *)
Definition R_SAFE := 0%nat.
Definition R_POP_IDX := 1%nat.        (* pop: positiveindex differs from the real position *)
Definition R_DEL_IDX := 2%nat.
Definition R_INS_NEG := 3%nat.        (* insert, negative index *)
Definition R_INS_OVER := 4%nat.       (* insert, index beyond the end (list.insert clamps) *)
Definition R_SET_IDX := 5%nat.
Definition R_EXT_DUP := 6%nat.
Definition R_REMOVE_EQ := 7%nat.      (* remove: first equal node is not the argument *)
Definition R_SETTER := 8%nat.         (* children setter fails after popping *)
Definition R_CYCLE := 9%nat.          (* item is the container or one of its ancestors *)
Definition R_DEPTH := 10%nat.         (* container deeper than the recursion limit *)

Definition unlink_idx_ok (ie : iexpr) (len i : Z) : bool :=
  match py_norm len i with
  | None => true
  | Some k => (ieval ie len i =? Z.of_nat k) || (Z.of_nat k + 1 =? len)
  end.
Definition insert_idx_ok (ie : iexpr) (len i : Z) : bool := ieval ie len i =? Z.of_nat (py_clamp len i).
Definition set_idx_ok (ie : iexpr) (len i : Z) : bool :=
  match py_norm len i with None => true | Some k => ieval ie len i =? Z.of_nat k end.
Definition depth_reason (fuel : nat) (s : state) (c : nat) : nat :=
  if climbs fuel s c then R_DEPTH else R_SAFE.
(* linking x below c *)
Definition link_reason (P : params) (fuel : nat) (s : state) (c x : nat) : nat :=
  match on_chain fuel s c x with
  | Some false => R_SAFE
  | Some true => if f_cycle_check P then R_SAFE else R_CYCLE
  | None => if f_cycle_check P then R_SAFE else R_DEPTH
  end.
Fixpoint first_reason (l : list nat) : nat :=
  match l with [] => R_SAFE | r :: t => if Nat.eqb r R_SAFE then first_reason t else r end.
Fixpoint has_dup (l : list nat) : bool :=
  match l with [] => false | x :: r => memb x r || has_dup r end.

(* pop() / pop(-1) never enters the sibling-validation loop *)
Definition pop_last_ok (ie : iexpr) (len : Z) : bool := len <=? ieval ie len (-1) + 1.
Definition pop_all_reason (P : params) (n : nat) : nat :=
  if forallb (fun l => pop_last_ok (ie_pop P) (Z.of_nat l)) (seq 1 n) then R_SAFE else R_POP_IDX.
Definition pop_reason (P : params) (fuel : nat) (s : state) (c : nat) (i : Z) : nat :=
  first_reason [if unlink_idx_ok (ie_pop P) (zlen (kids s c)) i then R_SAFE else R_POP_IDX;
                depth_reason fuel s c].
Definition insert_reason (P : params) (fuel : nat) (s : state) (c : nat) (i : Z) (x : nat) : nat :=
  first_reason [if insert_idx_ok (ie_insert P) (zlen (kids s c)) i then R_SAFE
                else if i <? 0 then R_INS_NEG else R_INS_OVER;
                link_reason P fuel s c x].
Definition setitem_reason (P : params) (fuel : nat) (s : state) (c : nat) (i : Z) (x : nat) : nat :=
  first_reason [if set_idx_ok (ie_set P) (zlen (kids s c)) i then R_SAFE else R_SET_IDX;
                link_reason P fuel s c x].
Definition extend_reason (P : params) (fuel : nat) (s : state) (c : nat) (xs : list nat) : nat :=
  first_reason ((if f_extend_dup P || negb (has_dup xs) then R_SAFE else R_EXT_DUP)
                :: depth_reason fuel s c :: map (link_reason P fuel s c) xs).

Definition reason (P : params) (E : env) (fuel : nat) (s : state) (o : op) : nat :=
  match o with
  | OAppend c x | OAddChild c x None => link_reason P fuel s c x
  | OInsert c i x | OAddChild c x (Some i) => insert_reason P fuel s c i x
  | OSetItem c i x => setitem_reason P fuel s c i x
  | ODelItem c i =>
      first_reason [if unlink_idx_ok (ie_del P) (zlen (kids s c)) i then R_SAFE else R_DEL_IDX;
                    depth_reason fuel s c]
  | OPop c i => pop_reason P fuel s c i
  | OPopLast c => depth_reason fuel s c
  | OPopAll c => first_reason [pop_all_reason P (length (kids s c)); depth_reason fuel s c]
  | ORemove c x =>
      first_reason [match find_eq fuel E s (kids s c) x O with
                    | FAt j => if f_remove_unlink P then R_SAFE
                               else match nth_error (kids s c) j with
                                    | Some y => if Nat.eqb y x then R_SAFE else R_REMOVE_EQ
                                    | None => R_SAFE
                                    end
                    | _ => R_SAFE
                    end; depth_reason fuel s c]
  | OExtend c xs => extend_reason P fuel s c xs
  | OClear c | OReverse c => depth_reason fuel s c
  | OSort c => R_SAFE
  | ODetach x =>
      match par s x with
      | None => R_SAFE
      | Some p => match index_of x (kids s p) O with
                  | None => R_SAFE
                  | Some j => pop_reason P fuel s p (Z.of_nat j)
                  end
      end
  | OReplaceWith x y =>
      match par s x with
      | None => R_SAFE
      | Some p => match index_of x (kids s p) O with
                  | None => R_SAFE
                  | Some j => setitem_reason P fuel s p (Z.of_nat j) y
                  end
      end
  | OSetChildren c xs =>
      let s1 := fst (nd_pop_all P E fuel s c) in
      first_reason [pop_all_reason P (length (kids s c)); depth_reason fuel s c;
                    if f_setter_atomic P then R_SAFE
                    else match snd (nd_set_children P E fuel s c xs) with
                         | None => R_SAFE | Some _ => R_SETTER end;
                    extend_reason P fuel s1 c xs]
  end.
Definition op_safe (P : params) (E : env) (fuel : nat) (s : state) (o : op) : bool :=
  Nat.eqb (reason P E fuel s o) R_SAFE.

Fixpoint hist_safe (P : params) (E : env) (fuel : nat) (s : state) (ops : list op) : bool :=
  match ops with
  | [] => true
  | o :: r => op_safe P E fuel s o && hist_safe P E fuel (fst (step P E fuel s o)) r
  end.

(* container whose depth matters for an operation (the only residual condition of repaired code:
   update_signal is recursive, so a container deeper than the recursion limit fails after the edit) *)
Definition depth_ok (fuel : nat) (s : state) (o : op) : bool :=
  match o with
  | OAppend c _ | OInsert c _ _ | OSetItem c _ _ | ODelItem c _ | ORemove c _ | OPop c _ | OPopLast c
  | OExtend c _ | OClear c | OReverse c | OAddChild c _ _ | OPopAll c | OSetChildren c _ => negb (climbs fuel s c)
  | OSort _ => true
  | ODetach x | OReplaceWith x _ => match par s x with None => true | Some p => negb (climbs fuel s p) end
  end.
Fixpoint hist_depth_ok (P : params) (E : env) (fuel : nat) (s : state) (ops : list op) : bool :=
  match ops with
  | [] => true
  | o :: r => depth_ok fuel s o && hist_depth_ok P E fuel (fst (step P E fuel s o)) r
  end.

(* "an operation that raises an error leaves the tree exactly as it was", along a history *)
Definition state_eq (s s' : state) : Prop :=
  (forall c, kids s c = kids s' c) /\ (forall x, par s x = par s' x).
Fixpoint failed_unchanged (P : params) (E : env) (fuel : nat) (s : state) (ops : list op) : Prop :=
  match ops with
  | [] => True
  | o :: r => (snd (step P E fuel s o) <> None -> state_eq (fst (step P E fuel s o)) s) /\
              failed_unchanged P E fuel (fst (step P E fuel s o)) r
  end.

(* ------------------------------------------------ the invariant, decidably *)
Definition Inv (E : env) (s : state) : Prop :=
  (forall c x, In x (kids s c) -> par s x = Some c) /\
  (forall c, NoDup (kids s c)) /\
  (forall x c, par s x = Some c -> In x (kids s c)) /\
  (forall c i x, nth_error (kids s c) i = Some x -> V E (K E c) (Z.of_nat i) (K E x) = true).

(* boolean invariant over the nodes 0..n-1 (all the nodes of a correspondence case) *)
Fixpoint valid_from (E : env) (c : nat) (i : Z) (l : list nat) : bool :=
  match l with [] => true | x :: r => V E (K E c) i (K E x) && valid_from E c (i + 1) r end.
Definition opt_nat_eqb (a b : option nat) : bool :=
  match a, b with None, None => true | Some x, Some y => Nat.eqb x y | _, _ => false end.
Definition inv_b (E : env) (n : nat) (s : state) : bool :=
  forallb (fun c =>
    forallb (fun x => opt_nat_eqb (par s x) (Some c)) (kids s c) &&
    negb (has_dup (kids s c)) &&
    valid_from E c 0 (kids s c) &&
    match par s c with None => true | Some p => memb c (kids s p) end) (seq 0 n).

(* ------------------------------------------ correspondence cases (check.py) *)
Fixpoint lookup {B} (d : B) (t : list (nat * B)) (x : nat) : B :=
  match t with [] => d | (y, v) :: r => if Nat.eqb y x then v else lookup d r x end.
Definition state_of (t : list (nat * (option nat * list nat))) : state :=
  mkSt (fun c => snd (lookup (None, []) t c)) (fun x => fst (lookup (None, []) t x)).
Fixpoint list_nat_eqb (a b : list nat) : bool :=
  match a, b with
  | [], [] => true
  | x :: a', y :: b' => Nat.eqb x y && list_nat_eqb a' b'
  | _, _ => false
  end.
Definition state_eqb (n : nat) (s s' : state) : bool :=
  forallb (fun c => list_nat_eqb (kids s c) (kids s' c) && opt_nat_eqb (par s c) (par s' c)) (seq 0 n).

(* one observed step: the operation, the implementation's error code (0 = none), the nodes whose
   (parent, children) changed with their new values, the implementation-side verdicts:
   invariant holds afterwards (reference validity), reason code claimed by the harness *)
Record obs_step := mkObs {
  o_op : op; o_err : nat; o_diff : list (nat * (option nat * list nat)); o_inv : bool; o_reason : nat
}.
Record case := mkCase {
  c_kinds : list (nat * (kind * nat));                 (* node -> (kind, attribute) *)
  c_init : list (nat * (option nat * list nat));
  c_steps : list obs_step
}.
Definition out_code (o : option err) : nat := match o with None => O | Some e => err_code e end.

Definition case_env (Vt : kind -> Z -> kind -> bool) (argn_t : kind -> bool) (c : case) : env :=
  mkEnv (fun x => fst (lookup (KReturn, O) (c_kinds c) x)) (fun x => snd (lookup (KReturn, O) (c_kinds c) x))
        Vt argn_t.
Definition ref_env (c : case) : env := case_env valid_ref (fun k => kind_eqb k KCall) c.

(* returns the index (from 1) of the first step that disagrees, 0 if none *)
Fixpoint replay (P : params) (E Eref : env) (fuel n : nat) (s : state)
         (t : list (nat * (option nat * list nat))) (steps : list obs_step) (k : nat) : nat :=
  match steps with
  | [] => O
  | st :: r =>
      let rsn := reason P E fuel s (o_op st) in
      let '(s', out) := step P E fuel s (o_op st) in
      let t' := o_diff st ++ t in
      if Nat.eqb (out_code out) (o_err st) && state_eqb n s' (state_of t') &&
         Bool.eqb (inv_b Eref n (state_of t')) (o_inv st) && Nat.eqb rsn (o_reason st)
      then replay P E Eref fuel n s' t' r (S k) else S k
  end.
Definition FUEL := 64%nat.
Definition case_first_bad (P : params) (Vt : kind -> Z -> kind -> bool) (argn_t : kind -> bool) (c : case) : nat :=
  replay P (case_env Vt argn_t c) (ref_env c) FUEL (length (c_kinds c)) (state_of (c_init c)) (c_init c) (c_steps c) O.
Definition case_ok (P : params) (Vt : kind -> Z -> kind -> bool) (argn_t : kind -> bool) (c : case) : bool :=
  Nat.eqb (case_first_bad P Vt argn_t c) O.
