(* C14 — extension of Model.v: the list operations that ChildrenList does NOT override (in-place
   operators `+=`, `*=` : plain list semantics, no validation, no parent links, no update_signal),
   and slice get / set / delete (refused by `index >= 0` on a slice: TypeError; by _validate_item:
   GenerationError in the as-found __setitem__).  No proofs in this file. *)
From Coq Require Import List ZArith Bool Lia Arith.
Import ListNotations.
From PV Require Import C14.Model.
Local Open Scope Z_scope.

Record params2 := mkParams2 {
  base : params;
  f_iadd : bool;          (* __iadd__ is overridden and goes through extend *)
  f_imul : bool;          (* __imul__ is overridden and raises NotImplementedError *)
  e_setslice : err        (* exception of `children[a:b] = ...` (EGen as found, EType once normalised) *)
}.
Definition P2_head : params2 := mkParams2 P_fixed false false EType.    (* /repo after fix.patch *)
Definition P2_fixed : params2 := mkParams2 P_fixed true true EType.     (* with fix2.patch *)
Definition P2_okb (p : params2) : bool := P_okb (base p) && f_iadd p && f_imul p.

Inductive op2 :=
| OBase (o : op)
| OIAdd (c : nat) (xs : list nat)       (* l = c.children; l += xs *)
| OIMul (c : nat) (n : Z)               (* l = c.children; l *= n *)
| OGetSlice (c : nat)                   (* c.children[a:b:k]  (a plain list; no effect) *)
| OSetSlice (c : nat) (xs : list nat)   (* c.children[a:b] = xs *)
| ODelSlice (c : nat).                  (* del c.children[a:b] *)

Fixpoint repeat_list {A} (n : nat) (l : list A) : list A :=
  match n with O => [] | S n' => l ++ repeat_list n' l end.

Definition step2 (P : params2) (E : env) (fuel : nat) (s : state) (o : op2) : res :=
  match o with
  | OBase o => step (base P) E fuel s o
  | OIAdd c xs => if f_iadd P then ch_extend (base P) E fuel s c xs
                  else (set_kids s c (kids s c ++ xs), None)
  | OIMul c n => if f_imul P then (s, Some ENotImpl)
                 else (set_kids s c (repeat_list (Z.to_nat n) (kids s c)), None)
  | OGetSlice c => (s, None)
  | OSetSlice c xs => (s, Some (e_setslice P))
  | ODelSlice c => (s, Some EType)
  end.
Definition run2 (P : params2) (E : env) (fuel : nat) (s : state) (ops : list op2) : state :=
  fold_left (fun s o => fst (step2 P E fuel s o)) ops s.

Definition R_IADD := 11%nat.
Definition R_IMUL := 12%nat.
Definition reason2 (P : params2) (E : env) (fuel : nat) (s : state) (o : op2) : nat :=
  match o with
  | OBase o => reason (base P) E fuel s o
  | OIAdd c xs => if f_iadd P then extend_reason (base P) fuel s c xs
                  else match xs with [] => R_SAFE | _ => R_IADD end
  | OIMul c n => if f_imul P then R_SAFE
                 else if (n =? 1) || Nat.eqb (length (kids s c)) 0 then R_SAFE else R_IMUL
  | OGetSlice _ | OSetSlice _ _ | ODelSlice _ => R_SAFE
  end.
Definition op_safe2 P E fuel s o : bool := Nat.eqb (reason2 P E fuel s o) R_SAFE.
Fixpoint hist_safe2 (P : params2) (E : env) (fuel : nat) (s : state) (ops : list op2) : bool :=
  match ops with
  | [] => true
  | o :: r => op_safe2 P E fuel s o && hist_safe2 P E fuel (fst (step2 P E fuel s o)) r
  end.
Definition depth_ok2 (fuel : nat) (s : state) (o : op2) : bool :=
  match o with
  | OBase o => depth_ok fuel s o
  | OIAdd c _ => negb (climbs fuel s c)
  | _ => true
  end.
Fixpoint hist_depth_ok2 (P : params2) (E : env) (fuel : nat) (s : state) (ops : list op2) : bool :=
  match ops with
  | [] => true
  | o :: r => depth_ok2 fuel s o && hist_depth_ok2 P E fuel (fst (step2 P E fuel s o)) r
  end.
Fixpoint failed_unchanged2 (P : params2) (E : env) (fuel : nat) (s : state) (ops : list op2) : Prop :=
  match ops with
  | [] => True
  | o :: r => (snd (step2 P E fuel s o) <> None -> state_eq (fst (step2 P E fuel s o)) s) /\
              failed_unchanged2 P E fuel (fst (step2 P E fuel s o)) r
  end.

(* correspondence cases over op2 *)
Record obs_step2 := mkObs2 {
  o2_op : op2; o2_err : nat; o2_diff : list (nat * (option nat * list nat)); o2_inv : bool; o2_reason : nat
}.
Record case2 := mkCase2 {
  c2_kinds : list (nat * (kind * nat));
  c2_init : list (nat * (option nat * list nat));
  c2_steps : list obs_step2
}.
Fixpoint replay2 (P : params2) (E Eref : env) (fuel n : nat) (s : state)
         (t : list (nat * (option nat * list nat))) (steps : list obs_step2) (k : nat) : nat :=
  match steps with
  | [] => O
  | st :: r =>
      let rsn := reason2 P E fuel s (o2_op st) in
      let '(s', out) := step2 P E fuel s (o2_op st) in
      let t' := o2_diff st ++ t in
      if Nat.eqb (out_code out) (o2_err st) && state_eqb n s' (state_of t') &&
         Bool.eqb (inv_b Eref n (state_of t')) (o2_inv st) && Nat.eqb rsn (o2_reason st)
      then replay2 P E Eref fuel n s' t' r (S k) else S k
  end.
Definition case2_env (Vt : kind -> Z -> kind -> bool) (argn_t : kind -> bool) (c : case2) : env :=
  mkEnv (fun x => fst (lookup (KReturn, O) (c2_kinds c) x)) (fun x => snd (lookup (KReturn, O) (c2_kinds c) x))
        Vt argn_t.
Definition case2_first_bad (P : params2) (Vt : kind -> Z -> kind -> bool) (argn_t : kind -> bool) (c : case2) : nat :=
  replay2 P (case2_env Vt argn_t c) (case2_env valid_ref (fun k => kind_eqb k KCall) c) FUEL
          (length (c2_kinds c)) (state_of (c2_init c)) (c2_init c) (c2_steps c) O.
Definition case2_ok (P : params2) (Vt : kind -> Z -> kind -> bool) (argn_t : kind -> bool) (c : case2) : bool :=
  Nat.eqb (case2_first_bad P Vt argn_t c) O.
