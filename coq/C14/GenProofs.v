(* C14 — facts about the GENERATED table coq/C14/Gen.v (re-checked after every translation) *)
From Coq Require Import List ZArith Bool Lia Arith.
Import ListNotations.
From PV Require Import C14.Model C14.Gen.
Local Open Scope Z_scope.

Ltac zcmp :=
  repeat match goal with
         | |- context[Z.eqb ?a ?b] => destruct (Z.eqb_spec a b)
         | |- context[Z.ltb ?a ?b] => destruct (Z.ltb_spec a b)
         | |- context[Z.leb ?a ?b] => destruct (Z.leb_spec a b)
         end.

(* whatever a node class accepts at a (real, non-negative) position, the frozen reference table
   accepts too: a relaxed _validate_child breaks this proof *)
Theorem valid_child_refines_reference_ :
  forall ck pos xk, 0 <= pos -> valid_child ck pos xk = true -> valid_ref ck pos xk = true.
Proof.
  intros ck pos xk Hp.
  destruct ck; destruct xk;
    cbv [valid_child valid_ref cmp_eval is_statement is_datanode is_reference kind_in existsb kind_eqb
         kind_code Nat.eqb orb andb negb];
    zcmp; intro HH; try reflexivity; try discriminate; try lia.
Qed.

(* the call-like classes (those with argument_names) are as pinned *)
Theorem argn_src_is_call_ : forall k, argn_src k = kind_eqb k KCall.
Proof. intro k. destruct k; reflexivity. Qed.

(* the invariant stated with the classes' own rules implies the invariant stated with the frozen
   reference table (which is what the harness evaluates on the real tree) *)
Theorem inv_reference_ : forall Kf Af s,
  Inv (mkEnv Kf Af valid_child argn_src) s -> Inv (mkEnv Kf Af valid_ref argn_src) s.
Proof.
  intros Kf Af s [P1 [P2 [P3 P4]]]. unfold Inv. repeat split; try assumption.
  intros c i x Hn. simpl. apply valid_child_refines_reference_; [lia|]. apply (P4 c i x Hn).
Qed.
