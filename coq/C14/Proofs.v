(* C14 — every operation inside the safe fragment preserves the invariant, and a failed operation
   leaves the forest unchanged; lifted to histories; full theorem for repaired parameters. *)
From Coq Require Import List ZArith Bool Lia Arith Permutation.
Import ListNotations.
From PV Require Import C14.Model C14.Lemmas C14.InvLemmas.
Local Open Scope Z_scope.

Definition Good (E : env) (s : state) (r : res) : Prop :=
  Inv E (fst r) /\ (snd r <> None -> state_eq (fst r) s).

Lemma good_err E s e : Inv E s -> Good E s (s, Some e).
Proof. intro H. split; [exact H | intros _; apply state_eq_refl]. Qed.
Lemma good_same E s o : Inv E s -> Good E s (s, o).
Proof. intro H. split; [exact H | intros _; apply state_eq_refl]. Qed.
Lemma good_signal E s fuel s' c : Inv E s' -> climbs fuel s' c = false -> Good E s (signal fuel s' c).
Proof.
  intros H Hc. unfold signal. rewrite Hc. split; [exact H | intro Hn; exfalso; apply Hn; reflexivity].
Qed.

Lemma Inv_state_eq E s s' : state_eq s s' -> Inv E s -> Inv E s'.
Proof.
  intros [Hk Hp] [P1 [P2 [P3 P4]]]. unfold Inv. repeat split.
  - intros c x. rewrite <- Hk, <- Hp. apply P1.
  - intro c. rewrite <- Hk. apply P2.
  - intros x c. rewrite <- Hk, <- Hp. apply P3.
  - intros c i x. rewrite <- Hk. apply P4.
Qed.

(* ------------------------------------------------------------ reason codes *)
Lemma first_reason_cons r t : first_reason (r :: t) = R_SAFE -> r = R_SAFE /\ first_reason t = R_SAFE.
Proof.
  simpl. destruct (Nat.eqb_spec r R_SAFE) as [E|E]; intro H; [split; assumption | contradiction].
Qed.
Lemma first_reason_all l : first_reason l = R_SAFE -> forall r, In r l -> r = R_SAFE.
Proof.
  induction l as [|a l IH]; intros H r Hin; [contradiction|].
  apply first_reason_cons in H. destruct H as [H1 H2].
  destruct Hin as [<-|Hin]; [exact H1 | apply IH; assumption].
Qed.
Lemma depth_reason_safe fuel s c : depth_reason fuel s c = R_SAFE -> climbs fuel s c = false.
Proof. unfold depth_reason. destruct (climbs fuel s c); [discriminate | reflexivity]. Qed.

Lemma link_safe P fuel s c x :
  link_reason P fuel s c x = R_SAFE -> check_orphan P fuel s c x = None ->
  par s x = None /\ on_chain fuel s c x = Some false.
Proof.
  unfold link_reason, check_orphan. destruct (par s x); [discriminate|].
  destruct (on_chain fuel s c x) as [[|]|]; destruct (f_cycle_check P); try discriminate; auto.
Qed.

(* the parent walk from c after an update that resets pointers and links nodes off the chain *)
Lemma climbs_upd f s s' c :
  (forall y, par s' y = par s y \/ par s' y = None \/ (exists g, on_chain g s c y = Some false)) ->
  climbs f s c = false -> climbs f s' c = false.
Proof.
  revert c. induction f as [|f IH]; intros c HL H; [discriminate|].
  simpl in *. destruct (HL c) as [E|[E|[g Hg]]].
  - rewrite E. destruct (par s c) as [p|] eqn:Ep; [|reflexivity].
    apply IH; [|exact H]. intro y. destruct (HL y) as [Ey|[Ey|[g Hg]]]; [left; exact Ey | right; left; exact Ey|].
    right. right. destruct g as [|g]; [discriminate|]. simpl in Hg.
    destruct (Nat.eqb c y); [discriminate|]. rewrite Ep in Hg. exists g. exact Hg.
  - rewrite E. reflexivity.
  - destruct g as [|g]; [discriminate|]. simpl in Hg. rewrite Nat.eqb_refl in Hg. discriminate.
Qed.

(* ------------------------------------------------------------ append / insert *)
Lemma insert_at_end {A} (l : list A) x : insert_at (length l) x l = l ++ [x].
Proof. unfold insert_at. rewrite firstn_all, skipn_all. reflexivity. Qed.

Lemma good_append P E fuel s c x :
  Inv E s -> link_reason P fuel s c x = R_SAFE -> Good E s (ch_append P E fuel s c x).
Proof.
  intros HI HR. unfold ch_append.
  destruct (validate E c (zlen (kids s c)) x) eqn:Ev; simpl; [|apply good_err; exact HI].
  destruct (check_orphan P fuel s c x) eqn:Eo; [apply good_err; exact HI|].
  destruct (link_safe _ _ _ _ _ HR Eo) as [Hx Hch].
  rewrite <- insert_at_end. apply good_signal.
  - apply inv_insert_at; try assumption; [lia|].
    intros j y Hj Hn. exfalso.
    assert ((j < length (kids s c))%nat) by (apply nth_error_Some; congruence). lia.
  - apply (climbs_upd fuel s); [|apply (on_chain_false_climbs _ _ _ _ Hch)].
    intro y. rewrite par_set_par, par_set_kids. destruct (Nat.eqb_spec y x) as [->|]; [|left; reflexivity].
    right. right. exists fuel. exact Hch.
Qed.

Lemma range_count_nat (k : nat) (len : nat) : range_count (Z.of_nat k) (Z.of_nat len) = (len - k)%nat.
Proof. unfold range_count. lia. Qed.

Lemma good_insert P E fuel s c i x :
  Inv E s -> insert_reason P fuel s c i x = R_SAFE -> Good E s (ch_insert P E fuel s c i x).
Proof.
  intros HI HR. unfold insert_reason in HR.
  apply first_reason_cons in HR. destruct HR as [HR1 HR2].
  apply first_reason_cons in HR2. destruct HR2 as [HR2 _].
  assert (Hidx : insert_idx_ok (ie_insert P) (zlen (kids s c)) i = true).
  { destruct (insert_idx_ok (ie_insert P) (zlen (kids s c)) i); [reflexivity|].
    destruct (i <? 0); discriminate. }
  unfold insert_idx_ok in Hidx. apply Z.eqb_eq in Hidx.
  unfold ch_insert. rewrite Hidx.
  assert (Hk : (py_clamp (zlen (kids s c)) i <= length (kids s c))%nat).
  { pose proof (py_clamp_le (zlen (kids s c)) i) as H.
    assert (H0 : 0 <= zlen (kids s c)) by (unfold zlen; lia). specialize (H H0).
    unfold zlen in H at 2. lia. }
  set (k := py_clamp (zlen (kids s c)) i) in *.
  destruct (validate E c (Z.of_nat k) x) eqn:Ev; simpl; [|apply good_err; exact HI].
  destruct (check_orphan P fuel s c x) eqn:Eo; [apply good_err; exact HI|].
  destruct (link_safe _ _ _ _ _ HR2 Eo) as [Hx Hch].
  destruct (validate_range E c (kids s c) (range_count (Z.of_nat k) (zlen (kids s c))) (Z.of_nat k) 1) eqn:Er;
    [apply good_err; exact HI|].
  apply good_signal.
  - apply inv_insert_at; try assumption.
    intros j y Hj Hn. apply (validate_range_ok _ _ _ _ _ _ Er j y); [|exact Hn].
    unfold zlen. rewrite range_count_nat.
    assert ((j < length (kids s c))%nat) by (apply nth_error_Some; congruence). lia.
  - apply (climbs_upd fuel s); [|apply (on_chain_false_climbs _ _ _ _ Hch)].
    intro y. rewrite par_set_par, par_set_kids. destruct (Nat.eqb_spec y x) as [->|]; [|left; reflexivity].
    right. right. exists fuel. exact Hch.
Qed.

(* ------------------------------------------------------------ __setitem__ *)
Lemma good_setitem P E fuel s c i x :
  Inv E s -> setitem_reason P fuel s c i x = R_SAFE -> Good E s (ch_setitem P E fuel s c i x).
Proof.
  intros HI HR. unfold setitem_reason in HR.
  apply first_reason_cons in HR. destruct HR as [HR1 HR2].
  apply first_reason_cons in HR2. destruct HR2 as [HR2 _].
  assert (Hidx : set_idx_ok (ie_set P) (zlen (kids s c)) i = true).
  { destruct (set_idx_ok (ie_set P) (zlen (kids s c)) i); [reflexivity | discriminate]. }
  unfold ch_setitem.
  destruct (validate E c (ieval (ie_set P) (zlen (kids s c)) i) x) eqn:Ev; simpl; [|apply good_err; exact HI].
  destruct (check_orphan P fuel s c x) eqn:Eo; [apply good_err; exact HI|].
  destruct (link_safe _ _ _ _ _ HR2 Eo) as [Hx Hch].
  unfold set_idx_ok in Hidx.
  destruct (py_norm (zlen (kids s c)) i) as [k|] eqn:En; [|apply good_err; exact HI].
  apply Z.eqb_eq in Hidx. rewrite Hidx in Ev.
  destruct (nth_error (kids s c) k) as [old|] eqn:Eold; [|apply good_err; exact HI].
  apply good_signal.
  - apply inv_set_at; assumption.
  - apply (climbs_upd fuel s); [|apply (on_chain_false_climbs _ _ _ _ Hch)].
    intro y. rewrite par_set_par, par_set_kids, par_set_par.
    destruct (Nat.eqb_spec y x) as [->|]; [right; right; exists fuel; exact Hch|].
    destruct (Nat.eqb y old); [right; left; reflexivity | left; reflexivity].
Qed.

(* ------------------------------------------------------------ pop / __delitem__ *)
Lemma good_unlink_at P E fuel s c ie i :
  Inv E s -> unlink_idx_ok ie (zlen (kids s c)) i = true -> climbs fuel s c = false ->
  Good E s (ch_unlink_at P E fuel s c ie i).
Proof.
  intros HI Hidx Hc. unfold ch_unlink_at.
  destruct (validate_range E c (kids s c)
              (range_count (ieval ie (zlen (kids s c)) i + 1) (zlen (kids s c)))
              (ieval ie (zlen (kids s c)) i + 1) (-1)) eqn:Er; [apply good_err; exact HI|].
  unfold unlink_idx_ok in Hidx.
  destruct (py_norm (zlen (kids s c)) i) as [k|] eqn:En; [|apply good_err; exact HI].
  destruct (nth_error (kids s c) k) as [y|] eqn:Ey; [|apply good_err; exact HI].
  assert (Hlt : (k < length (kids s c))%nat) by (apply nth_error_Some; congruence).
  apply good_signal.
  - apply inv_remove_at; try assumption.
    intros j z Hj Hn.
    assert (Hjl : (j < length (kids s c))%nat) by (apply nth_error_Some; congruence).
    apply orb_true_iff in Hidx. destruct Hidx as [Hidx|Hidx]; apply Z.eqb_eq in Hidx.
    + rewrite Hidx in Er. replace (Z.of_nat k + 1) with (Z.of_nat (S k)) in Er by lia.
      apply (validate_range_ok _ _ _ _ _ _ Er j z); [|exact Hn].
      unfold zlen. rewrite range_count_nat. lia.
    + unfold zlen in Hidx. lia.
  - apply (climbs_cut fuel s); [|exact Hc].
    intro z. rewrite par_set_kids, par_set_par. destruct (Nat.eqb z y); [right | left]; reflexivity.
Qed.

Lemma good_pop P E fuel s c i :
  Inv E s -> pop_reason P fuel s c i = R_SAFE -> Good E s (ch_pop P E fuel s c i).
Proof.
  intros HI HR. unfold pop_reason in HR.
  apply first_reason_cons in HR. destruct HR as [HR1 HR2].
  apply first_reason_cons in HR2. destruct HR2 as [HR2 _].
  apply good_unlink_at; [exact HI | | apply depth_reason_safe; exact HR2].
  destruct (unlink_idx_ok (ie_pop P) (zlen (kids s c)) i); [reflexivity | discriminate].
Qed.

Lemma unlink_last_ok ie len : unlink_idx_ok ie len (-1) = true.
Proof.
  unfold unlink_idx_ok. destruct (py_norm len (-1)) as [k|] eqn:En; [|reflexivity].
  apply py_norm_Some in En. destruct En as [H1 [_ H3]]. specialize (H3 ltac:(lia)).
  apply orb_true_iff. right. apply Z.eqb_eq. lia.
Qed.

(* ------------------------------------------------------------ remove *)
Lemma good_remove P E fuel s c x :
  Inv E s -> reason P E fuel s (ORemove c x) = R_SAFE -> Good E s (ch_remove P E fuel s c x).
Proof.
  intros HI HR. cbn [reason] in HR.
  apply first_reason_cons in HR. destruct HR as [HR1 HR2].
  apply first_reason_cons in HR2. destruct HR2 as [HR2 _]. apply depth_reason_safe in HR2.
  unfold ch_remove.
  destruct (find_eq fuel E s (kids s c) x 0) as [j| |] eqn:Ef; try (apply good_err; exact HI).
  destruct (validate_range E c (kids s c) (range_count (Z.of_nat j + 1) (zlen (kids s c)))
              (Z.of_nat j + 1) (-1)) eqn:Er; [apply good_err; exact HI|].
  destruct (nth_error (kids s c) j) as [y|] eqn:Ey; [|apply good_err; exact HI].
  assert (Hu : (if f_remove_unlink P then y else x) = y).
  { destruct (f_remove_unlink P); [reflexivity|].
    destruct (Nat.eqb_spec y x) as [->|]; [reflexivity | discriminate]. }
  rewrite Hu. apply good_signal.
  - apply inv_remove_at; try assumption.
    intros j' z Hj Hn.
    assert (Hjl : (j' < length (kids s c))%nat) by (apply nth_error_Some; congruence).
    replace (Z.of_nat j + 1) with (Z.of_nat (S j)) in Er by lia.
    apply (validate_range_ok _ _ _ _ _ _ Er j' z); [|exact Hn].
    unfold zlen. rewrite range_count_nat. lia.
  - apply (climbs_cut fuel s); [|exact HR2].
    intro z. rewrite par_set_kids, par_set_par. destruct (Nat.eqb z y); [right | left]; reflexivity.
Qed.

(* ------------------------------------------------------------ extend *)
Lemma extend_checks_ok P E fuel s c base seen xs :
  extend_checks P E fuel s c base seen xs = None ->
  (forall j x, nth_error xs j = Some x ->
               validate E c (base + zlen seen + Z.of_nat j) x = true /\ check_orphan P fuel s c x = None) /\
  (f_extend_dup P = true -> NoDup xs /\ forall x, In x xs -> ~ In x seen).
Proof.
  revert seen; induction xs as [|x r IH]; intros seen H.
  - split; [intros [|j] y Hn; discriminate | intros _; split; [constructor | intros y []]].
  - simpl in H. destruct (validate E c (base + zlen seen) x) eqn:Ev; simpl in H; [|discriminate].
    destruct (check_orphan P fuel s c x) eqn:Eo; [discriminate|].
    destruct (f_extend_dup P && memb x seen) eqn:Ed; [discriminate|].
    destruct (IH _ H) as [IH1 IH2]. split.
    + intros [|j] y Hn; simpl in Hn.
      * inversion Hn; subst. rewrite Z.add_0_r. split; assumption.
      * destruct (IH1 j y Hn) as [A1 A2]. split; [|exact A2].
        unfold zlen in *. rewrite app_length in A1. simpl in A1.
        replace (base + Z.of_nat (length seen) + Z.of_nat (S j))
          with (base + Z.of_nat (length seen + 1) + Z.of_nat j) by lia. exact A1.
    + intro Hf. rewrite Hf in Ed. simpl in Ed. apply memb_false in Ed.
      destruct (IH2 Hf) as [N1 N2]. split.
      * constructor; [|exact N1]. intro Hin. apply (N2 x Hin). apply in_or_app. right. left. reflexivity.
      * intros y [<-|Hy]; [exact Ed|]. intro Hs. apply (N2 y Hy). apply in_or_app. left. exact Hs.
Qed.
Lemma extend_checks_err P E fuel s c base seen xs e :
  extend_checks P E fuel s c base seen xs = Some e -> e = EGen \/ e = EHang.
Proof.
  revert seen; induction xs as [|x r IH]; intros seen H; simpl in H; [discriminate|].
  destruct (validate E c (base + zlen seen) x); simpl in H; [|inversion H; auto].
  unfold check_orphan in H.
  destruct (par s x); [inversion H; auto|].
  destruct (f_cycle_check P).
  - destruct (on_chain fuel s c x) as [[|]|]; try (inversion H; auto; fail).
    destruct (f_extend_dup P && memb x seen); [inversion H; auto | apply (IH _ H)].
  - destruct (f_extend_dup P && memb x seen); [inversion H; auto | apply (IH _ H)].
Qed.

Lemma good_extend P E fuel s c xs :
  Inv E s -> extend_reason P fuel s c xs = R_SAFE -> Good E s (ch_extend P E fuel s c xs).
Proof.
  intros HI HR. unfold extend_reason in HR.
  apply first_reason_cons in HR. destruct HR as [HR1 HR2].
  apply first_reason_cons in HR2. destruct HR2 as [HR2 HR3]. apply depth_reason_safe in HR2.
  pose proof (first_reason_all _ HR3) as HL.
  unfold ch_extend.
  destruct (extend_checks P E fuel s c (zlen (kids s c)) [] xs) eqn:Ec; [apply good_err; exact HI|].
  destruct (extend_checks_ok _ _ _ _ _ _ _ _ Ec) as [C1 C2].
  assert (ND : NoDup xs).
  { destruct (f_extend_dup P) eqn:Ef; [apply C2; reflexivity|].
    simpl in HR1. destruct (has_dup xs) eqn:Eh; [discriminate|]. apply has_dup_false. exact Eh. }
  assert (Hx : forall x, In x xs -> par s x = None /\ on_chain fuel s c x = Some false).
  { intros x Hin. destruct (In_nth_error _ _ Hin) as [j Hj]. destruct (C1 j x Hj) as [_ Ho].
    apply (link_safe P); [|exact Ho]. apply HL. apply in_map. exact Hin. }
  apply good_signal.
  - apply inv_extend; try assumption.
    + intros x Hin. apply (Hx x Hin).
    + intros j x Hj. destruct (C1 j x Hj) as [Hv _]. unfold zlen in *. simpl in Hv.
      rewrite Z.add_0_r in Hv. exact Hv.
  - apply (climbs_upd fuel s); [|exact HR2].
    intro y. rewrite par_set_par_many, par_set_kids. destruct (memb y xs) eqn:Em; [|left; reflexivity].
    right. right. exists fuel. apply Hx. apply memb_In. exact Em.
Qed.

(* ------------------------------------------------------------ clear / reverse *)
Lemma good_clear E fuel s c : Inv E s -> climbs fuel s c = false -> Good E s (ch_clear fuel s c).
Proof.
  intros HI Hc. unfold ch_clear. apply good_signal; [apply inv_clear; exact HI|].
  apply (climbs_cut fuel s); [|exact Hc].
  intro z. rewrite par_set_kids, par_set_par_many. destruct (memb z (kids s c)); [right | left]; reflexivity.
Qed.

Lemma reverse_checks_ok E c len j l :
  reverse_checks E c len (Z.of_nat j) l = None ->
  forall i y, nth_error l i = Some y -> validate E c (len - Z.of_nat (j + i) - 1) y = true.
Proof.
  revert j; induction l as [|a l IH]; intros j H i y Hn; [destruct i; discriminate|].
  simpl in H. destruct (validate E c (len - Z.of_nat j - 1) a) eqn:Ev; [|discriminate].
  destruct i as [|i]; simpl in Hn.
  - inversion Hn; subst. rewrite Nat.add_0_r. exact Ev.
  - replace (Z.of_nat j + 1) with (Z.of_nat (S j)) in H by lia.
    replace (j + S i)%nat with (S j + i)%nat by lia. apply (IH (S j) H i y Hn).
Qed.
Lemma good_reverse E fuel s c : Inv E s -> climbs fuel s c = false -> Good E s (ch_reverse E fuel s c).
Proof.
  intros HI Hc. unfold ch_reverse.
  destruct (reverse_checks E c (zlen (kids s c)) 0 (kids s c)) eqn:Er; [apply good_err; exact HI|].
  apply good_signal.
  - apply inv_reverse; [exact HI|]. intros j y Hn.
    apply (reverse_checks_ok E c (zlen (kids s c)) 0 (kids s c) Er j y Hn).
  - apply (climbs_cut fuel s); [|exact Hc]. intro z. left. reflexivity.
Qed.

(* refined statement for extend: it either succeeds or fails before touching anything *)
Lemma extend_result P E fuel s c xs :
  Inv E s -> extend_reason P fuel s c xs = R_SAFE ->
  (exists s2, ch_extend P E fuel s c xs = (s2, None) /\ Inv E s2) \/
  (exists e, ch_extend P E fuel s c xs = (s, Some e) /\ (e = EGen \/ e = EHang)).
Proof.
  intros HI HR. pose proof (good_extend P E fuel s c xs HI HR) as G.
  unfold ch_extend in *.
  destruct (extend_checks P E fuel s c (zlen (kids s c)) [] xs) eqn:Ec.
  - right. exists e. split; [reflexivity | apply (extend_checks_err _ _ _ _ _ _ _ _ _ Ec)].
  - left. unfold signal in *.
    destruct (climbs fuel (set_par_many (set_kids s c (kids s c ++ xs)) xs (Some c)) c) eqn:Ecl.
    + exfalso. unfold extend_reason in HR.
      apply first_reason_cons in HR. destruct HR as [HR1 HR2].
      apply first_reason_cons in HR2. destruct HR2 as [HR2 HR3]. apply depth_reason_safe in HR2.
      pose proof (first_reason_all _ HR3) as HL.
      destruct (extend_checks_ok _ _ _ _ _ _ _ _ Ec) as [C1 _].
      assert (Hcl : climbs fuel (set_par_many (set_kids s c (kids s c ++ xs)) xs (Some c)) c = false).
      { apply (climbs_upd fuel s); [|exact HR2].
        intro y. rewrite par_set_par_many, par_set_kids. destruct (memb y xs) eqn:Em; [|left; reflexivity].
        right. right. exists fuel. apply memb_In in Em.
        destruct (In_nth_error _ _ Em) as [j Hj]. destruct (C1 j y Hj) as [_ Ho].
        apply (link_safe P); [|exact Ho]. apply HL. apply in_map. exact Em. }
      congruence.
    + eexists. split; [reflexivity | apply G].
Qed.

(* ------------------------------------------------------------ detach / replace_with *)
Lemma good_detach P E fuel s x :
  Inv E s -> reason P E fuel s (ODetach x) = R_SAFE -> Good E s (nd_detach P E fuel s x).
Proof.
  intros HI HR. cbn [reason] in HR. unfold nd_detach.
  destruct (par s x) as [p|]; [|apply good_same; exact HI].
  destruct (index_of x (kids s p) 0) as [j|]; [|apply good_err; exact HI].
  apply good_pop; assumption.
Qed.
Lemma good_replace_with P E fuel s x y :
  Inv E s -> reason P E fuel s (OReplaceWith x y) = R_SAFE -> Good E s (nd_replace_with P E fuel s x y).
Proof.
  intros HI HR. cbn [reason] in HR. unfold nd_replace_with.
  destruct (par s x) as [p|]; [|apply good_err; exact HI].
  destruct (par s y); [apply good_err; exact HI|].
  destruct (index_of x (kids s p) 0) as [j|]; [|apply good_err; exact HI].
  destruct (argn E (K E p) && Nat.eqb j 0 && Nat.eqb (length (kids s p)) 1); [apply good_err; exact HI|].
  apply good_setitem; assumption.
Qed.

(* ------------------------------------------------------------ pop_all_children *)
Definition Cleared (s : state) (c : nat) (s1 : state) : Prop :=
  (forall d, kids s1 d = if Nat.eqb d c then [] else kids s d) /\
  (forall z, par s1 z = if memb z (kids s c) then None else par s z).

Lemma memb_app z l1 l2 : memb z (l1 ++ l2) = memb z l1 || memb z l2.
Proof. unfold memb. apply existsb_app. Qed.

Lemma py_norm_last (n : nat) : py_norm (Z.of_nat (S n)) (-1) = Some n.
Proof.
  unfold py_norm. change (-1 <? 0) with true. cbv beta iota zeta.
  rewrite Nat2Z.inj_succ.
  destruct (Z.leb_spec 0 (-1 + Z.succ (Z.of_nat n))); [|lia].
  destruct (Z.ltb_spec (-1 + Z.succ (Z.of_nat n)) (Z.succ (Z.of_nat n))); [|lia].
  cbn [andb]. f_equal. lia.
Qed.

Lemma pop_last_step P E fuel s c ie l y :
  kids s c = l ++ [y] -> pop_last_ok ie (zlen (kids s c)) = true -> climbs fuel s c = false ->
  ch_unlink_at P E fuel s c ie (-1) = (set_kids (set_par s y None) c l, None).
Proof.
  intros EL Hok Hc. unfold ch_unlink_at. unfold pop_last_ok in Hok. apply Z.leb_le in Hok.
  replace (range_count (ieval ie (zlen (kids s c)) (-1) + 1) (zlen (kids s c))) with O
    by (unfold range_count; lia).
  cbn [validate_range].
  assert (Hlen : zlen (kids s c) = Z.of_nat (S (length l))).
  { unfold zlen. rewrite EL, app_length. simpl. f_equal. lia. }
  rewrite Hlen, py_norm_last.
  assert (Hn : nth_error (kids s c) (length l) = Some y).
  { rewrite EL, nth_error_app2 by lia. rewrite Nat.sub_diag. reflexivity. }
  rewrite Hn.
  assert (ER : remove_at (length l) (kids s c) = l).
  { rewrite EL. rewrite remove_at_split. apply app_nil_r. }
  rewrite ER. unfold signal.
  assert (Hcl : climbs fuel (set_kids (set_par s y None) c l) c = false).
  { apply (climbs_cut fuel s); [|exact Hc].
    intro z. rewrite par_set_kids, par_set_par. destruct (Nat.eqb z y); [right | left]; reflexivity. }
  rewrite Hcl. reflexivity.
Qed.

Lemma cleared_nil s c : kids s c = [] -> Cleared s c s.
Proof.
  intro H. split.
  - intro d. destruct (Nat.eqb_spec d c) as [->|]; [exact H | reflexivity].
  - intro z. rewrite H. reflexivity.
Qed.

Lemma forallb_seq_le (f : nat -> bool) a n m :
  (m <= n)%nat -> forallb f (seq a n) = true -> forallb f (seq a m) = true.
Proof.
  intros Hm H. apply forallb_forall. intros x Hx. rewrite forallb_forall in H. apply H.
  apply in_seq in Hx. apply in_seq. lia.
Qed.

Lemma pop_all_loop_spec P E fuel c : forall n s,
  (length (kids s c) <= n)%nat ->
  forallb (fun l => pop_last_ok (ie_pop P) (Z.of_nat l)) (seq 1 (length (kids s c))) = true ->
  climbs fuel s c = false ->
  exists s1, nd_pop_all_loop n P E fuel s c = (s1, None) /\ Cleared s c s1.
Proof.
  induction n as [|n IH]; intros s Hn Hall Hc.
  - exists s. split; [reflexivity|]. apply cleared_nil. destruct (kids s c); [reflexivity | simpl in Hn; lia].
  - cbn [nd_pop_all_loop]. destruct (kids s c) as [|a t] eqn:EK.
    + exists s. split; [reflexivity | apply cleared_nil; exact EK].
    + destruct (@exists_last _ (a :: t) ltac:(discriminate)) as [l [y EL]].
      assert (EK' : kids s c = l ++ [y]) by congruence.
      assert (Hlen : length (kids s c) = S (length l)) by (rewrite EK', app_length; simpl; lia).
      assert (Hok : pop_last_ok (ie_pop P) (zlen (kids s c)) = true).
      { rewrite <- EK in Hall. rewrite forallb_forall in Hall. unfold zlen. apply Hall. apply in_seq. lia. }
      unfold ch_pop. rewrite (pop_last_step P E fuel s c (ie_pop P) l y EK' Hok Hc).
      set (s' := set_kids (set_par s y None) c l).
      assert (Hk' : kids s' c = l) by (unfold s'; rewrite kids_set_kids, Nat.eqb_refl; reflexivity).
      assert (Hc' : climbs fuel s' c = false).
      { apply (climbs_cut fuel s); [|exact Hc].
        intro z. unfold s'. rewrite par_set_kids, par_set_par. destruct (Nat.eqb z y); [right | left]; reflexivity. }
      destruct (IH s') as [s1 [E1 [C1 C2]]].
      * rewrite Hk'. rewrite <- EK in Hn. lia.
      * rewrite Hk'. rewrite <- EK in Hall. apply (forallb_seq_le _ 1 (length (kids s c))); [lia | exact Hall].
      * exact Hc'.
      * exists s1. split; [exact E1|]. split.
        -- intro d. rewrite C1. unfold s'. rewrite kids_set_kids, kids_set_par.
           destruct (Nat.eqb d c); reflexivity.
        -- intro z. rewrite C2, Hk'. unfold s'. rewrite par_set_kids, par_set_par.
           rewrite EK', memb_app. simpl. rewrite orb_false_r.
           destruct (memb z l); simpl; [reflexivity|]. destruct (Nat.eqb z y); reflexivity.
Qed.

Lemma pop_all_spec P E fuel s c :
  pop_all_reason P (length (kids s c)) = R_SAFE -> climbs fuel s c = false ->
  exists s1, nd_pop_all P E fuel s c = (s1, None) /\ Cleared s c s1.
Proof.
  intros HR Hc. unfold nd_pop_all. apply pop_all_loop_spec; [lia | | exact Hc].
  unfold pop_all_reason in HR.
  destruct (forallb (fun l => pop_last_ok (ie_pop P) (Z.of_nat l)) (seq 1 (length (kids s c))));
    [reflexivity | discriminate].
Qed.

Lemma cleared_state_eq s c s1 :
  Cleared s c s1 -> state_eq (set_kids (set_par_many s (kids s c) None) c []) s1.
Proof.
  intros [C1 C2]. split.
  - intro d. rewrite C1, kids_set_kids, kids_set_par_many. reflexivity.
  - intro z. rewrite C2, par_set_kids, par_set_par_many. reflexivity.
Qed.
Lemma cleared_inv E s c s1 : Inv E s -> Cleared s c s1 -> Inv E s1.
Proof.
  intros HI HC. apply (Inv_state_eq E _ _ (cleared_state_eq _ _ _ HC)). apply inv_clear. exact HI.
Qed.
Lemma cleared_cut s c s1 : Cleared s c s1 -> par_cut s s1.
Proof. intros [_ C2] z. rewrite C2. destruct (memb z (kids s c)); [right | left]; reflexivity. Qed.

Lemma good_pop_all P E fuel s c :
  Inv E s -> reason P E fuel s (OPopAll c) = R_SAFE -> Good E s (nd_pop_all P E fuel s c).
Proof.
  intros HI HR. cbn [reason] in HR.
  apply first_reason_cons in HR. destruct HR as [HR1 HR2].
  apply first_reason_cons in HR2. destruct HR2 as [HR2 _]. apply depth_reason_safe in HR2.
  destruct (pop_all_spec P E fuel s c HR1 HR2) as [s1 [E1 HC]]. rewrite E1. split.
  - exact (cleared_inv E s c s1 HI HC).
  - intro H. exfalso. apply H. reflexivity.
Qed.

(* ------------------------------------------------------------ children setter *)
Lemma extend_checks_pass P E fuel s c base : forall xs seen,
  (forall j x, nth_error xs j = Some x ->
               validate E c (base + zlen seen + Z.of_nat j) x = true /\ check_orphan P fuel s c x = None) ->
  NoDup xs -> (forall x, In x xs -> ~ In x seen) ->
  extend_checks P E fuel s c base seen xs = None.
Proof.
  induction xs as [|x r IH]; intros seen Hv ND Hs; [reflexivity|].
  cbn [extend_checks]. destruct (Hv O x eq_refl) as [V0 O0]. rewrite Z.add_0_r in V0. rewrite V0, O0.
  cbn [negb].
  assert (Em : memb x seen = false) by (apply memb_false; apply Hs; left; reflexivity).
  rewrite Em, andb_false_r. inversion ND; subst. apply IH.
  - intros j y Hn. destruct (Hv (S j) y Hn) as [A1 A2]. split; [|exact A2].
    unfold zlen in *. rewrite app_length. simpl.
    replace (base + Z.of_nat (length seen + 1) + Z.of_nat j)
      with (base + Z.of_nat (length seen) + Z.of_nat (S j)) by lia. exact A1.
  - assumption.
  - intros y Hy Hin. apply in_app_or in Hin. destruct Hin as [Hin|[<-|[]]].
    + apply (Hs y); [right; exact Hy | exact Hin].
    + contradiction.
Qed.

Lemma state_eq_sym s s' : state_eq s s' -> state_eq s' s.
Proof. intros [A B]. split; intro; symmetry; [apply A | apply B]. Qed.

Lemma restore_ok P E fuel s c s1 :
  Inv E s -> Cleared s c s1 -> climbs fuel s c = false ->
  state_eq (fst (ch_extend P E fuel s1 c (kids s c))) s.
Proof.
  intros HI [C1 C2] Hc. pose proof HI as [P1 [P2 [P3 P4]]].
  assert (K1 : kids s1 c = []) by (rewrite C1, Nat.eqb_refl; reflexivity).
  unfold ch_extend. rewrite K1.
  assert (Ec : extend_checks P E fuel s1 c (zlen (@nil nat)) [] (kids s c) = None).
  { apply extend_checks_pass; [| apply P2 | intros x _ []].
    intros j x Hn. split.
    - unfold validate. simpl. apply P4. exact Hn.
    - assert (Hin : In x (kids s c)) by (eapply nth_error_In; exact Hn).
      unfold check_orphan. rewrite C2. rewrite (proj2 (memb_In x (kids s c)) Hin).
      destruct (f_cycle_check P); [|reflexivity].
      rewrite (on_chain_cut fuel s s1 c x); [reflexivity | | ].
      + intro z. rewrite C2. destruct (memb z (kids s c)); [right | left]; reflexivity.
      + apply no_child_on_chain; [apply P1; exact Hin | exact Hc]. }
  rewrite Ec. unfold signal. cbn [fst]. split.
  - intro d. rewrite kids_set_par_many, kids_set_kids. destruct (Nat.eqb_spec d c) as [->|Hd]; [reflexivity|].
    rewrite C1. destruct (Nat.eqb_spec d c); [contradiction | reflexivity].
  - intro z. rewrite par_set_par_many, par_set_kids, C2.
    destruct (memb z (kids s c)) eqn:Em; [|reflexivity].
    symmetry. apply P1. apply memb_In. exact Em.
Qed.

Lemma good_set_children P E fuel s c xs :
  Inv E s -> reason P E fuel s (OSetChildren c xs) = R_SAFE -> Good E s (nd_set_children P E fuel s c xs).
Proof.
  intros HI HR. cbn [reason] in HR.
  apply first_reason_cons in HR. destruct HR as [HR1 HR2].
  apply first_reason_cons in HR2. destruct HR2 as [HR2 HR3]. apply depth_reason_safe in HR2.
  apply first_reason_cons in HR3. destruct HR3 as [HR3 HR4].
  apply first_reason_cons in HR4. destruct HR4 as [HR4 _].
  destruct (pop_all_spec P E fuel s c HR1 HR2) as [s1 [E1 HC]].
  rewrite E1 in HR4. cbn [fst] in HR4.
  pose proof (cleared_inv E s c s1 HI HC) as HI1.
  unfold nd_set_children in *. rewrite E1 in *.
  destruct (extend_result P E fuel s1 c xs HI1 HR4) as [[s2 [Ex HI2]]|[e [Ex He]]]; rewrite Ex in *.
  - split; [exact HI2 | intro H; exfalso; apply H; reflexivity].
  - destruct (f_setter_atomic P).
    + assert (G : Good E s (fst (ch_extend P E fuel s1 c (kids s c)), Some e)).
      { pose proof (restore_ok P E fuel s c s1 HI HC HR2) as SE. split.
        - apply (Inv_state_eq E s); [apply state_eq_sym; exact SE | exact HI].
        - intros _. exact SE. }
      destruct He as [-> | ->]; exact G.
    + exfalso. destruct He as [-> | ->]; simpl in HR3; discriminate.
Qed.

(* ------------------------------------------------------------ the step theorem *)
Theorem step_safe_ P E fuel s o :
  Inv E s -> op_safe P E fuel s o = true ->
  Inv E (fst (step P E fuel s o)) /\
  (snd (step P E fuel s o) <> None -> state_eq (fst (step P E fuel s o)) s).
Proof.
  intros HI HS. unfold op_safe in HS. apply Nat.eqb_eq in HS. change (Good E s (step P E fuel s o)).
  destruct o as [c x|c i x|c i x|c i|c x|c i|c|c xs|c|c|c|c x [i|]|x|x y|c|c xs]; cbn [step].
  - apply good_append; [exact HI | exact HS].
  - apply good_insert; [exact HI | exact HS].
  - apply good_setitem; [exact HI | exact HS].
  - cbn [reason] in HS. apply first_reason_cons in HS. destruct HS as [H1 H2].
    apply first_reason_cons in H2. destruct H2 as [H2 _].
    apply good_unlink_at; [exact HI | | apply depth_reason_safe; exact H2].
    destruct (unlink_idx_ok (ie_del P) (zlen (kids s c)) i); [reflexivity | discriminate].
  - apply good_remove; assumption.
  - apply good_pop; [exact HI | exact HS].
  - apply good_unlink_at; [exact HI | apply unlink_last_ok | apply depth_reason_safe; exact HS].
  - apply good_extend; [exact HI | exact HS].
  - apply good_clear; [exact HI | apply depth_reason_safe; exact HS].
  - apply good_reverse; [exact HI | apply depth_reason_safe; exact HS].
  - apply good_err; exact HI.
  - apply good_insert; [exact HI | exact HS].
  - apply good_append; [exact HI | exact HS].
  - apply good_detach; assumption.
  - apply good_replace_with; assumption.
  - apply good_pop_all; assumption.
  - apply good_set_children; assumption.
Qed.

Theorem history_safe_ P E fuel : forall ops s,
  Inv E s -> hist_safe P E fuel s ops = true ->
  Inv E (run P E fuel s ops) /\ failed_unchanged P E fuel s ops.
Proof.
  induction ops as [|o r IH]; intros s HI HS; [split; [exact HI | exact I]|].
  cbn [hist_safe] in HS. apply andb_true_iff in HS. destruct HS as [H1 H2].
  destruct (step_safe_ P E fuel s o HI H1) as [A B].
  destruct (IH _ A H2) as [C D]. split; [exact C | split; assumption].
Qed.

(* ------------------------------------------------------------ repaired parameters *)
Lemma cmp_eqb_eq a b : cmp_eqb a b = true -> a = b.
Proof. destruct a, b; simpl; intro H; try discriminate; reflexivity. Qed.
Lemma iexpr_eqb_eq : forall a b, iexpr_eqb a b = true -> a = b.
Proof.
  induction a; destruct b; simpl; intro H; try discriminate; try reflexivity.
  - apply Z.eqb_eq in H. congruence.
  - apply andb_true_iff in H. destruct H as [H1 H2]. f_equal; auto.
  - apply andb_true_iff in H. destruct H as [H1 H2]. f_equal; auto.
  - apply andb_true_iff in H. destruct H as [H1 H2]. f_equal; auto.
  - apply andb_true_iff in H. destruct H as [H1 H2]. f_equal; auto.
  - repeat (apply andb_true_iff in H; destruct H as [H ?]).
    apply cmp_eqb_eq in H. f_equal; auto.
Qed.
Lemma P_okb_fixed P : P_okb P = true -> P = P_fixed.
Proof.
  destruct P as [a b c d f1 f2 f3 f4]. unfold P_okb. simpl. intro H.
  repeat (apply andb_true_iff in H; destruct H as [H ?]).
  apply iexpr_eqb_eq in H. repeat match goal with X : iexpr_eqb _ _ = true |- _ => apply iexpr_eqb_eq in X end.
  subst. reflexivity.
Qed.

Lemma norm_unlink_ok len i : unlink_idx_ok ie_norm len i = true.
Proof.
  unfold unlink_idx_ok. destruct (py_norm len i) as [k|] eqn:En; [|reflexivity].
  apply py_norm_Some in En. destruct En as [H1 [H2 H3]].
  apply orb_true_iff. left. apply Z.eqb_eq. unfold ie_norm. cbn [ieval cmp_eval].
  destruct (Z.leb_spec 0 i); lia.
Qed.
Lemma norm_set_ok len i : set_idx_ok ie_norm len i = true.
Proof.
  unfold set_idx_ok. destruct (py_norm len i) as [k|] eqn:En; [|reflexivity].
  apply py_norm_Some in En. destruct En as [H1 [H2 H3]].
  apply Z.eqb_eq. unfold ie_norm. cbn [ieval cmp_eval]. destruct (Z.leb_spec 0 i); lia.
Qed.
Lemma clamp_insert_ok len i : 0 <= len -> insert_idx_ok ie_clamp len i = true.
Proof.
  intro H. unfold insert_idx_ok, py_clamp. apply Z.eqb_eq. unfold ie_clamp, ie_norm. cbn [ieval cmp_eval].
  destruct (Z.leb_spec 0 i); destruct (Z.ltb_spec i 0); try lia; rewrite Z2Nat.id; lia.
Qed.
Lemma norm_pop_all n : pop_all_reason P_fixed n = R_SAFE.
Proof.
  unfold pop_all_reason.
  replace (forallb (fun l => pop_last_ok (ie_pop P_fixed) (Z.of_nat l)) (seq 1 n)) with true; [reflexivity|].
  symmetry. apply forallb_forall. intros l _. unfold pop_last_ok. apply Z.leb_le.
  simpl. lia.
Qed.
Lemma fixed_link fuel s c x : link_reason P_fixed fuel s c x = R_SAFE.
Proof. unfold link_reason. destruct (on_chain fuel s c x) as [[|]|]; reflexivity. Qed.
Lemma first_reason_safe l : (forall r, In r l -> r = R_SAFE) -> first_reason l = R_SAFE.
Proof.
  induction l as [|a l IH]; intro H; [reflexivity|]. simpl.
  rewrite (H a (or_introl eq_refl)). simpl. apply IH. intros r Hr. apply H. right. exact Hr.
Qed.
Lemma depth_reason_of fuel s c : climbs fuel s c = false -> depth_reason fuel s c = R_SAFE.
Proof. intro H. unfold depth_reason. rewrite H. reflexivity. Qed.
Lemma fixed_extend fuel s c xs : climbs fuel s c = false -> extend_reason P_fixed fuel s c xs = R_SAFE.
Proof.
  intro H. unfold extend_reason. apply first_reason_safe. intros r [<-|[<-|Hr]].
  - reflexivity.
  - apply depth_reason_of. exact H.
  - apply in_map_iff in Hr. destruct Hr as [x [<- _]]. apply fixed_link.
Qed.

Lemma fixed_reason E fuel s o : depth_ok fuel s o = true -> reason P_fixed E fuel s o = R_SAFE.
Proof.
  intro HD.
  destruct o as [c x|c i x|c i x|c i|c x|c i|c|c xs|c|c|c|c x [i|]|x|x y|c|c xs]; cbn [reason depth_ok] in *;
    try (apply negb_true_iff in HD).
  - apply fixed_link.
  - unfold insert_reason. rewrite clamp_insert_ok by (unfold zlen; lia). apply first_reason_safe.
    intros r [<-|[<-|[]]]; [reflexivity | apply fixed_link].
  - unfold setitem_reason. cbn [ie_set P_fixed]. rewrite norm_set_ok. apply first_reason_safe.
    intros r [<-|[<-|[]]]; [reflexivity | apply fixed_link].
  - cbn [ie_del P_fixed]. rewrite norm_unlink_ok. apply first_reason_safe.
    intros r [<-|[<-|[]]]; [reflexivity | apply depth_reason_of; exact HD].
  - apply first_reason_safe. intros r [<-|[<-|[]]]; [|apply depth_reason_of; exact HD].
    destruct (find_eq fuel E s (kids s c) x 0); reflexivity.
  - unfold pop_reason. cbn [ie_pop P_fixed]. rewrite norm_unlink_ok. apply first_reason_safe.
    intros r [<-|[<-|[]]]; [reflexivity | apply depth_reason_of; exact HD].
  - apply depth_reason_of; exact HD.
  - apply fixed_extend. exact HD.
  - apply depth_reason_of; exact HD.
  - apply depth_reason_of; exact HD.
  - reflexivity.
  - unfold insert_reason. rewrite clamp_insert_ok by (unfold zlen; lia). apply first_reason_safe.
    intros r [<-|[<-|[]]]; [reflexivity | apply fixed_link].
  - apply fixed_link.
  - destruct (par s x) as [p|]; [|reflexivity]. apply negb_true_iff in HD.
    destruct (index_of x (kids s p) 0) as [j|]; [|reflexivity].
    unfold pop_reason. cbn [ie_pop P_fixed]. rewrite norm_unlink_ok. apply first_reason_safe.
    intros r [<-|[<-|[]]]; [reflexivity | apply depth_reason_of; exact HD].
  - destruct (par s x) as [p|]; [|reflexivity].
    destruct (index_of x (kids s p) 0) as [j|]; [|reflexivity].
    unfold setitem_reason. cbn [ie_set P_fixed]. rewrite norm_set_ok. apply first_reason_safe.
    intros r [<-|[<-|[]]]; [reflexivity | apply fixed_link].
  - apply first_reason_safe. intros r [<-|[<-|[]]]; [apply norm_pop_all | apply depth_reason_of; exact HD].
  - apply first_reason_safe. intros r [<-|[<-|[<-|[<-|[]]]]].
    + apply norm_pop_all.
    + apply depth_reason_of; exact HD.
    + reflexivity.
    + apply fixed_extend.
      destruct (pop_all_spec P_fixed E fuel s c (norm_pop_all _) HD) as [s1 [E1 HC]]. rewrite E1. cbn [fst].
      apply (climbs_cut fuel s); [apply (cleared_cut _ _ _ HC) | exact HD].
Qed.

Theorem step_full_repaired_ P E fuel s o :
  P_okb P = true -> Inv E s -> depth_ok fuel s o = true ->
  Inv E (fst (step P E fuel s o)) /\
  (snd (step P E fuel s o) <> None -> state_eq (fst (step P E fuel s o)) s).
Proof.
  intros HP HI HD. apply P_okb_fixed in HP. subst P. apply step_safe_; [exact HI|].
  unfold op_safe. rewrite fixed_reason by exact HD. reflexivity.
Qed.

Theorem history_full_repaired_ P E fuel : P_okb P = true -> forall ops s,
  Inv E s -> hist_depth_ok P E fuel s ops = true ->
  Inv E (run P E fuel s ops) /\ failed_unchanged P E fuel s ops.
Proof.
  intro HP. induction ops as [|o r IH]; intros s HI HS; [split; [exact HI | exact I]|].
  cbn [hist_depth_ok] in HS. apply andb_true_iff in HS. destruct HS as [H1 H2].
  destruct (step_full_repaired_ P E fuel s o HP HI H1) as [A B].
  destruct (IH _ A H2) as [C D]. split; [exact C | split; assumption].
Qed.
