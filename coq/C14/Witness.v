(* C14 — concrete histories: the full statement is false of the as-found code (P_found, frozen
   reference validity), and the hypotheses of the positive theorems are satisfiable. *)
From Coq Require Import List ZArith Bool Lia Arith.
Import ListNotations.
From PV Require Import C14.Model C14.Lemmas C14.Proofs.
Local Open Scope Z_scope.

Definition env_of (ks : list kind) : env :=
  mkEnv (fun x => nth x ks KReturn) (fun _ => O) valid_ref (fun k => kind_eqb k KCall).
(* the forest of orphans: every history of the correspondence starts from (an image of) it *)
Definition s0 : state := mkSt (fun _ => []) (fun _ => None).

Lemma inv_s0 E : Inv E s0.
Proof.
  unfold Inv, s0. simpl. repeat split.
  - intros c x [].
  - intro c. constructor.
  - intros x c H. discriminate.
  - intros c [|i] x H; discriminate.
Qed.

(* -- 1. negative index in pop: Loop [Literal, Literal, Literal, Schedule], children.pop(-2) *)
Definition w_pop_kinds := [KLoop; KLiteral; KLiteral; KLiteral; KSchedule].
Definition w_pop_ops := [OExtend 0 [1; 2; 3; 4]%nat; OPop 0 (-2)].
Lemma refuted_pop_negative_index_ :
  exists E ops, Inv E s0 /\ ~ Inv E (run P_found E FUEL s0 ops).
Proof.
  exists (env_of w_pop_kinds), w_pop_ops. split; [apply inv_s0|].
  intros [_ [_ [_ P4]]]. specialize (P4 0%nat 2%nat 4%nat). vm_compute in P4.
  discriminate (P4 eq_refl).
Qed.
Definition w_del_ops := [OExtend 0 [1; 2; 3; 4]%nat; ODelItem 0 (-2)].
Lemma refuted_delitem_negative_index_ :
  exists E ops, Inv E s0 /\ ~ Inv E (run P_found E FUEL s0 ops).
Proof.
  exists (env_of w_pop_kinds), w_del_ops. split; [apply inv_s0|].
  intros [_ [_ [_ P4]]]. specialize (P4 0%nat 2%nat 4%nat). vm_compute in P4.
  discriminate (P4 eq_refl).
Qed.

(* -- 2. extend([x, x]) *)
Lemma refuted_extend_duplicate_ :
  exists E ops, Inv E s0 /\ ~ Inv E (run P_found E FUEL s0 ops).
Proof.
  exists (env_of [KSchedule; KReturn]), [OExtend 0 [1; 1]%nat]. split; [apply inv_s0|].
  intros [_ [P2 _]]. specialize (P2 0%nat). vm_compute in P2.
  inversion P2 as [|a l Hnot Hnd]; subst. apply Hnot. left. reflexivity.
Qed.

(* -- 3. __setitem__ with a negative index: Call [Reference, Literal, Literal], children[-3] = Literal *)
Lemma refuted_setitem_negative_index_ :
  exists E ops, Inv E s0 /\ ~ Inv E (run P_found E FUEL s0 ops).
Proof.
  exists (env_of [KCall; KReference; KLiteral; KLiteral; KLiteral]),
    [OExtend 0 [1; 2; 3]%nat; OSetItem 0 (-3) 4]. split; [apply inv_s0|].
  intros [_ [_ [_ P4]]]. specialize (P4 0%nat 0%nat 4%nat). vm_compute in P4.
  discriminate (P4 eq_refl).
Qed.

(* -- 4. insert: index beyond the end (empty Loop, insert(3, Schedule)) and negative index *)
Lemma refuted_insert_beyond_end_ :
  exists E ops, Inv E s0 /\ ~ Inv E (run P_found E FUEL s0 ops).
Proof.
  exists (env_of [KLoop; KSchedule]), [OInsert 0 3 1]. split; [apply inv_s0|].
  intros [_ [_ [_ P4]]]. specialize (P4 0%nat 0%nat 1%nat). vm_compute in P4.
  discriminate (P4 eq_refl).
Qed.
Lemma refuted_insert_negative_index_ :
  exists E ops, Inv E s0 /\ ~ Inv E (run P_found E FUEL s0 ops).
Proof.
  exists (env_of [KCall; KReference; KLiteral; KLiteral]), [OExtend 0 [1; 2]%nat; OInsert 0 (-2) 3].
  split; [apply inv_s0|].
  intros [_ [_ [_ P4]]]. specialize (P4 0%nat 0%nat 3%nat). vm_compute in P4.
  discriminate (P4 eq_refl).
Qed.

(* -- 5. remove(x) when an equal node precedes x: the equal node leaves the list, x is unlinked *)
Lemma refuted_remove_equal_node_ :
  exists E ops, Inv E s0 /\ ~ Inv E (run P_found E FUEL s0 ops).
Proof.
  exists (env_of [KSchedule; KReturn; KReturn]), [OExtend 0 [1; 2]%nat; ORemove 0 2]. split; [apply inv_s0|].
  intros [P1 _]. specialize (P1 0%nat 2%nat). vm_compute in P1.
  discriminate (P1 (or_introl eq_refl)).
Qed.

(* -- 6. the children setter raises after having removed the old children *)
Lemma refuted_setter_not_atomic_ :
  exists E ops, Inv E s0 /\ ~ failed_unchanged P_found E FUEL s0 ops.
Proof.
  exists (env_of [KSchedule; KReturn; KLiteral]), [OAppend 0 1; OSetChildren 0 [2]%nat]. split; [apply inv_s0|].
  intros [_ [H _]].
  assert (Hne : snd (step P_found (env_of [KSchedule; KReturn; KLiteral]) FUEL
                      (fst (step P_found (env_of [KSchedule; KReturn; KLiteral]) FUEL s0 (OAppend 0 1)))
                      (OSetChildren 0 [2]%nat)) <> None) by (vm_compute; discriminate).
  destruct (H Hne) as [Hk _]. specialize (Hk 0%nat). vm_compute in Hk. discriminate.
Qed.

(* -- 7. an orphan ancestor is accepted as a child: cycle, RecursionError after the change *)
Lemma refuted_ancestor_accepted_ :
  exists E ops, Inv E s0 /\ ~ failed_unchanged P_found E FUEL s0 ops.
Proof.
  exists (env_of [KIfBlock; KLiteral; KSchedule]), [OExtend 0 [1; 2]%nat; OAppend 2 0]. split; [apply inv_s0|].
  intros [_ [H _]].
  assert (Hne : snd (step P_found (env_of [KIfBlock; KLiteral; KSchedule]) FUEL
                      (fst (step P_found (env_of [KIfBlock; KLiteral; KSchedule]) FUEL s0 (OExtend 0 [1; 2]%nat)))
                      (OAppend 2 0)) <> None) by (vm_compute; discriminate).
  destruct (H Hne) as [Hk _]. specialize (Hk 2%nat). vm_compute in Hk. discriminate.
Qed.

(* ------------------------------------------------------------ non-vacuity *)
(* a history inside the safe fragment of the as-found code that really edits a Loop, an
   Assignment and a Schedule (non-negative and -1 indices, replace, detach, reverse, setter) *)
Definition nv_kinds :=
  [KLoop; KLiteral; KLiteral; KLiteral; KSchedule; KAssignment; KReference; KLiteral; KReturn; KLiteral].
Definition nv_ops :=
  [OExtend 0 [1; 2; 3; 4]%nat; OExtend 5 [6; 7]%nat; OAppend 4 5; OAddChild 4 8 (Some 0);
   OPop 0 2 (* refused: Schedule would move to position 2 *); OPop 0 (-1); OSetItem 0 1 9;
   OInsert 0 3 4; OReplaceWith 9 2; OReverse 4; ODetach 8; OSetChildren 4 [8; 5]%nat; OPopLast 4].
Lemma safe_history_nonvacuous_ :
  let E := env_of nv_kinds in
  Inv E s0 /\ hist_safe P_found E FUEL s0 nv_ops = true /\
  kids (run P_found E FUEL s0 nv_ops) 0 = [1; 2; 3; 4]%nat /\
  kids (run P_found E FUEL s0 nv_ops) 4 = [8]%nat /\
  snd (step P_found E FUEL (run P_found E FUEL s0 (firstn 4 nv_ops)) (OPop 0 2)) = Some EGen.
Proof.
  split; [apply inv_s0|]. vm_compute. repeat split.
Qed.

(* the repaired parameters satisfy the recognition predicate, the as-found ones do not; on the
   witness histories above the repaired code refuses or handles every bad operation *)
Lemma repaired_nonvacuous_ :
  P_okb P_fixed = true /\ P_okb P_found = false /\
  hist_depth_ok P_fixed (env_of w_pop_kinds) FUEL s0 w_pop_ops = true /\
  snd (step P_fixed (env_of w_pop_kinds) FUEL
         (run P_fixed (env_of w_pop_kinds) FUEL s0 [OExtend 0 [1; 2; 3; 4]%nat]) (OPop 0 (-2))) = Some EGen /\
  snd (step P_fixed (env_of [KSchedule; KReturn]) FUEL s0 (OExtend 0 [1; 1]%nat)) = Some EGen /\
  kids (run P_fixed (env_of [KLoop; KSchedule]) FUEL s0 [OInsert 0 3 1]) 0 = [] /\
  kids (run P_fixed (env_of [KSchedule; KReturn; KReturn]) FUEL s0 [OExtend 0 [1; 2]%nat; ORemove 0 2]) 0 = [2]%nat /\
  par (run P_fixed (env_of [KSchedule; KReturn; KReturn]) FUEL s0 [OExtend 0 [1; 2]%nat; ORemove 0 2]) 1 = None /\
  kids (run P_fixed (env_of [KSchedule; KReturn; KLiteral]) FUEL s0 [OAppend 0 1; OSetChildren 0 [2]%nat]) 0 = [1]%nat /\
  snd (step P_fixed (env_of [KIfBlock; KLiteral; KSchedule]) FUEL
         (run P_fixed (env_of [KIfBlock; KLiteral; KSchedule]) FUEL s0 [OExtend 0 [1; 2]%nat]) (OAppend 2 0)) = Some EGen.
Proof. vm_compute. repeat split. Qed.
