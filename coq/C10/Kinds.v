(* C10 — node kinds, trees and the vocabulary of the generated tables (no proofs here).

   The concrete node classes of PSyclone that the model's trees are built from.  A *class
   expression* of the Python code (e.g. `OMPParallelDirective`, `(ACCParallelDirective,
   ACCKernelsDirective)`, `ACCDirective`) is represented by the list of modelled concrete kinds
   that are instances of it; the translator props/C10/translate.py computes those lists from the
   real class hierarchy (issubclass), so the hierarchy is part of the generated tables. *)
From Coq Require Import List Bool.
Import ListNotations.

(* region directives (have a body) *)
Inductive dkind :=
| OMPParallel | OMPDo | OMPParallelDo | OMPTeamsParDo | OMPSingle | OMPMaster | OMPTaskloop
| OMPTarget | OMPLoop
| ACCParallel | ACCKernels | ACCLoop | ACCData.

(* stand-alone directives *)
Inductive skind := OMPTaskwait | ACCEnterData | ACCRoutine.

Inductive leaf := LAssign | LReturn | LCodeBlock.

(* kind of any node that can be an ancestor / be met by walk() *)
Inductive nkind :=
| NRoutine | NLoop | NIf | NLeaf (l : leaf) | ND (d : dkind) | NS (s : skind).

Inductive tree :=
| Leaf (l : leaf)
| Loop (body : list tree)
| If (body : list tree)                       (* IF block, then-branch only *)
| Dir (d : dkind) (collapse : option nat) (body : list tree)
| SDir (s : skind).

Definition routine := list tree.              (* children of the Routine node *)

(* decidable equalities, as boolean functions *)
Definition dkind_eqb (a b : dkind) : bool :=
  match a, b with
  | OMPParallel, OMPParallel | OMPDo, OMPDo | OMPParallelDo, OMPParallelDo
  | OMPTeamsParDo, OMPTeamsParDo | OMPSingle, OMPSingle | OMPMaster, OMPMaster
  | OMPTaskloop, OMPTaskloop | OMPTarget, OMPTarget | OMPLoop, OMPLoop
  | ACCParallel, ACCParallel | ACCKernels, ACCKernels | ACCLoop, ACCLoop | ACCData, ACCData => true
  | _, _ => false
  end.

Definition skind_eqb (a b : skind) : bool :=
  match a, b with
  | OMPTaskwait, OMPTaskwait | ACCEnterData, ACCEnterData | ACCRoutine, ACCRoutine => true
  | _, _ => false
  end.

Definition leaf_eqb (a b : leaf) : bool :=
  match a, b with
  | LAssign, LAssign | LReturn, LReturn | LCodeBlock, LCodeBlock => true
  | _, _ => false
  end.

Definition nkind_eqb (a b : nkind) : bool :=
  match a, b with
  | NRoutine, NRoutine | NLoop, NLoop | NIf, NIf => true
  | NLeaf x, NLeaf y => leaf_eqb x y
  | ND x, ND y => dkind_eqb x y
  | NS x, NS y => skind_eqb x y
  | _, _ => false
  end.

Definition mem (k : nkind) (l : list nkind) : bool := existsb (nkind_eqb k) l.

Definition all_dkinds : list dkind :=
  [OMPParallel; OMPDo; OMPParallelDo; OMPTeamsParDo; OMPSingle; OMPMaster; OMPTaskloop;
   OMPTarget; OMPLoop; ACCParallel; ACCKernels; ACCLoop; ACCData].
Definition all_skinds : list skind := [OMPTaskwait; ACCEnterData; ACCRoutine].

(* ---- vocabulary of the generated tables ------------------------------------------------- *)

(* one test of the loop in _validate_collapse_value / OMPLoopDirective: the GenerationError is
   raised at a depth when ANY listed atom is true *)
Inductive catom :=
| CNotOnlyChild        (* len(cursor.parent.children) != 1 *)
| CNotLoop.            (* not isinstance(cursor, Loop)     *)

(* one statement of a validate_global_constraints method (in source order, super() calls inlined) *)
Inductive grule :=
| GRequireAnc (types excl : list nkind)   (* if not self.ancestor(types, excluding=excl): raise *)
| GForbidAnc (types excl : list nkind)    (* if self.ancestor(types, excluding=excl): raise     *)
| GBodyLenOne                             (* if len(self.dir_body.children) != 1: raise          *)
| GFirstIsLoop                            (* if not isinstance(self.dir_body[0], Loop): raise    *)
| GCollapse (atoms : list catom)          (* if self._collapse: <cursor loop with these tests>   *)
| GNoDescendant (types : list nkind)      (* if self.walk(types): raise                          *)
| GAccLoopCtx (types walked : list nkind).
    (* if not (self.ancestor(types, limit=routine) or (routine and routine.walk(walked))): raise *)

(* the transformations of the property (OMPLoopTrans is split by its omp_directive argument) *)
Inductive trans :=
| TOMPDo | TOMPParallelDo | TOMPTeamsParDo | TOMPLoop | TOMPParallelLoop | TOMPTaskloop | TACCLoop
| TOMPParallel | TOMPSingle | TOMPMaster | TOMPTarget | TACCParallel | TACCKernels | TACCData
| TACCEnterData
| TACCRoutine.       (* ACCRoutineTrans: marks the routine with `acc routine` *)
