(* C10 — executable model (no proofs in this file).

   * gen_ok        : what FortranWriter checks on the final tree: every node's
                     validate_global_constraints (rules from the generated table Gen.gen_rules,
                     evaluated in pre-order, first failure wins) + the one extra generation-time
                     error of ACCEnterDataDirective.begin_string.
   * validate/apply of the region / loop / enter-data transformations on trees
                     (excluded_node_types, created directive and collapse behaviour from Gen).
   * wf_viol       : executable form of the property's three named conditions (Proofs.v relates it
                     to the declarative WF).
   * cc_viol       : necessary conditions for gfortran 12 to accept the directive structure
                     (validated against gfortran by the harness on every run).
*)
From Coq Require Import List Bool Arith.
Import ListNotations.
From PV Require Import C10.Kinds C10.Gen.

Definition kind_of (t : tree) : nkind :=
  match t with
  | Leaf l => NLeaf l | Loop _ => NLoop | If _ => NIf | Dir d _ _ => ND d | SDir s => NS s
  end.

Definition body_of (t : tree) : list tree :=
  match t with Loop b | If b | Dir _ _ b => b | _ => [] end.

Definition has_body (t : tree) : bool :=
  match t with Loop _ | If _ | Dir _ _ _ => true | _ => false end.

Definition set_body (t : tree) (b : list tree) : tree :=
  match t with Loop _ => Loop b | If _ => If b | Dir d c _ => Dir d c b | _ => t end.

Definition collapse_of (t : tree) : option nat :=
  match t with Dir _ c _ => c | _ => None end.

Definition is_loop (t : tree) : bool := match t with Loop _ => true | _ => false end.

(* every node of a subtree with the kinds of its ancestors (nearest first), in pre-order *)
Fixpoint nodes (anc : list nkind) (t : tree) : list (list nkind * tree) :=
  (anc, t) ::
  match t with
  | Loop b => flat_map (nodes (NLoop :: anc)) b
  | If b => flat_map (nodes (NIf :: anc)) b
  | Dir d _ b => flat_map (nodes (ND d :: anc)) b
  | _ => []
  end.

Definition rnodes (r : routine) : list (list nkind * tree) := flat_map (nodes [NRoutine]) r.

(* kinds met by node.walk(object) (node itself included) *)
Definition walk (t : tree) : list nkind := map (fun p => kind_of (snd p)) (nodes [] t).
Definition walks (l : list tree) : list nkind := flat_map walk l.
Definition rkinds (r : routine) : list nkind := walks r.

Definition any_in (ks : list nkind) (l : list nkind) : bool := existsb (fun k => mem k ks) l.

(* ------------------------------------------------------------------ generation-time checks *)
Inductive outcome := Ok | Err | Crash.   (* Err = GenerationError / TransformationError *)

Definition atom_true (sibs : list tree) (cur : tree) (a : catom) : bool :=
  match a with
  | CNotOnlyChild => negb (length sibs =? 1)
  | CNotLoop => negb (is_loop cur)
  end.

(* the cursor loop of _validate_collapse_value; sibs = children list the cursor is the head of *)
Fixpoint collapse_walk (atoms : list catom) (c : nat) (sibs : list tree) : outcome :=
  match c with
  | 0 => Ok
  | S c' =>
    match sibs with
    | [] => Crash                                   (* children[0] of an empty Schedule *)
    | cur :: _ =>
      if existsb (atom_true sibs cur) atoms then Err
      else match cur with
           | Loop b => match b with [] => Crash | _ => collapse_walk atoms c' b end
           | _ => Crash                             (* cursor.loop_body of a non-Loop *)
           end
    end
  end.

Definition anc_match (types excl : list nkind) (anc : list nkind) : bool :=
  existsb (fun a => mem a types && negb (mem a excl)) anc.

Definition rule_eval (rk anc : list nkind) (n : tree) (r : grule) : outcome :=
  match r with
  | GRequireAnc ty ex => if anc_match ty ex anc then Ok else Err
  | GForbidAnc ty ex => if anc_match ty ex anc then Err else Ok
  | GBodyLenOne => if length (body_of n) =? 1 then Ok else Err
  | GFirstIsLoop => match body_of n with [] => Crash | x :: _ => if is_loop x then Ok else Err end
  | GCollapse atoms =>
      match collapse_of n with
      | Some (S c) => collapse_walk atoms (S c) (body_of n)
      | _ => Ok
      end
  | GNoDescendant ty => if any_in ty (walk n) then Err else Ok
  | GAccLoopCtx ty wk => if any_in ty anc || any_in wk rk then Ok else Err
  end.

Fixpoint rules_eval (rk anc : list nkind) (n : tree) (rs : list grule) : outcome :=
  match rs with
  | [] => Ok
  | r :: rs' => match rule_eval rk anc n r with Ok => rules_eval rk anc n rs' | o => o end
  end.

(* ACCEnterDataDirective.begin_string: GenerationError when no ACC parallel/kernels region in the
   routine contributes a variable (every region of the modelled programs accesses one) *)
Definition enter_data_ok (rk : list nkind) (n : tree) : outcome :=
  match n with
  | SDir ACCEnterData => if any_in [ND ACCParallel; ND ACCKernels] rk then Ok else Err
  | _ => Ok
  end.

Definition node_check (rk : list nkind) (p : list nkind * tree) : outcome :=
  match rules_eval rk (fst p) (snd p) (gen_rules (kind_of (snd p))) with
  | Ok => enter_data_ok rk (snd p)
  | o => o
  end.

Fixpoint first_fail (l : list outcome) : outcome :=
  match l with [] => Ok | Ok :: r => first_fail r | o :: _ => o end.

Definition write_outcome (r : routine) : outcome :=
  first_fail (map (node_check (rkinds r)) (rnodes r)).

Definition gen_ok (r : routine) : bool :=
  match write_outcome r with Ok => true | _ => false end.

(* ------------------------------------------------------------------ tree surgery *)
Definition path := list nat.

(* children list of the container reached by following child indices from the routine *)
Fixpoint body_at (p : path) (b : list tree) : option (list tree) :=
  match p with
  | [] => Some b
  | i :: p' => match nth_error b i with
               | Some t => if has_body t then body_at p' (body_of t) else None
               | None => None
               end
  end.

(* ancestors (nearest first) of the children of that container *)
Fixpoint anc_at (p : path) (b : list tree) (acc : list nkind) : list nkind :=
  match p with
  | [] => acc
  | i :: p' => match nth_error b i with
               | Some t => anc_at p' (body_of t) (kind_of t :: acc)
               | None => acc
               end
  end.

Fixpoint replace_nth (i : nat) (x : tree) (l : list tree) : list tree :=
  match l, i with
  | [], _ => []
  | _ :: r, 0 => x :: r
  | y :: r, S i' => y :: replace_nth i' x r
  end.

Fixpoint update_at (p : path) (f : list tree -> list tree) (b : list tree) : list tree :=
  match p with
  | [] => f b
  | i :: p' => match nth_error b i with
               | Some t => replace_nth i (set_body t (update_at p' f (body_of t))) b
               | None => b
               end
  end.

(* ------------------------------------------------------------------ transformations *)
Inductive target :=
| TNode (p : path) (i : nat)              (* child i of the container at p               *)
| TRange (p : path) (lo hi : nat)         (* children lo..hi-1 of the container at p     *)
| TSched (p : path).                      (* the Schedule itself (all its children)      *)

Record op := { o_trans : trans; o_target : target; o_collapse : option nat; o_dep_ok : bool }.
(* o_dep_ok: answer of the dependence analysis (an oracle for this property); true when the
   transformation is called with force=True *)

Definition is_loop_trans (t : trans) : bool :=
  match t with
  | TOMPDo | TOMPParallelDo | TOMPTeamsParDo | TOMPLoop | TOMPParallelLoop | TOMPTaskloop | TACCLoop => true
  | _ => false
  end.

(* ParallelLoopTrans.validate: number of loops found by following loop_body[0]; None = IndexError *)
Fixpoint chain (fuel : nat) (t : tree) : option nat :=
  match fuel with
  | 0 => Some 0
  | S f => match t with
           | Loop [] => None
           | Loop (x :: _) => option_map S (chain f x)
           | _ => Some 0
           end
  end.

Fixpoint depth (t : tree) : nat :=
  match t with
  | Loop b | If b | Dir _ _ b => S (fold_right (fun x m => Nat.max (depth x) m) 0 b)
  | _ => 1
  end.

Definition loop_chain (t : tree) : option nat := chain (depth t) t.

(* classes tested by the hand-modelled parts of the validate methods *)
Definition k_omp_directive : list nkind :=
  [ND OMPParallel; ND OMPDo; ND OMPParallelDo; ND OMPTeamsParDo; ND OMPSingle; ND OMPMaster;
   ND OMPTaskloop; ND OMPTarget; ND OMPLoop; NS OMPTaskwait].

Definition validate_loop (t : trans) (n : tree) (o : op) : outcome :=
  if negb (is_loop n) then Err
  else if any_in (excluded_tab t) (walk n) then Err
  else
    match o_collapse o with
    | Some (S c) =>
        if S c <? 2 then Err
        else match loop_chain n with
             | None => Crash
             | Some k => if k <? S c then Err else if o_dep_ok o then Ok else Err
             end
    | _ => if o_dep_ok o then Ok else Err
    end.

Definition apply_loop (t : trans) (n : tree) (o : op) : option tree :=
  match created_tab t with
  | None => None
  | Some d =>
      match o_collapse o, collapse_tab t with
      | Some (S c), CCrash => None
      | Some (S c), CKeep => Some (Dir d (Some (S c)) [n])
      | _, _ => Some (Dir d None [n])
      end
  end.

Definition validate_region (t : trans) (r : routine) (anc : list nkind) (sel : list tree) : outcome :=
  match sel with
  | [] => Crash
  | _ =>
    if (match t with TOMPParallel => any_in k_omp_directive anc | _ => false end) then Err
    else if any_in (excluded_tab t) (walks sel) then Err
    else match t with
         | TACCKernels => if mem NLoop (walks sel) then Ok else Err
         | TACCData => if mem (NS ACCEnterData) (rkinds r) then Err else Ok
         | _ => Ok
         end
  end.

(* position at which ACCEnterDataTrans inserts: the child holding the first ACC parallel/kernels *)
Fixpoint first_with (ks : list nkind) (i : nat) (l : list tree) : nat :=
  match l with
  | [] => 0
  | x :: r => if any_in ks (walk x) then i else first_with ks (S i) r
  end.

Definition insert_at (i : nat) (x : tree) (l : list tree) : list tree := firstn i l ++ x :: skipn i l.

Inductive result := Accepted (r : routine) | Refused | Crashed.

Definition apply_op (o : op) (r : routine) : result :=
  let t := o_trans o in
  match o_target o with
  | TNode p i =>
      if negb (is_loop_trans t) then Crashed else
      match body_at p r with
      | None => Crashed
      | Some b =>
        match nth_error b i with
        | None => Crashed
        | Some n =>
          match validate_loop t n o with
          | Err => Refused
          | Crash => Crashed
          | Ok => match apply_loop t n o with
                  | None => Crashed
                  | Some d => Accepted (update_at p (replace_nth i d) r)
                  end
          end
        end
      end
  | TRange _ _ _ | TSched _ =>
      let '(p, lo, hi) := match o_target o with
                          | TRange p lo hi => (p, lo, Some hi)
                          | TSched p => (p, 0, None)
                          | TNode p i => (p, i, Some (S i))
                          end in
      match body_at p r with
      | None => Crashed
      | Some b =>
        let hi' := match hi with Some h => h | None => length b end in
        match t with
        | TACCEnterData =>
            match o_target o with
            | TSched _ =>
                if any_in [ND ACCData; NS ACCEnterData] (walks b) then Refused
                else Accepted (update_at p (insert_at (first_with [ND ACCParallel; ND ACCKernels] 0 b)
                                                      (SDir ACCEnterData)) r)
            | _ => Crashed
            end
        | TACCRoutine =>
            (* ACCRoutineTrans.validate: no CodeBlock in the routine (validate_it_can_run_on_gpu, no force);
               apply: insert ACCRoutineDirective as first child unless a child already is one *)
            match o_target o with
            | TSched [] =>
                if mem (NLeaf LCodeBlock) (rkinds r) then Refused
                else Accepted (if mem (NS ACCRoutine) (map kind_of r) then r else SDir ACCRoutine :: r)
            | _ => Crashed
            end
        | _ =>
          if is_loop_trans t then Crashed else
          let sel := firstn (hi' - lo) (skipn lo b) in
          match validate_region t r (anc_at p r [NRoutine]) sel with
          | Err => Refused
          | Crash => Crashed
          | Ok => match created_tab t with
                  | None => Crashed
                  | Some d => Accepted (update_at p (fun b => firstn lo b ++ Dir d None sel :: skipn hi' b) r)
                  end
          end
        end
      end
  end.

(* a history: refused transformations leave the tree unchanged; a crash ends the history *)
Fixpoint run (ops : list op) (r : routine) : option routine :=
  match ops with
  | [] => Some r
  | o :: ops' => match apply_op o r with
                 | Accepted r' => run ops' r'
                 | Refused => run ops' r
                 | Crashed => None
                 end
  end.

(* directive-free skeleton of a tree (what every transformation must preserve) *)
Fixpoint erase (t : tree) : list tree :=
  match t with
  | Leaf l => [Leaf l]
  | Loop b => [Loop (flat_map erase b)]
  | If b => [If (flat_map erase b)]
  | Dir _ _ b => flat_map erase b
  | SDir _ => []
  end.
Definition rerase (r : routine) : routine := flat_map erase r.

(* ------------------------------------------------------------------ the property, executable *)
Definition omp_par : list nkind := [ND OMPParallel; ND OMPParallelDo; ND OMPTeamsParDo].
Definition acc_compute : list nkind := [ND ACCParallel; ND ACCKernels].

(* c perfectly nested loops: each level's Schedule holds exactly one child, a Loop *)
Fixpoint perfect_b (c : nat) (b : list tree) : bool :=
  match c with
  | 0 => true
  | S c' => match b with [Loop b'] => perfect_b c' b' | _ => false end
  end.

Definition carries_collapse (d : dkind) : bool :=
  match d with OMPDo | OMPParallelDo | OMPTeamsParDo | OMPLoop | ACCLoop => true | _ => false end.

Inductive wfclause := WOrphan | WNested | WCollapse.

(* the three named conditions, per node *)
Definition orphan_b (rk anc : list nkind) (k : nkind) : bool :=
  (mem k [ND OMPDo; ND OMPSingle; ND OMPMaster; ND OMPTaskloop; NS OMPTaskwait] && negb (any_in omp_par anc))
  || (mem k [ND OMPLoop] && negb (any_in (ND OMPTarget :: omp_par) anc))
  || (mem k [ND ACCLoop] && negb (any_in acc_compute anc) && negb (mem (NS ACCRoutine) rk)).

Definition nested_b (anc : list nkind) (k : nkind) : bool :=
  (mem k omp_par && any_in omp_par anc) || (mem k acc_compute && any_in acc_compute anc).

Definition collapse_bad (n : tree) : bool :=
  match n with
  | Dir d (Some c) b => carries_collapse d && negb (perfect_b c b)
  | _ => false
  end.

(* clause violated at one node (None = the node satisfies the three conditions) *)
Definition wf_node (rk : list nkind) (p : list nkind * tree) : option wfclause :=
  if orphan_b rk (fst p) (kind_of (snd p)) then Some WOrphan
  else if nested_b (fst p) (kind_of (snd p)) then Some WNested
  else if collapse_bad (snd p) then Some WCollapse
  else None.

Definition wf_viol (r : routine) : list (wfclause * nkind) :=
  flat_map (fun p => match wf_node (rkinds r) p with
                     | Some c => [(c, kind_of (snd p))]
                     | None => []
                     end) (rnodes r).

Definition wf_b (r : routine) : bool := match wf_viol r with [] => true | _ => false end.
