(* C10 — helpers evaluated by the correspondence harness (vm_compute over generated cases). *)
From Coq Require Import List Bool Arith.
Import ListNotations.
From PV Require Import C10.Kinds C10.Gen C10.Model C10.Compiler.

Definition opt_nat_eqb (a b : option nat) : bool :=
  match a, b with None, None => true | Some x, Some y => x =? y | _, _ => false end.

Fixpoint tree_eqb (a b : tree) : bool :=
  let fix list_eqb (x y : list tree) : bool :=
    match x, y with
    | [], [] => true
    | p :: x', q :: y' => tree_eqb p q && list_eqb x' y'
    | _, _ => false
    end in
  match a, b with
  | Leaf x, Leaf y => leaf_eqb x y
  | Loop x, Loop y => list_eqb x y
  | If x, If y => list_eqb x y
  | Dir d c x, Dir e c' y => dkind_eqb d e && opt_nat_eqb c c' && list_eqb x y
  | SDir s, SDir s' => skind_eqb s s'
  | _, _ => false
  end.

Fixpoint routine_eqb (x y : list tree) : bool :=
  match x, y with
  | [], [] => true
  | p :: x', q :: y' => tree_eqb p q && routine_eqb x' y'
  | _, _ => false
  end.

Definition dkind_code (d : dkind) : nat :=
  match d with
  | OMPParallel => 0 | OMPDo => 1 | OMPParallelDo => 2 | OMPTeamsParDo => 3 | OMPSingle => 4
  | OMPMaster => 5 | OMPTaskloop => 6 | OMPTarget => 7 | OMPLoop => 8
  | ACCParallel => 9 | ACCKernels => 10 | ACCLoop => 11 | ACCData => 12
  end.
Definition nkind_code (k : nkind) : nat :=
  match k with
  | ND d => dkind_code d
  | NS OMPTaskwait => 20 | NS ACCEnterData => 21 | NS ACCRoutine => 22
  | NRoutine => 30 | NLoop => 31 | NIf => 32
  | NLeaf LAssign => 40 | NLeaf LReturn => 41 | NLeaf LCodeBlock => 42
  end.
Definition wf_code (c : wfclause) : nat := match c with WOrphan => 0 | WNested => 1 | WCollapse => 2 end.
Definition cc_code (c : ccrule) : nat :=
  match c with
  | CCWorkshare => 0 | CCMaster => 1 | CCInLoopRegion => 2 | CCTeams => 3 | CCLoopOrphan => 4
  | CCAccNested => 5 | CCAccLoopOrphan => 6 | CCAccData => 7 | CCMixed => 8 | CCLoopAssoc => 9
  | CCCollapse => 10 | CCBranch => 11 | CCRoutinePos => 12
  end.

Definition outcome_code (o : outcome) : nat := match o with Ok => 0 | Err => 1 | Crash => 2 end.

Fixpoint nat_list_eqb (a b : list nat) : bool :=
  match a, b with
  | [], [] => true
  | x :: a', y :: b' => (x =? y) && nat_list_eqb a' b'
  | _, _ => false
  end.

Definition wf_codes (r : routine) : list nat :=
  flat_map (fun p => [wf_code (fst p); nkind_code (snd p)]) (wf_viol r).
Definition cc_codes (r : routine) : list nat :=
  flat_map (fun p => [cc_code (fst (fst p)); nkind_code (snd (fst p));
                      match snd p with Some k => nkind_code k | None => 99 end]) (cc_viol r).

(* ---- one transformation step: (tree before, op, implementation verdict 0/1/2, tree after) *)
Definition step_case := (routine * op * nat * routine)%type.

Definition step_agrees (c : step_case) : bool :=
  let '(r, o, v, after) := c in
  match apply_op o r with
  | Accepted r' => (v =? 0) && routine_eqb r' after
  | Refused => v =? 1
  | Crashed => v =? 2
  end.

(* one-directional: whenever the implementation accepted, the model accepts with the same tree *)
Definition step_sound (c : step_case) : bool :=
  let '(r, o, v, after) := c in
  if v =? 0 then match apply_op o r with Accepted r' => routine_eqb r' after | _ => false end
  else true.

(* ---- final tree: (tree, writer verdict 0 ok / 1 GenerationError / 2 other exception,
                     WF violations and compiler-rule violations computed by the Python mirror) *)
Definition final_case := (routine * nat * list nat * list nat)%type.

Definition final_agrees (c : final_case) : bool :=
  let '(r, v, wf, cc) := c in
  (outcome_code (write_outcome r) =? v) && nat_list_eqb (wf_codes r) wf && nat_list_eqb (cc_codes r) cc.

Definition final_sound (c : final_case) : bool :=
  let '(r, v, wf, cc) := c in
  (if v =? 0 then gen_ok r else true) && nat_list_eqb (wf_codes r) wf && nat_list_eqb (cc_codes r) cc.
