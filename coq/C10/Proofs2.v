(* C10 — declarative specification WF, the sufficient condition gap_free, shape preservation of
   every transformation, and the collapse lemmas. *)
From Coq Require Import List Bool Arith Lia.
Import ListNotations.
From PV Require Import C10.Kinds C10.Gen C10.Model C10.Cover C10.Lemmas C10.Proofs.

(* ---------------------------------------------------------------- declarative WF *)
Definition has_anc (ks anc : list nkind) : Prop := exists a, In a anc /\ In a ks.

Inductive perfect_nest : nat -> list tree -> Prop :=
| PN0 : forall l, perfect_nest 0 l
| PNS : forall c b, perfect_nest c b -> perfect_nest (S c) [Loop b].

(* the three named conditions of the property, for the node n with ancestor kinds anc in a
   routine whose node kinds are rk *)
Definition WF_node (rk anc : list nkind) (n : tree) : Prop :=
  (* 1. no work-sharing / loop directive outside a parallel region *)
  (In (kind_of n) [ND OMPDo; ND OMPSingle; ND OMPMaster; ND OMPTaskloop; NS OMPTaskwait] -> has_anc omp_par anc) /\
  (kind_of n = ND OMPLoop -> has_anc (ND OMPTarget :: omp_par) anc) /\
  (kind_of n = ND ACCLoop -> has_anc acc_compute anc \/ In (NS ACCRoutine) rk) /\
  (* 2. no nested parallel region *)
  (In (kind_of n) omp_par -> ~ has_anc omp_par anc) /\
  (In (kind_of n) acc_compute -> ~ has_anc acc_compute anc) /\
  (* 3. every collapse count is matched by perfectly nested loops *)
  (forall d c b, n = Dir d (Some c) b -> carries_collapse d = true -> perfect_nest c b).

Definition WF (r : routine) : Prop :=
  forall anc n, In (anc, n) (rnodes r) -> WF_node (rkinds r) anc n.

Lemma perfect_b_iff : forall c b, perfect_b c b = true <-> perfect_nest c b.
Proof.
  induction c as [| c IH]; intro b; split; intro H.
  - constructor.
  - reflexivity.
  - simpl in H. destruct b as [| [| b' | | |] [|]]; try discriminate H. constructor. apply IH; assumption.
  - inversion H; subst. simpl. apply IH; assumption.
Qed.

Lemma any_in_has_anc : forall ks anc, any_in ks anc = true <-> has_anc ks anc.
Proof. intros; apply any_in_spec. Qed.

Lemma wf_node_none_iff : forall rk anc n, wf_node rk (anc, n) = None <-> WF_node rk anc n.
Proof.
  intros rk anc n. unfold wf_node, WF_node. cbn [fst snd]. split.
  - intro H.
    destruct (orphan_b rk anc (kind_of n)) eqn:E1; [discriminate H |].
    destruct (nested_b anc (kind_of n)) eqn:E2; [discriminate H |].
    destruct (collapse_bad n) eqn:E3; [discriminate H |].
    unfold orphan_b in E1. apply orb_false_iff in E1 as [E1 E1c]. apply orb_false_iff in E1 as [E1a E1b].
    unfold nested_b in E2. apply orb_false_iff in E2 as [E2a E2b].
    repeat split.
    + intro Hk. apply mem_In in Hk. rewrite Hk in E1a. simpl in E1a. apply negb_false_iff in E1a.
      apply any_in_has_anc; assumption.
    + intro Hk. rewrite Hk in E1b. simpl in E1b. apply negb_false_iff in E1b. apply any_in_has_anc; assumption.
    + intro Hk. rewrite Hk in E1c. simpl in E1c.
      destruct (any_in acc_compute anc) eqn:Ea; [left; apply any_in_has_anc; assumption |].
      simpl in E1c. apply negb_false_iff in E1c. right. apply mem_In; assumption.
    + intros Hk Ha. apply mem_In in Hk. rewrite Hk in E2a. simpl in E2a.
      apply any_in_has_anc in Ha. congruence.
    + intros Hk Ha. apply mem_In in Hk. rewrite Hk in E2b. simpl in E2b.
      apply any_in_has_anc in Ha. congruence.
    + intros d c b -> Hc. simpl in E3. rewrite Hc in E3. simpl in E3. apply negb_false_iff in E3.
      apply perfect_b_iff; assumption.
  - intros [H1 [H2 [H3 [H4 [H5 H6]]]]].
    assert (E1 : orphan_b rk anc (kind_of n) = false).
    { unfold orphan_b. apply orb_false_iff; split; [apply orb_false_iff; split |].
      - destruct (mem (kind_of n) [ND OMPDo; ND OMPSingle; ND OMPMaster; ND OMPTaskloop; NS OMPTaskwait]) eqn:E; [| reflexivity].
        apply mem_In in E. apply H1 in E. apply any_in_has_anc in E. rewrite E. reflexivity.
      - destruct (mem (kind_of n) [ND OMPLoop]) eqn:E; [| reflexivity].
        apply mem_singleton in E. apply H2 in E. apply any_in_has_anc in E. rewrite E. reflexivity.
      - destruct (mem (kind_of n) [ND ACCLoop]) eqn:E; [| reflexivity].
        apply mem_singleton in E. destruct (H3 E) as [Ha | Ha].
        + apply any_in_has_anc in Ha. rewrite Ha. reflexivity.
        + apply mem_In in Ha. rewrite Ha. simpl. apply andb_false_r. }
    assert (E2 : nested_b anc (kind_of n) = false).
    { unfold nested_b. apply orb_false_iff; split.
      - destruct (mem (kind_of n) omp_par) eqn:E; [| reflexivity].
        apply mem_In in E. destruct (any_in omp_par anc) eqn:Ea; [| reflexivity].
        exfalso. apply (H4 E). apply any_in_has_anc; assumption.
      - destruct (mem (kind_of n) acc_compute) eqn:E; [| reflexivity].
        apply mem_In in E. destruct (any_in acc_compute anc) eqn:Ea; [| reflexivity].
        exfalso. apply (H5 E). apply any_in_has_anc; assumption. }
    assert (E3 : collapse_bad n = false).
    { destruct n as [| | | d [c |] b |]; try reflexivity. simpl.
      destruct (carries_collapse d) eqn:Ec; [| reflexivity].
      simpl. apply negb_false_iff. apply perfect_b_iff. eapply H6; [reflexivity | assumption]. }
    rewrite E1, E2, E3. reflexivity.
Qed.

Lemma wf_viol_in : forall r cl k, In (cl, k) (wf_viol r) <->
  exists anc n, In (anc, n) (rnodes r) /\ wf_node (rkinds r) (anc, n) = Some cl /\ kind_of n = k.
Proof.
  intros r cl k. unfold wf_viol. rewrite in_flat_map. split.
  - intros [[anc n] [Hp Hin]]. destruct (wf_node (rkinds r) (anc, n)) eqn:E; [| contradiction].
    destruct Hin as [Hin | []]. inversion Hin; subst. exists anc, n. auto.
  - intros [anc [n [Hp [Hw Hk]]]]. exists (anc, n). split; [assumption |]. rewrite Hw. left. simpl. congruence.
Qed.

Lemma wf_b_WF : forall r, wf_b r = true <-> WF r.
Proof.
  intro r. unfold wf_b, WF. split.
  - intros H anc n Hp. apply wf_node_none_iff.
    destruct (wf_node (rkinds r) (anc, n)) eqn:E; [| reflexivity].
    assert (Hin : In (w, kind_of n) (wf_viol r)) by (apply wf_viol_in; exists anc, n; auto).
    destruct (wf_viol r); [contradiction | discriminate H].
  - intro H. destruct (wf_viol r) as [| [cl k] l] eqn:E; [reflexivity |].
    assert (Hin : In (cl, k) (wf_viol r)) by (rewrite E; left; reflexivity).
    apply wf_viol_in in Hin as [anc [n [Hp [Hw _]]]].
    apply H in Hp. apply wf_node_none_iff in Hp. congruence.
Qed.

(* ---------------------------------------------------------------- the sufficient condition *)
(* a node on which the unchanged code checks nothing for one of the clauses *)
Definition gap_label (n : tree) : bool :=
  mem (kind_of n) acc_compute ||
  match n with Dir d (Some _) _ => mem (ND d) [ND OMPLoop; ND ACCLoop] | _ => false end.

Definition gap_free (r : routine) : bool := forallb (fun p => negb (gap_label (snd p))) (rnodes r).

Lemma wf_node_collapse : forall rk anc n, wf_node rk (anc, n) = Some WCollapse -> collapse_bad n = true.
Proof.
  intros rk anc n H. unfold wf_node in H. cbn [fst snd] in H.
  destruct (orphan_b rk anc (kind_of n)); [discriminate H |].
  destruct (nested_b anc (kind_of n)); [discriminate H |].
  destruct (collapse_bad n); [reflexivity | discriminate H].
Qed.

Theorem gen_ok_WF_partial_ : forall r, gen_ok r = true -> gap_free r = true -> WF r.
Proof.
  intros r Hg Hf anc n Hp. apply wf_node_none_iff.
  destruct (wf_node (rkinds r) (anc, n)) as [cl |] eqn:E; [| reflexivity]. exfalso.
  pose proof (gen_ok_wf_gaps_ r Hg anc n cl Hp E) as Hk.
  unfold gap_free in Hf. rewrite forallb_forall in Hf. specialize (Hf _ Hp). cbn [snd] in Hf.
  apply negb_true_iff in Hf. unfold gap_label in Hf. apply orb_false_iff in Hf as [Hf1 Hf2].
  destruct Hk as [Hk | [Hk | [Hk | [Hk | []]]]]; inversion Hk as [[Hc Hkind]]; subst cl.
  - rewrite <- Hkind in Hf1. discriminate Hf1.
  - rewrite <- Hkind in Hf1. discriminate Hf1.
  - apply wf_node_collapse in E. destruct n as [| | | d [c |] b |]; try discriminate E.
    simpl in Hkind. inversion Hkind; subst d. discriminate Hf2.
  - apply wf_node_collapse in E. destruct n as [| | | d [c |] b |]; try discriminate E.
    simpl in Hkind. inversion Hkind; subst d. discriminate Hf2.
Qed.

(* the writer refuses a collapse clause on an imperfect nest for the OMP DO family *)
Theorem writer_refuses_imperfect_collapse_ : forall r anc d c b,
  In (anc, Dir d (Some c) b) (rnodes r) -> In d [OMPDo; OMPParallelDo; OMPTeamsParDo] ->
  perfect_b c b = false -> gen_ok r = false.
Proof.
  intros r anc d c b Hp Hd Hn. destruct (gen_ok r) eqn:Hg; [| reflexivity]. exfalso.
  assert (Hb : collapse_bad (Dir d (Some c) b) = true).
  { simpl. rewrite Hn. destruct Hd as [<- | [<- | [<- | []]]]; reflexivity. }
  pose proof (collapse_case r Hg anc _ Hp Hb) as Hu. apply uncheck_known in Hu. cbn [kind_of] in Hu.
  destruct Hu as [Hu | [Hu | [Hu | [Hu | []]]]]; inversion Hu; subst d;
    destruct Hd as [Hd | [Hd | [Hd | []]]]; discriminate Hd.
Qed.

(* ParallelLoopTrans.validate only follows loop_body[0]: it accepts collapse=2 on a nest that is
   not perfect, for each transformation whose directive carries the clause *)
Definition imperfect2 : tree := Loop [Loop [Leaf LAssign]; Leaf LAssign].

Theorem collapse_validate_weaker_ : forall t, In t [TOMPDo; TOMPParallelDo; TOMPTeamsParDo; TOMPLoop; TACCLoop] ->
  validate_loop t imperfect2 (Build_op t (TNode [] 0) (Some 2) true) = Ok /\ perfect_b 2 [imperfect2] = false.
Proof.
  intros t Ht. destruct Ht as [<- | [<- | [<- | [<- | [<- | []]]]]]; vm_compute; split; reflexivity.
Qed.

(* ---------------------------------------------------------------- shape preservation *)
Lemma erase_set_body : forall t b, flat_map erase b = flat_map erase (body_of t) -> erase (set_body t b) = erase t.
Proof. intros t b H. destruct t; simpl in *; try reflexivity; rewrite H; reflexivity. Qed.

Lemma erase_replace_nth : forall l i x n, nth_error l i = Some n -> erase x = erase n ->
  flat_map erase (replace_nth i x l) = flat_map erase l.
Proof.
  induction l as [| y l IH]; intros i x n Hn He; [destruct i; discriminate Hn |].
  destruct i as [| i]; simpl in *.
  - inversion Hn; subst. rewrite He. reflexivity.
  - rewrite (IH i x n Hn He). reflexivity.
Qed.

Lemma update_at_erase : forall p f b b0, body_at p b = Some b0 ->
  flat_map erase (f b0) = flat_map erase b0 -> flat_map erase (update_at p f b) = flat_map erase b.
Proof.
  induction p as [| i p IH]; intros f b b0 Hb Hf; simpl in *.
  - inversion Hb; subst. assumption.
  - destruct (nth_error b i) as [t |] eqn:En; [| reflexivity].
    destruct (has_body t) eqn:Hh; [| discriminate Hb].
    eapply erase_replace_nth; [exact En |]. apply erase_set_body. eapply IH; eassumption.
Qed.

Lemma skipn_skipn_ : forall (A : Type) a b (l : list A), skipn a (skipn b l) = skipn (b + a) l.
Proof.
  intros A a b. induction b as [| b IH]; intro l; [reflexivity |].
  destruct l as [| x l]; [destruct a; reflexivity | apply IH].
Qed.

Lemma firstn_skipn_mid : forall (A : Type) (b : list A) lo hi, lo <= hi ->
  firstn lo b ++ firstn (hi - lo) (skipn lo b) ++ skipn hi b = b.
Proof.
  intros A b lo hi Hle.
  replace (skipn hi b) with (skipn (hi - lo) (skipn lo b)).
  - rewrite firstn_skipn. apply firstn_skipn.
  - rewrite skipn_skipn_. f_equal. lia.
Qed.

Lemma region_erase : forall d b lo hi, firstn (hi - lo) (skipn lo b) <> [] ->
  flat_map erase (firstn lo b ++ Dir d None (firstn (hi - lo) (skipn lo b)) :: skipn hi b) = flat_map erase b.
Proof.
  intros d b lo hi Hne.
  assert (Hle : lo <= hi).
  { destruct (le_lt_dec lo hi) as [H | H]; [assumption |]. exfalso. apply Hne.
    replace (hi - lo) with 0 by lia. reflexivity. }
  transitivity (flat_map erase (firstn lo b ++ firstn (hi - lo) (skipn lo b) ++ skipn hi b)).
  - rewrite !flat_map_app. simpl. reflexivity.
  - rewrite firstn_skipn_mid by assumption. reflexivity.
Qed.

Lemma insert_erase : forall i s b, flat_map erase (insert_at i (SDir s) b) = flat_map erase b.
Proof.
  intros i s b. unfold insert_at. rewrite flat_map_app. simpl. rewrite <- flat_map_app.
  rewrite firstn_skipn. reflexivity.
Qed.

Theorem apply_op_erase_ : forall o r r', apply_op o r = Accepted r' -> rerase r' = rerase r.
Proof.
  intros o r r' H. unfold rerase. unfold apply_op in H.
  destruct (o_target o) as [p i | p lo hi | p] eqn:Et.
  - destruct (negb (is_loop_trans (o_trans o))); [discriminate H |].
    destruct (body_at p r) as [b |] eqn:Eb; [| discriminate H].
    destruct (nth_error b i) as [n |] eqn:En; [| discriminate H].
    destruct (validate_loop (o_trans o) n o); try discriminate H.
    destruct (apply_loop (o_trans o) n o) as [dn |] eqn:Ea; [| discriminate H].
    inversion H; subst r'. eapply update_at_erase; [exact Eb |].
    eapply erase_replace_nth; [exact En |].
    unfold apply_loop in Ea. destruct (created_tab (o_trans o)) as [d |]; [| discriminate Ea].
    destruct (o_collapse o) as [[| c] |]; destruct (collapse_tab (o_trans o)); inversion Ea; subst dn;
      simpl; apply app_nil_r.
  - destruct (body_at p r) as [b |] eqn:Eb; [| discriminate H].
    destruct (o_trans o) eqn:Etr; cbn -[validate_region created_tab update_at anc_at firstn skipn walks any_in first_with insert_at Nat.sub] in H; try discriminate H;
      match type of H with
      | context [validate_region ?t ?rr ?a ?sel] =>
          destruct (validate_region t rr a sel) eqn:Ev; try discriminate H;
          assert (Hne : sel <> []) by (intro Hs; rewrite Hs in Ev; simpl in Ev; discriminate Ev)
      end;
      match type of H with
      | context [created_tab ?t] => destruct (created_tab t) as [d |]; [| discriminate H]
      end;
      injection H as <-; (eapply update_at_erase; [exact Eb |]); first [apply region_erase; exact Hne | exact (region_erase _ b 0 (length b) Hne)].
  - destruct (body_at p r) as [b |] eqn:Eb; [| discriminate H].
    destruct (o_trans o) eqn:Etr; cbn -[validate_region created_tab update_at anc_at firstn skipn walks any_in first_with insert_at Nat.sub] in H; try discriminate H.
    all: try (match type of H with
      | context [validate_region ?t ?rr ?a ?sel] =>
          destruct (validate_region t rr a sel) eqn:Ev; try discriminate H;
          assert (Hne : sel <> []) by (intro Hs; rewrite Hs in Ev; simpl in Ev; discriminate Ev)
      end;
      match type of H with
      | context [created_tab ?t] => destruct (created_tab t) as [d |]; [| discriminate H]
      end;
      injection H as <-; (eapply update_at_erase; [exact Eb |]); first [apply region_erase; exact Hne | exact (region_erase _ b 0 (length b) Hne)]).
    destruct (any_in [ND ACCData; NS ACCEnterData] (walks b)); [discriminate H |].
    injection H as <-. eapply update_at_erase; [exact Eb |]. apply insert_erase.
    destruct p as [| i0 p0]; [| discriminate H].
    destruct (mem (NLeaf LCodeBlock) (rkinds r)); [discriminate H |].
    injection H as <-. destruct (mem (NS ACCRoutine) (map kind_of r)); reflexivity.
Qed.

Theorem run_erase_ : forall ops r r', run ops r = Some r' -> rerase r' = rerase r.
Proof.
  induction ops as [| o ops IH]; intros r r' H; simpl in H.
  - inversion H; reflexivity.
  - destruct (apply_op o r) as [r1 | |] eqn:E; [| apply IH; assumption | discriminate H].
    rewrite (IH _ _ H). eapply apply_op_erase_; eassumption.
Qed.

