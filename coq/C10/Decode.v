(* C10 — compact textual encoding of correspondence cases, decoded by vm_compute.  Coq elaborates a
   nested list literal in ~20 ms per case but reads a string literal at once; the harness therefore sends
   each case as a string.  The decoder is glue (like the printer of literal cases): an undecodable string
   makes the case count as failing, and on every run a sample of the cases is evaluated through both
   routes (literal terms and strings) and must give the same verdicts.

   forest  ::= tree* ;   tree ::= A | R | C | L forest ) | I forest ) | D <dkind> <collapse> forest ) | S <skind>
   digits are base-36 characters 0-9a-z;  collapse: 0 = no clause
   op      ::= <trans> (n path ; idx | r path ; lo hi | s path ;) <collapse> (t|f)
   step    ::= forest | op | verdict | forest          final ::= forest | verdict | codes | codes
   codes   ::= (two base-36 characters per number)*                                                      *)
From Coq Require Import List Bool Arith String Ascii.
Import ListNotations.
From PV Require Import C10.Kinds C10.Gen C10.Model C10.Compiler C10.Corr.
Definition digit (c : ascii) : option nat :=
  let n := nat_of_ascii c in
  if (48 <=? n) && (n <=? 57) then Some (n - 48)
  else if (97 <=? n) && (n <=? 122) then Some (n - 87)
  else None.

Definition dk_of (c : ascii) : option dkind := match digit c with Some n => nth_error all_dkinds n | None => None end.
Definition sk_of (c : ascii) : option skind := match digit c with Some n => nth_error all_skinds n | None => None end.

Definition all_trans : list trans :=
  [TOMPDo; TOMPParallelDo; TOMPTeamsParDo; TOMPLoop; TOMPParallelLoop; TOMPTaskloop; TACCLoop;
   TOMPParallel; TOMPSingle; TOMPMaster; TOMPTarget; TACCParallel; TACCKernels; TACCData; TACCEnterData; TACCRoutine].
Definition tr_of (c : ascii) : option trans := match digit c with Some n => nth_error all_trans n | None => None end.

Definition coll_of (c : ascii) : option (option nat) :=
  match digit c with Some 0 => Some None | Some n => Some (Some n) | None => None end.

Local Open Scope char_scope.

Definition consf (t : tree) (r : option (list tree * list ascii)) : option (list tree * list ascii) :=
  match r with Some (l, s) => Some (t :: l, s) | None => None end.

(* trees up to a closing ")" (consumed), a "|" (not consumed) or the end of the input *)
Fixpoint pforest (fuel : nat) (s : list ascii) : option (list tree * list ascii) :=
  match fuel with
  | 0 => None
  | S f =>
    match s with
    | [] => Some ([], [])
    | ")" :: r => Some ([], r)
    | "|" :: _ => Some ([], s)
    | "A" :: r => consf (Leaf LAssign) (pforest f r)
    | "R" :: r => consf (Leaf LReturn) (pforest f r)
    | "C" :: r => consf (Leaf LCodeBlock) (pforest f r)
    | "L" :: r => match pforest f r with Some (b, r') => consf (Loop b) (pforest f r') | None => None end
    | "I" :: r => match pforest f r with Some (b, r') => consf (If b) (pforest f r') | None => None end
    | "D" :: k :: c :: r =>
        match dk_of k, coll_of c, pforest f r with
        | Some d, Some co, Some (b, r') => consf (Dir d co b) (pforest f r')
        | _, _, _ => None
        end
    | "S" :: k :: r => match sk_of k with Some x => consf (SDir x) (pforest f r) | None => None end
    | _ => None
    end
  end.

(* digits up to ";" (consumed) *)
Fixpoint ppath (s : list ascii) : option (list nat * list ascii) :=
  match s with
  | [] => None
  | ";" :: r => Some ([], r)
  | c :: r => match digit c, ppath r with Some n, Some (l, r') => Some (n :: l, r') | _, _ => None end
  end.

Definition pop (s : list ascii) : option (op * list ascii) :=
  match s with
  | t :: k :: r =>
    match tr_of t, ppath r with
    | Some tr, Some (p, r1) =>
      let fin (tg : target) (r2 : list ascii) :=
        match r2 with
        | c :: d :: r3 =>
          match coll_of c, d with
          | Some co, "t" => Some (Build_op tr tg co true, r3)
          | Some co, "f" => Some (Build_op tr tg co false, r3)
          | _, _ => None
          end
        | _ => None
        end in
      match k, r1 with
      | "n", i :: r2 => match digit i with Some n => fin (TNode p n) r2 | None => None end
      | "r", a :: b :: r2 => match digit a, digit b with Some lo, Some hi => fin (TRange p lo hi) r2 | _, _ => None end
      | "s", r2 => fin (TSched p) r2
      | _, _ => None
      end
    | _, _ => None
    end
  | _ => None
  end.

Definition bar (s : list ascii) : option (list ascii) := match s with "|" :: r => Some r | _ => None end.

Definition decode_step (str : string) : option step_case :=
  let s := list_ascii_of_string str in
  match pforest (S (List.length s)) s with
  | Some (before, r1) =>
    match bar r1 with
    | Some r2 =>
      match pop r2 with
      | Some (o, r3) =>
        match bar r3 with
        | Some (v :: r4) =>
          match digit v, bar r4 with
          | Some vn, Some r5 =>
            match pforest (S (List.length r5)) r5 with
            | Some (after, []) => Some (before, o, vn, after)
            | _ => None
            end
          | _, _ => None
          end
        | _ => None
        end
      | None => None
      end
    | None => None
    end
  | None => None
  end.

Fixpoint pcodes (s : list ascii) : option (list nat * list ascii) :=
  match s with
  | [] => Some ([], [])
  | "|" :: _ => Some ([], s)
  | a :: b :: r =>
      match digit a, digit b, pcodes r with
      | Some x, Some y, Some (l, r') => Some ((36 * x + y)%nat :: l, r')
      | _, _, _ => None
      end
  | _ => None
  end.

Definition decode_final (str : string) : option final_case :=
  let s := list_ascii_of_string str in
  match pforest (S (List.length s)) s with
  | Some (r, r1) =>
    match bar r1 with
    | Some (v :: r2) =>
      match digit v, bar r2 with
      | Some vn, Some r3 =>
        match pcodes r3 with
        | Some (wf, r4) =>
          match bar r4 with
          | Some r5 => match pcodes r5 with Some (cc, []) => Some (r, vn, wf, cc) | _ => None end
          | None => None
          end
        | None => None
        end
      | _, _ => None
      end
    | _ => None
    end
  | None => None
  end.

Definition on_step (f : step_case -> bool) (s : string) : bool :=
  match decode_step s with Some c => f c | None => false end.
Definition on_final (f : final_case -> bool) (s : string) : bool :=
  match decode_final s with Some c => f c | None => false end.

(* the decoder inverts the documented encoding on a sample (more is checked against literal terms at run time) *)
Example decode_step_example :
  decode_step "LLA))A|0n;02t|0|D12LLA)))A"%string =
  Some ([Loop [Loop [Leaf LAssign]]; Leaf LAssign], Build_op TOMPDo (TNode [] 0) (Some 2) true, 0,
        [Dir OMPDo (Some 2) [Loop [Loop [Leaf LAssign]]]; Leaf LAssign]).
Proof. vm_compute. reflexivity. Qed.

Example decode_final_example :
  decode_final "D90D90LA)))S1|0|0109|05090p"%string =
  Some ([Dir ACCParallel None [Dir ACCParallel None [Loop [Leaf LAssign]]]; SDir ACCEnterData], 0, [1; 9], [5; 9; 25]).
Proof. vm_compute. reflexivity. Qed.

(* one entry point for a mixed list of cases: first character s = step, f = final tree *)
Definition on_any (str : string) : bool :=
  match str with
  | String "s" r => on_step step_agrees r
  | String "f" r => on_final final_agrees r
  | _ => false
  end.
