(* C10 — basic facts about trees, nodes-with-ancestors and the generation-time check. *)
From Coq Require Import List Bool Arith Lia.
Import ListNotations.
From PV Require Import C10.Kinds C10.Gen C10.Model C10.Cover.

(* ---------------------------------------------------------------- induction on trees *)
Section TreeInd.
  Variable P : tree -> Prop.
  Hypothesis HLeaf : forall l, P (Leaf l).
  Hypothesis HLoop : forall b, Forall P b -> P (Loop b).
  Hypothesis HIf : forall b, Forall P b -> P (If b).
  Hypothesis HDir : forall d c b, Forall P b -> P (Dir d c b).
  Hypothesis HSDir : forall s, P (SDir s).

  Fixpoint tree_ind' (t : tree) : P t :=
    let fix go (l : list tree) : Forall P l :=
      match l with
      | [] => Forall_nil P
      | x :: r => Forall_cons x (tree_ind' x) (go r)
      end in
    match t with
    | Leaf l => HLeaf l
    | Loop b => HLoop b (go b)
    | If b => HIf b (go b)
    | Dir d c b => HDir d c b (go b)
    | SDir s => HSDir s
    end.
End TreeInd.

(* ---------------------------------------------------------------- kinds *)
Lemma dkind_eqb_eq : forall a b, dkind_eqb a b = true <-> a = b.
Proof. intros a b; split; [destruct a, b; simpl; intro H; try reflexivity; discriminate H | intros ->; destruct b; reflexivity]. Qed.

Lemma skind_eqb_eq : forall a b, skind_eqb a b = true <-> a = b.
Proof. intros a b; split; [destruct a, b; simpl; intro H; try reflexivity; discriminate H | intros ->; destruct b; reflexivity]. Qed.

Lemma leaf_eqb_eq : forall a b, leaf_eqb a b = true <-> a = b.
Proof. intros a b; split; [destruct a, b; simpl; intro H; try reflexivity; discriminate H | intros ->; destruct b; reflexivity]. Qed.

Lemma nkind_eqb_eq : forall a b, nkind_eqb a b = true <-> a = b.
Proof.
  intros a b; split.
  - destruct a, b; simpl; intro H; try reflexivity; try discriminate H.
    + apply leaf_eqb_eq in H; congruence.
    + apply dkind_eqb_eq in H; congruence.
    + apply skind_eqb_eq in H; congruence.
  - intros ->. destruct b; simpl; try reflexivity.
    + apply leaf_eqb_eq; reflexivity.
    + apply dkind_eqb_eq; reflexivity.
    + apply skind_eqb_eq; reflexivity.
Qed.

Lemma mem_In : forall k l, mem k l = true <-> In k l.
Proof.
  intros k l; unfold mem; rewrite existsb_exists; split.
  - intros [x [Hx He]]. apply nkind_eqb_eq in He. subst; assumption.
  - intro H. exists k; split; [assumption | apply nkind_eqb_eq; reflexivity].
Qed.

Lemma any_in_spec : forall ks l, any_in ks l = true <-> exists a, In a l /\ In a ks.
Proof.
  intros ks l; unfold any_in; rewrite existsb_exists; split.
  - intros [a [Ha Hm]]. exists a; split; [assumption | apply mem_In; assumption].
  - intros [a [Ha Hm]]. exists a; split; [assumption | apply mem_In; assumption].
Qed.

Lemma any_in_mono : forall ks l l', (forall x, In x l -> In x l') -> any_in ks l = true -> any_in ks l' = true.
Proof.
  intros ks l l' Hs H. apply any_in_spec in H as [a [Ha Hk]]. apply any_in_spec. exists a; auto.
Qed.

Lemma sub_spec : forall a b, sub a b = true -> forall x, In x a -> In x b.
Proof.
  intros a b H x Hx. unfold sub in H. rewrite forallb_forall in H. apply mem_In. apply H; assumption.
Qed.

(* ---------------------------------------------------------------- nodes *)
Lemma nodes_unfold : forall a t,
  nodes a t = (a, t) :: match t with
                        | Loop b => flat_map (nodes (NLoop :: a)) b
                        | If b => flat_map (nodes (NIf :: a)) b
                        | Dir d _ b => flat_map (nodes (ND d :: a)) b
                        | _ => []
                        end.
Proof. intros a t; destruct t; reflexivity. Qed.

(* children contexts *)
Definition child_ctx (a : list nkind) (t : tree) : list nkind := kind_of t :: a.

Lemma nodes_children : forall a t p,
  In p (nodes a t) -> p = (a, t) \/ exists x, In x (body_of t) /\ In p (nodes (child_ctx a t) x).
Proof.
  intros a t p H. rewrite nodes_unfold in H. destruct H as [H | H]; [left; auto |].
  right. destruct t; simpl in H; try contradiction;
    apply in_flat_map in H as [x [Hx Hp]]; exists x; split; assumption.
Qed.

Lemma nodes_children_inv : forall a t x p,
  In x (body_of t) -> In p (nodes (child_ctx a t) x) -> In p (nodes a t).
Proof.
  intros a t x p Hx Hp. rewrite nodes_unfold. right.
  destruct t; simpl in Hx; try contradiction; apply in_flat_map; exists x; split; assumption.
Qed.

Lemma nodes_self : forall a t, In (a, t) (nodes a t).
Proof. intros; rewrite nodes_unfold; left; reflexivity. Qed.

(* the ancestors of every node of the subtree extend the context *)
Lemma nodes_anc_sup : forall t a anc n, In (anc, n) (nodes a t) -> forall x, In x a -> In x anc.
Proof.
  induction t using tree_ind'; intros a anc n Hin x Hx;
    apply nodes_children in Hin as [E | [y [Hy Hp]]];
    try (inversion E; subst; assumption); simpl in Hy; try contradiction.
  all: rewrite Forall_forall in H; eapply (H y Hy); [exact Hp | right; exact Hx].
Qed.

(* every ancestor kind is in the initial context or is the kind of a node of the subtree whose
   own ancestors are all ancestors of n *)
Lemma nodes_anc_node : forall t a anc n, In (anc, n) (nodes a t) -> forall k, In k anc ->
  In k a \/ exists anc' m, In (anc', m) (nodes a t) /\ kind_of m = k /\ (forall x, In x anc' -> In x anc).
Proof.
  induction t using tree_ind'; intros a anc n Hin k Hk;
    apply nodes_children in Hin as [E | [y [Hy Hp]]];
    try (inversion E; subst; left; assumption); simpl in Hy; try contradiction.
  all: rewrite Forall_forall in H; destruct (H y Hy _ _ _ Hp k Hk) as [Hc | [anc' [m [Hm [Hkm Hs]]]]].
  all: try (right; exists anc', m; split; [eapply nodes_children_inv; [exact Hy | exact Hm] | split; assumption]).
  all: destruct Hc as [Hc | Hc]; [| left; assumption].
  all: right; eexists a, _; split; [apply nodes_self | split; [exact Hc |]].
  all: intros x Hx; eapply nodes_anc_sup; [exact Hp | right; exact Hx].
Qed.

Lemma rnodes_in : forall r p, In p (rnodes r) <-> exists t, In t r /\ In p (nodes [NRoutine] t).
Proof. intros; unfold rnodes; apply in_flat_map. Qed.

Lemma rnodes_anc_node : forall r anc n, In (anc, n) (rnodes r) -> forall k, In k anc ->
  k = NRoutine \/ exists anc' m, In (anc', m) (rnodes r) /\ kind_of m = k /\ (forall x, In x anc' -> In x anc).
Proof.
  intros r anc n Hin k Hk. apply rnodes_in in Hin as [t [Ht Hp]].
  destruct (nodes_anc_node _ _ _ _ Hp k Hk) as [[E | []] | [anc' [m [Hm [Hkm Hs]]]]].
  - left; auto.
  - right. exists anc', m; split; [apply rnodes_in; exists t; auto | auto].
Qed.

(* ---------------------------------------------------------------- generation-time check *)
Lemma first_fail_ok : forall l, first_fail l = Ok -> forall o, In o l -> o = Ok.
Proof.
  induction l as [| x l IH]; intros H o Ho; [contradiction |].
  simpl in H. destruct x; try discriminate H. destruct Ho as [<- | Ho]; [reflexivity | apply IH; assumption].
Qed.

Lemma gen_ok_nodes : forall r, gen_ok r = true -> forall p, In p (rnodes r) -> node_check (rkinds r) p = Ok.
Proof.
  intros r H p Hp. unfold gen_ok, write_outcome in H.
  destruct (first_fail (map (node_check (rkinds r)) (rnodes r))) eqn:E; try discriminate H.
  eapply first_fail_ok; [exact E | apply in_map; exact Hp].
Qed.

Lemma rules_eval_ok : forall rk anc n rs, rules_eval rk anc n rs = Ok -> forall ru, In ru rs -> rule_eval rk anc n ru = Ok.
Proof.
  induction rs as [| x rs IH]; intros H ru Hr; [contradiction |].
  simpl in H. destruct (rule_eval rk anc n x) eqn:E; try discriminate H.
  destruct Hr as [<- | Hr]; [assumption | apply IH; assumption].
Qed.

Lemma gen_ok_rule : forall r, gen_ok r = true -> forall anc n, In (anc, n) (rnodes r) ->
  forall ru, In ru (gen_rules (kind_of n)) -> rule_eval (rkinds r) anc n ru = Ok.
Proof.
  intros r H anc n Hp ru Hr. pose proof (gen_ok_nodes r H _ Hp) as Hc. unfold node_check in Hc. simpl in Hc.
  destruct (rules_eval (rkinds r) anc n (gen_rules (kind_of n))) eqn:E; try discriminate Hc.
  eapply rules_eval_ok; eassumption.
Qed.
