(* C10 — necessary conditions for an OpenMP/OpenACC-aware compiler (gfortran 12.2) to accept the
   directive structure of a written routine.  This is a SPECIFICATION of the observation point
   ("the generated code is accepted by an OpenMP/OpenACC-aware Fortran compiler"), not a model of
   PSyclone.  It is validated against gfortran on every run of the check (props/C10/check.py):
   every tree for which cc_viol is non-empty must be rejected by gfortran, and the rejected trees
   met by the harness must have a non-empty cc_viol.  No proofs in this file. *)
From Coq Require Import List Bool Arith.
Import ListNotations.
From PV Require Import C10.Kinds C10.Gen C10.Model.

Inductive ccrule :=
| CCWorkshare      (* work-sharing region closely nested in work-sharing/master/taskloop/loop region *)
| CCMaster         (* master region closely nested in work-sharing/taskloop/loop region              *)
| CCInLoopRegion   (* only parallel, loop (and simd) may be nested inside an `omp loop` region       *)
| CCTeams          (* teams must be closely nested in target or not nested in any OpenMP construct   *)
| CCLoopOrphan     (* `omp loop` without bind clause outside any OpenMP construct                    *)
| CCAccNested      (* OpenACC compute construct inside an OpenACC compute construct                  *)
| CCAccLoopOrphan  (* `acc loop` outside any compute construct in a routine without `acc routine`    *)
| CCAccData        (* data / enter data construct inside an OpenACC compute construct                *)
| CCMixed          (* OpenMP directive inside an OpenACC region / routine or vice versa              *)
| CCLoopAssoc      (* loop-associated directive not applied to (exactly) one DO loop                 *)
| CCCollapse       (* collapse(n) without n (perfectly, for OpenMP) nested loops                     *)
| CCBranch         (* RETURN inside a structured block                                               *)
| CCRoutinePos.    (* `acc routine` not in the specification part                                    *)

Definition omp_regions : list nkind :=
  [ND OMPParallel; ND OMPDo; ND OMPParallelDo; ND OMPTeamsParDo; ND OMPSingle; ND OMPMaster;
   ND OMPTaskloop; ND OMPTarget; ND OMPLoop].
Definition omp_all : list nkind := NS OMPTaskwait :: omp_regions.
Definition acc_exec : list nkind := [ND ACCParallel; ND ACCKernels; ND ACCLoop].
Definition acc_regions : list nkind := ND ACCData :: acc_exec.
Definition acc_all : list nkind := NS ACCEnterData :: acc_regions.

Definition nearest (ks anc : list nkind) : option nkind := find (fun a => mem a ks) anc.

Definition in_opt (o : option nkind) (ks : list nkind) : bool :=
  match o with Some k => mem k ks | None => false end.

(* OpenACC `loop collapse(c)`: gfortran only requires that following the FIRST statement of each
   body yields c DO loops *)
Fixpoint first_chain_b (c : nat) (b : list tree) : bool :=
  match c with
  | 0 => true
  | S c' => match b with Loop b' :: _ => first_chain_b c' b' | _ => false end
  end.

(* OpenMP directives of a subtree that are not below another OpenMP region of that subtree *)
Fixpoint close_omp (t : tree) : list nkind :=
  match t with
  | Dir d _ b => if mem (ND d) omp_regions then [ND d] else flat_map close_omp b
  | SDir OMPTaskwait => [NS OMPTaskwait]
  | Loop b | If b => flat_map close_omp b
  | _ => []
  end.

Definition cc_node (rk : list nkind) (p : list nkind * tree) : list (ccrule * nkind * option nkind) :=
  let anc := fst p in let n := snd p in
  let k := kind_of n in
  let no := nearest omp_regions anc in
  let mk (r : ccrule) (o : option nkind) := [(r, k, o)] in
  (if mem k [ND OMPDo; ND OMPSingle] &&
      in_opt no [ND OMPDo; ND OMPParallelDo; ND OMPTeamsParDo; ND OMPSingle; ND OMPMaster; ND OMPTaskloop; ND OMPLoop]
   then mk CCWorkshare no else []) ++
  (if mem k [ND OMPMaster] &&
      in_opt no [ND OMPDo; ND OMPParallelDo; ND OMPTeamsParDo; ND OMPSingle; ND OMPTaskloop; ND OMPLoop]
   then mk CCMaster no else []) ++
  (if in_opt no [ND OMPLoop] && mem k [ND OMPTaskloop; ND OMPTarget; ND OMPTeamsParDo; NS OMPTaskwait]
   then mk CCInLoopRegion no else []) ++
  (if mem k [ND OMPTeamsParDo] && negb (match no with None => true | Some o => mem o [ND OMPTarget] end)
   then mk CCTeams no else []) ++
  (if mem k [ND OMPLoop] && negb (any_in omp_regions anc) then mk CCLoopOrphan None else []) ++
  (if mem k acc_compute && any_in acc_compute anc then mk CCAccNested (nearest acc_compute anc) else []) ++
  (if mem k [ND ACCLoop] && negb (any_in acc_compute anc) && negb (mem (NS ACCRoutine) rk)
   then mk CCAccLoopOrphan None else []) ++
  (if mem k [ND ACCData; NS ACCEnterData] && any_in acc_compute anc
   then mk CCAccData (nearest acc_compute anc) else []) ++
  (if (mem k omp_all && any_in acc_regions anc) then mk CCMixed (nearest acc_regions anc) else []) ++
  (if (mem k acc_all && any_in omp_regions anc) then mk CCMixed no else []) ++
  (if (mem k omp_all && mem (NS ACCRoutine) rk) then mk CCMixed (Some (NS ACCRoutine)) else []) ++
  (match n with
   | Dir d _ b =>
       if mem (ND d) [ND OMPDo; ND OMPParallelDo; ND OMPTeamsParDo; ND OMPLoop; ND OMPTaskloop]
       then match b with [Loop _] => [] | _ => mk CCLoopAssoc None end
       else if mem (ND d) [ND ACCLoop]
       then match b with Loop _ :: _ => [] | _ => mk CCLoopAssoc None end
       else []
   | _ => []
   end) ++
  (match n with
   | Dir d (Some c) b =>
       if mem (ND d) [ND OMPDo; ND OMPParallelDo; ND OMPTeamsParDo; ND OMPLoop]
       then (if perfect_b c b then [] else mk CCCollapse None)
       else if mem (ND d) [ND ACCLoop]
       then (if first_chain_b c b then [] else mk CCCollapse None)
       else []
   | _ => []
   end) ++
  (if mem k [NLeaf LReturn] && any_in (omp_regions ++ acc_regions) anc
   then mk CCBranch (nearest (omp_regions ++ acc_regions) anc) else []) ++
  (* a target region with a nested teams construct must contain no other directive *)
  (match n with
   | Dir OMPTarget _ b =>
       let ds := flat_map close_omp b in
       if mem (ND OMPTeamsParDo) ds && (2 <=? length ds)
       then [(CCTeams, ND OMPTeamsParDo, Some (ND OMPTarget))] else []
   | _ => []
   end) ++
  (* compute construct in a routine marked `acc routine` *)
  (if mem k acc_compute && mem (NS ACCRoutine) rk then mk CCAccNested (Some (NS ACCRoutine)) else []).

Definition cc_routine_pos (r : routine) : list (ccrule * nkind * option nkind) :=
  let rest := match r with SDir ACCRoutine :: r' => r' | _ => r end in
  if mem (NS ACCRoutine) (rkinds rest) then [(CCRoutinePos, NS ACCRoutine, None)] else [].

Definition cc_viol (r : routine) : list (ccrule * nkind * option nkind) :=
  cc_routine_pos r ++ flat_map (cc_node (rkinds r)) (rnodes r).

Definition cc_b (r : routine) : bool := match cc_viol r with [] => true | _ => false end.
