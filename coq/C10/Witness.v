(* C10 — gap witnesses: a history from a directive-free routine to a final tree, with the violation the
   final tree is expected to show.  The statement is conditional on two computable premises (the model
   accepts the history with exactly this final tree; the model's writer accepts that tree), so it stays
   provable when the code under test is repaired: then a premise evaluates to false.  The check
   evaluates the premises on every run and replays the witnesses whose premises hold on PSyclone. *)
From Coq Require Import List Bool Arith.
Import ListNotations.
From PV Require Import C10.Kinds C10.Gen C10.Model C10.Compiler C10.Cover C10.Corr.

Inductive expect :=
| EWF (cl : wfclause) (k : nkind)                       (* (cl, k) in wf_viol *)
| ECC (rule : ccrule) (k : option nkind) (o : option (option nkind)).
   (* some element of cc_viol with this rule; inner / enclosing kind if given *)

Definition opt_match {A} (eqb : A -> A -> bool) (want : option A) (got : A) : bool :=
  match want with None => true | Some x => eqb x got end.

Definition onkind_eqb (a b : option nkind) : bool :=
  match a, b with None, None => true | Some x, Some y => nkind_eqb x y | _, _ => false end.

Definition expect_b (e : expect) (r : routine) : bool :=
  match e with
  | EWF cl k => existsb (fun v => wfclause_eqb cl (fst v) && nkind_eqb k (snd v)) (wf_viol r)
  | ECC rule k o =>
      existsb (fun v => (cc_code rule =? cc_code (fst (fst v))) && opt_match nkind_eqb k (snd (fst v))
                        && opt_match onkind_eqb o (snd v)) (cc_viol r)
  end.

Record witness := { w_start : routine; w_ops : list op; w_final : routine; w_expect : expect }.

(* the premises, as one boolean (evaluated by the check: true = the gap is open in the model) *)
Definition premises_b (w : witness) : bool :=
  match run (w_ops w) (w_start w) with
  | Some r => routine_eqb r (w_final w) && gen_ok (w_final w)
  | None => false
  end.

Definition witness_holds (w : witness) : Prop :=
  run (w_ops w) (w_start w) = Some (w_final w) -> gen_ok (w_final w) = true ->
  forallb directive_free (w_start w) = true /\ expect_b (w_expect w) (w_final w) = true.
