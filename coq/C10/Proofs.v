From Coq Require Import List Bool Arith.
Import ListNotations.
From PV Require Import C10.Kinds C10.Gen C10.Model C10.Compiler.
Lemma placeholder_ : gen_ok [Leaf LAssign] = true.
Proof. vm_compute. reflexivity. Qed.
