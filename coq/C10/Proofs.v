(* C10 — the generation-time check enforces the property wherever the tables say so. *)
From Coq Require Import List Bool Arith Lia.
Import ListNotations.
From PV Require Import C10.Kinds C10.Gen C10.Model C10.Cover C10.Lemmas.

Lemma existsb_false_In : forall (A : Type) (f : A -> bool) l x, existsb f l = false -> In x l -> f x = false.
Proof.
  induction l as [| y l IH]; intros x H Hx; [contradiction |].
  simpl in H. apply orb_false_iff in H as [H1 H2]. destruct Hx as [<- | Hx]; [assumption | apply IH; assumption].
Qed.

(* ---------------------------------------------------------------- clause 1 *)
Lemma req_cover_unfold : forall fuel T k, req_cover fuel T k =
  existsb (fun r =>
    match r with
    | GRequireAnc ty ex =>
        forallb (fun a => mem a ex || mem a T || match fuel with 0 => false | S f => req_cover f T a end) ty
    | _ => false
    end) (gen_rules k).
Proof. destruct fuel; reflexivity. Qed.

Lemma req_cover_routine : forall f T, req_cover f T NRoutine = false.
Proof. destruct f; reflexivity. Qed.

Lemma req_cover_sound : forall fuel T k, req_cover fuel T k = true ->
  forall r, gen_ok r = true -> forall anc n, In (anc, n) (rnodes r) -> kind_of n = k -> any_in T anc = true.
Proof.
  induction fuel as [| f IH]; intros T k Hc r Hg anc n Hp Hk; rewrite req_cover_unfold in Hc;
    apply existsb_exists in Hc as [ru [Hru Hf]]; destruct ru as [ty ex | | | | | |]; try discriminate Hf;
    subst k; pose proof (gen_ok_rule r Hg anc n Hp _ Hru) as He; simpl in He;
    destruct (anc_match ty ex anc) eqn:Ea; try discriminate He;
    unfold anc_match in Ea; apply existsb_exists in Ea as [a [Ha Hm]];
    apply andb_true_iff in Hm as [Hm1 Hm2]; apply negb_true_iff in Hm2;
    rewrite forallb_forall in Hf; assert (Hfa := Hf a (proj1 (mem_In _ _) Hm1));
    rewrite Hm2 in Hfa; simpl in Hfa.
  - rewrite orb_false_r in Hfa. apply any_in_spec. exists a; split; [assumption | apply mem_In; assumption].
  - apply orb_true_iff in Hfa as [Hfa | Hfa].
    + apply any_in_spec. exists a; split; [assumption | apply mem_In; assumption].
    + destruct (rnodes_anc_node r anc n Hp a Ha) as [-> | [anc' [m [Hm [Hkm Hs]]]]].
      * rewrite req_cover_routine in Hfa; discriminate Hfa.
      * eapply any_in_mono; [exact Hs |]. eapply IH; eauto.
Qed.

Lemma acc_loop_cover_sound : acc_loop_cover = true ->
  forall r, gen_ok r = true -> forall anc n, In (anc, n) (rnodes r) -> kind_of n = ND ACCLoop ->
  any_in acc_compute anc = true \/ mem (NS ACCRoutine) (rkinds r) = true.
Proof.
  intros Hc r Hg anc n Hp Hk. unfold acc_loop_cover in Hc. apply existsb_exists in Hc as [ru [Hru Hf]].
  rewrite <- Hk in Hru. pose proof (gen_ok_rule r Hg anc n Hp _ Hru) as He.
  destruct ru as [ty ex | | | | | | ty wk]; try discriminate Hf; simpl in He.
  - destruct (anc_match ty ex anc) eqn:Ea; try discriminate He.
    unfold anc_match in Ea. apply existsb_exists in Ea as [a [Ha Hm]].
    apply andb_true_iff in Hm as [Hm1 Hm2]. apply negb_true_iff in Hm2.
    rewrite forallb_forall in Hf. assert (Hfa := Hf a (proj1 (mem_In _ _) Hm1)).
    rewrite Hm2 in Hfa. simpl in Hfa. left. apply any_in_spec. exists a; split; [assumption | apply mem_In; assumption].
  - apply andb_true_iff in Hf as [Hs1 Hs2].
    destruct (any_in ty anc) eqn:E1.
    + left. apply any_in_spec in E1 as [a [Ha Hin]]. apply any_in_spec. exists a; split; [assumption |].
      eapply sub_spec; eassumption.
    + simpl in He. destruct (any_in wk (rkinds r)) eqn:E2; try discriminate He.
      right. apply any_in_spec in E2 as [a [Ha Hin]]. pose proof (sub_spec _ _ Hs2 a Hin) as Hx.
      destruct Hx as [<- | []]. apply mem_In; assumption.
Qed.

Lemma mem_singleton : forall k x, mem k [x] = true -> k = x.
Proof. intros k x H. apply mem_In in H. destruct H as [H | []]; auto. Qed.

Lemma orphan_case : forall r, gen_ok r = true -> forall anc n, In (anc, n) (rnodes r) ->
  orphan_b (rkinds r) anc (kind_of n) = true -> uncheck WOrphan (kind_of n) = true.
Proof.
  intros r Hg anc n Hp H. unfold orphan_b in H.
  apply orb_true_iff in H as [H | H]; [apply orb_true_iff in H as [H | H] |].
  - apply andb_true_iff in H as [Hm Hn]. apply negb_true_iff in Hn.
    unfold uncheck, orphan_targets. rewrite Hm.
    destruct (req_cover 3 omp_par (kind_of n)) eqn:E; [| reflexivity].
    rewrite (req_cover_sound _ _ _ E r Hg anc n Hp eq_refl) in Hn. discriminate Hn.
  - apply andb_true_iff in H as [Hm Hn]. apply negb_true_iff in Hn.
    pose proof (mem_singleton _ _ Hm) as Ek.
    unfold uncheck, orphan_targets. rewrite Ek. cbn [mem existsb nkind_eqb dkind_eqb orb].
    destruct (req_cover 3 (ND OMPTarget :: omp_par) (ND OMPLoop)) eqn:E; [| reflexivity].
    rewrite (req_cover_sound _ _ _ E r Hg anc n Hp Ek) in Hn. discriminate Hn.
  - apply andb_true_iff in H as [H Hr]. apply andb_true_iff in H as [Hm Hn].
    apply negb_true_iff in Hn. apply negb_true_iff in Hr.
    pose proof (mem_singleton _ _ Hm) as Ek.
    unfold uncheck, orphan_targets. rewrite Ek. cbn [mem existsb nkind_eqb dkind_eqb orb].
    destruct acc_loop_cover eqn:E; [| reflexivity].
    destruct (acc_loop_cover_sound E r Hg anc n Hp Ek) as [Hx | Hx]; congruence.
Qed.

(* ---------------------------------------------------------------- clause 2 *)
Lemma nest_cover_sound : forall k P, nest_cover k P = true ->
  forall r, gen_ok r = true -> forall anc n, In (anc, n) (rnodes r) -> kind_of n = k -> any_in P anc = false.
Proof.
  intros k P Hc r Hg anc n Hp Hk. unfold nest_cover in Hc. apply existsb_exists in Hc as [ru [Hru Hf]].
  subst k. pose proof (gen_ok_rule r Hg anc n Hp _ Hru) as He.
  destruct ru as [| ty ex | | | | |]; try discriminate Hf. simpl in He.
  apply andb_true_iff in Hf as [Hs Hex]. destruct ex; [| discriminate Hex].
  destruct (anc_match ty [] anc) eqn:Ea; try discriminate He.
  destruct (any_in P anc) eqn:E; [| reflexivity].
  apply any_in_spec in E as [a [Ha Hin]].
  unfold anc_match in Ea.
  assert (Hx : mem a ty && negb (mem a []) = true).
  { apply andb_true_iff; split; [apply mem_In; eapply sub_spec; eassumption | reflexivity]. }
  rewrite (existsb_false_In _ _ _ a Ea Ha) in Hx. discriminate Hx.
Qed.

Lemma nested_case : forall r, gen_ok r = true -> forall anc n, In (anc, n) (rnodes r) ->
  nested_b anc (kind_of n) = true -> uncheck WNested (kind_of n) = true.
Proof.
  intros r Hg anc n Hp H. unfold nested_b in H. apply orb_true_iff in H as [H | H];
    apply andb_true_iff in H as [Hm Ha]; unfold uncheck.
  - rewrite Hm. destruct (nest_cover (kind_of n) omp_par) eqn:E; [| reflexivity].
    rewrite (nest_cover_sound _ _ E r Hg anc n Hp eq_refl) in Ha. discriminate Ha.
  - assert (Ho : mem (kind_of n) omp_par = false).
    { apply mem_In in Hm. destruct Hm as [E | [E | []]]; rewrite <- E; reflexivity. }
    rewrite Ho, Hm. destruct (nest_cover (kind_of n) acc_compute) eqn:E; [| reflexivity].
    rewrite (nest_cover_sound _ _ E r Hg anc n Hp eq_refl) in Ha. discriminate Ha.
Qed.

(* ---------------------------------------------------------------- clause 3 *)
Lemma catom_eqb_eq : forall a b, catom_eqb a b = true -> a = b.
Proof. destruct a, b; simpl; intro H; try reflexivity; discriminate H. Qed.

Lemma collapse_walk_perfect : forall atoms,
  existsb (catom_eqb CNotOnlyChild) atoms = true -> existsb (catom_eqb CNotLoop) atoms = true ->
  forall c b, collapse_walk atoms c b = Ok -> perfect_b c b = true.
Proof.
  intros atoms H1 H2. apply existsb_exists in H1 as [a1 [Hi1 He1]]. apply catom_eqb_eq in He1. subst a1.
  apply existsb_exists in H2 as [a2 [Hi2 He2]]. apply catom_eqb_eq in He2. subst a2.
  induction c as [| c IH]; intros b H; [reflexivity |].
  simpl in H. destruct b as [| cur rest]; [discriminate H |].
  destruct (existsb (atom_true (cur :: rest) cur) atoms) eqn:E; [discriminate H |].
  pose proof (existsb_false_In _ _ _ _ E Hi1) as A1. pose proof (existsb_false_In _ _ _ _ E Hi2) as A2.
  simpl in A1, A2. apply negb_false_iff in A1. apply negb_false_iff in A2.
  destruct rest; [| destruct rest; discriminate A1].
  destruct cur as [| b' | | |]; try discriminate A2.
  destruct b' as [| x b'']; [discriminate H |].
  simpl. apply IH. exact H.
Qed.

Lemma collapse_case : forall r, gen_ok r = true -> forall anc n, In (anc, n) (rnodes r) ->
  collapse_bad n = true -> uncheck WCollapse (kind_of n) = true.
Proof.
  intros r Hg anc n Hp H. destruct n as [| | | d c b |]; try discriminate H.
  destruct c as [c |]; [| discriminate H]. simpl in H. apply andb_true_iff in H as [Hc Hn].
  apply negb_true_iff in Hn. unfold uncheck. cbn [kind_of]. rewrite Hc.
  destruct (coll_cover (ND d)) eqn:E; [| reflexivity].
  unfold coll_cover in E. apply existsb_exists in E as [ru [Hru Hf]].
  pose proof (gen_ok_rule r Hg anc (Dir d (Some c) b) Hp _ Hru) as He.
  destruct ru as [| | | | atoms | |]; try discriminate Hf.
  apply andb_true_iff in Hf as [F1 F2].
  destruct c as [| c]; [simpl in Hn; discriminate Hn |].
  cbn [rule_eval collapse_of body_of] in He.
  rewrite (collapse_walk_perfect atoms F1 F2 _ _ He) in Hn. discriminate Hn.
Qed.

(* ---------------------------------------------------------------- main statement *)
Theorem gen_ok_wf_unchecked_ : forall r, gen_ok r = true ->
  forall anc n cl, In (anc, n) (rnodes r) -> wf_node (rkinds r) (anc, n) = Some cl -> uncheck cl (kind_of n) = true.
Proof.
  intros r Hg anc n cl Hp H. unfold wf_node in H. cbn [fst snd] in H.
  destruct (orphan_b (rkinds r) anc (kind_of n)) eqn:E1.
  { inversion H; subst. eapply orphan_case; eassumption. }
  destruct (nested_b anc (kind_of n)) eqn:E2.
  { inversion H; subst. eapply nested_case; eassumption. }
  destruct (collapse_bad n) eqn:E3.
  { inversion H; subst. eapply collapse_case; eassumption. }
  discriminate H.
Qed.

(* today's tables leave exactly (at most) the four known gaps *)
Lemma gaps_bounded_now : gaps_bounded = true.
Proof. vm_compute. reflexivity. Qed.

Lemma all_nkinds_complete : forall k, In k all_nkinds.
Proof. intro k. apply mem_In. destruct k as [| | | [] | [] | []]; reflexivity. Qed.

Lemma wfclause_eqb_eq : forall a b, wfclause_eqb a b = true -> a = b.
Proof. destruct a, b; simpl; intro H; try reflexivity; discriminate H. Qed.

Lemma uncheck_known : forall cl k, uncheck cl k = true -> In (cl, k) known_gaps.
Proof.
  intros cl k H. pose proof gaps_bounded_now as G. unfold gaps_bounded in G.
  rewrite forallb_forall in G.
  assert (Hcl : In cl all_clauses) by (destruct cl; simpl; tauto).
  specialize (G cl Hcl). rewrite forallb_forall in G. specialize (G k (all_nkinds_complete k)).
  rewrite H in G. simpl in G. unfold in_gaps in G. apply existsb_exists in G as [[c' k'] [Hin He]].
  apply andb_true_iff in He as [E1 E2]. apply wfclause_eqb_eq in E1. apply nkind_eqb_eq in E2.
  simpl in E1, E2. subst. exact Hin.
Qed.

Theorem gen_ok_wf_gaps_ : forall r, gen_ok r = true ->
  forall anc n cl, In (anc, n) (rnodes r) -> wf_node (rkinds r) (anc, n) = Some cl -> In (cl, kind_of n) known_gaps.
Proof. intros. apply uncheck_known. eapply gen_ok_wf_unchecked_; eassumption. Qed.
