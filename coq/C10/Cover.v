(* C10 — which (clause, kind) pairs of the property are enforced by the generated tables.
   All definitions are computed from Gen.gen_rules, so they follow the code.  No proofs here. *)
From Coq Require Import List Bool Arith.
Import ListNotations.
From PV Require Import C10.Kinds C10.Gen C10.Model.

Definition sub (a b : list nkind) : bool := forallb (fun x => mem x b) a.

Definition catom_eqb (a b : catom) : bool :=
  match a, b with CNotOnlyChild, CNotOnlyChild | CNotLoop, CNotLoop => true | _, _ => false end.

(* clause 1: the kinds one of which must be among the ancestors (None: clause does not apply;
   ACCLoop is treated apart because of the `acc routine` alternative) *)
Definition orphan_targets (k : nkind) : option (list nkind) :=
  if mem k [ND OMPDo; ND OMPSingle; ND OMPMaster; ND OMPTaskloop; NS OMPTaskwait] then Some omp_par
  else if mem k [ND OMPLoop] then Some (ND OMPTarget :: omp_par)
  else None.

(* some `if not self.ancestor(ty, excluding=ex): raise` rule of kind k forces an ancestor in T,
   possibly through an intermediate ancestor kind that is itself forced to have one *)
Fixpoint req_cover (fuel : nat) (T : list nkind) (k : nkind) : bool :=
  existsb (fun r =>
    match r with
    | GRequireAnc ty ex =>
        forallb (fun a => mem a ex || mem a T ||
                          match fuel with 0 => false | S f => req_cover f T a end) ty
    | _ => false
    end) (gen_rules k).

Definition acc_loop_cover : bool :=
  existsb (fun r =>
    match r with
    | GAccLoopCtx ty wk => sub ty acc_compute && sub wk [NS ACCRoutine]
    | GRequireAnc ty ex => forallb (fun a => mem a ex || mem a acc_compute) ty
    | _ => false
    end) (gen_rules (ND ACCLoop)).

(* clause 2: a rule `if self.ancestor(ty): raise` with P <= ty and nothing excluded *)
Definition nest_cover (k : nkind) (P : list nkind) : bool :=
  existsb (fun r =>
    match r with
    | GForbidAnc ty ex => sub P ty && match ex with [] => true | _ => false end
    | _ => false
    end) (gen_rules k).

(* clause 3: the cursor loop tests both `only child` and `is a Loop` at every depth *)
Definition coll_cover (k : nkind) : bool :=
  existsb (fun r =>
    match r with
    | GCollapse atoms => existsb (catom_eqb CNotOnlyChild) atoms && existsb (catom_eqb CNotLoop) atoms
    | _ => false
    end) (gen_rules k).

(* (clause, kind) NOT enforced at generation time *)
Definition uncheck (cl : wfclause) (k : nkind) : bool :=
  match cl with
  | WOrphan =>
      match orphan_targets k with
      | Some T => negb (req_cover 3 T k)
      | None => if mem k [ND ACCLoop] then negb acc_loop_cover else false
      end
  | WNested =>
      if mem k omp_par then negb (nest_cover k omp_par)
      else if mem k acc_compute then negb (nest_cover k acc_compute)
      else false
  | WCollapse =>
      match k with
      | ND d => carries_collapse d && negb (coll_cover k)
      | _ => false
      end
  end.

Definition all_nkinds : list nkind :=
  [NRoutine; NLoop; NIf; NLeaf LAssign; NLeaf LReturn; NLeaf LCodeBlock] ++
  map ND all_dkinds ++ map NS all_skinds.

Definition all_clauses : list wfclause := [WOrphan; WNested; WCollapse].

Definition wfclause_eqb (a b : wfclause) : bool :=
  match a, b with WOrphan, WOrphan | WNested, WNested | WCollapse, WCollapse => true | _, _ => false end.

(* the gaps of the unchanged tree (an upper bound that a repaired tree still satisfies) *)
Definition known_gaps : list (wfclause * nkind) :=
  [(WNested, ND ACCParallel); (WNested, ND ACCKernels); (WCollapse, ND OMPLoop); (WCollapse, ND ACCLoop)].

Definition in_gaps (cl : wfclause) (k : nkind) : bool :=
  existsb (fun g => wfclause_eqb cl (fst g) && nkind_eqb k (snd g)) known_gaps.

Definition gaps_bounded : bool :=
  forallb (fun cl => forallb (fun k => implb (uncheck cl k) (in_gaps cl k)) all_nkinds) all_clauses.

Fixpoint directive_free (t : tree) : bool :=
  match t with
  | Leaf _ => true
  | Loop b | If b => forallb directive_free b
  | Dir _ _ _ | SDir _ => false
  end.
