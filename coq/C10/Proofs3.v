(* C10 — histories: operations that never create a gap node keep the tree gap-free, so whatever
   the writer accepts after such a history satisfies WF. *)
From Coq Require Import List Bool Arith Lia.
Import ListNotations.
From PV Require Import C10.Kinds C10.Gen C10.Model C10.Cover C10.Lemmas C10.Proofs C10.Proofs2.

(* all subtrees (pre-order), without contexts *)
Fixpoint subs (t : tree) : list tree :=
  t :: match t with
       | Loop b | If b | Dir _ _ b => flat_map subs b
       | _ => []
       end.
Definition subs_l (b : list tree) : list tree := flat_map subs b.

Lemma map_snd_flat_nodes : forall b c, (forall x, In x b -> forall a, map snd (nodes a x) = subs x) ->
  map snd (flat_map (nodes c) b) = flat_map subs b.
Proof.
  induction b as [| x b IHb]; intros c H; [reflexivity |]. simpl. rewrite map_app.
  rewrite (H x (or_introl eq_refl)). f_equal. apply IHb. intros y Hy. apply H. right; assumption.
Qed.

Lemma subs_nodes : forall t a, map snd (nodes a t) = subs t.
Proof.
  induction t as [l | b H | b H | d c b H | s] using tree_ind'; intro a; rewrite nodes_unfold; simpl;
    try reflexivity; f_equal; apply map_snd_flat_nodes; rewrite Forall_forall in H; exact H.
Qed.

Lemma subs_rnodes : forall r, map snd (rnodes r) = subs_l r.
Proof.
  induction r as [| t r IH]; [reflexivity |]. unfold rnodes, subs_l in *. simpl.
  rewrite map_app, subs_nodes, IH. reflexivity.
Qed.

Definition lab_ok (n : tree) : bool := negb (gap_label n).

Lemma gap_free_subs : forall r, gap_free r = forallb lab_ok (subs_l r).
Proof.
  intro r. unfold gap_free. rewrite <- subs_rnodes. induction (rnodes r) as [| p l IH]; [reflexivity |].
  simpl. rewrite IH. reflexivity.
Qed.

Lemma lab_ok_set_body : forall t b, lab_ok (set_body t b) = lab_ok t.
Proof. intros t b; destruct t; reflexivity. Qed.

Lemma subs_set_body : forall t b, has_body t = true -> subs (set_body t b) = set_body t b :: subs_l b.
Proof. intros t b H; destruct t; try discriminate H; reflexivity. Qed.

Lemma subs_has_body : forall t, has_body t = true -> subs t = t :: subs_l (body_of t).
Proof. intros t H; destruct t; try discriminate H; reflexivity. Qed.

Lemma subs_l_app : forall a b, subs_l (a ++ b) = subs_l a ++ subs_l b.
Proof. intros; unfold subs_l; apply flat_map_app. Qed.

Lemma forallb_subs_nth : forall l i t, forallb lab_ok (subs_l l) = true -> nth_error l i = Some t ->
  forallb lab_ok (subs t) = true.
Proof.
  induction l as [| y l IH]; intros i t H Hn; [destruct i; discriminate Hn |].
  unfold subs_l in H. simpl in H. rewrite forallb_app in H. apply andb_true_iff in H as [H1 H2].
  destruct i; simpl in Hn; [inversion Hn; subst; assumption | eapply IH; eassumption].
Qed.

Lemma forallb_subs_replace : forall l i x, forallb lab_ok (subs_l l) = true -> forallb lab_ok (subs x) = true ->
  forallb lab_ok (subs_l (replace_nth i x l)) = true.
Proof.
  induction l as [| y l IH]; intros i x H Hx; [destruct i; reflexivity |].
  unfold subs_l in *. simpl in H. rewrite forallb_app in H. apply andb_true_iff in H as [H1 H2].
  destruct i; simpl; rewrite forallb_app; apply andb_true_iff; split; auto.
Qed.

Lemma forallb_subs_firstn : forall n l, forallb lab_ok (subs_l l) = true -> forallb lab_ok (subs_l (firstn n l)) = true.
Proof.
  induction n as [| n IH]; intros l H; [reflexivity |]. destruct l as [| y l]; [reflexivity |].
  unfold subs_l in *. simpl in *. rewrite forallb_app in *. apply andb_true_iff in H as [H1 H2].
  apply andb_true_iff; split; auto.
Qed.

Lemma forallb_subs_skipn : forall n l, forallb lab_ok (subs_l l) = true -> forallb lab_ok (subs_l (skipn n l)) = true.
Proof.
  induction n as [| n IH]; intros l H; [assumption |]. destruct l as [| y l]; [reflexivity |].
  unfold subs_l in *. simpl in *. rewrite forallb_app in H. apply andb_true_iff in H as [H1 H2]. auto.
Qed.

Lemma update_at_lab : forall p f b b0, body_at p b = Some b0 -> forallb lab_ok (subs_l b) = true ->
  (forallb lab_ok (subs_l b0) = true -> forallb lab_ok (subs_l (f b0)) = true) ->
  forallb lab_ok (subs_l (update_at p f b)) = true.
Proof.
  induction p as [| i p IH]; intros f b b0 Hb H Hf; simpl in *.
  - inversion Hb; subst. auto.
  - destruct (nth_error b i) as [t |] eqn:En; [| assumption].
    destruct (has_body t) eqn:Hh; [| discriminate Hb].
    apply forallb_subs_replace; [assumption |].
    pose proof (forallb_subs_nth _ _ _ H En) as Ht. rewrite (subs_has_body t Hh) in Ht.
    simpl in Ht. apply andb_true_iff in Ht as [Ht1 Ht2].
    rewrite (subs_set_body t _ Hh). simpl. rewrite lab_ok_set_body, Ht1. simpl.
    eapply IH; eassumption.
Qed.

Lemma body_at_lab : forall p b b0, body_at p b = Some b0 -> forallb lab_ok (subs_l b) = true ->
  forallb lab_ok (subs_l b0) = true.
Proof.
  induction p as [| i p IH]; intros b b0 Hb H; simpl in Hb.
  - inversion Hb; subst; assumption.
  - destruct (nth_error b i) as [t |] eqn:En; [| discriminate Hb].
    destruct (has_body t) eqn:Hh; [| discriminate Hb].
    pose proof (forallb_subs_nth _ _ _ H En) as Ht. rewrite (subs_has_body t Hh) in Ht.
    simpl in Ht. apply andb_true_iff in Ht as [_ Ht2]. eapply IH; eassumption.
Qed.

(* an operation that cannot create a gap node: it inserts no ACC parallel/kernels region, and no
   collapse clause on an `omp loop` / `acc loop` directive *)
Definition op_safe (o : op) : bool :=
  match created_tab (o_trans o) with
  | Some d => negb (mem (ND d) acc_compute) &&
              (negb (mem (ND d) [ND OMPLoop; ND ACCLoop]) || match o_collapse o with None => true | Some _ => false end)
  | None => true
  end.

Lemma region_lab_lemma : forall d b lo hi, forallb lab_ok (subs_l b) = true -> mem (ND d) acc_compute = false ->
  forallb lab_ok (subs_l (firstn lo b ++ Dir d None (firstn (hi - lo) (skipn lo b)) :: skipn hi b)) = true.
Proof.
  intros d b lo hi Hb0 Hs1.
  rewrite subs_l_app; rewrite forallb_app; apply andb_true_iff; split;
  [ apply forallb_subs_firstn; exact Hb0
  | unfold subs_l at 1; cbn [flat_map subs]; rewrite forallb_app; cbn [forallb];
    unfold lab_ok at 1; unfold gap_label; cbn [kind_of];
    rewrite Hs1; cbn [orb negb andb];
    apply andb_true_iff; split;
    [ apply forallb_subs_firstn; apply forallb_subs_skipn; exact Hb0 | apply forallb_subs_skipn; exact Hb0 ] ].
Qed.

Ltac region_lab H Hs Eb Hb0 Hg :=
  match type of H with
  | context [validate_region ?t ?rr ?a ?sel] => destruct (validate_region t rr a sel) eqn:Ev; try discriminate H
  end;
  match type of H with
  | context [created_tab ?t] => destruct (created_tab t) as [d |] eqn:Ec; [| discriminate H]
  end;
  injection H as <-; (eapply update_at_lab; [exact Eb | exact Hg |]); intros _;
  apply andb_true_iff in Hs as [Hs1 _]; apply negb_true_iff in Hs1;
  first [ apply region_lab_lemma; assumption
        | match goal with Hb : body_at _ _ = Some ?bb |- _ => exact (region_lab_lemma _ bb 0 (length bb) Hb0 Hs1) end ].

Lemma apply_op_gap_free : forall o r r', apply_op o r = Accepted r' -> op_safe o = true ->
  gap_free r = true -> gap_free r' = true.
Proof.
  intros o r r' H Hs Hg. rewrite gap_free_subs in *. unfold op_safe in Hs. unfold apply_op in H.
  destruct (o_target o) as [p i | p lo hi | p] eqn:Et.
  - destruct (negb (is_loop_trans (o_trans o))); [discriminate H |].
    destruct (body_at p r) as [b |] eqn:Eb; [| discriminate H].
    destruct (nth_error b i) as [n |] eqn:En; [| discriminate H].
    destruct (validate_loop (o_trans o) n o); try discriminate H.
    destruct (apply_loop (o_trans o) n o) as [dn |] eqn:Ea; [| discriminate H].
    injection H as <-. eapply update_at_lab; [exact Eb | assumption |]. intro Hb0.
    apply forallb_subs_replace; [assumption |].
    pose proof (forallb_subs_nth _ _ _ Hb0 En) as Hn.
    unfold apply_loop in Ea. destruct (created_tab (o_trans o)) as [d |]; [| discriminate Ea].
    apply andb_true_iff in Hs as [Hs1 Hs2].
    assert (Hl : forall c, (c = None \/ o_collapse o = c) -> lab_ok (Dir d c [n]) = true).
    { intros c Hc. unfold lab_ok, gap_label. cbn [kind_of]. apply negb_true_iff in Hs1. rewrite Hs1. cbn [orb].
      destruct c as [c |]; [| reflexivity]. destruct Hc as [Hc | Hc]; [discriminate Hc |].
      rewrite Hc in Hs2. apply orb_true_iff in Hs2 as [Hs2 | Hs2]; [| discriminate Hs2].
      apply negb_true_iff in Hs2. rewrite Hs2. reflexivity. }
    destruct (o_collapse o) as [[| c] |] eqn:Ec; destruct (collapse_tab (o_trans o)); inversion Ea; subst dn;
      simpl; rewrite app_nil_r; (rewrite Hl; [exact Hn | auto]).
  - destruct (body_at p r) as [b |] eqn:Eb; [| discriminate H].
    pose proof (body_at_lab _ _ _ Eb Hg) as Hb0.
    destruct (o_trans o) eqn:Etr; cbn -[validate_region created_tab update_at anc_at firstn skipn walks any_in first_with insert_at Nat.sub] in H; try discriminate H.
    all: region_lab H Hs Eb Hb0 Hg.
  - destruct (body_at p r) as [b |] eqn:Eb; [| discriminate H].
    pose proof (body_at_lab _ _ _ Eb Hg) as Hb0.
    destruct (o_trans o) eqn:Etr; cbn -[validate_region created_tab update_at anc_at firstn skipn walks any_in first_with insert_at Nat.sub] in H; try discriminate H.
    all: try (region_lab H Hs Eb Hb0 Hg).
    destruct (any_in [ND ACCData; NS ACCEnterData] (walks b)); [discriminate H |].
    injection H as <-. eapply update_at_lab; [exact Eb | assumption |]. intros _.
    unfold insert_at. rewrite subs_l_app. rewrite forallb_app. apply andb_true_iff; split;
      [apply forallb_subs_firstn; assumption |].
    unfold subs_l. cbn [flat_map subs]. simpl. apply forallb_subs_skipn; assumption.
    destruct p as [| i0 p0]; [| discriminate H].
    destruct (mem (NLeaf LCodeBlock) (rkinds r)); [discriminate H |].
    injection H as <-. destruct (mem (NS ACCRoutine) (map kind_of r)); [exact Hg |].
    unfold subs_l. simpl. exact Hg.
Qed.

Lemma directive_free_gap_free : forall r, forallb directive_free r = true -> gap_free r = true.
Proof.
  intros r H. rewrite gap_free_subs. unfold subs_l.
  induction r as [| t r IHr]; [reflexivity |]. simpl in H. apply andb_true_iff in H as [Ht Hr].
  simpl. rewrite forallb_app. apply andb_true_iff; split; [| apply IHr; assumption]. clear IHr Hr.
  induction t using tree_ind'; simpl in Ht; try discriminate Ht; simpl; try reflexivity.
  all: rewrite Forall_forall in H; rewrite forallb_forall in Ht.
  all: unfold lab_ok at 1; simpl.
  all: induction b as [| x b IHb]; [reflexivity |]; simpl; rewrite forallb_app; apply andb_true_iff; split;
    [apply H; [left; reflexivity | apply Ht; left; reflexivity]
    | apply IHb; [intros y Hy; apply H; right; assumption | intros y Hy; apply Ht; right; assumption]].
Qed.

Lemma run_gap_free : forall ops r r', run ops r = Some r' -> forallb op_safe ops = true ->
  gap_free r = true -> gap_free r' = true.
Proof.
  induction ops as [| o ops IH]; intros r r' H Hs Hg; simpl in H.
  - inversion H; subst; assumption.
  - simpl in Hs. apply andb_true_iff in Hs as [Hs1 Hs2].
    destruct (apply_op o r) as [r1 | |] eqn:E; [| eapply IH; eassumption | discriminate H].
    eapply IH; [exact H | assumption |]. eapply apply_op_gap_free; eassumption.
Qed.

(* after ANY history of such operations on a directive-free routine, whatever the writer accepts
   satisfies the three conditions *)
Theorem history_WF_partial_ : forall r0 ops r, forallb directive_free r0 = true -> forallb op_safe ops = true ->
  run ops r0 = Some r -> gen_ok r = true -> WF r /\ rerase r = rerase r0.
Proof.
  intros r0 ops r Hd Hs Hr Hg. split.
  - apply gen_ok_WF_partial_; [assumption |]. eapply run_gap_free; [exact Hr | assumption |].
    apply directive_free_gap_free; assumption.
  - eapply run_erase_; eassumption.
Qed.

(* and without any condition on the operations: every violation of WF in a written tree is one of
   the four known (clause, directive) gaps *)
Theorem history_WF_gaps_ : forall r0 ops r, run ops r0 = Some r -> gen_ok r = true ->
  forall cl k, In (cl, k) (wf_viol r) -> In (cl, k) known_gaps.
Proof.
  intros r0 ops r _ Hg cl k Hin. apply wf_viol_in in Hin as [anc [n [Hp [Hw <-]]]].
  eapply gen_ok_wf_gaps_; eassumption.
Qed.

(* non-vacuity of history_WF_partial_: a concrete accepted history whose result the writer accepts *)
Definition ex_start : routine := [Loop [Loop [Leaf LAssign]]; Leaf LAssign].
Definition ex_ops : list op :=
  [Build_op TOMPDo (TNode [] 0) (Some 2) true; Build_op TOMPParallel (TRange [] 0 2) None true].

Lemma history_nonvacuous_ :
  forallb directive_free ex_start = true /\ forallb op_safe ex_ops = true /\
  run ex_ops ex_start = Some [Dir OMPParallel None [Dir OMPDo (Some 2) [Loop [Loop [Leaf LAssign]]]; Leaf LAssign]] /\
  gen_ok [Dir OMPParallel None [Dir OMPDo (Some 2) [Loop [Loop [Leaf LAssign]]]; Leaf LAssign]] = true.
Proof. vm_compute. repeat split; reflexivity. Qed.

(* and the writer does refuse what the property forbids (hypotheses of the refusal lemma are satisfiable) *)
Lemma refusals_nonvacuous_ :
  gen_ok [Dir OMPDo None [Loop [Leaf LAssign]]] = false /\                                      (* orphan omp do *)
  gen_ok [Dir OMPParallel None [Dir OMPParallel None [Leaf LAssign]]] = false /\                 (* nested parallel *)
  gen_ok [Dir OMPParallel None [Dir OMPDo (Some 2) [Loop [Loop [Leaf LAssign]; Leaf LAssign]]]] = false. (* imperfect collapse *)
Proof. vm_compute. repeat split; reflexivity. Qed.
