From Coq Require Import List Bool Arith.
Import ListNotations.
From PV Require Import C10.Kinds C10.Gen C10.Model C10.Compiler C10.Cover C10.Corr C10.Witness C10.GenWitness.

Lemma all_witnesses_ : Forall witness_holds witnesses.
Proof. repeat (constructor; [intros _ _; vm_compute; split; reflexivity |]). constructor. Qed.

(* at least one witness is listed (the statement above is not about an empty list) *)
Lemma witnesses_nonempty_ : 1 <= length witnesses.
Proof. vm_compute. repeat constructor. Qed.
