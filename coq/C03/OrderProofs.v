(* C03/C04 -- proofs about order_consts (FortranWriter._gen_parameter_decls). *)
From Coq Require Import List Arith Bool Lia Permutation.
Import ListNotations.
From PV Require Import C03.Decls.

Lemma mem_nat_In : forall x l, mem_nat x l = true <-> In x l.
Proof.
  intros x l; induction l as [|y l IH]; simpl; [split; [discriminate|tauto]|].
  destruct (Nat.eqb_spec x y) as [E|E].
  - subst; split; auto.
  - rewrite IH. split; [auto | intros [H|H]; [congruence|exact H]].
Qed.

Lemma mem_nat_false : forall x l, mem_nat x l = false <-> ~ In x l.
Proof. intros x l. rewrite <- mem_nat_In. destruct (mem_nat x l); split; intro H; congruence. Qed.

Lemma mem_nat_ext : forall l l', (forall x, In x l <-> In x l') -> forall x, mem_nat x l = mem_nat x l'.
Proof.
  intros l l' H x. destruct (mem_nat x l) eqn:E.
  - symmetry. apply mem_nat_In, H, mem_nat_In, E.
  - symmetry. apply mem_nat_false. intro Hx. apply H in Hx. apply mem_nat_In in Hx. congruence.
Qed.

Lemma subset_spec : forall a b, subset a b = true <-> (forall x, In x a -> In x b).
Proof.
  intros a b. unfold subset. rewrite forallb_forall. split; intros H x Hx.
  - apply mem_nat_In, H, Hx.
  - apply mem_nat_In, H, Hx.
Qed.

Lemma subset_mono : forall a b b', subset a b = true -> (forall x, In x b -> In x b') -> subset a b' = true.
Proof. intros a b b' H Hb. apply subset_spec. intros x Hx. apply Hb. eapply subset_spec; eauto. Qed.

(* the constants-section is valid from [declared]: every constant's local inputs are declared
   by the constants before it (or were declared already) *)
Fixpoint cvalid (cn declared : list nat) (l : list sym) : bool :=
  match l with
  | [] => true
  | c :: r => subset (ldeps cn c) declared && cvalid cn (s_id c :: declared) r
  end.

(* --------------------------------------------------------------------- pick *)
Lemma pick_perm : forall cn dcl l x r, pick cn dcl l = Some (x, r) -> Permutation l (x :: r).
Proof.
  intros cn dcl l; induction l as [|c l IH]; intros x r H; simpl in H; [discriminate|].
  destruct (subset (ldeps cn c) dcl).
  - inversion H; subst. apply Permutation_refl.
  - destruct (pick cn dcl l) as [[y r']|] eqn:E; [|discriminate].
    inversion H; subst. specialize (IH _ _ eq_refl).
    eapply Permutation_trans; [apply perm_skip; exact IH | apply perm_swap].
Qed.

Lemma pick_ok : forall cn dcl l x r, pick cn dcl l = Some (x, r) -> subset (ldeps cn x) dcl = true.
Proof.
  intros cn dcl l; induction l as [|c l IH]; intros x r H; simpl in H; [discriminate|].
  destruct (subset (ldeps cn c) dcl) eqn:Es.
  - inversion H; subst. exact Es.
  - destruct (pick cn dcl l) as [[y r']|] eqn:E; [|discriminate]. inversion H; subst. eauto.
Qed.

Lemma pick_length : forall cn dcl l x r, pick cn dcl l = Some (x, r) -> length l = S (length r).
Proof. intros. apply pick_perm in H. apply Permutation_length in H. exact H. Qed.

(* pick fails exactly when no remaining constant is declarable *)
Lemma pick_none : forall cn dcl l, pick cn dcl l = None ->
                                   forall c, In c l -> subset (ldeps cn c) dcl = false.
Proof.
  intros cn dcl l; induction l as [|c l IH]; intros H c' Hc'; simpl in *; [tauto|].
  destruct (subset (ldeps cn c) dcl) eqn:Es; [discriminate|].
  destruct (pick cn dcl l) as [[y r']|] eqn:E; [discriminate|].
  destruct Hc' as [Hc'|Hc']; [subst; exact Es | apply IH; auto].
Qed.

(* ----------------------------------------------------------------- order_go *)
Lemma order_go_perm : forall f cn dcl l o, order_go f cn dcl l = Some o -> Permutation o l.
Proof.
  induction f as [|f IH]; intros cn dcl l o H; destruct l as [|c l]; cbn [order_go] in H;
    try (inversion H; subst; apply Permutation_refl); try discriminate.
  destruct (pick cn dcl (c :: l)) as [[x r]|] eqn:E; [|discriminate].
  destruct (order_go f cn (s_id x :: dcl) r) as [o'|] eqn:Eo; [|discriminate].
  inversion H; subst. apply pick_perm in E. apply IH in Eo.
  apply Permutation_sym. eapply Permutation_trans; [exact E|]. apply perm_skip, Permutation_sym, Eo.
Qed.

Lemma order_go_valid : forall f cn dcl l o, order_go f cn dcl l = Some o -> cvalid cn dcl o = true.
Proof.
  induction f as [|f IH]; intros cn dcl l o H; destruct l as [|c l]; cbn [order_go] in H;
    try (inversion H; subst; reflexivity); try discriminate.
  destruct (pick cn dcl (c :: l)) as [[x r]|] eqn:E; [|discriminate].
  destruct (order_go f cn (s_id x :: dcl) r) as [o'|] eqn:Eo; [|discriminate].
  inversion H; subst. simpl. rewrite (pick_ok _ _ _ _ _ E). simpl. eapply IH; eauto.
Qed.

(* on an already valid order the dependency sort is the identity *)
Lemma order_go_id : forall l f cn dcl, cvalid cn dcl l = true -> length l <= f -> order_go f cn dcl l = Some l.
Proof.
  induction l as [|c l IH]; intros f cn dcl Hv Hf; [destruct f; reflexivity|].
  destruct f as [|f]; [simpl in Hf; lia|].
  simpl in Hv. apply andb_prop in Hv as [H1 H2].
  cbn [order_go pick]. rewrite H1. rewrite (IH f cn (s_id c :: dcl) H2); [reflexivity|simpl in Hf; lia].
Qed.

Lemma ldeps_ext : forall cn cn' c, (forall x, In x cn <-> In x cn') -> ldeps cn c = ldeps cn' c.
Proof. intros cn cn' c H. unfold ldeps. apply filter_ext. intro d. apply mem_nat_ext, H. Qed.

Lemma cvalid_ext : forall cn cn' l dcl, (forall x, In x cn <-> In x cn') -> cvalid cn dcl l = cvalid cn' dcl l.
Proof.
  intros cn cn' l; induction l as [|c l IH]; intros dcl H; simpl; [reflexivity|].
  rewrite (ldeps_ext cn cn' c H), (IH _ H). reflexivity.
Qed.

Lemma ids_perm : forall l l', Permutation l l' -> Permutation (ids l) (ids l').
Proof. intros. unfold ids. apply Permutation_map. assumption. Qed.

(* ------------------------------------------------------------- order_consts *)
Theorem order_consts_perm : forall cs o, order_consts cs = Some o -> Permutation o cs.
Proof. intros cs o H. eapply order_go_perm; eauto. Qed.

Theorem order_consts_valid : forall cs o, order_consts cs = Some o -> cvalid (ids o) [] o = true.
Proof.
  intros cs o H. pose proof (order_consts_perm _ _ H) as P.
  rewrite (cvalid_ext (ids o) (ids cs)).
  - eapply order_go_valid; eauto.
  - intro x. split; apply Permutation_in; [apply ids_perm, P | apply ids_perm, Permutation_sym, P].
Qed.

Theorem order_consts_id : forall o, cvalid (ids o) [] o = true -> order_consts o = Some o.
Proof. intros o H. unfold order_consts. apply order_go_id; [exact H | lia]. Qed.

Theorem order_consts_idem : forall cs o, order_consts cs = Some o -> order_consts o = Some o.
Proof. intros cs o H. apply order_consts_id. eapply order_consts_valid; eauto. Qed.

(* cvalid, spelled out: a constant's local inputs all occur strictly before it *)
Lemma cvalid_split : forall cn l dcl l1 c l2, cvalid cn dcl l = true -> l = l1 ++ c :: l2 ->
   forall d, In d (ldeps cn c) -> In d dcl \/ In d (ids l1).
Proof.
  intros cn l; induction l as [|a l IH]; intros dcl l1 c l2 Hv E d Hd; [destruct l1; discriminate|].
  simpl in Hv. apply andb_prop in Hv as [H1 H2].
  destruct l1 as [|b l1]; simpl in E; inversion E; subst.
  - left. eapply subset_spec; eauto.
  - destruct (IH _ _ _ _ H2 eq_refl d Hd) as [[Hx|Hx]|Hx].
    + right. left. exact Hx.
    + left. exact Hx.
    + right. right. exact Hx.
Qed.

Theorem order_consts_deps_first : forall cs o l1 c l2, order_consts cs = Some o -> o = l1 ++ c :: l2 ->
   forall d, In d (s_deps c) -> In d (ids cs) -> In d (ids l1).
Proof.
  intros cs o l1 c l2 H E d Hd Hcs.
  pose proof (order_go_valid _ _ _ _ _ H) as Hv.
  destruct (cvalid_split _ _ _ _ _ _ Hv E d) as [Hx|Hx]; [|destruct Hx|exact Hx].
  unfold ldeps. apply filter_In. split; [exact Hd | apply mem_nat_In, Hcs].
Qed.

(* --------------------------------------------------------------- completeness *)
(* if SOME arrangement of the constants is valid, the writer's sort succeeds.
   Invariant: [l] = what remains, [dcl] = what was emitted; some valid arrangement [v] of the
   remaining ones (relative to dcl) exists. *)
Lemma cvalid_mono : forall cn l dcl dcl', cvalid cn dcl l = true -> (forall x, In x dcl -> In x dcl') ->
                                          cvalid cn dcl' l = true.
Proof.
  intros cn l; induction l as [|c l IH]; intros dcl dcl' H Hm; simpl in *; [reflexivity|].
  apply andb_prop in H as [H1 H2]. apply andb_true_intro. split.
  - eapply subset_mono; eauto.
  - eapply IH; eauto. intros x [Hx|Hx]; [left; exact Hx | right; auto].
Qed.

(* removing one element from a valid arrangement and declaring it up front keeps it valid *)
Lemma cvalid_remove : forall cn v dcl v1 x v2, cvalid cn dcl v = true -> v = v1 ++ x :: v2 ->
                                               cvalid cn (s_id x :: dcl) (v1 ++ v2) = true.
Proof.
  intros cn v; induction v as [|a v IH]; intros dcl v1 x v2 H E; [destruct v1; discriminate|].
  simpl in H. apply andb_prop in H as [H1 H2].
  destruct v1 as [|b v1]; simpl in E; inversion E; subst; simpl.
  - exact H2.
  - apply andb_true_intro. split.
    + eapply subset_mono; eauto. intros y Hy. right. exact Hy.
    + apply (cvalid_mono cn (v1 ++ v2) (s_id x :: s_id b :: dcl)).
      * eapply IH; eauto.
      * intros y [Hy|[Hy|Hy]]; [right; left|left|right; right]; exact Hy.
Qed.

Lemma cvalid_head_ok : forall cn dcl c v, cvalid cn dcl (c :: v) = true -> subset (ldeps cn c) dcl = true.
Proof. intros cn dcl c v H. simpl in H. apply andb_prop in H as [H _]. exact H. Qed.

Lemma order_go_complete : forall f cn l dcl v, Permutation v l -> cvalid cn dcl v = true ->
    length l <= f -> exists o, order_go f cn dcl l = Some o.
Proof.
  induction f as [|f IH]; intros cn l dcl v P Hv Hf.
  - destruct l; [exists []; reflexivity | simpl in Hf; lia].
  - destruct l as [|c l]; [exists []; reflexivity|].
    cbn [order_go].
    destruct (pick cn dcl (c :: l)) as [[x r]|] eqn:E.
    + pose proof (pick_perm _ _ _ _ _ E) as Px.
      assert (Hin : In x v). { eapply Permutation_in; [apply Permutation_sym, P|]. eapply Permutation_in; [apply Permutation_sym, Px|]. left; reflexivity. }
      apply in_split in Hin as [v1 [v2 Ev]].
      destruct (IH cn r (s_id x :: dcl) (v1 ++ v2)) as [o Ho].
      * apply (Permutation_cons_inv (a := x)).
        eapply Permutation_trans; [apply Permutation_middle|]. rewrite <- Ev.
        eapply Permutation_trans; [exact P | exact Px].
      * eapply cvalid_remove; eauto.
      * apply pick_length in E. simpl in E, Hf. lia.
      * rewrite Ho. eauto.
    + exfalso. destruct v as [|a v]; [apply Permutation_nil in P; discriminate|].
      pose proof (pick_none _ _ _ E a) as Hn.
      rewrite (cvalid_head_ok _ _ _ _ Hv) in Hn.
      assert (In a (c :: l)) by (eapply Permutation_in; [exact P | left; reflexivity]).
      specialize (Hn H). discriminate.
Qed.

Theorem order_consts_complete : forall cs v, Permutation v cs -> cvalid (ids cs) [] v = true ->
                                             exists o, order_consts cs = Some o.
Proof. intros cs v P Hv. unfold order_consts. eapply order_go_complete; eauto. Qed.
