(* C03/C04 -- proofs about gen_decls and its re-reading. *)
From Coq Require Import List Arith Bool Lia Permutation String.
Import ListNotations.
From PV Require Import C03.Decls C03.OrderProofs.
Open Scope list_scope.

(* ------------------------------------------------------------------ filters *)
Lemma filter_all {A} (p : A -> bool) l : Forall (fun x => p x = true) l -> filter p l = l.
Proof. induction 1 as [|x l Hx Hl IH]; simpl; [reflexivity | rewrite Hx, IH; reflexivity]. Qed.

Lemma filter_none {A} (p : A -> bool) l : Forall (fun x => p x = false) l -> filter p l = [].
Proof. induction 1 as [|x l Hx Hl IH]; simpl; [reflexivity | rewrite Hx, IH; reflexivity]. Qed.

Lemma filter_filter {A} (p q : A -> bool) l : filter p (filter q l) = filter (fun x => p x && q x) l.
Proof.
  induction l as [|x l IH]; simpl; [reflexivity|].
  destruct (q x) eqn:Eq; simpl; [destruct (p x); simpl; rewrite IH; reflexivity|].
  rewrite andb_false_r. exact IH.
Qed.

Lemma has_cat_inj : forall c c' s, has_cat c s = true -> has_cat c' s = true -> c = c'.
Proof. intros c c' s. unfold has_cat. destruct (s_cat s), c, c'; simpl; congruence. Qed.

Lemma has_cat_other : forall c c' s, has_cat c s = true -> c <> c' -> has_cat c' s = false.
Proof.
  intros c c' s H Hn. destruct (has_cat c' s) eqn:E; [|reflexivity].
  exfalso. apply Hn. eapply has_cat_inj; eauto.
Qed.

Lemma sect_Forall : forall c t, Forall (fun s => has_cat c s = true) (sect c t).
Proof. intros c t. apply Forall_forall. intros s Hs. apply filter_In in Hs. tauto. Qed.

Lemma sect_same : forall c l, Forall (fun s => has_cat c s = true) l -> sect c l = l.
Proof. intros. apply filter_all. assumption. Qed.

Lemma sect_other : forall c c' l, Forall (fun s => has_cat c s = true) l -> c <> c' -> sect c' l = [].
Proof.
  intros c c' l H Hn. apply filter_none. eapply Forall_impl; [|exact H].
  intros s Hs. simpl in Hs. eapply has_cat_other; eauto.
Qed.

Lemma Forall_perm {A} (P : A -> Prop) l l' : Permutation l l' -> Forall P l -> Forall P l'.
Proof. intros Hp H. apply Forall_forall. intros x Hx. eapply Forall_forall in H; eauto. eapply Permutation_in; [apply Permutation_sym|]; eauto. Qed.

(* -------------------------------------------------- gen_decls: the five sections *)
Definition declarable (s : sym) : bool := negb (has_cat CSkip s).

Lemma sections_perm : forall t,
    Permutation (sect CRoutine t ++ sect CConst t ++ sect CArg t ++ sect CType t ++ sect CVar t)
                (filter declarable t).
Proof.
  induction t as [|s t IH]; [apply Permutation_refl|].
  unfold sect, declarable, has_cat in *. simpl. destruct (s_cat s) eqn:E; simpl.
  - apply perm_skip. exact IH.
  - apply Permutation_sym, Permutation_cons_app, Permutation_sym, IH.
  - rewrite (app_assoc (filter _ t)).
    apply Permutation_sym, Permutation_cons_app. rewrite <- app_assoc. apply Permutation_sym, IH.
  - rewrite (app_assoc (filter _ t)), (app_assoc (filter _ t ++ filter _ t)).
    apply Permutation_sym, Permutation_cons_app. rewrite <- !app_assoc. apply Permutation_sym, IH.
  - rewrite (app_assoc (filter _ t)), (app_assoc (filter _ t ++ filter _ t)),
      (app_assoc ((filter _ t ++ filter _ t) ++ filter _ t)).
    apply Permutation_sym, Permutation_cons_app. rewrite <- !app_assoc. apply Permutation_sym, IH.
  - exact IH.
Qed.

(* C04 decls_complete / C03 order_perm: every declarable symbol of the table is emitted exactly
   once (the emitted list is a permutation of the declarable symbols) *)
Theorem gen_decls_perm : forall t l, gen_decls t = Some l -> Permutation l (filter declarable t).
Proof.
  intros t l H. unfold gen_decls in H.
  destruct (order_consts (sect CConst t)) as [cs|] eqn:E; [|discriminate]. inversion H; subst.
  eapply Permutation_trans; [|apply sections_perm].
  apply Permutation_app_head, Permutation_app_tail. apply order_consts_perm. exact E.
Qed.

(* the section structure of the output *)
Lemma gen_decls_sections : forall t l, gen_decls t = Some l ->
    exists cs, order_consts (sect CConst t) = Some cs /\
               l = sect CRoutine t ++ cs ++ sect CArg t ++ sect CType t ++ sect CVar t.
Proof.
  intros t l H. unfold gen_decls in H.
  destruct (order_consts (sect CConst t)) as [cs|] eqn:E; [|discriminate]. inversion H; subst. eauto.
Qed.

Lemma cat_eqb_eq : forall a b, cat_eqb a b = true <-> a = b.
Proof. intros a b; destruct a, b; simpl; split; intro H; congruence. Qed.

Lemma sect_sect : forall c c' t, sect c (sect c' t) = if cat_eqb c c' then sect c' t else [].
Proof.
  intros c c' t. destruct (cat_eqb c c') eqn:E.
  - apply cat_eqb_eq in E. subst. apply sect_same, sect_Forall.
  - apply (sect_other c' c); [apply sect_Forall|]. intro H. subst. destruct c; discriminate.
Qed.

Lemma sect_consts : forall c cs, Forall (fun s => has_cat CConst s = true) cs ->
                                 sect c cs = if cat_eqb c CConst then cs else [].
Proof.
  intros c cs H. destruct (cat_eqb c CConst) eqn:E.
  - apply cat_eqb_eq in E. subst. apply sect_same, H.
  - apply (sect_other CConst c); [exact H|]. intro H'. subst. discriminate.
Qed.

Lemma sect_app : forall c a b, sect c (a ++ b) = sect c a ++ sect c b.
Proof. intros. apply filter_app. Qed.

Lemma sect_of_output : forall t cs c,
    Forall (fun s => has_cat CConst s = true) cs ->
    sect c (sect CRoutine t ++ cs ++ sect CArg t ++ sect CType t ++ sect CVar t) =
    match c with CRoutine => sect CRoutine t | CConst => cs | CArg => sect CArg t
            | CType => sect CType t | CVar => sect CVar t | CSkip => [] end.
Proof.
  intros t cs c Hcs. rewrite !sect_app, !sect_sect, (sect_consts c cs Hcs).
  destruct c; simpl; rewrite ?app_nil_r; reflexivity.
Qed.

(* writing twice without re-reading in between changes nothing *)
Theorem gen_decls_idem : forall t l, gen_decls t = Some l -> gen_decls l = Some l.
Proof.
  intros t l H. destruct (gen_decls_sections _ _ H) as [cs [Ec El]].
  assert (Hcs : Forall (fun s => has_cat CConst s = true) cs).
  { eapply Forall_perm; [apply Permutation_sym, order_consts_perm; exact Ec | apply sect_Forall]. }
  unfold gen_decls. subst l. rewrite !sect_of_output by exact Hcs.
  rewrite (order_consts_idem _ _ Ec). reflexivity.
Qed.

(* gen_decls only looks at the sections *)
Lemma gen_decls_sect_ext : forall t t', (forall c, sect c t = sect c t') -> gen_decls t = gen_decls t'.
Proof. intros t t' H. unfold gen_decls. rewrite !H. reflexivity. Qed.

(* ----------------------------------------------------------------- re-reading *)
Lemma dedup_skip : forall a seen b, (forall x, In x a -> In x seen) -> dedup seen (a ++ b) = dedup seen b.
Proof.
  induction a as [|x a IH]; intros seen b H; simpl; [reflexivity|].
  rewrite (proj2 (mem_nat_In x seen)) by (apply H; left; reflexivity).
  apply IH. intros y Hy. apply H. right. exact Hy.
Qed.

Lemma dedup_nofwd : forall l dn seen,
    before_use dn seen l = true -> NoDup (ids l) -> (forall d, In d l -> ~ In (s_id d) seen) ->
    dedup seen (flat_map (mentions dn) l) = ids l.
Proof.
  induction l as [|d l IH]; intros dn seen Hb Hn Hs; simpl; [reflexivity|].
  simpl in Hb. apply andb_prop in Hb as [Hb1 Hb2].
  unfold mentions at 1. rewrite <- app_assoc. rewrite dedup_skip.
  - simpl. rewrite (proj2 (mem_nat_false (s_id d) seen)) by (apply Hs; left; reflexivity).
    f_equal. inversion Hn as [|? ? Hnd Hn']; subst. apply IH; [exact Hb2 | exact Hn' |].
    intros e He [Hx|Hx].
    + apply Hnd. rewrite Hx. apply in_map. exact He.
    + eapply Hs; [right; exact He | exact Hx].
  - intros x Hx. apply filter_In in Hx as [Hx1 Hx2].
    rewrite forallb_forall in Hb1. specialize (Hb1 x Hx1). rewrite Hx2 in Hb1. simpl in Hb1.
    apply mem_nat_In. exact Hb1.
Qed.

Lemma filter_id_none : forall l n, ~ In n (ids l) -> filter (fun d => Nat.eqb (s_id d) n) l = [].
Proof.
  induction l as [|a l IH]; intros n H; simpl; [reflexivity|].
  destruct (Nat.eqb_spec (s_id a) n) as [E|E]; [exfalso; apply H; left; exact E|].
  apply IH. intro Hx. apply H. right. exact Hx.
Qed.

Lemma filter_id_unique : forall l d, NoDup (ids l) -> In d l -> filter (fun x => Nat.eqb (s_id x) (s_id d)) l = [d].
Proof.
  induction l as [|a l IH]; intros d Hn Hd; [destruct Hd|].
  inversion Hn as [|? ? Ha Hn']; subst. simpl. destruct Hd as [Hd|Hd].
  - subst. rewrite Nat.eqb_refl. f_equal. apply filter_id_none. exact Ha.
  - destruct (Nat.eqb_spec (s_id a) (s_id d)) as [E|E].
    + exfalso. apply Ha. rewrite E. apply in_map. exact Hd.
    + apply IH; assumption.
Qed.

Lemma by_ids_self : forall D l, NoDup (ids D) -> incl l D -> by_ids D (ids l) = l.
Proof.
  intros D l Hn. induction l as [|d l IH]; intros Hi; simpl; [reflexivity|].
  rewrite filter_id_unique; [|exact Hn | apply Hi; left; reflexivity].
  simpl. f_equal. apply IH. intros x Hx. apply Hi. right. exact Hx.
Qed.

Lemma NoDup_ids_filter : forall p l, NoDup (ids l) -> NoDup (ids (filter p l)).
Proof.
  intros p l; induction l as [|a l IH]; intros H; simpl; [constructor|].
  inversion H as [|? ? Ha Hn]; subst. destruct (p a); simpl; [|auto].
  constructor; [|auto]. intro Hx. apply Ha. apply in_map_iff in Hx as [y [Ey Hy]].
  apply filter_In in Hy as [Hy _]. rewrite <- Ey. apply in_map. exact Hy.
Qed.

(* without forward references the reader's table is the text order with the types first *)
Lemma reread_nofwd : forall l, NoDup (ids l) -> no_forward_refs l = true ->
                               reread l = sect CType l ++ filter nontype l.
Proof.
  intros l Hn Hf. unfold reread. f_equal. unfold no_forward_refs in Hf.
  rewrite dedup_nofwd; [| exact Hf | apply NoDup_ids_filter; exact Hn | intros d _ H; exact H].
  apply by_ids_self; [apply NoDup_ids_filter; exact Hn | apply incl_refl].
Qed.

Lemma sect_types_first : forall l c, sect c (sect CType l ++ filter nontype l) = sect c l.
Proof.
  intros l c. unfold sect. rewrite filter_app, !filter_filter.
  destruct c;
    try (rewrite (filter_none (fun x => has_cat _ x && has_cat CType x));
         [simpl; apply filter_ext; intro x; unfold nontype, has_cat; destruct (s_cat x); reflexivity
         | apply Forall_forall; intros x _; unfold has_cat; destruct (s_cat x); reflexivity]).
  rewrite (filter_none (fun x => has_cat CType x && nontype x));
    [rewrite app_nil_r; apply filter_ext; intro x; unfold has_cat; destruct (s_cat x); reflexivity
    | apply Forall_forall; intros x _; unfold nontype, has_cat; destruct (s_cat x); reflexivity].
Qed.

Lemma NoDup_ids_perm : forall l l', Permutation l l' -> NoDup (ids l) -> NoDup (ids l').
Proof. intros l l' P H. eapply Permutation_NoDup; [apply ids_perm; exact P | exact H]. Qed.

(* C03, the provable part: if the written declarations contain no forward reference, re-reading
   them and writing again gives the same declarations in the same order *)
Theorem decl_order_idempotent_partial_ : forall t l,
    NoDup (ids t) -> gen_decls t = Some l -> no_forward_refs l = true ->
    gen_decls (reread l) = Some l.
Proof.
  intros t l Hn H Hf.
  assert (Hnl : NoDup (ids l)).
  { eapply NoDup_ids_perm; [apply Permutation_sym, gen_decls_perm; exact H|].
    apply NoDup_ids_filter. exact Hn. }
  rewrite (reread_nofwd l Hnl Hf).
  rewrite (gen_decls_sect_ext _ l) by (intro c; apply sect_types_first).
  eapply gen_decls_idem; eauto.
Qed.

(* C03: no declaration is lost or duplicated by the further round trip *)
Theorem reread_perm_partial_ : forall l, NoDup (ids l) -> no_forward_refs l = true -> Permutation (reread l) l.
Proof.
  intros l Hn Hf. rewrite (reread_nofwd l Hn Hf). unfold sect.
  clear. induction l as [|a l IH]; [apply Permutation_refl|].
  unfold nontype in *. simpl. destruct (has_cat CType a); simpl.
  - apply perm_skip. exact IH.
  - apply Permutation_sym, Permutation_cons_app, Permutation_sym, IH.
Qed.

(* the full statement is false of the faithful model: a constant that inquires about a variable
   (integer, parameter :: k = kind(b)) is written before the variables; re-reading gives b its
   table slot at that first mention, ahead of a, and the second write swaps a and b *)
Open Scope string_scope.
Definition witness_tbl : list sym :=
  [ mkSym 0 "a" CVar [] []; mkSym 1 "b" CVar [] []; mkSym 2 "k" CConst [1] [1] ].

Theorem decl_order_idempotent_refuted_ :
  exists t l l', NoDup (ids t) /\ gen_decls t = Some l /\ gen_decls (reread l) = Some l' /\ l <> l'
                 /\ ids l = [2; 0; 1] /\ ids l' = [2; 1; 0].
Proof.
  exists witness_tbl. eexists. eexists. split; [|split; [|split; [|split; [|split]]]].
  - repeat constructor; simpl; intuition discriminate.
  - vm_compute. reflexivity.
  - vm_compute. reflexivity.
  - discriminate.
  - reflexivity.
  - reflexivity.
Qed.

(* non-vacuity of the partial theorem: kinds and parameters in scrambled table order, an argument,
   a derived type, variables whose bounds use the parameters *)
Definition sample_tbl : list sym :=
  [ mkSym 0 "x" CVar [] [3; 5]; mkSym 1 "n2" CConst [3] [3]; mkSym 2 "arg" CArg [] [3];
    mkSym 3 "n" CConst [4] [4]; mkSym 4 "wp" CConst [] []; mkSym 5 "tt" CType [] [4];
    mkSym 6 "mod1" CSkip [] []; mkSym 7 "y" CVar [] [1; 0] ].

Example partial_nonvacuous :
  NoDup (ids sample_tbl) /\
  exists l, gen_decls sample_tbl = Some l /\ no_forward_refs l = true /\ ids l = [4; 3; 1; 2; 5; 0; 7]
            /\ ids (reread l) = [5; 4; 3; 1; 2; 0; 7].
Proof.
  split; [repeat constructor; simpl; intuition discriminate|].
  eexists. split; [vm_compute; reflexivity|]. repeat split; vm_compute; reflexivity.
Qed.
