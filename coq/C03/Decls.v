(* C03/C04 -- model of the declaration part of the Fortran backend and of its re-reading.
   No proofs in this file.  Everything is a total computable function.

   Anchors (src/psyclone/psyir/backend/fortran.py):
     FortranWriter.gen_decls            -> [gen_decls]   (sections 1..5, each in table order)
     FortranWriter._gen_parameter_decls -> [order_consts] ("declare the first constant, in table
                                           order, whose inputs are all declared; restart"; a
                                           VisitorError when none is declarable -> [None])
     FortranWriter.routine_node         -> [flatten]     (merge of the inner-scope tables, in walk
                                           order, into a new routine table; a clashing inner symbol
                                           is renamed with SymbolTable.next_available_name)
   (src/psyclone/psyir/frontend/fparser2.py):
     Fparser2Reader.process_declarations -> [reread]     (derived types are processed first; then
                                           the declarations in text order, where a not yet declared
                                           name mentioned by a declaration gets its table slot at
                                           that first mention: table order = first-mention order)

   Symbols are objects with identity [s_id] (PSyIR references point at Symbol objects, not at
   names); [s_deps] are the inputs _gen_parameter_decls computes for a constant (symbols read by the
   initial value, precision symbols of its literals and of its own datatype); [s_refs] are all
   symbols mentioned by the text of the declaration (initial value, kind, array bounds, type). *)
From Coq Require Import List Arith Bool String NArith.
Import ListNotations.
From PV Require Import C03.Names.
Open Scope list_scope.

(* what gen_decls does with a symbol *)
Inductive cat :=
| CRoutine   (* GenericInterfaceSymbol / RoutineSymbol of UnsupportedFortranType: section 1 *)
| CConst     (* local DataSymbol with is_constant: section 2 *)
| CArg       (* DataSymbol with ArgumentInterface: section 3 *)
| CType      (* DataTypeSymbol: section 4 *)
| CVar       (* every other declared symbol: section 5 *)
| CSkip.     (* ContainerSymbol, imported, IntrinsicSymbol, unresolved, preprocessor: no declaration *)

Definition cat_eqb (a b : cat) : bool :=
  match a, b with
  | CRoutine, CRoutine | CConst, CConst | CArg, CArg | CType, CType | CVar, CVar | CSkip, CSkip => true
  | _, _ => false
  end.

Record sym := mkSym { s_id : nat; s_name : string; s_cat : cat; s_deps : list nat; s_refs : list nat }.

Definition has_cat (c : cat) (s : sym) : bool := cat_eqb (s_cat s) c.
Definition ids (l : list sym) : list nat := map s_id l.
Definition sect (c : cat) (t : list sym) : list sym := filter (has_cat c) t.

Fixpoint mem_nat (x : nat) (l : list nat) : bool :=
  match l with
  | [] => false
  | y :: r => if Nat.eqb x y then true else mem_nat x r
  end.

(* ------------------------------------------------------- _gen_parameter_decls *)
(* inputs.issubset(declared) *)
Definition subset (a b : list nat) : bool := forallb (fun x => mem_nat x b) a.

(* "Remove any 'inputs' that are not local": keep the inputs that are local constants *)
Definition ldeps (cn : list nat) (c : sym) : list nat := filter (fun d => mem_nat d cn) (s_deps c).

(* for symbol in local_constants[:]: if inputs.issubset(declared): ... remove(symbol); break *)
Fixpoint pick (cn declared : list nat) (l : list sym) : option (sym * list sym) :=
  match l with
  | [] => None
  | c :: r => if subset (ldeps cn c) declared then Some (c, r)
              else match pick cn declared r with
                   | Some (x, r') => Some (x, c :: r')
                   | None => None
                   end
  end.

(* while local_constants: ...   (fuel = number of constants; every round removes one) *)
Fixpoint order_go (fuel : nat) (cn declared : list nat) (l : list sym) : option (list sym) :=
  match l with
  | [] => Some []
  | _ :: _ =>
    match fuel with
    | O => None
    | S f => match pick cn declared l with
             | None => None              (* VisitorError: Unable to satisfy dependencies *)
             | Some (x, r) => match order_go f cn (s_id x :: declared) r with
                              | Some o => Some (x :: o)
                              | None => None
                              end
             end
    end
  end.

Definition order_consts (cs : list sym) : option (list sym) :=
  order_go (List.length cs) (ids cs) [] cs.

(* ------------------------------------------------------------------ gen_decls *)
Definition gen_decls (t : list sym) : option (list sym) :=
  match order_consts (sect CConst t) with
  | None => None
  | Some cs => Some (sect CRoutine t ++ cs ++ sect CArg t ++ sect CType t ++ sect CVar t)
  end.

(* ----------------------------------------------------- re-reading declarations *)
(* the symbols a declaration makes the reader look up, in order, then the declared one *)
Definition mentions (dn : list nat) (d : sym) : list nat :=
  filter (fun r => mem_nat r dn) (s_refs d) ++ [s_id d].

(* first occurrences, in order *)
Fixpoint dedup (seen l : list nat) : list nat :=
  match l with
  | [] => []
  | x :: r => if mem_nat x seen then dedup seen r else x :: dedup (x :: seen) r
  end.

Definition by_ids (D : list sym) (l : list nat) : list sym :=
  flat_map (fun n => filter (fun d => Nat.eqb (s_id d) n) D) l.

Definition nontype (d : sym) : bool := negb (has_cat CType d).

(* table order after reading the declarations [decls] (text order) *)
Definition reread (decls : list sym) : list sym :=
  let rest := filter nontype decls in
  sect CType decls ++ by_ids rest (dedup [] (flat_map (mentions (ids rest)) rest)).

(* --------------------------------------------------------- C04: validity spec *)
(* every declared symbol is declared once, and every symbol a declaration mentions that is
   declared in this list at all is declared earlier *)
Fixpoint count_nat (x : nat) (l : list nat) : nat :=
  match l with [] => 0 | y :: r => (if Nat.eqb x y then 1 else 0) + count_nat x r end.

Fixpoint before_use (dn seen : list nat) (l : list sym) : bool :=
  match l with
  | [] => true
  | d :: r => forallb (fun x => negb (mem_nat x dn) || mem_nat x seen) (s_refs d)
              && before_use dn (s_id d :: seen) r
  end.

(* no declaration mentions a (non-type) symbol that is declared later in the same list *)
Definition no_forward_refs (decls : list sym) : bool :=
  let rest := filter nontype decls in before_use (ids rest) [] rest.

Definition decl_valid (decls : list sym) : bool :=
  forallb (fun d => Nat.eqb (count_nat (s_id d) (ids decls)) 1) decls
  && before_use (ids decls) [] decls.

(* ------------------------------------------------ routine_node: scope merging *)
Definition nnames (l : list sym) : list string := map (fun s => normalize (s_name s)) l.
Definition set_name (s : sym) (n : string) : sym := mkSym (s_id s) n (s_cat s) (s_deps s) (s_refs s).

(* whole_routine_scope.merge(sched_table): _add_symbols_from_table / _handle_symbol_clash for
   symbols that can be renamed (not containers / imports / arguments).  [outer] = normalised
   names visible from the enclosing Container(s) (get_symbols() includes the ancestors once the
   new table is attached to the Routine). *)
Fixpoint merge_table (outer : list string) (acc inner : list sym) : list sym :=
  match inner with
  | [] => acc
  | s :: r =>
    if mem_str (normalize (s_name s)) (nnames acc) then
      let ex := nnames acc ++ outer ++ nnames (s :: r) in
      match fresh_loop (S (List.length ex)) (s_name s) ex 0%N with
      | Some n => merge_table outer (acc ++ [set_name s n]) r
      | None => merge_table outer (acc ++ [s]) r     (* unreachable: Names.fresh_loop_total *)
      end
    else merge_table outer (acc ++ [s]) r
  end.

(* the Routine's own table first (into an empty table), then every inner Schedule in walk order *)
Definition flatten (outer : list string) (routine : list sym) (inners : list (list sym)) : list sym :=
  fold_left (merge_table outer) inners (merge_table outer [] routine).

(* the declarations of a written routine *)
Definition write_decls (outer : list string) (routine : list sym) (inners : list (list sym))
  : option (list sym) := gen_decls (flatten outer routine inners).

(* ----------------------------------------------- checkers used by the harness *)
Fixpoint list_nat_eqb (a b : list nat) : bool :=
  match a, b with
  | [], [] => true
  | x :: a', y :: b' => Nat.eqb x y && list_nat_eqb a' b'
  | _, _ => false
  end.

(* case = (table, observed): observed = Some (ids in declaration order) | None (VisitorError) *)
Definition agrees_decls (c : list sym * option (list nat)) : bool :=
  match gen_decls (fst c), snd c with
  | Some l, Some o => list_nat_eqb (ids l) o
  | None, None => true
  | _, _ => false
  end.

Fixpoint list_str_eqb (a b : list string) : bool :=
  match a, b with
  | [], [] => true
  | x :: a', y :: b' => String.eqb x y && list_str_eqb a' b'
  | _, _ => false
  end.

(* case = ((outer, routine, inners), observed names of the merged table in order) *)
Definition agrees_flatten (c : (list string * list sym * list (list sym)) * list string) : bool :=
  match c with
  | ((o, r, i), obs) => list_str_eqb (map s_name (flatten o r i)) obs
  end.

(* case = (declarations in text order, observed table order (ids) after reading) *)
Definition agrees_reread (c : list sym * list nat) : bool :=
  list_nat_eqb (ids (reread (fst c))) (snd c).

(* case = (declarations, gfortran accepts) *)
Definition agrees_valid (c : list sym * bool) : bool := Bool.eqb (decl_valid (fst c)) (snd c).
