(* C03 -- generic interfaces: GenericInterfaceSymbol.routines as a list of (procedure name, kind).
   write_iface = FortranWriter.gen_interfacedecl (fortran.py 633-669): one "module procedure :: ..." line
   with the container routines, then one "procedure :: ..." line with the external ones (a line is omitted
   when empty).  read_iface = Fparser2Reader._process_interface_block: statement by statement, the kind
   of every name taken from ITS OWN statement (is_module recomputed per Procedure_Stmt). *)
From Coq Require Import List Bool String Permutation.
Import ListNotations.
Open Scope list_scope.

Inductive pkind := PModule | PPlain.
Definition pkind_eqb (a b : pkind) : bool :=
  match a, b with PModule, PModule | PPlain, PPlain => true | _, _ => false end.

Definition iface := list (string * pkind).          (* as read, in order *)
Definition stmt := (pkind * list string)%type.       (* one PROCEDURE statement *)

Definition of_kind (k : pkind) (i : iface) : iface := filter (fun p => pkind_eqb (snd p) k) i.
Definition names_of (k : pkind) (i : iface) : list string := map fst (of_kind k i).

Definition line (k : pkind) (i : iface) : list stmt :=
  match names_of k i with [] => [] | ns => [(k, ns)] end.

Definition write_iface (i : iface) : list stmt := line PModule i ++ line PPlain i.

Definition read_stmt (s : stmt) : iface := map (fun n => (n, fst s)) (snd s).
Definition read_iface (l : list stmt) : iface := flat_map read_stmt l.

(* harness checker: (interface as read, statements the real writer emitted, interface re-read) *)
Fixpoint strs_eqb (a b : list string) : bool :=
  match a, b with
  | [], [] => true
  | x :: a', y :: b' => String.eqb x y && strs_eqb a' b'
  | _, _ => false
  end.
Fixpoint stmts_eqb (a b : list stmt) : bool :=
  match a, b with
  | [], [] => true
  | (k, n) :: a', (k', n') :: b' => pkind_eqb k k' && strs_eqb n n' && stmts_eqb a' b'
  | _, _ => false
  end.
Fixpoint iface_eqb (a b : iface) : bool :=
  match a, b with
  | [], [] => true
  | (n, k) :: a', (n', k') :: b' => String.eqb n n' && pkind_eqb k k' && iface_eqb a' b'
  | _, _ => false
  end.
Definition agrees_iface (c : iface * list stmt * iface) : bool :=
  match c with
  | (i, written, reread) => stmts_eqb (write_iface i) written && iface_eqb (read_iface written) reread
  end.

(* ------------------------------------------------------------------ proofs *)
Lemma read_line : forall k i, read_iface (line k i) = of_kind k i.
Proof.
  intros k i. unfold line, names_of, read_iface.
  assert (H : forall l : iface, Forall (fun p => snd p = k) l -> map (fun n : string => (n, k)) (map fst l) = l).
  { induction l as [|[n k'] l IH]; intro Hl; simpl; [reflexivity|].
    inversion Hl as [|x y Hk Hl' Ex]. simpl in Hk. rewrite Hk. rewrite (IH Hl'). reflexivity. }
  assert (Hf : Forall (fun p => snd p = k) (of_kind k i)).
  { apply Forall_forall. intros p Hp. apply filter_In in Hp as [_ Hp]. destruct (snd p), k; simpl in Hp; congruence. }
  destruct (map fst (of_kind k i)) as [|n ns] eqn:E.
  - simpl. destruct (of_kind k i); [reflexivity|discriminate].
  - cbn [flat_map]. rewrite app_nil_r. unfold read_stmt. cbn [fst snd]. rewrite <- E. apply H. exact Hf.
Qed.

Lemma read_write : forall i, read_iface (write_iface i) = of_kind PModule i ++ of_kind PPlain i.
Proof.
  intro i. unfold write_iface, read_iface. rewrite flat_map_app.
  change (flat_map read_stmt (line PModule i)) with (read_iface (line PModule i)).
  change (flat_map read_stmt (line PPlain i)) with (read_iface (line PPlain i)).
  rewrite !read_line. reflexivity.
Qed.

(* no procedure lost, duplicated or changed in kind; only the order is normalised *)
Theorem interface_roundtrip_ : forall i, Permutation (read_iface (write_iface i)) i.
Proof.
  intro i. rewrite read_write. unfold of_kind.
  induction i as [|[n k] i IH]; [apply Permutation_refl|].
  destruct k; simpl.
  - apply perm_skip. exact IH.
  - apply Permutation_sym, Permutation_cons_app, Permutation_sym, IH.
Qed.

Lemma of_kind_app : forall k a b, of_kind k (a ++ b) = of_kind k a ++ of_kind k b.
Proof. intros. apply filter_app. Qed.

Lemma of_kind_same : forall k i, of_kind k (of_kind k i) = of_kind k i.
Proof.
  intros k i. unfold of_kind. induction i as [|p i IH]; simpl; [reflexivity|].
  destruct (pkind_eqb (snd p) k) eqn:E; simpl; [rewrite E, IH; reflexivity | exact IH].
Qed.

Lemma of_kind_other : forall k k' i, pkind_eqb k k' = false -> of_kind k (of_kind k' i) = [].
Proof.
  intros k k' i Hk. unfold of_kind. induction i as [|p i IH]; simpl; [reflexivity|].
  destruct (pkind_eqb (snd p) k') eqn:E; simpl; [|exact IH].
  destruct (pkind_eqb (snd p) k) eqn:E2; [|exact IH].
  destruct (snd p), k, k'; simpl in *; congruence.
Qed.

Theorem interface_second_write_stable_ : forall i, write_iface (read_iface (write_iface i)) = write_iface i.
Proof.
  intro i. rewrite read_write. unfold write_iface, line, names_of.
  rewrite !of_kind_app, !of_kind_same.
  rewrite (of_kind_other PModule PPlain), (of_kind_other PPlain PModule) by reflexivity.
  rewrite app_nil_r. reflexivity.
Qed.

Open Scope string_scope.
(* the seeded scenario: plain statement first in the source *)
Example interface_nonvacuous :
  let i := [("solve_banded", PPlain); ("solve_dense", PPlain); ("solve_diag", PModule); ("solve_ident", PModule)] in
  write_iface i = [(PModule, ["solve_diag"; "solve_ident"]); (PPlain, ["solve_banded"; "solve_dense"])]
  /\ read_iface (write_iface i) = [("solve_diag", PModule); ("solve_ident", PModule); ("solve_banded", PPlain); ("solve_dense", PPlain)].
Proof. split; vm_compute; reflexivity. Qed.
