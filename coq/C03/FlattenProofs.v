(* C03/C04 -- proofs about the scope merging done by FortranWriter.routine_node ([flatten]). *)
From Coq Require Import List Arith Bool Lia String NArith.
Import ListNotations.
From PV Require Import C03.Names C03.Decls.
Open Scope list_scope.

(* what merging may do to a symbol: nothing, or give it a new name that is not visible from the
   enclosing containers; identity, category and dependencies are never touched *)
Inductive renamed (outer : list string) : sym -> sym -> Prop :=
| rn_same : forall s, renamed outer s s
| rn_fresh : forall s n, ~ In (normalize n) outer -> normalize n <> normalize (s_name s) ->
                         renamed outer s (set_name s n).

Lemma nnames_app : forall a b, nnames (a ++ b) = nnames a ++ nnames b.
Proof. intros. unfold nnames. apply map_app. Qed.

Lemma NoDup_snoc {A} (l : list A) a : NoDup l -> ~ In a l -> NoDup (l ++ [a]).
Proof.
  induction l as [|x l IH]; intros H Ha; simpl.
  - constructor; [intros []|constructor].
  - inversion H as [|? ? Hx Hl]; subst. constructor.
    + intro Hin. apply in_app_or in Hin as [Hin|[Hin|[]]]; [auto|]. apply Ha. left. symmetry. exact Hin.
    + apply IH; [exact Hl|]. intro Hin. apply Ha. right. exact Hin.
Qed.

Lemma NoDup_app_remove_r {A} (l l' : list A) : NoDup (l ++ l') -> NoDup l.
Proof.
  induction l as [|x l IH]; simpl; intro H; [constructor|].
  inversion H as [|? ? Hx Hl]; subst. constructor; [|auto].
  intro Hin. apply Hx. apply in_or_app. left. exact Hin.
Qed.

(* the name chosen for a clashing symbol *)
Lemma fresh_for_clash : forall outer acc s r,
    exists n, fresh_loop (S (List.length (nnames acc ++ outer ++ nnames (s :: r)))) (s_name s)
                         (nnames acc ++ outer ++ nnames (s :: r)) 0%N = Some n /\
              ~ In (normalize n) (nnames acc) /\ ~ In (normalize n) outer /\
              ~ In (normalize n) (nnames (s :: r)).
Proof.
  intros outer acc s r. set (ex := nnames acc ++ outer ++ nnames (s :: r)).
  destruct (fresh_loop_total (s_name s) ex 0%N) as [n Hn]. exists n. split; [exact Hn|].
  apply fresh_loop_some in Hn as [k [_ [Hfree _]]]. unfold ex in Hfree.
  repeat split; intro H; apply Hfree; apply in_or_app; [left|right; apply in_or_app; left|right; apply in_or_app; right]; exact H.
Qed.

Lemma merge_table_spec : forall outer inner acc,
    exists inner', merge_table outer acc inner = acc ++ inner' /\ Forall2 (renamed outer) inner inner'.
Proof.
  intros outer inner; induction inner as [|s r IH]; intros acc; simpl.
  - exists []. rewrite app_nil_r. split; [reflexivity|constructor].
  - destruct (mem_str (normalize (s_name s)) (nnames acc)) eqn:E.
    + destruct (fresh_for_clash outer acc s r) as [n [Hn [_ [Ho Hs]]]].
      simpl in Hn. rewrite Hn.
      destruct (IH (acc ++ [set_name s n])) as [r' [E1 E2]].
      exists (set_name s n :: r'). rewrite E1, <- app_assoc. split; [reflexivity|].
      constructor; [|exact E2]. apply rn_fresh; [exact Ho|].
      intro Heq. apply Hs. simpl. left. symmetry. exact Heq.
    + destruct (IH (acc ++ [s])) as [r' [E1 E2]].
      exists (s :: r'). rewrite E1, <- app_assoc. split; [reflexivity|].
      constructor; [apply rn_same | exact E2].
Qed.

Lemma merge_table_nodup : forall outer inner acc, NoDup (nnames acc) -> NoDup (nnames (merge_table outer acc inner)).
Proof.
  intros outer inner; induction inner as [|s r IH]; intros acc H; simpl; [exact H|].
  destruct (mem_str (normalize (s_name s)) (nnames acc)) eqn:E.
  - destruct (fresh_for_clash outer acc s r) as [n [Hn [Ha _]]].
    simpl in Hn. rewrite Hn. apply IH. rewrite nnames_app. simpl. apply NoDup_snoc; assumption.
  - apply IH. rewrite nnames_app. simpl. apply NoDup_snoc; [exact H|]. apply mem_str_false. exact E.
Qed.

Lemma merge_table_noclash : forall outer inner acc, NoDup (nnames (acc ++ inner)) ->
                                                   merge_table outer acc inner = acc ++ inner.
Proof.
  intros outer inner; induction inner as [|s r IH]; intros acc H; simpl; [rewrite app_nil_r; reflexivity|].
  assert (Hs : mem_str (normalize (s_name s)) (nnames acc) = false).
  { apply mem_str_false. rewrite nnames_app in H. simpl in H. apply NoDup_remove_2 in H.
    intro Hin. apply H. apply in_or_app. left. exact Hin. }
  rewrite Hs. rewrite IH; rewrite <- app_assoc; [reflexivity | exact H].
Qed.

(* -------------------------------------------------------------------- flatten *)
Lemma fold_merge_spec : forall outer inners acc,
    exists x, fold_left (merge_table outer) inners acc = acc ++ x /\
              Forall2 (renamed outer) (List.concat inners) x.
Proof.
  intros outer inners; induction inners as [|i is IH]; intros acc; simpl.
  - exists []. rewrite app_nil_r. split; [reflexivity|constructor].
  - destruct (merge_table_spec outer i acc) as [i' [E1 E2]].
    destruct (IH (merge_table outer acc i)) as [x [E3 E4]].
    exists (i' ++ x). rewrite E3, E1, <- app_assoc. split; [reflexivity|].
    apply Forall2_app; assumption.
Qed.

Lemma fold_merge_nodup : forall outer inners acc, NoDup (nnames acc) ->
                                                 NoDup (nnames (fold_left (merge_table outer) inners acc)).
Proof.
  intros outer inners; induction inners as [|i is IH]; intros acc H; simpl; [exact H|].
  apply IH, merge_table_nodup, H.
Qed.

(* no symbol is lost, duplicated or moved; only names of clashing symbols change, and a new name
   never equals a name visible from the enclosing scopes *)
Theorem flatten_spec_ : forall outer routine inners,
    Forall2 (renamed outer) (routine ++ List.concat inners) (flatten outer routine inners).
Proof.
  intros outer routine inners. unfold flatten.
  destruct (merge_table_spec outer routine []) as [r' [E1 E2]]. simpl in E1.
  destruct (fold_merge_spec outer inners (merge_table outer [] routine)) as [x [E3 E4]].
  rewrite E3, E1. apply Forall2_app; assumption.
Qed.

(* after merging, every name is declared once: a reference (which points at a symbol object and is
   written with that object's final name) can only resolve to its own symbol *)
Theorem flatten_names_unique_ : forall outer routine inners, NoDup (nnames (flatten outer routine inners)).
Proof.
  intros. unfold flatten. apply fold_merge_nodup, merge_table_nodup. constructor.
Qed.

(* nothing is renamed when nothing clashes; in particular the second pass (one flat table, no
   inner scopes) renames nothing *)
Theorem flatten_noclash_ : forall outer routine inners,
    NoDup (nnames (routine ++ List.concat inners)) -> flatten outer routine inners = routine ++ List.concat inners.
Proof.
  intros outer routine inners; revert routine. unfold flatten.
  induction inners as [|i is IH]; intros routine H; simpl in *.
  - rewrite app_nil_r in *. apply (merge_table_noclash outer routine []). exact H.
  - assert (E0 : merge_table outer [] routine = routine).
    { apply (merge_table_noclash outer routine []). simpl. rewrite app_assoc, nnames_app in H.
      apply NoDup_app_remove_r in H. rewrite nnames_app in H. apply NoDup_app_remove_r in H. exact H. }
    rewrite E0. rewrite (merge_table_noclash outer i routine).
    + specialize (IH (routine ++ i)). rewrite <- app_assoc in IH.
      assert (E1 : merge_table outer [] (routine ++ i) = routine ++ i).
      { apply (merge_table_noclash outer (routine ++ i) []). simpl. rewrite app_assoc, nnames_app in H.
        apply NoDup_app_remove_r in H. exact H. }
      rewrite E1 in IH. apply IH. exact H.
    + rewrite app_assoc, nnames_app in H. apply NoDup_app_remove_r in H. exact H.
Qed.

Theorem flatten_second_pass_ : forall outer outer' routine inners,
    flatten outer' (flatten outer routine inners) [] = flatten outer routine inners.
Proof.
  intros. rewrite (flatten_noclash_ outer' (flatten outer routine inners) []).
  - simpl. apply app_nil_r.
  - simpl. rewrite app_nil_r. apply flatten_names_unique_.
Qed.

Lemma renamed_ids : forall outer a b, Forall2 (renamed outer) a b -> ids a = ids b.
Proof. intros outer a b H. induction H as [|x y a b Hxy _ IH]; simpl; [reflexivity|]. rewrite IH. destruct Hxy; reflexivity. Qed.

Theorem flatten_ids_ : forall outer routine inners,
    ids (flatten outer routine inners) = ids (routine ++ List.concat inners).
Proof. intros. symmetry. eapply renamed_ids, flatten_spec_. Qed.

(* a concrete merge that renames: i clashes twice, and the candidate i_1 is itself taken *)
Open Scope string_scope.
Example flatten_nonvacuous :
  map s_name (flatten ["modvar"; "i_2"]
                      [mkSym 0 "i" CVar [] []; mkSym 1 "i_1" CVar [] []]
                      [[mkSym 2 "I" CVar [] []; mkSym 3 "j" CVar [] []]; [mkSym 4 "i" CVar [] []; mkSym 5 "modvar" CVar [] []]])
  = ["i"; "i_1"; "I_3"; "j"; "i_4"; "modvar"].
Proof. vm_compute. reflexivity. Qed.
