(* C03 -- write (merge scopes + order declarations), re-read, write again. *)
From Coq Require Import List Arith Bool Lia Permutation String.
Import ListNotations.
From PV Require Import C03.Names C03.Decls C03.OrderProofs C03.DeclProofs C03.FlattenProofs.
Open Scope list_scope.

Lemma NoDup_map_filter {A B} (f : A -> B) (p : A -> bool) l : NoDup (map f l) -> NoDup (map f (filter p l)).
Proof.
  induction l as [|a l IH]; intros H; simpl; [constructor|].
  inversion H as [|? ? Ha Hn]; subst. destruct (p a); simpl; [|auto].
  constructor; [|auto]. intro Hx. apply Ha. apply in_map_iff in Hx as [y [Ey Hy]].
  apply filter_In in Hy as [Hy _]. rewrite <- Ey. apply in_map. exact Hy.
Qed.

Lemma nnames_perm : forall l l', Permutation l l' -> Permutation (nnames l) (nnames l').
Proof. intros. unfold nnames. apply Permutation_map. assumption. Qed.

(* the written declarations of a routine name every entity once *)
Theorem written_names_unique_ : forall outer routine inners l,
    write_decls outer routine inners = Some l -> NoDup (nnames l).
Proof.
  intros outer routine inners l H. unfold write_decls in H.
  eapply Permutation_NoDup; [apply nnames_perm, Permutation_sym, gen_decls_perm; exact H|].
  unfold nnames. apply NoDup_map_filter. apply flatten_names_unique_.
Qed.

(* merge_then_flat (partial): scopes merged and declarations ordered by the first write; if the
   written declarations have no forward reference then reading them back (one flat scope, table in
   first-mention order, types first) and writing again produces the same declarations, with the
   same names, in the same order -- the second pass renames nothing and re-orders nothing *)
Theorem merge_then_flat_partial_ : forall outer outer' routine inners l,
    NoDup (ids (routine ++ List.concat inners)) ->
    write_decls outer routine inners = Some l ->
    no_forward_refs l = true ->
    write_decls outer' (reread l) [] = Some l.
Proof.
  intros outer outer' routine inners l Hn H Hf.
  assert (Hnf : NoDup (ids (flatten outer routine inners))) by (rewrite flatten_ids_; exact Hn).
  assert (Hnl : NoDup (ids l)).
  { eapply NoDup_ids_perm; [apply Permutation_sym, gen_decls_perm; exact H|].
    apply NoDup_ids_filter. exact Hnf. }
  unfold write_decls. rewrite (flatten_noclash_ outer' (reread l) []).
  - simpl. rewrite app_nil_r.
    apply (decl_order_idempotent_partial_ (flatten outer routine inners) l Hnf H Hf).
  - simpl. rewrite app_nil_r.
    eapply Permutation_NoDup; [apply nnames_perm, Permutation_sym, reread_perm_partial_; assumption|].
    eapply written_names_unique_; eauto.
Qed.

Open Scope string_scope.
(* non-vacuity: two nested scopes re-declare i and a parameter n; kinds in scrambled order *)
Example merge_then_flat_nonvacuous :
  let routine := [mkSym 0 "x" CVar [] [2; 1]; mkSym 1 "n" CConst [2] [2]; mkSym 2 "wp" CConst [] [];
                  mkSym 3 "i" CVar [] []; mkSym 4 "a" CArg [] [1]] in
  let inners := [[mkSym 5 "i" CVar [] []; mkSym 6 "n" CConst [] []]; [mkSym 7 "I" CVar [] [6]]] in
  NoDup (ids (routine ++ List.concat inners)) /\
  exists l, write_decls ["m"] routine inners = Some l /\ no_forward_refs l = true /\
            map s_name l = ["wp"; "n"; "n_1"; "a"; "x"; "i"; "i_1"; "I_2"] /\
            write_decls ["m"] (reread l) [] = Some l.
Proof.
  split; [repeat constructor; simpl; intuition discriminate|].
  eexists. split; [vm_compute; reflexivity|]. repeat split; vm_compute; reflexivity.
Qed.
