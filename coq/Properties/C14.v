(* C14 — The PSyIR tree stays well-formed under any sequence of edits.  Property theorems only.

   FULL STATEMENT (what the property asks of the code):
     forall E fuel s ops, Inv E s ->
       Inv E (run P_src E fuel s ops) /\ failed_unchanged P_src E fuel s ops
   i.e. after any history of append / insert / __setitem__ / __delitem__ / remove / pop / extend /
   clear / reverse / sort / addchild / detach / replace_with / pop_all_children / children-setter
   operations with arbitrary integer indices, every child's parent pointer is its container, every
   node's parent lists it, no node is listed twice, every child is valid at its position, and an
   operation that raised left the forest unchanged.
   It is FALSE of the code as found (theorems C14_refuted_*: nine concrete histories, replayed on the
   implementation by props/C14/check.py).  What is proved instead:
     - C14_*_safe_partial : the statement for every operation/history inside a computable safe
       fragment [op_safe]/[hist_safe] (what is missing: the operations classified by reason codes
       1-9 of Model.reason, i.e. exactly the nine defects), for ANY parameter value;
     - C14_*_full_when_repaired : the full statement, with the sole side condition that no
       container is deeper than the interpreter's recursion limit (update_signal is recursive),
       for every parameter value recognised by [P_okb] (the code with props/C14/fix.patch applied
       translates to such a value; then C14_source_history_full_if_repaired applies to P_src). *)
From Coq Require Import List ZArith.
Import ListNotations.
From PV Require Import C14.Model C14.Gen C14.Proofs C14.GenProofs C14.Witness.

Theorem C14_step_safe_partial : forall P E fuel s o,
  Inv E s -> op_safe P E fuel s o = true ->
  Inv E (fst (step P E fuel s o)) /\
  (snd (step P E fuel s o) <> None -> state_eq (fst (step P E fuel s o)) s).
Proof. exact step_safe_. Qed.
Print Assumptions C14_step_safe_partial.

Theorem C14_history_safe_partial : forall P E fuel ops s,
  Inv E s -> hist_safe P E fuel s ops = true ->
  Inv E (run P E fuel s ops) /\ failed_unchanged P E fuel s ops.
Proof. exact history_safe_. Qed.
Print Assumptions C14_history_safe_partial.

Theorem C14_step_full_when_repaired : forall P E fuel s o,
  P_okb P = true -> Inv E s -> depth_ok fuel s o = true ->
  Inv E (fst (step P E fuel s o)) /\
  (snd (step P E fuel s o) <> None -> state_eq (fst (step P E fuel s o)) s).
Proof. exact step_full_repaired_. Qed.
Print Assumptions C14_step_full_when_repaired.

Theorem C14_history_full_when_repaired : forall P E fuel, P_okb P = true -> forall ops s,
  Inv E s -> hist_depth_ok P E fuel s ops = true ->
  Inv E (run P E fuel s ops) /\ failed_unchanged P E fuel s ops.
Proof. exact history_full_repaired_. Qed.
Print Assumptions C14_history_full_when_repaired.

(* the parameters and validity rules translated from the source under test *)
Theorem C14_source_history_safe_partial : forall Kf Af fuel ops s,
  let E := mkEnv Kf Af valid_child argn_src in
  Inv E s -> hist_safe P_src E fuel s ops = true ->
  Inv (mkEnv Kf Af valid_ref argn_src) (run P_src E fuel s ops) /\ failed_unchanged P_src E fuel s ops.
Proof.
  intros Kf Af fuel ops s E HI HS. destruct (history_safe_ P_src E fuel ops s HI HS) as [A B].
  split; [apply inv_reference_; exact A | exact B].
Qed.
Print Assumptions C14_source_history_safe_partial.

Theorem C14_source_history_full_if_repaired : P_okb P_src = true -> forall Kf Af fuel ops s,
  let E := mkEnv Kf Af valid_child argn_src in
  Inv E s -> hist_depth_ok P_src E fuel s ops = true ->
  Inv (mkEnv Kf Af valid_ref argn_src) (run P_src E fuel s ops) /\ failed_unchanged P_src E fuel s ops.
Proof.
  intros HP Kf Af fuel ops s E HI HS. destruct (history_full_repaired_ P_src E fuel HP ops s HI HS) as [A B].
  split; [apply inv_reference_; exact A | exact B].
Qed.
Print Assumptions C14_source_history_full_if_repaired.

(* every _validate_child rule accepts only what the frozen reference table accepts *)
Theorem C14_valid_child_refines_reference :
  forall ck pos xk, (0 <= pos)%Z -> valid_child ck pos xk = true -> valid_ref ck pos xk = true.
Proof. exact valid_child_refines_reference_. Qed.
Print Assumptions C14_valid_child_refines_reference.

(* --- the full statement is false of the code as found: concrete histories from the forest of orphans *)
Theorem C14_refuted_pop_negative_index :
  exists E ops, Inv E s0 /\ ~ Inv E (run P_found E FUEL s0 ops).
Proof. exact refuted_pop_negative_index_. Qed.
Print Assumptions C14_refuted_pop_negative_index.

Theorem C14_refuted_delitem_negative_index :
  exists E ops, Inv E s0 /\ ~ Inv E (run P_found E FUEL s0 ops).
Proof. exact refuted_delitem_negative_index_. Qed.
Print Assumptions C14_refuted_delitem_negative_index.

Theorem C14_refuted_extend_duplicate :
  exists E ops, Inv E s0 /\ ~ Inv E (run P_found E FUEL s0 ops).
Proof. exact refuted_extend_duplicate_. Qed.
Print Assumptions C14_refuted_extend_duplicate.

Theorem C14_refuted_setitem_negative_index :
  exists E ops, Inv E s0 /\ ~ Inv E (run P_found E FUEL s0 ops).
Proof. exact refuted_setitem_negative_index_. Qed.
Print Assumptions C14_refuted_setitem_negative_index.

Theorem C14_refuted_insert_beyond_end :
  exists E ops, Inv E s0 /\ ~ Inv E (run P_found E FUEL s0 ops).
Proof. exact refuted_insert_beyond_end_. Qed.
Print Assumptions C14_refuted_insert_beyond_end.

Theorem C14_refuted_insert_negative_index :
  exists E ops, Inv E s0 /\ ~ Inv E (run P_found E FUEL s0 ops).
Proof. exact refuted_insert_negative_index_. Qed.
Print Assumptions C14_refuted_insert_negative_index.

Theorem C14_refuted_remove_equal_node :
  exists E ops, Inv E s0 /\ ~ Inv E (run P_found E FUEL s0 ops).
Proof. exact refuted_remove_equal_node_. Qed.
Print Assumptions C14_refuted_remove_equal_node.

Theorem C14_refuted_setter_not_atomic :
  exists E ops, Inv E s0 /\ ~ failed_unchanged P_found E FUEL s0 ops.
Proof. exact refuted_setter_not_atomic_. Qed.
Print Assumptions C14_refuted_setter_not_atomic.

Theorem C14_refuted_ancestor_accepted :
  exists E ops, Inv E s0 /\ ~ failed_unchanged P_found E FUEL s0 ops.
Proof. exact refuted_ancestor_accepted_. Qed.
Print Assumptions C14_refuted_ancestor_accepted.

(* --- non-vacuity of the hypotheses *)
Example C14_safe_history_nonvacuous :
  let E := env_of nv_kinds in
  Inv E s0 /\ hist_safe P_found E FUEL s0 nv_ops = true /\
  kids (run P_found E FUEL s0 nv_ops) 0 = [1; 2; 3; 4] /\
  kids (run P_found E FUEL s0 nv_ops) 4 = [8] /\
  snd (step P_found E FUEL (run P_found E FUEL s0 (firstn 4 nv_ops)) (OPop 0 2)) = Some EGen.
Proof. exact safe_history_nonvacuous_. Qed.
Print Assumptions C14_safe_history_nonvacuous.

Example C14_repaired_nonvacuous :
  P_okb P_fixed = true /\ P_okb P_found = false /\
  hist_depth_ok P_fixed (env_of w_pop_kinds) FUEL s0 w_pop_ops = true /\
  snd (step P_fixed (env_of w_pop_kinds) FUEL
         (run P_fixed (env_of w_pop_kinds) FUEL s0 [OExtend 0 [1; 2; 3; 4]]) (OPop 0 (-2))) = Some EGen /\
  snd (step P_fixed (env_of [KSchedule; KReturn]) FUEL s0 (OExtend 0 [1; 1])) = Some EGen /\
  kids (run P_fixed (env_of [KLoop; KSchedule]) FUEL s0 [OInsert 0 3 1]) 0 = [] /\
  kids (run P_fixed (env_of [KSchedule; KReturn; KReturn]) FUEL s0 [OExtend 0 [1; 2]; ORemove 0 2]) 0 = [2] /\
  par (run P_fixed (env_of [KSchedule; KReturn; KReturn]) FUEL s0 [OExtend 0 [1; 2]; ORemove 0 2]) 1 = None /\
  kids (run P_fixed (env_of [KSchedule; KReturn; KLiteral]) FUEL s0 [OAppend 0 1; OSetChildren 0 [2]]) 0 = [1] /\
  snd (step P_fixed (env_of [KIfBlock; KLiteral; KSchedule]) FUEL
         (run P_fixed (env_of [KIfBlock; KLiteral; KSchedule]) FUEL s0 [OExtend 0 [1; 2]]) (OAppend 2 0)) = Some EGen.
Proof. exact repaired_nonvacuous_. Qed.
Print Assumptions C14_repaired_nonvacuous.

(* ---------------------------------------------------------------------------------------------
   Extended operation set (coq/C14/Model2.v): in-place operators `+=` / `*=` on the children list
   (NOT overridden by ChildrenList: plain list semantics) and slice get / set / delete (refused).
   Full statement: as above over op2.  False of /repo HEAD (P2_head) because of `+=` and `*=`
   (C14_refuted_iadd / _imul / _imul_zero); slices are refused without any change for every parameter
   value (C14_slices_refused); full for parameters recognised by P2_okb (fix2.patch). *)
From PV Require Import C14.Model2 C14.Proofs2.

Theorem C14_history2_safe_partial : forall P E fuel ops s,
  Inv E s -> hist_safe2 P E fuel s ops = true ->
  Inv E (run2 P E fuel s ops) /\ failed_unchanged2 P E fuel s ops.
Proof. exact history2_safe_. Qed.
Print Assumptions C14_history2_safe_partial.

Theorem C14_history2_full_when_repaired : forall P E fuel, P2_okb P = true -> forall ops s,
  Inv E s -> hist_depth_ok2 P E fuel s ops = true ->
  Inv E (run2 P E fuel s ops) /\ failed_unchanged2 P E fuel s ops.
Proof. exact history2_full_repaired_. Qed.
Print Assumptions C14_history2_full_when_repaired.

Theorem C14_slices_refused : forall P E fuel s c xs,
  step2 P E fuel s (OGetSlice c) = (s, None) /\
  fst (step2 P E fuel s (OSetSlice c xs)) = s /\ snd (step2 P E fuel s (OSetSlice c xs)) <> None /\
  step2 P E fuel s (ODelSlice c) = (s, Some EType).
Proof. exact slices_refused_. Qed.
Print Assumptions C14_slices_refused.

Theorem C14_refuted_iadd : exists E ops, Inv E s0 /\ ~ Inv E (run2 P2_head E FUEL s0 ops).
Proof. exact refuted_iadd_. Qed.
Print Assumptions C14_refuted_iadd.

Theorem C14_refuted_imul : exists E ops, Inv E s0 /\ ~ Inv E (run2 P2_head E FUEL s0 ops).
Proof. exact refuted_imul_. Qed.
Print Assumptions C14_refuted_imul.

Theorem C14_refuted_imul_zero : exists E ops, Inv E s0 /\ ~ Inv E (run2 P2_head E FUEL s0 ops).
Proof. exact refuted_imul_zero_. Qed.
Print Assumptions C14_refuted_imul_zero.

Example C14_repaired2_nonvacuous :
  P2_okb P2_fixed = true /\ P2_okb P2_head = false /\
  kids (run2 P2_fixed (env_of [KSchedule; KReturn]) FUEL s0 [OIAdd 0 [1]]) 0 = [1] /\
  par (run2 P2_fixed (env_of [KSchedule; KReturn]) FUEL s0 [OIAdd 0 [1]]) 1 = Some 0 /\
  snd (step2 P2_fixed (env_of [KSchedule; KLiteral]) FUEL s0 (OIAdd 0 [1])) = Some EGen /\
  snd (step2 P2_fixed (env_of [KSchedule; KReturn]) FUEL s0 (OIMul 0 2)) = Some ENotImpl /\
  hist_depth_ok2 P2_fixed (env_of [KSchedule; KReturn]) FUEL s0 [OIAdd 0 [1]; OIMul 0 2; ODelSlice 0] = true.
Proof. exact repaired2_nonvacuous_. Qed.
Print Assumptions C14_repaired2_nonvacuous.
