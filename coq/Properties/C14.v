(* placeholder, replaced below *)
From Coq Require Import List ZArith.
From PV Require Import C14.Model C14.Gen.
Theorem C14_sort_unchanged : forall P E fuel s c, step P E fuel s (OSort c) = (s, Some ENotImpl).
Proof. reflexivity. Qed.
Print Assumptions C14_sort_unchanged.
