(* C11 — Variable access information covers every actual read and write.  Property theorems only.

   FULL STATEMENT (false of the faithful model, see the _refuted theorems):
     forall fuel outs xs s s' tr c, xexec fuel outs xs s = Ok s' tr c ->
       (forall l, In l (reads tr)  -> is_read    (fst l) (xaccesses xs) = true) /\
       (forall l, In l (writes tr) -> is_written (fst l) (xaccesses xs) = true)
   What is proved: the statement under `xsafe` (no CodeBlock that touches data, no pure call with an
   intent(out/inout) dummy; IntrinsicCall statements are covered in full since the fix 78e51fb) — the `_partial` theorems; the order part (RHS reads before
   the LHS write) in full; and two refutations, each replayed on the implementation by the check. *)
From Coq Require Import List ZArith Bool.
Import ListNotations.
From PV Require Import Fort.Syntax Fort.Sem C11.Access C11.Proofs C11.Ext C11.Order C11.Struct C11.StructX.

(* core MiniFortran (assignments, IF, DO, EXIT/CYCLE/RETURN, regions, directives), all stores, all fuels *)
Theorem C11_access_covers_reads_partial : forall fuel ss st st' tr c,
  forallb noprint ss = true -> exec fuel ss st = Ok st' tr c ->
  forall l, In l (reads tr) -> is_read (fst l) (accesses ss) = true.
Proof. exact access_covers_reads_. Qed.
Print Assumptions C11_access_covers_reads_partial.

Theorem C11_access_covers_writes_partial : forall fuel ss st st' tr c,
  forallb noprint ss = true -> exec fuel ss st = Ok st' tr c ->
  forall l, In l (writes tr) -> is_written (fst l) (accesses ss) = true.
Proof. exact access_covers_writes_. Qed.
Print Assumptions C11_access_covers_writes_partial.

(* the report of ONE statement node taken at any location counter: VariablesAccessInfo(node) *)
Theorem C11_access_covers_stmt_partial : forall fuel s loc st st' tr c,
  noprint s = true -> exec fuel [s] st = Ok st' tr c ->
  (forall l, In l (reads tr) -> is_read (fst l) (fst (acc_stmt s loc)) = true) /\
  (forall l, In l (writes tr) -> is_written (fst l) (fst (acc_stmt s loc)) = true).
Proof. exact access_covers_stmt_. Qed.
Print Assumptions C11_access_covers_stmt_partial.

(* with routine calls (any callee behaviour `outs`, any intents), IntrinsicCall statements and WHILE loops *)
Theorem C11_xaccess_covers_reads_partial : forall fuel outs xs s s' tr c,
  forallb xsafe xs = true -> xexec fuel outs xs s = Ok s' tr c ->
  forall l, In l (reads tr) -> is_read (fst l) (xaccesses xs) = true.
Proof. exact xaccess_covers_reads_. Qed.
Print Assumptions C11_xaccess_covers_reads_partial.

Theorem C11_xaccess_covers_writes_partial : forall fuel outs xs s s' tr c,
  forallb xsafe xs = true -> xexec fuel outs xs s = Ok s' tr c ->
  forall l, In l (writes tr) -> is_written (fst l) (xaccesses xs) = true.
Proof. exact xaccess_covers_writes_. Qed.
Print Assumptions C11_xaccess_covers_writes_partial.

(* "calls that may modify an argument report that argument as written": holds in full for impure routines *)
Theorem C11_impure_call_covers : forall fuel outs its args loc s s' tr c,
  xstep fuel outs (XCall (CUser false) its args) s = Ok s' tr c ->
  bcovers tr (fst (xacc_stmt (XCall (CUser false) its args) loc)).
Proof. exact impure_call_covers_. Qed.
Print Assumptions C11_impure_call_covers.

(* order: the access list of an assignment is exactly the sequence of its dynamic accesses *)
Theorem C11_assign_sequence : forall fuel x ix e loc st st' tr c,
  exec fuel [SAssign x ix e] st = Ok st' tr c ->
  flat_map ev_sk tr = map sk (fst (acc_stmt (SAssign x ix e) loc)).
Proof. exact assign_sequence_. Qed.
Print Assumptions C11_assign_sequence.

Theorem C11_rhs_before_lhs : forall x ix e loc,
  exists R, fst (acc_stmt (SAssign x ix e) loc) = R ++ [mkAcc x WRITE loc] /\
            Forall (fun a => a_kind a = READ /\ a_loc a = loc) R /\
            (forall y, In y (expr_reads e) -> In (mkAcc y READ loc) R) /\
            snd (acc_stmt (SAssign x ix e) loc) = S loc.
Proof. exact rhs_before_lhs_. Qed.
Print Assumptions C11_rhs_before_lhs.

Theorem C11_self_update_not_written_first : forall x ix e loc,
  In x (expr_reads e) -> is_written_first x (fst (acc_stmt (SAssign x ix e) loc)) = false.
Proof. exact self_update_not_written_first_. Qed.
Print Assumptions C11_self_update_not_written_first.

Theorem C11_loop_var_written_first : forall x lo hi st body loc,
  is_written_first x (fst (acc_stmt (SDo x lo hi st body) loc)) = true.
Proof. exact loop_var_written_first_. Qed.
Print Assumptions C11_loop_var_written_first.

(* order between statements: locations never decrease along the report; a later statement of a block
   only has locations >= those of an earlier one *)
Theorem C11_locations_monotone : forall ss loc,
  (loc <= snd (acc_block ss loc))%nat /\ between loc (snd (acc_block ss loc)) (fst (acc_block ss loc)) /\
  mono (fst (acc_block ss loc)).
Proof. exact locations_monotone_. Qed.
Print Assumptions C11_locations_monotone.

Theorem C11_later_statement_later_location : forall s1 rest loc a b,
  In a (fst (acc_stmt s1 loc)) -> In b (fst (acc_block rest (snd (acc_stmt s1 loc)))) ->
  (a_loc a <= a_loc b)%nat /\
  fst (acc_block (s1 :: rest) loc) = fst (acc_stmt s1 loc) ++ fst (acc_block rest (snd (acc_stmt s1 loc))).
Proof. exact later_statement_later_location_. Qed.
Print Assumptions C11_later_statement_later_location.

(* refutations of the full statement on the faithful model; each witness is replayed on the implementation *)
Theorem C11_access_refuted_codeblock :
  exists ss st st' tr c l, exec 5 ss st = Ok st' tr c /\ In l (reads tr) /\ is_read (fst l) (accesses ss) = false.
Proof. exact access_refuted_codeblock_. Qed.
Print Assumptions C11_access_refuted_codeblock.

Theorem C11_intrinsic_stmt_covers : forall fuel outs its args loc s s' tr c,
  xstep fuel outs (XCall CIntrinsic its args) s = Ok s' tr c ->
  bcovers tr (fst (xacc_stmt (XCall CIntrinsic its args) loc)).
Proof. exact intrinsic_stmt_covers_. Qed.
Print Assumptions C11_intrinsic_stmt_covers.

Example C11_allocate_reported_written :
  let x := XCall CIntrinsic [IOut; IOut] [EIdx 2%nat [EVar 1%nat]; EVar 4%nat] in
  is_written 4%nat (fst (xacc_stmt x 0)) = true /\ is_written 2%nat (fst (xacc_stmt x 0)) = true /\
  is_read 1%nat (fst (xacc_stmt x 0)) = true /\ snd (xacc_stmt x 0) = 1%nat.
Proof. exact allocate_reported_written. Qed.
Print Assumptions C11_allocate_reported_written.

Theorem C11_access_refuted_pure_call :
  exists x outs s s' tr c l,
    xstep 1 outs x s = Ok s' tr c /\ In l (writes tr) /\ is_written (fst l) (fst (xacc_stmt x 0)) = false.
Proof. exact access_refuted_pure_call_. Qed.
Print Assumptions C11_access_refuted_pure_call.

(* non-vacuity of the implications *)
Example C11_covers_nonvacuous :
  forallb noprint ex_prog = true /\
  match exec 50 ex_prog ex_store with
  | Ok _ tr c => length (reads tr) = 16%nat /\ length (writes tr) = 10%nat /\ c = CNormal
  | _ => False
  end.
Proof. exact covers_nonvacuous. Qed.
Print Assumptions C11_covers_nonvacuous.

Example C11_xcovers_nonvacuous :
  forallb xsafe xex_prog = true /\
  match xexec 20 (fun k => Z.of_nat k) xex_prog xex_store with
  | Ok _ tr c => length (reads tr) = 18%nat /\ length (writes tr) = 6%nat /\ c = CNormal
  | _ => False
  end.
Proof. exact xcovers_nonvacuous. Qed.
Print Assumptions C11_xcovers_nonvacuous.

(* structure (derived-type) accesses grid(ii)%cells(jj)%vals(j) as RHS leaves, assignment targets, call arguments and
   IF/WHILE conditions; [enc] maps a signature (component names) to a variable name and is arbitrary.  Partial only in
   the sense of `ssafe` (pure call with an intent(out) dummy, PRINT in a body) *)
Theorem C11_struct_covers_partial : forall enc fuel outs x loc s s' tr c,
  ssafe x = true -> sstep enc fuel outs x s = Ok s' tr c -> bcovers tr (fst (sacc_stmt enc x loc)).
Proof. exact sstep_covers_. Qed.
Print Assumptions C11_struct_covers_partial.

(* every subscript variable of every component is reported READ: as target, on the right-hand side, as call argument *)
Theorem C11_sref_subscripts_reported : forall enc p e loc x,
  In x (flat_map expr_reads (psubs p)) ->
  is_read x (fst (sacc_stmt enc (SAsg (TRef p) e) loc)) = true /\
  is_read x (fst (sacc_stmt enc (SAsg (TVar 0%nat []) (SRef p)) loc)) = true /\
  (forall k its, is_read x (fst (sacc_stmt enc (SCallS k its [SRef p]) loc)) = true).
Proof. exact sref_subscripts_reported_. Qed.
Print Assumptions C11_sref_subscripts_reported.

Example C11_struct_nonvacuous :
  (match sstep (enc_tbl ex_tbl) 5 (fun _ => 0%Z) (SAsg (TVar 5%nat []) (SBin Add (SRef ex_gcv) (SCore (ELit 1)))) ex_sstore with
   | Ok s' tr _ => reads tr = [(1%nat, []); (2%nat, []); (3%nat, []); (20%nat, [2; 3; 4]%Z)] /\ val s' (5%nat, []) = 8%Z
   | _ => False end) /\
  (match sstep (enc_tbl ex_tbl) 5 (fun _ => 0%Z) (SCallS (CUser false) [IInOut] [SRef ex_gcv]) ex_sstore with
   | Ok _ tr _ => reads tr = [(1%nat, []); (2%nat, []); (3%nat, []); (20%nat, [2; 3; 4]%Z)] /\ writes tr = [(20%nat, [2; 3; 4]%Z)]
   | _ => False end) /\
  map (fun a => (a_sig a, a_kind a)) (fst (sacc_stmt (enc_tbl ex_tbl) (SCallS (CUser false) [IInOut] [SRef ex_gcv]) 0))
    = [(20%nat, READWRITE); (1%nat, READ); (2%nat, READ); (3%nat, READ)] /\
  map (fun a => (a_sig a, a_kind a)) (fst (sacc_stmt (enc_tbl ex_tbl) (SAsg (TRef ex_gcv) (SCore (EVar 1%nat))) 0))
    = [(1%nat, READ); (1%nat, READ); (2%nat, READ); (3%nat, READ); (20%nat, WRITE)].
Proof. exact struct_nonvacuous. Qed.
Print Assumptions C11_struct_nonvacuous.

(* structure accesses as a first-class expression form (StructX.v): anywhere an expression may occur — array subscripts,
   intrinsic arguments, DO bounds/step, conditions, call arguments, nested in another structure access — in arbitrarily
   nested assignments / IF / DO / calls; any [enc], callee behaviour [outs], store, fuel, location counter, block kind *)
Theorem C11_fstruct_covers_partial : forall enc outs fuel bump b loc s s' tr c,
  fsafe_block b = true -> fexec enc outs fuel b s = Ok s' tr c -> bcovers tr (fst (facc_block enc bump b loc)).
Proof. exact fexec_covers_. Qed.
Print Assumptions C11_fstruct_covers_partial.

Theorem C11_fref_subscripts_reported : forall enc p x,
  In x (fpath_reads enc p) ->
  (forall e loc, In x (fexpr_reads enc e) -> is_read x (reads_at loc (fexpr_reads enc e)) = true) /\
  In x (fexpr_reads enc (FRef p)) /\
  (forall a ix0 o e2 f, In x (fexpr_reads enc (FIdx a (ECons (FRef p) ix0))) /\
                        In x (fexpr_reads enc (FBin o (FRef p) e2)) /\
                        (is_inquiry f = false -> In x (fexpr_reads enc (FIntr f (ECons e2 (ECons (FRef p) ENil))))) /\
                        In x (fexpr_reads enc (FRef (PCons a (ECons (FRef p) ENil) PNil)))) /\
  (forall t loc, is_read x (fst (facc_stmt enc (FAssign (FTRef p) t) loc)) = true) /\
  (forall k its loc, is_read x (fst (facc_stmt enc (FCall k its (ECons (FRef p) ENil)) loc)) = true).
Proof. exact fref_subscripts_reported_. Qed.
Print Assumptions C11_fref_subscripts_reported.

(* order: the subscript reads of all components precede the access of the signature (report and trace) *)
Theorem C11_struct_order : forall enc p,
  fexpr_reads enc (FRef p) = fpath_reads enc p ++ [enc (StructX.psig p)] /\
  (forall e loc, exists pre,
      fst (facc_stmt enc (FAssign (FTRef p) e) loc) =
      pre ++ reads_at loc (fpath_reads enc p) ++ [mkAcc (enc (StructX.psig p)) WRITE loc]) /\
  (forall s vs, fpevals enc s p = Some vs -> fereads enc s (FRef p) = fpreads enc s p ++ [(enc (StructX.psig p), vs)]) /\
  (forall s l, In l (fpreads enc s p) -> In (fst l) (fpath_reads enc p)).
Proof. exact fstruct_order_. Qed.
Print Assumptions C11_struct_order.

(* do i = 1, g(k)%n ; a(s%idx(i)) = max(t(i)%v(j), 0) ; end do *)
Example C11_fstruct_nonvacuous :
  fsafe_block fx_prog = true /\
  match fexec (enc_tbl2 fx_tbl) (fun _ => 0%Z) 10 fx_prog fx_store with
  | Ok s' tr c =>
      val s' (3%nat, [4%Z]) = 0%Z /\ val s' (3%nat, [6%Z]) = 9%Z /\ c = CNormal /\
      reads tr = [(1%nat, []); (20%nat, [2%Z]);
                  (0%nat, []); (2%nat, []); (22%nat, [1; 5]%Z); (0%nat, []); (21%nat, [1%Z]);
                  (0%nat, []); (2%nat, []); (22%nat, [2; 5]%Z); (0%nat, []); (21%nat, [2%Z])] /\
      writes tr = [(0%nat, []); (3%nat, [4%Z]); (0%nat, []); (3%nat, [6%Z]); (0%nat, [])]
  | _ => False
  end /\
  map (fun a => (a_sig a, a_kind a, a_loc a)) (fst (facc_block (enc_tbl2 fx_tbl) false fx_prog 0)) =
    [(0, WRITE, 0); (0, READ, 0); (1, READ, 0); (20, READ, 0);
     (0, READ, 1); (2, READ, 1); (22, READ, 1); (0, READ, 1); (21, READ, 1); (3, WRITE, 1)]%nat.
Proof. exact fstruct_nonvacuous. Qed.
Print Assumptions C11_fstruct_nonvacuous.

(* regenerated obligation (props/C12/translate.py -> coq/C12/GenTables.v, shared with C09/C12/C13): every intrinsic of the
   tree under test is known to the frozen table of the Fortran standard's inquiry functions, and none is flagged
   `is_inquiry` (its first argument is then skipped by IntrinsicCall.reference_accesses = a missing READ, cf. expr_reads)
   unless the standard classifies it as an inquiry function *)
From PV Require Import C12.IntrTable C12.GenTables C12.IntrOblig.
Theorem C11_inquiry_flags_sound : forallb flag_ok gen_intrinsics = true.
Proof. exact inquiry_flags_sound. Qed.
Print Assumptions C11_inquiry_flags_sound.
