(* C03 -- Re-writing is stable after one round trip.  Property theorems only.
   Model: coq/C03/Decls.v (gen_decls, order_consts = _gen_parameter_decls, flatten = routine_node scope
   merging, reread = table order built by process_declarations).

   FULL STATEMENT (false of the faithful model, see C03_decl_order_idempotent_refuted):
     forall t l, NoDup (ids t) -> gen_decls t = Some l -> gen_decls (reread l) = Some l
   The reader gives a symbol its table slot at its first mention; gen_decls writes all constants
   before all variables, so a constant that mentions a variable (integer, parameter :: k = kind(b))
   is a forward reference in the written text and the second write re-orders the variables.
   PROVED (_partial): the statement under [no_forward_refs l = true]. *)
From Coq Require Import List Permutation String.
Import ListNotations.
From PV Require Import C03.Names C03.Decls C03.OrderProofs C03.DeclProofs C03.FlattenProofs C03.RoundTrip.
Open Scope list_scope.

(* order_perm: no declaration lost or duplicated by the writer *)
Theorem C03_order_perm : forall t l, gen_decls t = Some l -> Permutation l (filter declarable t).
Proof. exact gen_decls_perm. Qed.
Print Assumptions C03_order_perm.

(* order_valid: in the written constants, every constant comes after the local constants among
   the inputs _gen_parameter_decls computed for it (also when the sort had to re-order) *)
Theorem C03_order_valid : forall cs o l1 c l2, order_consts cs = Some o -> o = l1 ++ c :: l2 ->
   forall d, In d (s_deps c) -> In d (ids cs) -> In d (ids l1).
Proof. exact order_consts_deps_first. Qed.
Print Assumptions C03_order_valid.

(* the dependency pick is the identity on its own output (idempotent on an already valid order) *)
Theorem C03_order_consts_idempotent : forall cs o, order_consts cs = Some o -> order_consts o = Some o.
Proof. exact order_consts_idem. Qed.
Print Assumptions C03_order_consts_idempotent.

(* ... and so is the whole declaration writer, on any table for which it does not fail *)
Theorem C03_gen_decls_idempotent : forall t l, gen_decls t = Some l -> gen_decls l = Some l.
Proof. exact gen_decls_idem. Qed.
Print Assumptions C03_gen_decls_idempotent.

(* decl_order_idempotent, provable part *)
Theorem C03_decl_order_idempotent_partial : forall t l,
    NoDup (ids t) -> gen_decls t = Some l -> no_forward_refs l = true -> gen_decls (reread l) = Some l.
Proof. exact decl_order_idempotent_partial_. Qed.
Print Assumptions C03_decl_order_idempotent_partial.

(* decl_order_idempotent is false of the faithful model (replayed on the implementation by
   props/C03/check.py, known finding gen_decls/constant-mentions-later-variable) *)
Theorem C03_decl_order_idempotent_refuted :
  exists t l l', NoDup (ids t) /\ gen_decls t = Some l /\ gen_decls (reread l) = Some l' /\ l <> l'
                 /\ ids l = [2; 0; 1] /\ ids l' = [2; 1; 0].
Proof. exact decl_order_idempotent_refuted_. Qed.
Print Assumptions C03_decl_order_idempotent_refuted.

(* no declaration lost or duplicated by re-reading (same side condition) *)
Theorem C03_reread_no_loss_partial : forall l, NoDup (ids l) -> no_forward_refs l = true -> Permutation (reread l) l.
Proof. exact reread_perm_partial_. Qed.
Print Assumptions C03_reread_no_loss_partial.

(* scope merging: symbols keep identity and order; a renamed one gets a name different from its
   own and from every name visible in the enclosing scopes *)
Theorem C03_flatten_spec : forall outer routine inners,
    Forall2 (renamed outer) (routine ++ List.concat inners) (flatten outer routine inners).
Proof. exact flatten_spec_. Qed.
Print Assumptions C03_flatten_spec.

Theorem C03_flatten_names_unique : forall outer routine inners, NoDup (nnames (flatten outer routine inners)).
Proof. exact flatten_names_unique_. Qed.
Print Assumptions C03_flatten_names_unique.

(* scope-merge renaming is idempotent: after one flatten there are no inner scopes and no clashes,
   so the second pass renames nothing (whatever the enclosing scope then looks like) *)
Theorem C03_flatten_second_pass : forall outer outer' routine inners,
    flatten outer' (flatten outer routine inners) [] = flatten outer routine inners.
Proof. exact flatten_second_pass_. Qed.
Print Assumptions C03_flatten_second_pass.

(* merge_then_flat, provable part: merge + order, re-read, merge + order again = same declarations *)
Theorem C03_merge_then_flat_partial : forall outer outer' routine inners l,
    NoDup (ids (routine ++ List.concat inners)) ->
    write_decls outer routine inners = Some l ->
    no_forward_refs l = true ->
    write_decls outer' (reread l) [] = Some l.
Proof. exact merge_then_flat_partial_. Qed.
Print Assumptions C03_merge_then_flat_partial.

Open Scope string_scope.
Example C03_partial_nonvacuous :
  NoDup (ids sample_tbl) /\
  exists l, gen_decls sample_tbl = Some l /\ no_forward_refs l = true /\ ids l = [4; 3; 1; 2; 5; 0; 7]
            /\ ids (reread l) = [5; 4; 3; 1; 2; 0; 7].
Proof. exact partial_nonvacuous. Qed.
Print Assumptions C03_partial_nonvacuous.

Example C03_merge_then_flat_nonvacuous :
  let routine := [mkSym 0 "x" CVar [] [2; 1]; mkSym 1 "n" CConst [2] [2]; mkSym 2 "wp" CConst [] [];
                  mkSym 3 "i" CVar [] []; mkSym 4 "a" CArg [] [1]] in
  let inners := [[mkSym 5 "i" CVar [] []; mkSym 6 "n" CConst [] []]; [mkSym 7 "I" CVar [] [6]]] in
  NoDup (ids (routine ++ List.concat inners)) /\
  exists l, write_decls ["m"] routine inners = Some l /\ no_forward_refs l = true /\
            map s_name l = ["wp"; "n"; "n_1"; "a"; "x"; "i"; "i_1"; "I_2"] /\
            write_decls ["m"] (reread l) [] = Some l.
Proof. exact merge_then_flat_nonvacuous. Qed.
Print Assumptions C03_merge_then_flat_nonvacuous.

(* ---- generic interfaces (coq/C03/Iface.v): write = module-procedure line then procedure line, read =
   statement by statement with the kind of each statement *)
From PV Require Import C03.Iface.
Theorem C03_interface_roundtrip : forall i, Permutation (read_iface (write_iface i)) i.
Proof. exact interface_roundtrip_. Qed.
Print Assumptions C03_interface_roundtrip.

Theorem C03_interface_second_write_stable : forall i, write_iface (read_iface (write_iface i)) = write_iface i.
Proof. exact interface_second_write_stable_. Qed.
Print Assumptions C03_interface_second_write_stable.

Example C03_interface_nonvacuous :
  let i := [("solve_banded", PPlain); ("solve_dense", PPlain); ("solve_diag", PModule); ("solve_ident", PModule)] in
  write_iface i = [(PModule, ["solve_diag"; "solve_ident"]); (PPlain, ["solve_banded"; "solve_dense"])]
  /\ read_iface (write_iface i) = [("solve_diag", PModule); ("solve_ident", PModule); ("solve_banded", PPlain); ("solve_dense", PPlain)].
Proof. exact interface_nonvacuous. Qed.
Print Assumptions C03_interface_nonvacuous.
