(* C20 — LFRic built-ins compute their documented operations.  Property theorems only.
   Full statement: for every class in BUILTIN_MAP, under every combination of distributed memory
   and COMPUTE_ANNEXED_DOFS, serial or after OpenMP parallelisation (PARALLEL DO, or PARALLEL region + DO, reductions also with the
   run-reproducible scheme), the generated DoF loop sets
   every DoF of the documented range to the value of the user-guide formula evaluated on the
   original inputs (reductions: the documented SUM over the owned DoFs), for all field and scalar
   values, all aliasing of arguments, all layouts, all OpenMP schedules; everything else unchanged.
   Values are integers; `/`, `**`, INT, REAL are uninterpreted operators shared by code and guide
   (theorems hold for every interpretation).  Floating-point rounding is out of scope. *)
From Coq Require Import List ZArith Bool String Permutation.
Import ListNotations.
From PV Require Import C20.Model C20.Proofs C20.GenDoc C20.GenCode C20.GenObl C20.Final.
Open Scope Z_scope.

(* the index set of DO df = lo, hi, 1 *)
Theorem C20_do_loop_indices : forall lo hi x, In x (zrange lo hi) <-> lo <= x <= hi.
Proof. exact zrange_In. Qed.
Print Assumptions C20_do_loop_indices.

(* generic: a loop whose body is out(df) = rhs(df) sets exactly the visited DoFs to rhs of the
   ORIGINAL store (also in place / aliased) and leaves everything else unchanged *)
Theorem C20_pointwise_loop : forall O bind out rhs l s, NoDup l ->
  (forall df, In df l -> fdat (run_loop O bind (KAssign out rhs) l s) (bind out) df = eval O bind s df rhs) /\
  (forall f d, f <> bind out \/ ~ In d l -> fdat (run_loop O bind (KAssign out rhs) l s) f d = fdat s f d) /\
  (forall j, sval (run_loop O bind (KAssign out rhs) l s) j = sval s j) /\
  rvar (run_loop O bind (KAssign out rhs) l s) = rvar s /\ rcnt (run_loop O bind (KAssign out rhs) l s) = rcnt s /\
  lvar (run_loop O bind (KAssign out rhs) l s) = lvar s.
Proof. exact run_loop_assign. Qed.
Print Assumptions C20_pointwise_loop.

(* generic: any execution order of the iterations (hence any OpenMP schedule) gives the same store *)
Theorem C20_pointwise_any_order : forall O bind out rhs l l' s, NoDup l -> Permutation l l' ->
  store_eq (run_loop O bind (KAssign out rhs) l s) (run_loop O bind (KAssign out rhs) l' s).
Proof. exact run_loop_assign_perm. Qed.
Print Assumptions C20_pointwise_any_order.

Theorem C20_iterations_commute : forall O bind out rhs s d1 d2, d1 <> d2 ->
  store_eq (run_iter O bind (KAssign out rhs) (run_iter O bind (KAssign out rhs) s d1) d2)
           (run_iter O bind (KAssign out rhs) (run_iter O bind (KAssign out rhs) s d2) d1).
Proof. exact iterations_commute. Qed.
Print Assumptions C20_iterations_commute.

(* generic: red = red + g(df) accumulates the sum of g over the visited DoFs *)
Theorem C20_reduction_sum : forall O bind rhs g, red_free g = true ->
  (forall s df, eval O bind s df rhs = rvar s + eval O bind s df g) ->
  forall l s,
  rvar (run_loop O bind (KReduce rhs) l s) = rvar s + sum_over O bind s g l /\
  (forall f d, fdat (run_loop O bind (KReduce rhs) l s) f d = fdat s f d) /\
  (forall j, sval (run_loop O bind (KReduce rhs) l s) j = sval s j) /\
  rcnt (run_loop O bind (KReduce rhs) l s) = rcnt s.
Proof. exact run_loop_reduce. Qed.
Print Assumptions C20_reduction_sum.

Theorem C20_reduction_any_order : forall O bind g s l l', Permutation l l' ->
  sum_over O bind s g l = sum_over O bind s g l'.
Proof. exact sum_over_perm. Qed.
Print Assumptions C20_reduction_any_order.

(* OpenMP reduction(+:red): any distribution of the iterations over threads *)
Theorem C20_omp_reduction : forall O bind rhs g, red_free g = true ->
  (forall s df, eval O bind s df rhs = rvar s + eval O bind s df g) ->
  forall chunks s,
  rvar (run_omp_reduction O bind (KReduce rhs) chunks s) = rvar s + sum_over O bind s g (List.concat chunks) /\
  (forall f d, fdat (run_omp_reduction O bind (KReduce rhs) chunks s) f d = fdat s f d) /\
  (forall j, sval (run_omp_reduction O bind (KReduce rhs) chunks s) j = sval s j).
Proof. exact run_omp_reduction_sum. Qed.
Print Assumptions C20_omp_reduction.

(* REPRODUCIBLE OpenMP reductions: the array l_red(1, 1..nthreads) is zeroed, thread t accumulates its
   iterations into l_red(1,t) (body  l_red(1,th_idx) = l_red(1,th_idx) + g(df)), then the elements are
   added to the reduction variable: for ANY number of threads and ANY assignment of iterations to
   threads the result is the old value plus the sum of g over all assigned iterations *)
Theorem C20_reprod_reduction : forall O bind rhs g, red_free g = true ->
  (forall s df, eval O bind s df rhs = lvar s + eval O bind s df g) ->
  forall chunks s,
  rvar (run_reprod O bind (KReduceLocal rhs) true true chunks s) = rvar s + sum_over O bind s g (List.concat chunks) /\
  (forall f d, fdat (run_reprod O bind (KReduceLocal rhs) true true chunks s) f d = fdat s f d) /\
  (forall j, sval (run_reprod O bind (KReduceLocal rhs) true true chunks s) j = sval s j).
Proof. exact run_reprod_sum. Qed.
Print Assumptions C20_reprod_reduction.

(* the per-thread accumulation never touches the shared reduction variable *)
Theorem C20_reprod_thread_local : forall O bind rhs g, red_free g = true ->
  (forall s df, eval O bind s df rhs = lvar s + eval O bind s df g) ->
  forall l s,
  lvar (run_loop O bind (KReduceLocal rhs) l s) = lvar s + sum_over O bind s g l /\
  rvar (run_loop O bind (KReduceLocal rhs) l s) = rvar s /\
  (forall f d, fdat (run_loop O bind (KReduceLocal rhs) l s) f d = fdat s f d) /\
  (forall j, sval (run_loop O bind (KReduceLocal rhs) l s) j = sval s j) /\
  rcnt (run_loop O bind (KReduceLocal rhs) l s) = rcnt s.
Proof. exact run_loop_reduce_local. Qed.
Print Assumptions C20_reprod_thread_local.

(* setval_random: the n-th executed iteration receives the n-th number of the generator; frame *)
Theorem C20_random_loop : forall O bind out l s, NoDup l ->
  (forall i df, nth_error l i = Some df ->
      fdat (run_loop O bind (KRandom out) l s) (bind out) df = o_rand O (rcnt s + i)%nat) /\
  (forall f d, f <> bind out \/ ~ In d l -> fdat (run_loop O bind (KRandom out) l s) f d = fdat s f d) /\
  (forall j, sval (run_loop O bind (KRandom out) l s) j = sval s j) /\
  rvar (run_loop O bind (KRandom out) l s) = rvar s /\
  rcnt (run_loop O bind (KRandom out) l s) = (rcnt s + List.length l)%nat.
Proof. exact run_loop_random. Qed.
Print Assumptions C20_random_loop.

(* composition, for ANY instance/doc pair satisfying the obligations *)
Theorem C20_obligations_suffice : forall i d, instance_ok i d ->
  forall O bind L sch s, valid_schedule i d L sch ->
  doc_post O bind L (i_dm i) (i_annexed i) (d_spec d) s (run_instance O bind L i sch s).
Proof. exact instance_correct. Qed.
Print Assumptions C20_obligations_suffice.

(* THE GENERATED OBLIGATIONS: every (lowered built-in, setting) of the working tree meets its
   user-guide entry: builtin_<name>_matches_doc, dof_range_<name>_<setting>, skeleton_<name>_<setting> *)
Theorem C20_generated_obligations : Forall (fun p => instance_ok (fst p) (snd p)) GenObl.table.
Proof. exact table_ok. Qed.
Print Assumptions C20_generated_obligations.

(* the property: every built-in of the working tree, every setting, every schedule, all values *)
Theorem C20_builtins_compute_documented : forall i d, In (i, d) GenObl.table ->
  forall O bind L sch s, valid_schedule i d L sch ->
  doc_post O bind L (i_dm i) (i_annexed i) (d_spec d) s (run_instance O bind L i sch s).
Proof. exact all_builtins_correct. Qed.
Print Assumptions C20_builtins_compute_documented.

(* reductions with distributed memory: the global sum of the per-process results is the sum over
   the owned DoFs of all processes *)
Theorem C20_dm_reductions_sum_owned : forall i d g, In (i, d) GenObl.table -> d_spec d = DSum g -> i_dm i = true ->
  forall O (ranks : list rank),
  (forall r, In r ranks -> valid_schedule i d (r_lay r) (r_sched r)) ->
  i_global_sum i = true /\
  global_sum (map (fun r => rvar (run_instance O (r_bind r) (r_lay r) i (r_sched r) (r_store r))) ranks) =
  zsum (map (fun r => sum_over O (r_bind r) (r_store r) g (zrange 1 (last_owned (r_lay r)))) ranks).
Proof. exact all_dm_reductions_global. Qed.
Print Assumptions C20_dm_reductions_sum_owned.

(* nothing is left out: every class in BUILTIN_MAP appears under all four DM x annexed settings,
   serially and (where the transformations accept) with OMP PARALLEL DO and OMP PARALLEL + OMP DO; reductions also with reproducible reductions; the guide, the metadata file
   and BUILTIN_MAP list the same names *)
Theorem C20_every_builtin_every_setting : forall n, In n GenCode.builtin_names -> forall dm ann, exists i d,
  In (i, d) GenObl.table /\ i_name i = n /\ i_dm i = dm /\ i_annexed i = ann /\ i_omp i = None.
Proof. exact every_builtin_every_setting. Qed.
Print Assumptions C20_every_builtin_every_setting.

Theorem C20_every_omp_builtin_every_setting : forall n, In n GenObl.omp_builtin_names -> forall dm ann, exists i d,
  In (i, d) GenObl.table /\ i_name i = n /\ i_dm i = dm /\ i_annexed i = ann /\ omp_code i = 1%nat.
Proof. exact every_omp_builtin_every_setting. Qed.
Print Assumptions C20_every_omp_builtin_every_setting.

(* OMP DO inside an OMP PARALLEL region (Dynamo0p3OMPLoopTrans + OMPParallelTrans) *)
Theorem C20_every_region_builtin_every_setting : forall n, In n GenObl.region_builtin_names -> forall dm ann, exists i d,
  In (i, d) GenObl.table /\ i_name i = n /\ i_dm i = dm /\ i_annexed i = ann /\ omp_code i = 2%nat.
Proof. exact every_region_builtin_every_setting. Qed.
Print Assumptions C20_every_region_builtin_every_setting.

(* run-reproducible OpenMP reductions ({"reprod": True}) for every built-in that writes a scalar; and
   every built-in whose documented definition is a SUM is one of those *)
Theorem C20_every_reduction_reprod_every_setting : forall n, In n GenObl.reprod_builtin_names -> forall dm ann, exists i d,
  In (i, d) GenObl.table /\ i_name i = n /\ i_dm i = dm /\ i_annexed i = ann /\ omp_code i = 3%nat.
Proof. exact every_reduction_reprod_every_setting. Qed.
Print Assumptions C20_every_reduction_reprod_every_setting.

Theorem C20_sum_builtins_are_reductions :
  forallb (fun p => negb (is_reduction_spec (d_spec (snd p))) || existsb (String.eqb (i_name (fst p))) GenObl.reduction_builtin_names) GenObl.table = true.
Proof. exact sum_builtins_are_reductions. Qed.
Print Assumptions C20_sum_builtins_are_reductions.

Theorem C20_names_agree :
  forallb (fun n => existsb (String.eqb n) GenDoc.doc_names) GenCode.builtin_names = true /\
  forallb (fun n => existsb (String.eqb n) GenCode.builtin_names) GenDoc.doc_names = true /\
  forallb (fun n => existsb (String.eqb n) GenDoc.meta_names) GenCode.builtin_names = true /\
  forallb (fun n => existsb (String.eqb n) GenCode.builtin_names) GenDoc.meta_names = true.
Proof. exact names_agree. Qed.
Print Assumptions C20_names_agree.

(* non-vacuity: a concrete in-place, aliased run; a concrete admissible OpenMP schedule; the table is inhabited *)
Example C20_nonvacuous_inplace_aliased :
  let s' := run_instance ex_ops (fun _ => 3%nat) ex_layout ex_inc_X_plus_Y SSerial ex_store in
  map (fdat s' 3%nat) [1; 2; 7; 8; 9] = [602; 604; 614; 308; 309].
Proof. exact ex_inplace_aliased. Qed.
Print Assumptions C20_nonvacuous_inplace_aliased.

Example C20_nonvacuous_table : exists i d, In (i, d) GenObl.table /\ i_name i = "inc_X_plus_Y"%string /\ i_dm i = true /\ i_annexed i = true.
Proof. exact table_nonempty. Qed.
Print Assumptions C20_nonvacuous_table.

(* remark on the guide's prose gloss of sign_X ("a for X >= 0, -a for X < 0"): it agrees with the
   defining formula SIGN(a, X) iff a >= 0 *)
Theorem C20_sign_gloss_agrees_for_nonnegative_a : forall a x, 0 <= a -> fsign a x = if x >=? 0 then a else - a.
Proof. exact sign_gloss_agrees. Qed.
Print Assumptions C20_sign_gloss_agrees_for_nonnegative_a.

Theorem C20_sign_gloss_refuted_for_negative_a : exists a x, fsign a x <> (if x >=? 0 then a else - a).
Proof. exact sign_gloss_differs_for_negative_a. Qed.
Print Assumptions C20_sign_gloss_refuted_for_negative_a.
