(* C07 — Inlining a call preserves the caller's behaviour.  Property theorems only. *)
From Coq Require Import List ZArith Bool.
Import ListNotations.
From PV Require Import Fort.Syntax Fort.Sem Fort.Facts3 C07.Model C07.Proofs C07.Fresh C07.Refuted C07.Examples C07.Stride.
Open Scope Z_scope.

(* FULL statement (FALSE of the unchanged code — see the _refuted theorems below):
     forall c ren, accept_impl c = true -> ren_ok c ren = true ->
       forall fuel st, bind_all st (cs_formals c) (cs_actuals c) <> None ->
       obs_eq (exec fuel (inline_apply c ren) st) (exec_call fuel c ren st)
     /\ (no caller-visible name outside the actual arguments occurs in inline_apply c ren).
   Proved instead: the same under the sufficient condition [actual_indices_invariant] (no name that
   occurs in a subscript of an element actual, in the base / fixed subscript of a section actual or in
   an expression actual is assigned by the inlined body), inside the modelled fragment [in_fragment]
   (no bounds inquiry in the callee, no formal argument used as DO variable).  The premise `no_alias`
   of the design is NOT needed: on both sides formals denote locations.  Missing for the full
   statement: exactly the cases exhibited by the _refuted theorems. *)
Theorem C07_inline_sound_partial : forall c ren,
  accept_impl c = true -> in_fragment c = true -> actual_indices_invariant c ren = true ->
  forall fuel st, bind_all st (cs_formals c) (cs_actuals c) <> None ->
  obs_eq (exec fuel (inline_apply c ren) st) (exec_call fuel c ren st).
Proof. exact inline_sound_partial_. Qed.
Print Assumptions C07_inline_sound_partial.

(* inlined locals never capture (read) or clobber (write) a caller variable: under the contract of
   SymbolTable.merge ([ren_ok]), provided no local bears the name of a variable of an enclosing scope
   ([locals_disjoint_outer] — false of the unchanged code in general, see C07_inline_refuted_capture)
   and the callee does not assign a formal associated with an expression *)
Theorem C07_inline_locals_fresh_partial : forall c ren,
  accept_impl c = true -> in_fragment c = true -> ren_ok c ren = true ->
  locals_disjoint_outer c = true -> expr_formals_readonly c = true ->
  forall y, In y (cs_own c ++ cs_outer c) -> ~ In y (flat_map actual_names (cs_actuals c)) ->
  ~ In y (wnames (inline_apply c ren)) /\ ~ In y (rnames (inline_apply c ren)).
Proof. exact inline_locals_fresh_. Qed.
Print Assumptions C07_inline_locals_fresh_partial.

Theorem C07_inline_locals_no_clobber : forall c ren,
  accept_impl c = true -> in_fragment c = true -> ren_ok c ren = true ->
  locals_disjoint_outer c = true -> expr_formals_readonly c = true ->
  forall y, In y (cs_own c ++ cs_outer c) -> ~ In y (flat_map actual_names (cs_actuals c)) ->
  forall fuel st s' tr ctl ix, exec fuel (inline_apply c ren) st = Ok s' tr ctl -> val s' (y, ix) = val st (y, ix).
Proof. exact inline_locals_no_clobber. Qed.
Print Assumptions C07_inline_locals_no_clobber.

(* call s(a(i), i) with s incrementing its 2nd argument before writing its 1st *)
Theorem C07_inline_refuted_index : exists c ren st fuel,
  (accept_impl c = true /\ ren_ok c ren = true /\ locals_disjoint_outer c = true /\
   bind_all st (cs_formals c) (cs_actuals c) <> None /\
   ~ obs_eq (exec fuel (inline_apply c ren) st) (exec_call fuel c ren st)) /\ in_fragment c = true.
Proof. exact inline_refuted_index_. Qed.
Print Assumptions C07_inline_refuted_index.

(* call s(i + 1, i, t): the expression actual is re-evaluated after the callee changed i *)
Theorem C07_inline_refuted_expr : exists c ren st fuel,
  (accept_impl c = true /\ ren_ok c ren = true /\ locals_disjoint_outer c = true /\
   bind_all st (cs_formals c) (cs_actuals c) <> None /\
   ~ obs_eq (exec fuel (inline_apply c ren) st) (exec_call fuel c ren st)) /\ in_fragment c = true.
Proof. exact inline_refuted_expr_. Qed.
Print Assumptions C07_inline_refuted_expr.

(* call s(a(i:), i): the section base is re-evaluated *)
Theorem C07_inline_refuted_section : exists c ren st fuel,
  (accept_impl c = true /\ ren_ok c ren = true /\ locals_disjoint_outer c = true /\
   bind_all st (cs_formals c) (cs_actuals c) <> None /\
   ~ obs_eq (exec fuel (inline_apply c ren) st) (exec_call fuel c ren st)) /\ in_fragment c = true.
Proof. exact inline_refuted_section_. Qed.
Print Assumptions C07_inline_refuted_section.

(* a formal used as DO variable is not substituted (outside in_fragment, inside accept_impl) *)
Theorem C07_inline_refuted_loopvar : exists c ren st fuel,
  (accept_impl c = true /\ ren_ok c ren = true /\ locals_disjoint_outer c = true /\
   bind_all st (cs_formals c) (cs_actuals c) <> None /\
   ~ obs_eq (exec fuel (inline_apply c ren) st) (exec_call fuel c ren st)) /\
  actual_indices_invariant c ren = true.
Proof. exact inline_refuted_loopvar_. Qed.
Print Assumptions C07_inline_refuted_loopvar.

(* a local named like a module variable keeps its name and the inlined code assigns that variable *)
Theorem C07_inline_refuted_capture : exists c ren st fuel y,
  accept_impl c = true /\ in_fragment c = true /\ ren_ok c ren = true /\
  In y (cs_outer c) /\ In y (wnames (inline_apply c ren)) /\
  exists s' tr, exec fuel (inline_apply c ren) st = Ok s' tr CNormal /\ val s' (y, []) <> val st (y, []).
Proof. exact inline_refuted_capture_. Qed.
Print Assumptions C07_inline_refuted_capture.

(* non-vacuity of the partial theorems: one call site satisfying all their hypotheses *)
Example C07_nonvacuous :
  accept_impl c_ok = true /\ in_fragment c_ok = true /\ actual_indices_invariant c_ok ren_okx = true /\
  ren_ok c_ok ren_okx = true /\ locals_disjoint_outer c_ok = true /\ expr_formals_readonly c_ok = true /\
  bind_all st_ok (cs_formals c_ok) (cs_actuals c_ok) <> None /\
  inline_apply c_ok ren_okx =
    [SAssign 7%nat [] (ELit 2); SAssign 4%nat [] (EBin Add (EVar 4%nat) (EVar 7%nat));
     SAssign 2%nat [EBin Add (EBin Sub (EVar 7%nat) (ELit 0)) (ELit 1)] (EVar 4%nat)] /\
  (exists s' tr, exec 9 (inline_apply c_ok ren_okx) st_ok = Ok s' tr CNormal /\
                 val s' (2%nat, [3]) = 12 /\ val s' (4%nat, []) = 12 /\ val s' (5%nat, []) = 99) /\
  In 5%nat (cs_own c_ok ++ cs_outer c_ok) /\ ~ In 5%nat (flat_map actual_names (cs_actuals c_ok)).
Proof. exact sound_nonvacuous. Qed.
Print Assumptions C07_nonvacuous.

(* ---- section actuals a(lo:hi:st): by-reference meaning (coq/C07/Stride.v) ----
   exec_call_strided re-indexes the callee's accesses to the formal and runs exec_call on the contiguous
   view; the location reached by x(k) is a(lo + (k - lb) * st), lo and st taken at the call: *)
Theorem C07_strided_view_index : forall st k kv v s lb,
  eval st k = Some kv ->
  map (eval st) (merge_sem [SOff (v - lb)] [restride_idx lb s k]) = [Some (sec_index v s lb kv)].
Proof. exact strided_view_index. Qed.
Print Assumptions C07_strided_view_index.

(* unit stride: the index shifting of inline_apply is exactly that mapping (partial: same sufficient
   condition as C07_inline_sound_partial; the full statement fails for the same reasons) *)
Theorem C07_section_unit_stride_sound_partial : forall c ren ss,
  accept_impl c = true -> in_fragment c = true -> actual_indices_invariant c ren = true ->
  forall fuel st, eval st (ss_stride ss) = Some 1 ->
  bind_all st (cs_formals c) (cs_actuals c) <> None ->
  obs_eq (exec fuel (inline_apply c ren) st) (exec_call_strided fuel c ss ren st).
Proof. exact section_unit_stride_sound_. Qed.
Print Assumptions C07_section_unit_stride_sound_partial.

(* non-unit stride (variable n = 2; literal -1): the contiguous mapping apply() would use is not the call,
   and accept_impl refuses every section whose stride is not the literal 1 (literal 2, variable, negated,
   expression) *)
Theorem C07_nonunit_stride_must_be_refused :
  (forall f a dims, snd f <> [] -> arg_ok f (AArr a dims false) = false) /\
  (stride_unit (ELit 2) = false /\ stride_unit (EVar 3%nat) = false /\ stride_unit (EUn Neg (ELit 1)) = false /\
   stride_unit (EUn Neg (EVar 3%nat)) = false /\ stride_unit (EBin Add (EVar 3%nat) (ELit 0)) = false /\
   stride_unit (ELit 1) = true) /\
  accept_impl c_stride_var = false /\ accept_impl c_stride_rev = false /\
  ~ obs_eq (exec 20 (inline_apply c_stride_var ren_k) st_n2) (exec_call_strided 20 c_stride_var ss_var ren_k st_n2) /\
  ~ obs_eq (exec 20 (inline_apply c_stride_rev ren_k) st_n2) (exec_call_strided 20 c_stride_rev ss_rev ren_k st_n2) /\
  (exists s' tr, exec_call_strided 20 c_stride_var ss_var ren_k st_n2 = Ok s' tr CNormal /\
     val s' (2%nat, [1]) = 11 /\ val s' (2%nat, [3]) = 12 /\ val s' (2%nat, [5]) = 13 /\ val s' (2%nat, [2]) = 0) /\
  (exists s' tr, exec_call_strided 20 c_stride_rev ss_rev ren_k st_n2 = Ok s' tr CNormal /\
     val s' (2%nat, [8]) = 11 /\ val s' (2%nat, [7]) = 12 /\ val s' (2%nat, [6]) = 13 /\ val s' (2%nat, [9]) = 0).
Proof. exact nonunit_stride_must_be_refused_. Qed.
Print Assumptions C07_nonunit_stride_must_be_refused.

Example C07_section_unit_nonvacuous :
  accept_impl c_stride_one = true /\ in_fragment c_stride_one = true /\
  actual_indices_invariant c_stride_one ren_k = true /\ eval st_n2 (ss_stride ss_one) = Some 1 /\
  bind_all st_n2 (cs_formals c_stride_one) (cs_actuals c_stride_one) <> None /\
  inline_apply c_stride_one ren_k =
    [SDo 5%nat (ELit 1) (ELit 3) (ELit 1)
       [SAssign 2%nat [EBin Add (EBin Sub (EVar 5%nat) (ELit 1)) (EVar 3%nat)] (EBin Add (ELit 10) (EVar 5%nat))]] /\
  (exists s' tr, exec_call_strided 20 c_stride_one ss_one ren_k st_n2 = Ok s' tr CNormal /\
     val s' (2%nat, [2]) = 11 /\ val s' (2%nat, [3]) = 12 /\ val s' (2%nat, [4]) = 13 /\
     val s' (2%nat, [sec_index 2 1 1 3]) = 13).
Proof. exact section_unit_nonvacuous. Qed.
Print Assumptions C07_section_unit_nonvacuous.
