(* C04 -- Generated code declares every entity it uses, in a valid order.  Property theorems only.
   Model: coq/C03/Decls.v (shared with C03); spec [decl_valid]: every declared symbol is declared
   once and every locally declared symbol a declaration mentions is declared before it.

   FULL STATEMENT (false of the faithful model, three refutations below):
     forall t l, NoDup (ids t) -> decl_valid-arrangeable t -> gen_decls t = Some l -> decl_valid l = true
   PROVED (_partial): under the sufficient condition [safe t] (C04/Valid.v). *)
From Coq Require Import List Permutation String.
Import ListNotations.
From PV Require Import C03.Names C03.Decls C03.OrderProofs C03.DeclProofs C03.FlattenProofs C03.RoundTrip C04.Valid C04.CodeBlocks.
Open Scope list_scope.

(* decls_complete: every declarable symbol of the table is emitted exactly once ... *)
Theorem C04_decls_complete : forall t l, gen_decls t = Some l -> Permutation l (filter declarable t).
Proof. exact gen_decls_perm. Qed.
Print Assumptions C04_decls_complete.

(* ... and, for a routine written after merging its scopes, under pairwise different names *)
Theorem C04_written_names_unique : forall outer routine inners l,
    write_decls outer routine inners = Some l -> NoDup (nnames l).
Proof. exact written_names_unique_. Qed.
Print Assumptions C04_written_names_unique.

(* decls_ordered, provable part *)
Theorem C04_decls_ordered_partial : forall t l,
    NoDup (ids t) -> gen_decls t = Some l -> safe t -> decl_valid l = true.
Proof. exact decls_ordered_partial_. Qed.
Print Assumptions C04_decls_ordered_partial.

(* acyclic dependencies among the constants (some valid arrangement exists): the writer does not
   raise, whatever the table order *)
Theorem C04_sort_succeeds_when_satisfiable : forall cs v,
    Permutation v cs -> cvalid (ids cs) [] v = true -> exists o, order_consts cs = Some o.
Proof. exact order_consts_complete. Qed.
Print Assumptions C04_sort_succeeds_when_satisfiable.

Theorem C04_decls_ordered_acyclic_partial : forall t v,
    NoDup (ids t) -> Permutation v (sect CConst t) -> cvalid (ids (sect CConst t)) [] v = true -> safe t ->
    exists l, gen_decls t = Some l /\ decl_valid l = true.
Proof. exact decls_ordered_acyclic_. Qed.
Print Assumptions C04_decls_ordered_acyclic_partial.

(* decls_ordered is false of the faithful model; all three witnesses are replayed on the
   implementation + gfortran by props/C04/check.py *)
Theorem C04_decls_ordered_refuted_const_var :
  exists t l, NoDup (ids t) /\ decl_valid t = true /\ gen_decls t = Some l /\ decl_valid l = false.
Proof. exact decls_ordered_refuted_const_var_. Qed.
Print Assumptions C04_decls_ordered_refuted_const_var.

Theorem C04_decls_ordered_refuted_arg_type :
  exists t l, NoDup (ids t) /\ decl_valid t = true /\ gen_decls t = Some l /\ decl_valid l = false.
Proof. exact decls_ordered_refuted_arg_type_. Qed.
Print Assumptions C04_decls_ordered_refuted_arg_type.

Theorem C04_decls_ordered_refuted_shape :
  exists t l, NoDup (ids t) /\ gen_decls t = Some l /\ decl_valid l = false /\ ids l = [1; 2; 0]
              /\ exists v, Permutation v t /\ decl_valid v = true.
Proof. exact decls_ordered_refuted_shape_. Qed.
Print Assumptions C04_decls_ordered_refuted_shape.

(* merge_no_capture: merging keeps every symbol (identity, order, category, dependencies); a clashing
   symbol gets a name different from its old one and from every name of the enclosing scopes, and
   afterwards all names are pairwise different -- a reference, which points at a symbol object and
   is written with that object's final name, resolves to that object only *)
Theorem C04_merge_no_capture : forall outer routine inners,
    Forall2 (renamed outer) (routine ++ List.concat inners) (flatten outer routine inners)
    /\ NoDup (nnames (flatten outer routine inners)).
Proof. intros. split; [apply flatten_spec_ | apply flatten_names_unique_]. Qed.
Print Assumptions C04_merge_no_capture.

(* merge_no_capture for references that are TEXT (names inside CodeBlocks): scopes carry the normalised
   names their CodeBlocks mention; rename_symbol refuses to rename such a symbol (the merge then raises:
   flatten_cb = None).  When the merge succeeds: routine-scope symbols are untouched, a symbol named in a
   CodeBlock of its scope keeps its name, and all names of the flat table differ. *)
Theorem C04_merge_no_capture_codeblocks : forall outer routine inners f,
    NoDup (nnames routine) ->
    flatten_cb outer routine inners = Some f ->
    exists xs, f = routine ++ List.concat xs /\
               Forall2 (fun ct x => Forall2 (keeps outer (fst ct)) (snd ct) x) inners xs /\
               NoDup (nnames f).
Proof. exact merge_no_capture_codeblocks_. Qed.
Print Assumptions C04_merge_no_capture_codeblocks.

(* ... hence a name denotes exactly one symbol of the flat routine *)
Theorem C04_unique_resolution : forall f s s', NoDup (nnames f) -> In s f -> In s' f ->
    normalize (s_name s) = normalize (s_name s') -> s = s'.
Proof. exact unique_resolution. Qed.
Print Assumptions C04_unique_resolution.

Open Scope string_scope.
(* the guard is what prevents capture: the guarded merge refuses, the unguarded one renames the inner
   tmp that the CodeBlock of its scope spells TMP, leaving the text to the routine-scope tmp *)
Example C04_codeblock_guard_refuses :
  flatten_cb [] [mkSym 0 "tmp" CVar [] []] [(["tmp"], [mkSym 1 "tmp" CVar [] []])] = None
  /\ map s_name (flatten [] [mkSym 0 "tmp" CVar [] []] [[mkSym 1 "tmp" CVar [] []]]) = ["tmp"; "tmp_1"].
Proof. exact guard_refuses. Qed.
Print Assumptions C04_codeblock_guard_refuses.

Example C04_codeblock_guard_nonvacuous :
  option_map (map s_name)
    (flatten_cb ["m"] [mkSym 0 "tmp" CVar [] []; mkSym 1 "val" CVar [] []]
                [(["acc"], [mkSym 2 "VAL" CVar [] []; mkSym 3 "acc" CVar [] []]); (["val"], [mkSym 4 "Tmp" CVar [] []])])
  = Some ["tmp"; "val"; "VAL_1"; "acc"; "Tmp_1"].
Proof. exact guard_nonvacuous. Qed.
Print Assumptions C04_codeblock_guard_nonvacuous.

Example C04_safe_nonvacuous :
  let t := [ mkSym 0 "x" CVar [] [3; 5]; mkSym 1 "n2" CConst [3] [3]; mkSym 2 "arg" CArg [] [3];
             mkSym 3 "n" CConst [4] [4]; mkSym 4 "wp" CConst [] []; mkSym 5 "tt" CType [] [4];
             mkSym 6 "mod1" CSkip [] []; mkSym 7 "y" CVar [] [1; 0]; mkSym 8 "m" CArg [] []; mkSym 9 "b" CArg [] [8] ] in
  NoDup (ids t) /\ safe t /\ exists l, gen_decls t = Some l /\ ids l = [4; 3; 1; 2; 8; 9; 5; 0; 7] /\ decl_valid l = true.
Proof. exact safe_nonvacuous. Qed.
Print Assumptions C04_safe_nonvacuous.

Example C04_merge_nonvacuous :
  map s_name (flatten ["modvar"; "i_2"]
                      [mkSym 0 "i" CVar [] []; mkSym 1 "i_1" CVar [] []]
                      [[mkSym 2 "I" CVar [] []; mkSym 3 "j" CVar [] []]; [mkSym 4 "i" CVar [] []; mkSym 5 "modvar" CVar [] []]])
  = ["i"; "i_1"; "I_3"; "j"; "i_4"; "modvar"].
Proof. exact flatten_nonvacuous. Qed.
Print Assumptions C04_merge_nonvacuous.

(* ---- inputs of a constant spelled out per feature (coq/C04/ArrayKind.v): the kind of an ARRAY-valued
   parameter is an input of the dependency sort (its bounds and inquiry arguments are not) *)
From PV Require Import C04.ArrayKind.
Open Scope list_scope.
Theorem C04_const_after_inputs : forall t l c d,
    gen_decls t = Some l -> In c (sect CConst t) -> In d (s_deps c) -> In d (ids (sect CConst t)) ->
    exists l1 l2, l = l1 ++ c :: l2 /\ In d (ids l1).
Proof. exact const_after_inputs_. Qed.
Print Assumptions C04_const_after_inputs.

Theorem C04_array_constant_after_kind : forall t l id name c k,
    gen_decls t = Some l -> ci_array c = true -> ci_kind c = Some k ->
    In (mk_const id name c) t -> In k (ids (sect CConst t)) ->
    exists l1 l2, l = l1 ++ mk_const id name c :: l2 /\ In k (ids l1).
Proof. exact array_constant_after_kind_. Qed.
Print Assumptions C04_array_constant_after_kind.

Example C04_array_kind_nonvacuous :
  let arr := mk_const 0 "arr" (mkCinfo true (Some 2) [] [] [2] []) in
  let t := [arr; mkSym 1 "x" CVar [] [2]; mkSym 2 "wp" CConst [] []] in
  In arr t /\ In 2 (ids (sect CConst t)) /\ option_map ids (gen_decls t) = Some [2; 0; 1].
Proof. exact array_kind_nonvacuous. Qed.
Print Assumptions C04_array_kind_nonvacuous.
