(* C06 — Array-syntax and intrinsic lowering preserve semantics.  Property theorems only.

   FULL statement (false of the unchanged code, see the *_refuted theorems):
     for every transformation T of {ArrayAssignment2Loops, Abs/Sign/Min/Max2Code, Sum/Product/Minval/Maxval2Loop,
     DotProduct2Code, Matmul2Code}, every target t accepted by T and every store s in which the original
     statement executes:  exec (T.apply t) s  ends in the store of the original statement, up to the symbols
     created by T.
   The models take a parameter fx : fixes saying which repairs of props/C06/fix.patch are present in the
   tree under test (probed on every run); `unfixed` is the code as found.  The `_partial` theorems hold for
   every fx; the `_refuted` theorems are about `unfixed`.
   What is proved: the full statement for ABS/SIGN/MIN/MAX (new symbols fresh); for the others the
   `_partial` theorems under a sufficient, decidable `*_safe` condition on the faithful model's input, and
   `_refuted` witnesses (accepted by the model exactly as by the implementation) where `*_safe` fails.
   Missing for the full statement: refusal (or a correct lowering) of
     - a lhs array read on the rhs through another section / element (forward-loop smearing),
     - ranges whose strides differ, same-array ranges of different dimensions at their lower bounds,
     - `x(..) = RED(.. x ..)` (result accumulated in a temporary and never stored),
     - DOT_PRODUCT / MATMUL operands whose declared lower bounds differ.
   Values are integers (exactly representable reals; no signed zero, NaN or rounding); executions that
   fault are outside the statements; array sections of one statement are conformable (extents are taken
   from the lhs / first operand). *)
From Coq Require Import List ZArith Bool.
Import ListNotations.
From PV Require Import Fort.Syntax Fort.Sem Fort.Facts C06.Syntax C06.Model C06.Common
                       C06.ArrayAssignProofs C06.IntrinsicProofs C06.ReductionProofs C06.LinAlgProofs
                       C06.Bounds C06.MatMatProofs C06.MatVecFProofs C06.ArrayAssign2D C06.ArrayAssign2DProofs C06.DotFProofs.
Open Scope Z_scope.

(* ------------------------------------------------------------------ ArrayAssignment2LoopsTrans *)
(* for ALL bounds, strides and contents: the loop computes the Fortran array assignment (whole rhs
   evaluated first) up to the loop variable, when the lhs array is read only through the written section *)
Theorem C06_arrayassign_sound_partial : forall fx d idx a s s' f,
  aa_safe fx d idx a = true -> bnd_ok d s -> aa_sem a s = Some s' ->
  exists prog, aa_apply fx d idx a = Some prog /\
  exists s2 tr, exec (3 + f) prog s = Ok s2 tr CNormal /\ agree_except [idx] s2 s'.
Proof. exact aa_sound_partial_. Qed.
Print Assumptions C06_arrayassign_sound_partial.

(* a(2:10) = a(1:9) is accepted and becomes a forward loop that smears a(1) *)
Theorem C06_arrayassign_refuted :
  exists d idx a s s' prog s2 tr,
    aa_accept a = true /\ bnd_ok d s /\ aa_sem a s = Some s' /\ aa_apply unfixed d idx a = Some prog /\
    exec 10 prog s = Ok s2 tr CNormal /\ val s2 (aa_arr a, [3]) <> val s' (aa_arr a, [3]).
Proof. exact aa_refuted_. Qed.
Print Assumptions C06_arrayassign_refuted.

Example C06_arrayassign_nonvacuous :
  aa_safe unfixed ex_decls 2%nat ex_safe = true /\ bnd_ok ex_decls ex_store /\
  (exists s', aa_sem ex_safe ex_store = Some s' /\ val s' (0%nat, [2]) = 24).
Proof. exact aa_safe_nonvacuous. Qed.
Print Assumptions C06_arrayassign_nonvacuous.

(* ------------------------------------------------------------------ ABS / SIGN / MIN / MAX *)
Theorem C06_abs_ok : forall res tmp X s v,
  res <> tmp -> eval s X = Some v ->
  hoare 5 (abs_code res tmp X) s
        (fun s' => Some (val s' (res, [])) = eval s (EIntr IAbs [X]) /\ agree_except [res; tmp] s' s).
Proof. exact abs_ok_. Qed.
Print Assumptions C06_abs_ok.

Theorem C06_sign_ok : forall res tmp res_abs tmp_abs A B s a b,
  NoDup [res; tmp; res_abs; tmp_abs] -> eval s A = Some a -> eval s B = Some b ->
  (forall x, In x [res; tmp; res_abs; tmp_abs] -> mentions x B = false) ->
  hoare 12 (sign_code res tmp res_abs tmp_abs A B) s
        (fun s' => Some (val s' (res, [])) = eval s (EIntr ISign [A; B]) /\
                   agree_except [res; tmp; res_abs; tmp_abs] s' s).
Proof. exact sign_ok_. Qed.
Print Assumptions C06_sign_ok.

(* any number of arguments; cmp = Lt is MIN, cmp = Gt is MAX *)
Theorem C06_minmax_ok : forall cmp res tmp A rest s,
  (cmp = Lt \/ cmp = Gt) -> res <> tmp ->
  (exists v, eval s (EIntr (match cmp with Lt => IMin | _ => IMax end) (A :: rest)) = Some v) ->
  (forall x B, In x [res; tmp] -> In B rest -> mentions x B = false) ->
  hoare (3 + 5 * length rest) (minmax_code cmp res tmp (A :: rest)) s
        (fun s' => Some (val s' (res, [])) = eval s (EIntr (match cmp with Lt => IMin | _ => IMax end) (A :: rest)) /\
                   agree_except [res; tmp] s' s).
Proof. exact minmax_ok_. Qed.
Print Assumptions C06_minmax_ok.

(* the whole rewritten assignment (call at any position p of the rhs), all four intrinsics: FULL *)
Theorem C06_intrinsic_stmt_sound : forall k names x ix e p code s vs v,
  intr_apply k names x ix e p = Some code ->
  NoDup names -> ~ In x names ->
  (forall y, In y names -> mentions y e = false) ->
  (forall y i, In y names -> In i ix -> mentions y i = false) ->
  opt_all (map (eval s) ix) = Some vs -> eval s e = Some v ->
  exists N, hoare N code s (fun s2 => agree_except names s2 (upd s (x, vs) v)).
Proof. exact intr_sound_. Qed.
Print Assumptions C06_intrinsic_stmt_sound.

Example C06_intrinsic_nonvacuous :
  let e := EBin Sub (EBin Mul (ELit 2) (EIntr IMax [EVar 1%nat; ELit 3; EVar 2%nat])) (EVar 1%nat) in
  let s := store_of [((1%nat, []), 1); ((2%nat, []), 7)] [] in
  exists code, intr_apply KMax [3%nat; 4%nat] 0%nat [] e [0%nat; 1%nat] = Some code /\
  eval s e = Some 13 /\ (exists s2 tr, exec 30 code s = Ok s2 tr CNormal /\ val s2 (0%nat, []) = 13).
Proof. exact intr_sound_nonvacuous. Qed.
Print Assumptions C06_intrinsic_nonvacuous.

(* ------------------------------------------------------------------ SUM / PRODUCT / MINVAL / MAXVAL *)
(* the generated loop leaves the Fortran value of the reduction in x(xi): every extent (also empty),
   every mask, every kind; MINVAL/MAXVAL need the elements bounded by HUGE *)
Theorem C06_reduction_ok : forall fx d idx x xi k arr mask code s xv v,
  red_loop fx d idx x xi k arr mask = Some code ->
  red_safe fx d idx x xi arr mask = true -> bnd_ok d s ->
  opt_all (map (eval s) xi) = Some xv ->
  red_sem k arr mask s = Some v ->
  (forall l h t all, red_elems s arr mask (zseq 0 (trip_count l h t)) = Some all ->
                     Forall (fun w => - HUGE <= w <= HUGE) all) ->
  hoare 6 code s (fun s' => val s' (x, xv) = v /\ bnd s' = bnd s /\
                            forall loc, fst loc <> idx -> loc <> (x, xv) -> val s' loc = val s loc).
Proof. exact reduction_ok_. Qed.
Print Assumptions C06_reduction_ok.

(* the whole statement x(xi) = C[RED(arr, mask)] *)
Theorem C06_reduction_sound_partial : forall fx d idx tmp hole x xi k arr mask ctx code s s',
  red_apply fx d idx tmp x xi k arr mask ctx hole = Some code ->
  red_stmt_safe fx d idx tmp hole x xi arr mask ctx = true -> bnd_ok d s ->
  red_stmt_sem k x xi arr mask ctx hole s = Some s' ->
  (forall l h t all, red_elems s arr mask (zseq 0 (trip_count l h t)) = Some all ->
                     Forall (fun w => - HUGE <= w <= HUGE) all) ->
  exists N, hoare N code s (fun s2 => agree_except [idx; tmp; hole] s2 s').
Proof. exact reduction_sound_partial_. Qed.
Print Assumptions C06_reduction_sound_partial.

(* a(1) = SUM(a(1:4)) is accepted; the sum goes to a temporary and a(1) is never assigned *)
Theorem C06_reduction_refuted :
  exists d idx tmp hole x xi k arr mask code s s' s2 tr,
    red_apply unfixed d idx tmp x xi k arr mask None hole = Some code /\ bnd_ok d s /\
    red_stmt_sem k x xi arr mask None hole s = Some s' /\
    exec 20 code s = Ok s2 tr CNormal /\ val s2 (x, [1]) <> val s' (x, [1]).
Proof. exact reduction_refuted_. Qed.
Print Assumptions C06_reduction_refuted.

Example C06_reduction_nonvacuous :
  let ctx := Some (EBin Sub (EVar 5%nat) (EVar 4%nat)) in
  red_stmt_safe unfixed rx_decls 2%nat 3%nat 4%nat 1%nat [] rx_arr rx_mask ctx = true /\ bnd_ok rx_decls rx_store /\
  (exists code, red_apply unfixed rx_decls 2%nat 3%nat 1%nat [] RMaxval rx_arr rx_mask ctx 4%nat = Some code) /\
  (exists s', red_stmt_sem RMaxval 1%nat [] rx_arr rx_mask ctx 4%nat rx_store = Some s' /\ val s' (1%nat, []) = 5).
Proof. exact reduction_nonvacuous. Qed.
Print Assumptions C06_reduction_nonvacuous.

(* ------------------------------------------------------------------ DOT_PRODUCT *)
Theorem C06_dot_sound_partial : forall d i res hole x xi ctx v1 r1 v2 r2 s v xv w,
  dot_safe d i res hole x xi ctx v1 r1 v2 r2 = true ->
  dot_sem d v1 r1 v2 r2 s = Some v ->
  opt_all (map (eval s) xi) = Some xv -> eval (upd s (hole, []) v) ctx = Some w ->
  hoare 8 (dot_apply d i res x xi ctx hole v1 r1 v2 r2) s
        (fun s2 => agree_except [i; res; hole] s2 (upd s (x, xv) w)).
Proof. exact dot_sound_partial_. Qed.
Print Assumptions C06_dot_sound_partial.

(* v1(1:2), v2(0:1): both are indexed with the loop variable of v1 *)
Theorem C06_dot_refuted :
  exists d i res hole x v1 v2 s v s2 tr,
    dot_sem d v1 [] v2 [] s = Some v /\
    exec 20 (dot_apply d i res x [] (EVar hole) hole v1 [] v2 []) s = Ok s2 tr CNormal /\ val s2 (x, []) <> v.
Proof. exact dot_refuted_. Qed.
Print Assumptions C06_dot_refuted.

Example C06_dot_nonvacuous :
  let d : decls := fun n => match n with O => [(2, 3)] | S O => [(2, 3)] | _ => [] end in
  let s := store_of [((0%nat, [2]), 2); ((0%nat, [3]), 3); ((1%nat, [2]), 5); ((1%nat, [3]), 7)] [] in
  dot_safe d 3%nat 4%nat 5%nat 2%nat [] (EBin Add (EVar 5%nat) (ELit 1)) 0%nat [] 1%nat [] = true /\
  dot_sem d 0%nat [] 1%nat [] s = Some 31.
Proof. exact dot_safe_nonvacuous. Qed.
Print Assumptions C06_dot_nonvacuous.

(* ------------------------------------------------------------------ MATMUL (matrix * vector) *)
Theorem C06_matvec_sound_partial : forall d i j r m v s,
  matvec_safe d i j r m v = true ->
  hoare 7 (matvec_apply d i j r m v) s (fun s2 => agree_except [i; j] s2 (matvec_sem d r m v s)).
Proof. exact matvec_sound_partial_. Qed.
Print Assumptions C06_matvec_sound_partial.

Theorem C06_matvec_refuted :
  exists d i j r m v s s2 tr,
    matvec_accept r m v = true /\
    exec 20 (matvec_apply d i j r m v) s = Ok s2 tr CNormal /\
    val s2 (r, [0]) <> val (matvec_sem d r m v s) (r, [0]).
Proof. exact matvec_refuted_. Qed.
Print Assumptions C06_matvec_refuted.

Example C06_matvec_nonvacuous :
  let d : decls := fun n => match n with O => [(2, 3)] | S O => [(2, 3); (0, 1)] | S (S O) => [(0, 1)] | _ => [] end in
  let s := store_of [((1%nat, [2; 0]), 1); ((1%nat, [2; 1]), 2); ((1%nat, [3; 0]), 3); ((1%nat, [3; 1]), 4);
                     ((2%nat, [0]), 5); ((2%nat, [1]), 6)] [] in
  matvec_safe d 3%nat 4%nat 0%nat 1%nat 2%nat = true /\
  val (matvec_sem d 0%nat 1%nat 2%nat s) (0%nat, [3]) = 39.
Proof. exact matvec_safe_nonvacuous. Qed.
Print Assumptions C06_matvec_nonvacuous.

(* ------------------------------------------------------------------ dummy arguments: effective bounds (round 3) *)
(* bounds seen inside the routine as a function of the declaration form and the actual argument's bounds *)
Theorem C06_effective_bounds : forall f act,
  match f with
  | DExplicit lb ub => eff_dim f act = (lb, ub)
  | DAssumedLb lb => fst (eff_dim f act) = lb /\ zextent (eff_dim f act) = zextent act
  | DAssumed => fst (eff_dim f act) = 1 /\ zextent (eff_dim f act) = zextent act
  | DDeferred => eff_dim f act = act
  end.
Proof. exact eff_dim_spec. Qed.
Print Assumptions C06_effective_bounds.

(* the bound expressions generated by matmul2code's _get_array_bound evaluate to the effective bounds *)
Theorem C06_bound_exprs_effective : forall fm d s a k b,
  bnd s a = d a -> nth_error (d a) k = Some b ->
  (forall f, nth_error (fm a) k = Some f -> form_ok f b) ->
  eval s (fst (mbound fm a k)) = Some (fst b) /\ eval s (snd (mbound fm a k)) = Some (snd b).
Proof. exact mbound_eval. Qed.
Print Assumptions C06_bound_exprs_effective.

(* the array-assignment theorem over the effective bounds of (assumed-shape) dummies *)
Theorem C06_arrayassign_effective_partial : forall fx fm actuals idx a s s' f,
  aa_safe fx (eff_decls fm actuals) idx a = true -> bnd_ok (eff_decls fm actuals) s -> aa_sem a s = Some s' ->
  exists prog, aa_apply fx (eff_decls fm actuals) idx a = Some prog /\
  exists s2 tr, exec (3 + f) prog s = Ok s2 tr CNormal /\ agree_except [idx] s2 s'.
Proof. intros fx fm actuals. exact (aa_sound_partial_ fx (eff_decls fm actuals)). Qed.
Print Assumptions C06_arrayassign_effective_partial.

(* ------------------------------------------------------------------ MATMUL (matrix * matrix), any declaration form *)
(* triple loop; non-square; bounds are the form-dependent expressions; correct when the lower bounds that the
   loops identify are equal (result/m1 rows, result/m2 columns, m1 columns/m2 rows) *)
Theorem C06_matmat_sound_partial : forall fm d i j ii r m1 m2 s,
  matmat_safe d i j ii r m1 m2 = true -> operands_ok fm d s [m1; m2] ->
  hoare 7 (matmat_apply fm i j ii r m1 m2) s (fun s2 => agree_except [i; j; ii] s2 (matmat_sem d r m1 m2 s)).
Proof. exact matmat_sound_partial_. Qed.
Print Assumptions C06_matmat_sound_partial.

(* r(0:1,0:3) = MATMUL(m1(0:1,0:2), m2(0:,0:)) with a 3x4 actual argument b(5:7,5:8) *)
Example C06_matmat_nonvacuous :
  mm_decls 2%nat = [(0, 2); (0, 3)] /\
  matmat_safe mm_decls 3%nat 4%nat 5%nat 0%nat 1%nat 2%nat = true /\
  operands_ok mm_forms mm_decls mm_store [1%nat; 2%nat] /\
  val (matmat_sem mm_decls 0%nat 1%nat 2%nat mm_store) (0%nat, [1; 3]) = 654 /\
  (exists s2 tr, exec 30 (matmat_apply mm_forms 3%nat 4%nat 5%nat 0%nat 1%nat 2%nat) mm_store = Ok s2 tr CNormal /\
                 val s2 (0%nat, [1; 3]) = 654).
Proof. exact matmat_nonvacuous. Qed.
Print Assumptions C06_matmat_nonvacuous.

(* ------------------------------------------------------------------ MATMUL (matrix * vector), any declaration form *)
Theorem C06_matvec_forms_sound_partial : forall fm d i j r m v s,
  matvec_safe d i j r m v = true -> operands_ok fm d s [m] -> vector_ok fm d s v ->
  hoare 7 (matvecF_apply fm i j r m v) s (fun s2 => agree_except [i; j] s2 (matvec_sem d r m v s)).
Proof. exact matvecF_sound_partial_. Qed.
Print Assumptions C06_matvec_forms_sound_partial.

(* r(2:3) = MATMUL(m(2:,:), v(:)) with actual arguments (5:6,7:8) and (4:5) *)
Example C06_matvec_forms_nonvacuous :
  mv_decls 1%nat = [(2, 3); (1, 2)] /\ mv_decls 2%nat = [(1, 2)] /\
  matvec_safe mv_decls 3%nat 4%nat 0%nat 1%nat 2%nat = true /\
  operands_ok mv_forms mv_decls mv_store [1%nat] /\ vector_ok mv_forms mv_decls mv_store 2%nat /\
  val (matvec_sem mv_decls 0%nat 1%nat 2%nat mv_store) (0%nat, [3]) = 39 /\
  (exists s2 tr, exec 30 (matvecF_apply mv_forms 3%nat 4%nat 0%nat 1%nat 2%nat) mv_store = Ok s2 tr CNormal /\
                 val s2 (0%nat, [3]) = 39).
Proof. exact matvecF_nonvacuous. Qed.
Print Assumptions C06_matvec_forms_nonvacuous.

(* ------------------------------------------------------------------ array assignment, two ranges per accessor (round 4) *)
(* a(.., l1:u1:s1, .., l2:u2:s2, ..) = rhs: the LAST range becomes the outer loop (symbol idx), the first the
   inner loop (idx1); for all bounds, strides and contents the nest ends in the store of the Fortran array
   assignment (all elements evaluated first) up to idx, idx1 -- when the lhs array is read only through the
   written section, strides are syntactically equal and ranges declared equal have the same normalised start *)
Theorem C06_arrayassign2d_sound_partial : forall fx d idx idx1 a s s' f,
  aa2_safe fx d idx idx1 a = true -> bnd_ok d s -> aa2_sem a s = Some s' ->
  exists prog, aa2_apply fx d idx idx1 a = Some prog /\
  exists s2 tr, exec (4 + f) prog s = Ok s2 tr CNormal /\ agree_except [idx; idx1] s2 s'.
Proof. exact aa2_sound_partial_. Qed.
Print Assumptions C06_arrayassign2d_sound_partial.

(* a(2:3, 0:2) = b(1:2, 5:7) * x + a(2:3, 0:2) with a(2:4,0:2), b(1:3,5:7) *)
Example C06_arrayassign2d_nonvacuous :
  aa2_safe unfixed e2_decls 2%nat 3%nat e2_stmt = true /\ bnd_ok e2_decls e2_store /\
  (exists s', aa2_sem e2_stmt e2_store = Some s' /\ val s' (0%nat, [3; 2]) = 84) /\
  (exists prog s2 tr, aa2_apply unfixed e2_decls 2%nat 3%nat e2_stmt = Some prog /\
                      exec 20 prog e2_store = Ok s2 tr CNormal /\ val s2 (0%nat, [3; 2]) = 84).
Proof. exact aa2_safe_nonvacuous. Qed.
Print Assumptions C06_arrayassign2d_nonvacuous.

(* d(:,1) = d(1,:) with d(0:2,1:3): the unfixed same_range shortcut ignores the dimension ... *)
Theorem C06_arrayassign_dimmix_refuted :
  exists s' prog s2 tr,
    aa_accept dm_stmt = true /\ bnd_ok dm_decls dm_store /\ aa_sem dm_stmt dm_store = Some s' /\
    aa_apply unfixed dm_decls 2%nat dm_stmt = Some prog /\
    exec 10 prog dm_store = Ok s2 tr CNormal /\ val s2 (0%nat, [0; 1]) <> val s' (0%nat, [0; 1]).
Proof. exact aa_dimmix_refuted_. Qed.
Print Assumptions C06_arrayassign_dimmix_refuted.

(* ... and the variant with the repair 148f649 (flag fx_shortcut, detected on the tree under test) lowers it correctly *)
Theorem C06_arrayassign_dimmix_fixed :
  exists s' prog s2 tr,
    aa_sem dm_stmt dm_store = Some s' /\ aa_apply (mkFixes true false false) dm_decls 2%nat dm_stmt = Some prog /\
    exec 10 prog dm_store = Ok s2 tr CNormal /\
    val s2 (0%nat, [0; 1]) = val s' (0%nat, [0; 1]) /\ val s2 (0%nat, [1; 1]) = val s' (0%nat, [1; 1]) /\
    val s2 (0%nat, [2; 1]) = val s' (0%nat, [2; 1]) /\ val s' (0%nat, [1; 1]) = 12.
Proof. exact aa_dimmix_fixed_. Qed.
Print Assumptions C06_arrayassign_dimmix_fixed.

(* the reduction-loop theorem over the effective bounds of (assumed-shape) dummies *)
Theorem C06_reduction_effective : forall fx fm actuals idx x xi k arr mask code s xv v,
  red_loop fx (eff_decls fm actuals) idx x xi k arr mask = Some code ->
  red_safe fx (eff_decls fm actuals) idx x xi arr mask = true -> bnd_ok (eff_decls fm actuals) s ->
  opt_all (map (eval s) xi) = Some xv -> red_sem k arr mask s = Some v ->
  (forall l h t all, red_elems s arr mask (zseq 0 (trip_count l h t)) = Some all ->
                     Forall (fun w => - HUGE <= w <= HUGE) all) ->
  hoare 6 code s (fun s' => val s' (x, xv) = v /\ bnd s' = bnd s /\
                            forall loc, fst loc <> idx -> loc <> (x, xv) -> val s' loc = val s loc).
Proof. intros fx fm actuals. exact (reduction_ok_ fx (eff_decls fm actuals)). Qed.
Print Assumptions C06_reduction_effective.

(* ------------------------------------------------------------------ DOT_PRODUCT over effective bounds (round 4) *)
(* any loop-bound expressions that evaluate to the first vector's effective bounds *)
Theorem C06_dot_effective_partial : forall lo hi d i res hole x xi ctx v1 r1 v2 r2 s v xv w,
  dot_safe d i res hole x xi ctx v1 r1 v2 r2 = true ->
  (forall s', bnd s' = bnd s -> eval s' lo = Some (fst (dim0 d v1)) /\ eval s' hi = Some (snd (dim0 d v1))) ->
  dot_sem d v1 r1 v2 r2 s = Some v ->
  opt_all (map (eval s) xi) = Some xv -> eval (upd s (hole, []) v) ctx = Some w ->
  hoare 8 (dotG_apply lo hi i res x xi ctx hole v1 r1 v2 r2) s
        (fun s2 => agree_except [i; res; hole] s2 (upd s (x, xv) w)).
Proof. exact dotG_sound_partial_. Qed.
Print Assumptions C06_dot_effective_partial.

(* the bounds chosen by _get_array_bound for each accepted declaration form *)
Theorem C06_dot_forms_sound_partial : forall fm d i res hole x xi ctx v1 r1 v2 r2 s v xv w lo hi,
  dot_bounds fm v1 v2 = Some (lo, hi) ->
  dot_safe d i res hole x xi ctx v1 r1 v2 r2 = true ->
  vector_ok fm d s v1 -> vector_ok fm d s v2 -> snd (dim0 d v2) = snd (dim0 d v1) ->
  dot_sem d v1 r1 v2 r2 s = Some v ->
  opt_all (map (eval s) xi) = Some xv -> eval (upd s (hole, []) v) ctx = Some w ->
  hoare 8 (dotG_apply lo hi i res x xi ctx hole v1 r1 v2 r2) s
        (fun s2 => agree_except [i; res; hole] s2 (upd s (x, xv) w)).
Proof. exact dot_forms_sound_partial_. Qed.
Print Assumptions C06_dot_forms_sound_partial.

(* x = DOT_PRODUCT(v1, v2) with v1(:) (actual 4:6) and v2(1:3) *)
Example C06_dot_forms_nonvacuous :
  df_decls 0%nat = [(1, 3)] /\ dot_bounds df_forms 0%nat 1%nat = Some (ELit 1, ELit 3) /\
  dot_safe df_decls 3%nat 4%nat 5%nat 2%nat [] (EVar 5%nat) 0%nat [] 1%nat [] = true /\
  vector_ok df_forms df_decls df_store 0%nat /\ vector_ok df_forms df_decls df_store 1%nat /\
  dot_sem df_decls 0%nat [] 1%nat [] df_store = Some 32 /\
  (exists s2 tr, exec 30 (dotG_apply (ELit 1) (ELit 3) 3%nat 4%nat 2%nat [] (EVar 5%nat) 5%nat 0%nat [] 1%nat []) df_store
                 = Ok s2 tr CNormal /\ val s2 (2%nat, []) = 32).
Proof. exact dot_forms_nonvacuous. Qed.
Print Assumptions C06_dot_forms_nonvacuous.
