(* C13 — OpenACC data regions move all data the region needs.  Property theorems only.

   FULL PROPERTY (false of the faithful model of create_data_movement_deep_copy_refs; see _refuted):
     forall isarr r f st st' tr c junk, acc_accept r = true -> exec f r st = Ok st' tr c ->
       exists st'', exec_dev f isarr (cl_of isarr r) junk r st = Ok st'' tr c /\ forall l, val st'' l = val st' l
   i.e. for every accepted region, every host store and EVERY possible content [junk] of the
   uninitialised device arrays, running on device memory with exactly the generated copyin / copyout /
   copy movements leaves the host as the host-only run does.
   Proved: for every run that satisfies the run-time condition acc_run_ok (C13_acc_sound_dyn), and
   with its first part discharged statically for accepted regions whose copyout arrays are write-only
   (C13_acc_sound_partial).  Missing for the full statement: copyout arrays that are not completely
   overwritten, or are read at an element the region has not written (both happen on the unchanged
   code: the `is_written_first` and "not read" rules are per variable, not per element / per path). *)
From Coq Require Import List ZArith Bool.
Import ListNotations.
From PV Require Import Fort.Syntax Fort.Sem C11.Access C12.InOut C13.AccData C13.Proofs.
Open Scope Z_scope.

Theorem C13_acc_sound_dyn : forall isarr f r st st' tr c,
  exec f r st = Ok st' tr c ->
  acc_run_ok isarr r st tr = true ->
  forall junk, exists st'',
    exec_dev f isarr (cl_of isarr r) junk r st = Ok st'' tr c /\
    bnd st'' = bnd st' /\ forall l, val st'' l = val st' l.
Proof. exact acc_sound_dyn. Qed.
Print Assumptions C13_acc_sound_dyn.

Theorem C13_acc_sound_partial : forall isarr f r st st' tr c,
  acc_accept r = true -> copyout_write_only isarr r = true ->
  exec f r st = Ok st' tr c ->
  writes_inb isarr st tr = true -> copyout_fully_written isarr r st tr = true ->
  forall junk, exists st'',
    exec_dev f isarr (cl_of isarr r) junk r st = Ok st'' tr c /\
    bnd st'' = bnd st' /\ forall l, val st'' l = val st' l.
Proof. exact acc_sound_partial. Qed.
Print Assumptions C13_acc_sound_partial.

(* accepted regions: every location read by any run belongs to a variable reported READ *)
Theorem C13_reads_covered : forall f r s s' tr c,
  acc_accept r = true -> exec f r s = Ok s' tr c ->
  forall l, In l (reads tr) -> In (fst l, READ) (accs false r).
Proof. exact reads_covered. Qed.
Print Assumptions C13_reads_covered.

(* every written array is in a copyout or copy clause *)
Theorem C13_written_copied_out : forall isarr l x,
  isarr x = true -> In (x, WRITE) l -> copied_out (classify isarr l) x = true.
Proof. exact written_copied_out. Qed.
Print Assumptions C13_written_copied_out.

Example C13_acc_nonvacuous :
  acc_accept r_ok = true /\ copyout_write_only arrs r_ok = true /\
  in_clause arrs (accs false r_ok) CopyIn = [vb] /\ in_clause arrs (accs false r_ok) CopyOut = [va] /\
  in_clause arrs (accs false r_ok) Copy = [vc] /\
  let st := st_of [((vb, [1]), 5); ((vc, [1]), 7); ((va, [2]), 9)] in
  exists st' tr, exec 20 r_ok st = Ok st' tr CNormal /\
    writes_inb arrs st tr = true /\ copyout_fully_written arrs r_ok st tr = true /\ acc_run_ok arrs r_ok st tr = true /\
    val st' (va, [1]) = 12 /\ val st' (vc, [1]) = 14.
Proof. exact acc_nonvacuous. Qed.
Print Assumptions C13_acc_nonvacuous.

(* a(1) = 0  =>  copyout(a) *)
Theorem C13_acc_refuted_partial_write :
  in_clause arrs (accs false r_partial) CopyOut = [va] /\ in_clause arrs (accs false r_partial) CopyIn = [] /\
  in_clause arrs (accs false r_partial) Copy = [] /\
  acc_refutes r_partial (st_of [((va, [2]), 7)]) (fun _ => 99) (va, [2]).
Proof. exact acc_refuted_partial_write. Qed.
Print Assumptions C13_acc_refuted_partial_write.

(* a(1) = 0 ; s = a(2)  =>  copyout(a) *)
Theorem C13_acc_refuted_read_unwritten :
  in_clause arrs (accs false r_read) CopyOut = [va] /\ in_clause arrs (accs false r_read) CopyIn = [] /\
  acc_refutes r_read (st_of [((va, [2]), 7)]) (fun _ => 99) (vs, []).
Proof. exact acc_refuted_read_unwritten. Qed.
Print Assumptions C13_acc_refuted_read_unwritten.

(* if (t > 0) c(1) = 1 ; n = c(1)  =>  copyout(c) *)
Theorem C13_acc_refuted_conditional_write :
  in_clause arrs (accs false r_cond) CopyOut = [vc] /\
  acc_refutes r_cond (st_of [((vc, [1]), 7)]) (fun _ => 99) (vn, []).
Proof. exact acc_refuted_conditional_write. Qed.
Print Assumptions C13_acc_refuted_conditional_write.

(* any clause lists (what was generated), any statement list as the semantics of the region (calls expanded) *)
Theorem C13_acc_sound_gen : forall isarr f r st st' tr c cin cout cpy,
  exec f r st = Ok st' tr c ->
  acc_run_ok_gen isarr cin cout cpy st tr = true ->
  forall junk, exists st'',
    exec_dev f isarr (cl_from cin cout cpy) junk r st = Ok st'' tr c /\
    bnd st'' = bnd st' /\ forall l, val st'' l = val st' l.
Proof. exact acc_sound_gen. Qed.
Print Assumptions C13_acc_sound_gen.

(* a by-reference argument of a non-pure call (READWRITE access) is always in the copy clause *)
Theorem C13_readwrite_is_copy : forall isarr l x,
  isarr x = true -> In (x, READWRITE) l -> classify isarr l x = Some Copy.
Proof. exact readwrite_is_copy. Qed.
Print Assumptions C13_readwrite_is_copy.

(* a(1) = 0 ; call inc(a) *)
Example C13_call_nonvacuous :
  let isarr := fun x => mem x [0%nat] in
  let st := store_of [((0%nat, [2]), 7)] [(0%nat, [(1, 3)])] in
  in_clause isarr (xaccs false xs_call) Copy = [0%nat] /\ in_clause isarr (xaccs false xs_call) CopyOut = [] /\
  exists st' tr, exec 20 sem_call st = Ok st' tr CNormal /\
    acc_run_ok_gen isarr [] [] [0%nat] st tr = true /\ acc_run_ok_gen isarr [] [0%nat] [] st tr = false /\
    exists st'' tr', exec_dev 20 isarr (cl_from [] [0%nat] []) (fun _ => 99) sem_call st = Ok st'' tr' CNormal /\
                     val st'' (0%nat, [2]) <> val st' (0%nat, [2]).
Proof. exact call_nonvacuous. Qed.
Print Assumptions C13_call_nonvacuous.

(* regenerated obligation (props/C12/translate.py -> coq/C12/GenTables.v): every intrinsic of the tree under test is known to the
   frozen table of the Fortran standard's inquiry functions, and none is flagged `is_inquiry` (first argument skipped by
   IntrinsicCall.reference_accesses) unless the standard classifies it as an inquiry function *)
From PV Require Import C12.IntrTable C12.GenTables C12.IntrOblig.
Theorem C13_inquiry_flags_sound : forallb flag_ok gen_intrinsics = true.
Proof. exact inquiry_flags_sound. Qed.
Print Assumptions C13_inquiry_flags_sound.

(* ---- regions containing DO WHILE directly (fuelled semantics C12/While.v), any clause lists, any junk *)
From PV Require Import C12.While C13.WhileAcc.
Theorem C13_acc_sound_gen_while : forall isarr f ws st st' tr c cin cout cpy,
  wexec f ws st = Ok st' tr c ->
  acc_run_ok_gen isarr cin cout cpy st tr = true ->
  forall junk, exists st'',
    wexec_dev f isarr (cl_from cin cout cpy) junk ws st = Ok st'' tr c /\
    bnd st'' = bnd st' /\ forall l, val st'' l = val st' l.
Proof. exact acc_sound_gen_while. Qed.
Print Assumptions C13_acc_sound_gen_while.

Example C13_while_acc_nonvacuous :
  let c := EBin And (EBin Gt (EIdx 0%nat [ELit 1]) (ELit 1)) (EBin Lt (EVar 1%nat) (ELit 3)) in
  let body := [SAssign 0%nat [ELit 1] (EBin Sub (EIdx 0%nat [ELit 1]) (ELit 1)); SAssign 1%nat [] (EBin Add (EVar 1%nat) (ELit 1))] in
  let isarr := fun x => mem x [0%nat] in
  let st := store_of [((0%nat, [1]), 3)] [(0%nat, [(1, 2)])] in
  exists st' tr, wexec 10 [WWhile c body] st = Ok st' tr CNormal /\
    acc_run_ok_gen isarr [] [] [0%nat] st tr = true /\ acc_run_ok_gen isarr [] [0%nat] [] st tr = false.
Proof. exact while_acc_nonvacuous. Qed.
Print Assumptions C13_while_acc_nonvacuous.

(* ---- STATIC class, no run-time premise (coq/C13/Static.v): top-level literal-subscript assignments in bounds and
   full-extent loops  do i = lb, ub : a(i) = e  over the declared bounds; every copyout array write-only with such a loop *)
From PV Require Import C13.Static.
Theorem C13_acc_sound_static : forall isarr b f r st st' tr c,
  static_safe isarr b r = true -> (forall a, bnd st a = b a) ->
  exec f r st = Ok st' tr c ->
  forall junk, exists st'',
    exec_dev f isarr (cl_of isarr r) junk r st = Ok st'' tr c /\
    bnd st'' = bnd st' /\ forall l, val st'' l = val st' l.
Proof. exact acc_sound_static. Qed.
Print Assumptions C13_acc_sound_static.

Example C13_static_nonvacuous :
  static_safe arrs b3 r_static = true /\
  in_clause arrs (accs false r_static) CopyOut = [va] /\ in_clause arrs (accs false r_static) CopyIn = [vb] /\
  (forall vals a, bnd (st_of vals) a = b3 a) /\
  exists st' tr, exec 20 r_static (st_of [((vb, [2]), 4); ((va, [3]), 9)]) = Ok st' tr CNormal /\ val st' (va, [2]) = 5.
Proof. exact static_nonvacuous. Qed.
Print Assumptions C13_static_nonvacuous.

(* the refuted witnesses of the C13_acc_refuted theorems are outside the static class *)
Example C13_static_excludes_partial_write :
  static_safe arrs b3 r_partial = false /\ static_safe arrs b3 r_read = false /\ static_safe arrs b3 r_cond = false.
Proof. exact static_excludes_partial_write. Qed.
Print Assumptions C13_static_excludes_partial_write.
