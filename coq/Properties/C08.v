(* C08 — Loops reported parallelisable have no loop-carried dependence.  Property theorems only. *)
From Coq Require Import List ZArith Bool.
Import ListNotations.
From PV Require Import Fort.Syntax Fort.Sem C08.Model C08.Safe C08.Spec C08.GenSrc C08.Dvar C08.Refuted.
Close Scope Z_scope.

(* "The analysis answers (terminates) for every loop": stated over the constant regenerated from the source.
   Without `idx += 1` in the fresh-name loop of _get_dependency_distance the statement is the refutation
   (a loop on which the analysis diverges), with it the analysis answers for every loop. *)
Theorem C08_analysis_answers_src : analysis_answers_statement src_idx_incremented.
Proof. exact analysis_answers_src. Qed.
Print Assumptions C08_analysis_answers_src.

Theorem C08_dvar_terminates : forall taken (syms : list nat),
  (forall k, taken k = true -> In k syms) -> forall fuel, length syms < fuel ->
  exists r, fresh true taken fuel 0 1 = Some r /\ taken r = false.
Proof. exact fresh_incr_terminates. Qed.
Print Assumptions C08_dvar_terminates.

Theorem C08_dvar_terminates_refuted : forall taken, taken 0 = true -> taken 1 = true ->
  forall fuel, fresh false taken fuel 0 1 = None.
Proof. exact fresh_noincr_diverges. Qed.
Print Assumptions C08_dvar_terminates_refuted.

Theorem C08_par_refuted_div : forall odist oneq incr,
  refutes odist oneq incr 2 (ELit 2) (ELit 3) (ELit 1) div_body.
Proof. exact par_refuted_div_. Qed.
Print Assumptions C08_par_refuted_div.

Theorem C08_par_refuted_cond_scalar : forall odist oneq incr,
  refutes odist oneq incr 2 (ELit 1) (ELit 2) (ELit 1) cond_body.
Proof. exact par_refuted_cond_scalar_. Qed.
Print Assumptions C08_par_refuted_cond_scalar.
