(* C08 — Loops reported parallelisable have no loop-carried dependence.  Property theorems only.

   FULL STATEMENT (false of the faithful model, hence of the code as it is today — see the _refuted theorems):
     forall odist oneq incr dtab x lo hi st body,
       can_par odist oneq incr dtab x lo hi st body <> Diverges /\
       (can_par odist oneq incr dtab x lo hi st body = Par ->
        forall f s its, iterations_of f x lo hi st body s its -> ~ conflict body (map snd its)).
   What is proved instead: the second conjunct under the sufficient condition [safe] (C08_par_sound_partial;
   missing: integer division / MOD / symbolic coefficients in subscripts, subscripts using variables the body
   writes or mixing x with inner loop variables, conditionally written scalars, bodies with EXIT/CYCLE/
   PRINT/regions), the first conjunct relative to the source (C08_analysis_answers_src), and five refutations
   of the full statement by concrete loops and inputs. *)
From Coq Require Import List ZArith Bool.
Import ListNotations.
From PV Require Import Fort.Syntax Fort.Sem C08.Model C08.Safe C08.Spec C08.GenSrc C08.Dvar C08.Refuted
     C08.Sound C08.Examples.
Close Scope Z_scope.

(* ---- soundness on the safe fragment; the two premises say that sympy's answers (the oracle) are exact on
        translation-exact subscripts; affine subscripts are decided inside the model and need no premise *)
Theorem C08_par_sound_partial :
  forall (odist : name -> expr -> expr -> bool) (oneq : expr -> expr -> bool) (incr : bool) (dtab : list (nat * name)),
  (* sympy_solveset_exact *)
  (forall x w o, odist x w o = true -> tr_exact x w = true -> tr_exact x o = true ->
     forall s1 s2 v,
       (forall n ix, n <> x -> In n (enames w ++ enames o) -> val s1 (n, ix) = val s2 (n, ix)) ->
       eval s1 w = Some v -> eval s2 o = Some v -> val s1 (x, []) = val s2 (x, [])) ->
  (* sympy_simplify_exact *)
  (forall x w o, oneq w o = true -> tr_exact x w = true -> tr_exact x o = true ->
     forall s1 s2 v1 v2,
       (forall n ix, In n (enames w ++ enames o) -> val s1 (n, ix) = val s2 (n, ix)) ->
       eval s1 w = Some v1 -> eval s2 o = Some v2 -> v1 <> v2) ->
  forall x lo hi st body,
    safe x body = true ->
    can_par odist oneq incr dtab x lo hi st body = Par ->
    forall f s its, iterations_of f x lo hi st body s its -> ~ conflict body (map snd its).
Proof. exact par_sound. Qed.
Print Assumptions C08_par_sound_partial.

(* ---- the same without any premise when no sympy answer for a non-affine subscript is relied on *)
Theorem C08_par_sound_affine_partial : forall incr dtab x lo hi st body,
  safe x body = true ->
  can_par no_odist no_oneq incr dtab x lo hi st body = Par ->
  forall f s its, iterations_of f x lo hi st body s its -> ~ conflict body (map snd its).
Proof. exact par_sound_affine. Qed.
Print Assumptions C08_par_sound_affine_partial.

(* ---- [iterations_of] is what Fort.Sem.exec does with the loop: its trace is made of the iteration traces *)
Theorem C08_loop_iterations_exist : forall f x lo hi st body s s' tr c,
  forallb simple body = true ->
  exec (S f) [SDo x lo hi st body] s = Ok s' tr c ->
  exists its, iterations_of f x lo hi st body s its /\
              tr = loop_trace x (ereads s lo ++ ereads s hi ++ ereads s st) (map snd its).
Proof. exact loop_iterations_exist. Qed.
Print Assumptions C08_loop_iterations_exist.

(* ---- non-vacuity of the hypotheses of the soundness theorems *)
Example C08_par_sound_nonvacuous : forall incr,
  safe 4 ex_body = true /\ can_par no_odist no_oneq incr [] 4 (ELit 1) (EVar 6) (ELit 1) ex_body = Par /\
  exists f s its, iterations_of f 4 (ELit 1) (EVar 6) (ELit 1) ex_body s its /\ length its = 3.
Proof. exact par_sound_nonvacuous. Qed.
Print Assumptions C08_par_sound_nonvacuous.

Example C08_par_sound_oracle_nonvacuous : forall odist oneq incr,
  oneq (EIdx 2 [ELit 3]) (EBin Add (EIdx 2 [ELit 3]) (ELit 1)) = true ->
  safe 1 ex2_body = true /\ can_par odist oneq incr [] 1 (ELit 1) (ELit 3) (ELit 1) ex2_body = Par.
Proof. exact par_sound_oracle_nonvacuous. Qed.
Print Assumptions C08_par_sound_oracle_nonvacuous.

(* ---- "The analysis answers (terminates) for every loop": stated over the constant regenerated from the
        source.  Without `idx += 1` in the fresh-name loop of _get_dependency_distance the statement is the
        refutation (a loop on which the analysis diverges); with it the analysis answers for every loop. *)
Theorem C08_analysis_answers_src : analysis_answers_statement src_idx_incremented.
Proof. exact analysis_answers_src. Qed.
Print Assumptions C08_analysis_answers_src.

Theorem C08_dvar_terminates : forall taken (syms : list nat),
  (forall k, taken k = true -> In k syms) -> forall fuel, length syms < fuel ->
  exists r, fresh true taken fuel 0 1 = Some r /\ taken r = false.
Proof. exact fresh_incr_terminates. Qed.
Print Assumptions C08_dvar_terminates.

Theorem C08_dvar_terminates_refuted : forall taken, taken 0 = true -> taken 1 = true ->
  forall fuel, fresh false taken fuel 0 1 = None.
Proof. exact fresh_noincr_diverges. Qed.
Print Assumptions C08_dvar_terminates_refuted.

Theorem C08_analysis_answers_when_incremented : forall odist oneq dtab x lo hi st body,
  can_par odist oneq true dtab x lo hi st body <> Diverges.
Proof. exact can_par_incr_answers. Qed.
Print Assumptions C08_analysis_answers_when_incremented.

(* ---- refutations of the full statement (each witness is replayed on the implementation by the check) *)
Theorem C08_par_refuted_div : forall odist oneq incr,
  refutes odist oneq incr 2 (ELit 2) (ELit 3) (ELit 1) div_body.
Proof. exact par_refuted_div_. Qed.
Print Assumptions C08_par_refuted_div.

Theorem C08_par_refuted_cond_scalar : forall odist oneq incr,
  refutes odist oneq incr 2 (ELit 1) (ELit 2) (ELit 1) cond_body.
Proof. exact par_refuted_cond_scalar_. Qed.
Print Assumptions C08_par_refuted_cond_scalar.

Theorem C08_par_refuted_symcoef : forall odist oneq incr,
  odist 1 (EBin Mul (EVar 2) (EVar 1)) (EBin Mul (EVar 2) (EVar 1)) = true ->
  refutes odist oneq incr 1 (ELit 1) (ELit 2) (ELit 1) sym_body.
Proof. exact par_refuted_symcoef_. Qed.
Print Assumptions C08_par_refuted_symcoef.

Theorem C08_par_refuted_written_scalar : forall odist oneq incr,
  refutes odist oneq incr 2 (ELit 1) (ELit 2) (ELit 1) wsc_body.
Proof. exact par_refuted_written_scalar_. Qed.
Print Assumptions C08_par_refuted_written_scalar.

Theorem C08_par_refuted_multi_subscript : forall odist oneq incr,
  refutes odist oneq incr 1 (ELit 1) (ELit 2) (ELit 1) multi_body.
Proof. exact par_refuted_multi_subscript_. Qed.
Print Assumptions C08_par_refuted_multi_subscript.
