(* C05 — Accepted loop transformations preserve serial semantics.  Property theorems only.

   FULL STATEMENT (false of the faithful model of the unchanged code, see the _refuted theorems):
     forall T in {fuse, swap, chunk, tile, hoist, hoistbound, induction, fold}, program p, target t, options o,
       T_apply o t p = Some p' -> sim X p p'
   where sim X p p' = every terminating non-faulting run of p is matched by a run of p' with the same control
   state, the same prints/PSyData events and a final store that agrees everywhere except on the scalars X
   (the DO variables of the transformed loops and the symbols the transformation introduces).

   Proved at full strength: hoistbound, fold.  Proved under a sufficient syntactic condition (_partial): chunk,
   fuse.  Refuted by concrete accepted witnesses: fuse (4), swap, chunk (negative step; the step/chunk-size and
   loop-variable-in-bounds refutations became refusals with the fix commits on /repo), tile, hoist (2), induction (3).
   Proved under computable sufficient conditions as well: hoist (hoist_safe), induction (induction_safe).
   Swap: proved for perfect 2-nests with literal bounds and a plain body under the SEMANTIC independence premise
   swap_indep (same starting store; not lifted to program contexts).  Not proved: tile; a syntactic condition for swap. *)
From Coq Require Import List ZArith Bool.
Import ListNotations.
From PV Require Import Fort.Syntax Fort.Sem Fort.Facts Fort.Facts3 C05.Model C05.Equiv C05.HoistBound C05.Fold C05.Chunk C05.Fuse C05.Refuted
  C05.HoistProofs C05.InductionProofs C05.SwapProofs C05.FusePCProofs C05.FusePC2 C05.FusePC3.
Open Scope Z_scope.

(* ---- HoistLoopBoundExprTrans: full (the three created symbols are distinct and not read in p) ---- *)
Theorem C05_hoistbound_sound : forall n1 n2 n3 path p p',
  NoDup [n1; n2; n3] -> nomention [n1; n2; n3] (rnames p) ->
  hoistbound_apply n1 n2 n3 path p = Some p' -> sim [n1; n2; n3] p p'.
Proof. exact hoistbound_sound. Qed.
Print Assumptions C05_hoistbound_sound.

Example C05_hoistbound_nonvacuous :
  NoDup [10%nat; 11%nat; 12%nat] /\ nomentionb [10%nat; 11%nat; 12%nat] (rnames hb_example) = true /\
  hoistbound_apply 10%nat 11%nat 12%nat [0%nat] hb_example =
  Some [SAssign 12%nat [] (EBin Mul (EVar 4%nat) (ELit 2));
        SAssign 11%nat [] (EIntr IMin [EVar 2%nat; EIdx 3%nat [ELit 2]]);
        SAssign 10%nat [] (EBin Add (EVar 1%nat) (ELit 1));
        SDo 0%nat (EVar 10%nat) (EVar 11%nat) (EVar 12%nat) [SAssign 3%nat [EVar 0%nat] (ELit 0)]].
Proof. exact hoistbound_nonvacuous. Qed.
Print Assumptions C05_hoistbound_nonvacuous.

(* ---- FoldConditionalReturnExpressionsTrans: full (same store, same trace; RETURN at routine level = end) ---- *)
Theorem C05_fold_return_sound : forall p f s s' tr c,
  exec f p s = Ok s' tr c ->
  exists f' c', exec f' (fold_apply p) s = Ok s' tr c' /\ ctl_top c c'.
Proof. exact fold_sound. Qed.
Print Assumptions C05_fold_return_sound.

(* ---- ChunkLoopTrans: positive step dividing the chunk size (chunk_safe, coq/C05/Chunk.v) ---- *)
Theorem C05_chunk_sound_partial : forall c x out el path p p',
  chunk_safe c x out el path p = true -> chunk_apply c out el path p = Some p' -> sim [x; out; el] p p'.
Proof. exact chunk_sound_partial. Qed.
Print Assumptions C05_chunk_sound_partial.

Example C05_chunk_nonvacuous :
  chunk_safe 4 0%nat 20%nat 21%nat [1%nat] chunk_example = true /\
  chunk_apply 4 20%nat 21%nat [1%nat] chunk_example =
  Some [SAssign 4%nat [] (ELit 0);
        SDo 20%nat (ELit 1) (EVar 2%nat) (ELit 4)
          [SAssign 21%nat [] (EIntr IMin [EBin Add (EVar 20%nat) (EBin Sub (ELit 4) (ELit 1)); EVar 2%nat]);
           SDo 0%nat (EVar 20%nat) (EVar 21%nat) (ELit 2)
             [SAssign 10%nat [EVar 0%nat] (EBin Add (EIdx 10%nat [EVar 0%nat]) (EVar 0%nat))]]].
Proof. exact chunk_nonvacuous. Qed.
Print Assumptions C05_chunk_nonvacuous.


Theorem C05_chunk_refuted_neg : exists p path p',
  chunk_apply 2 20%nat 21%nat path p = Some p' /\ ~ sim [0%nat; 20%nat; 21%nat] p p'.
Proof. exact chunk_refuted_neg. Qed.
Print Assumptions C05_chunk_refuted_neg.


(* ---- LoopFuseTrans: plain, name-independent bodies (fuse_safe, coq/C05/Fuse.v) ---- *)
Theorem C05_fuse_sound_partial : forall arrs x path p p',
  fuse_safe x path p = true -> fuse_apply expr_eqb arrs false path p = Some p' -> sim [x] p p'.
Proof. exact fuse_sound_partial. Qed.
Print Assumptions C05_fuse_sound_partial.

Example C05_fuse_nonvacuous :
  fuse_safe 0%nat [0%nat] fuse_example = true /\
  fuse_apply expr_eqb [10%nat; 11%nat; 12%nat] false [0%nat] fuse_example =
  Some [SDo 0%nat (ELit 1) (EVar 2%nat) (ELit 1)
          [SAssign 10%nat [EVar 0%nat] (EBin Add (EIdx 12%nat [EVar 0%nat]) (ELit 1));
           SAssign 11%nat [EVar 0%nat] (EBin Mul (EIdx 12%nat [EVar 0%nat]) (ELit 2))]].
Proof. exact fuse_nonvacuous. Qed.
Print Assumptions C05_fuse_nonvacuous.

(* Producer/consumer fusion (a(i) = ..; .. = a(i)): literal bounds, plain bodies, first body not writing x.
   The premise pc_commute is SEMANTIC (acceptable here, stated in full in coq/C05/FusePC2.v): for every fuel, iteration v
   of the second loop commutes, up to x, with every iteration v' <> v of the first loop.  It is discharged for a concrete
   program in the Example below; a computable syntactic check implying it is not proved. *)
Theorem C05_fuse_producer_consumer_partial : forall x l h t b1 b2,
  plain b1 = true -> plain b2 = true -> ~ In x (wnames b1) -> pc_commute x b1 b2 ->
  sim [x] [SDo x (ELit l) (ELit h) (ELit t) b1; SDo x (ELit l) (ELit h) (ELit t) b2]
          [SDo x (ELit l) (ELit h) (ELit t) (b1 ++ b2)].
Proof. exact fuse_pc_local. Qed.
Print Assumptions C05_fuse_producer_consumer_partial.

(* do i { a(i) = b(i) + 1 } ; do i { c(i) = a(i) * 2 } *)
Example C05_fuse_pc_nonvacuous :
  plain pc_b1 = true /\ plain pc_b2 = true /\ ~ In 0%nat (wnames pc_b1) /\ pc_commute 0%nat pc_b1 pc_b2.
Proof. exact fuse_pc_nonvacuous. Qed.
Print Assumptions C05_fuse_pc_nonvacuous.

Theorem C05_fuse_refuted : exists p path p',
  fuse_apply expr_eqb [10%nat; 11%nat; 12%nat; 13%nat] false path p = Some p' /\ ~ sim [0%nat] p p'.
Proof. exact fuse_refuted. Qed.
Print Assumptions C05_fuse_refuted.

Theorem C05_fuse_refuted_reversed : exists p path p',
  fuse_apply expr_eqb [10%nat; 11%nat; 12%nat; 13%nat] true path p = Some p' /\ ~ sim [0%nat] p p'.
Proof. exact fuse_refuted_reversed. Qed.
Print Assumptions C05_fuse_refuted_reversed.

Theorem C05_fuse_refuted_exit : exists p path p',
  fuse_apply expr_eqb [10%nat; 11%nat; 12%nat; 13%nat] false path p = Some p' /\ ~ sim [0%nat] p p'.
Proof. exact fuse_refuted_exit. Qed.
Print Assumptions C05_fuse_refuted_exit.

Theorem C05_fuse_refuted_conditional_scalar : exists p path p',
  fuse_apply expr_eqb [10%nat; 11%nat; 12%nat; 13%nat] false path p = Some p' /\ ~ sim [0%nat] p p'.
Proof. exact fuse_refuted_conditional_scalar. Qed.
Print Assumptions C05_fuse_refuted_conditional_scalar.

(* ---- LoopSwapTrans / LoopTiling2DTrans: no dependence test ---- *)
(* perfect 2-nest, literal bounds, plain body not writing the DO variables; swap_indep = the iterations, each run
   from the store the nest starts from, succeed, no iteration writes what another reads upward-exposed, only the DO
   variables are written by several iterations (premise of Fort/Facts2.seq_runs_perm).  coq/C05/SwapProofs.v *)
Theorem C05_swap_sound_partial : forall x1 x2 l1 h1 t1 l2 h2 t2 body gq seg' f st s' tr c,
  x1 <> x2 -> ~ In x1 (wnames body) -> ~ In x2 (wnames body) -> plain body = true -> t2 <> 0 ->
  swap_at (SDo x1 (ELit l1) (ELit h1) (ELit t1) [SDo x2 (ELit l2) (ELit h2) (ELit t2) body]) = Some seg' ->
  swap_indep x1 x2 body gq (ivals l1 t1 0 (trip_count l1 h1 t1)) (ivals l2 t2 0 (trip_count l2 h2 t2)) st ->
  exec f [SDo x1 (ELit l1) (ELit h1) (ELit t1) [SDo x2 (ELit l2) (ELit h2) (ELit t2) body]] st = Ok s' tr c ->
  exists f' s'' tr', exec f' seg' st = Ok s'' tr' c /\ agree [x1; x2] s' s'' /\ vis tr' = vis tr.
Proof. exact swap_sound_partial. Qed.
Print Assumptions C05_swap_sound_partial.

Example C05_swap_nonvacuous :
  swap_at (SDo 1%nat (ELit 1) (ELit 2) (ELit 1) [SDo 0%nat (ELit 1) (ELit 2) (ELit 1) swap_ex_body]) =
    Some [SDo 0%nat (ELit 1) (ELit 2) (ELit 1) [SDo 1%nat (ELit 1) (ELit 2) (ELit 1) swap_ex_body]] /\
  plain swap_ex_body = true /\
  swap_indep 1%nat 0%nat swap_ex_body 1 (ivals 1 1 0 (trip_count 1 2 1)) (ivals 1 1 0 (trip_count 1 2 1)) swap_ex_store.
Proof. exact swap_nonvacuous. Qed.
Print Assumptions C05_swap_nonvacuous.

Theorem C05_swap_refuted : exists p path p', swap_apply path p = Some p' /\ ~ sim [1%nat; 0%nat] p p'.
Proof. exact swap_refuted. Qed.
Print Assumptions C05_swap_refuted.

Theorem C05_tile_refuted : exists p path p',
  tile_apply 2 20%nat 21%nat 22%nat 23%nat path p = Some p' /\
  ~ sim [1%nat; 0%nat; 20%nat; 21%nat; 22%nat; 23%nat] p p'.
Proof. exact tile_refuted. Qed.
Print Assumptions C05_tile_refuted.

(* ---- HoistTrans ---- *)
(* literal bounds with trip count >= 1, scalar x = e with e invariant by the name-level frame, plain statements
   before it that do not read x, x written nowhere else (hoist_safe, coq/C05/HoistProofs.v) *)
Theorem C05_hoist_sound_partial : forall path p p',
  hoist_safe path p = true -> hoist_apply path p = Some p' -> sim [] p p'.
Proof. exact hoist_sound_partial. Qed.
Print Assumptions C05_hoist_sound_partial.

Example C05_hoist_nonvacuous :
  hoist_safe [0%nat; 1%nat] hoist_example = true /\
  hoist_apply [0%nat; 1%nat] hoist_example =
  Some [SAssign 4%nat [] (EBin Add (EVar 2%nat) (ELit 1));
        SDo 0%nat (ELit 1) (ELit 3) (ELit 1)
          [SAssign 11%nat [EVar 0%nat] (ELit 2); SAssign 10%nat [EVar 0%nat] (EVar 4%nat)]].
Proof. exact hoist_nonvacuous. Qed.
Print Assumptions C05_hoist_nonvacuous.

Theorem C05_hoist_refuted_zero_trip : exists p path p', hoist_apply path p = Some p' /\ ~ sim [] p p'.
Proof. exact hoist_refuted_zero_trip. Qed.
Print Assumptions C05_hoist_refuted_zero_trip.

Theorem C05_hoist_refuted_early_exit : exists p path p', hoist_apply path p = Some p' /\ ~ sim [] p p'.
Proof. exact hoist_refuted_early_exit. Qed.
Print Assumptions C05_hoist_refuted_early_exit.

(* ---- ReplaceInductionVariablesTrans ---- *)
(* literal bounds with trip count >= 1, body = induction assignment followed by assignments only, variable not in
   the bounds, not rewritten, rhs invariant except for the loop variable (induction_safe, coq/C05/InductionProofs.v) *)
Theorem C05_induction_sound_partial : forall path p p',
  induction_safe path p = true -> induction_apply path p = Some p' -> sim [] p p'.
Proof. exact induction_sound_partial. Qed.
Print Assumptions C05_induction_sound_partial.

Example C05_induction_nonvacuous :
  induction_safe [0%nat] induction_example = true /\
  induction_apply [0%nat] induction_example =
  Some [SDo 0%nat (ELit 1) (ELit 4) (ELit 1)
          [SAssign 10%nat [EVar 0%nat] (EBin Sub (EVar 0%nat) (ELit 1));
           SAssign 11%nat [EBin Sub (EVar 0%nat) (ELit 1)]
                   (EBin Add (EIdx 10%nat [EVar 0%nat]) (EBin Sub (EVar 0%nat) (ELit 1)))];
        SAssign 3%nat [] (EBin Sub (EBin Sub (EVar 0%nat) (ELit 1)) (ELit 1))].
Proof. exact induction_nonvacuous. Qed.
Print Assumptions C05_induction_nonvacuous.

Theorem C05_induction_refuted_zero_trip : exists p path p', induction_apply path p = Some p' /\ ~ sim [] p p'.
Proof. exact induction_refuted_zero_trip. Qed.
Print Assumptions C05_induction_refuted_zero_trip.

Theorem C05_induction_refuted_bounds : exists p path p', induction_apply path p = Some p' /\ ~ sim [] p p'.
Proof. exact induction_refuted_bounds. Qed.
Print Assumptions C05_induction_refuted_bounds.

Theorem C05_induction_refuted_exit : exists p path p', induction_apply path p = Some p' /\ ~ sim [] p p'.
Proof. exact induction_refuted_exit. Qed.
Print Assumptions C05_induction_refuted_exit.
