(* C01 -- Reading and re-writing Fortran preserves program behaviour.  Property theorems only. *)
From Coq Require Import List ZArith Bool.
Import ListNotations.
From PV Require Import Fort.Syntax Fort.Sem Fort.Facts C01.Model C01.SelectProofs C01.WhereLocal
  C01.WhereExec C01.Refuted C01.Corr    (* Corr: the executable correspondence check, no theorem *)
  C01.Compose C01.Compose2 C01.Compose3.
From PV Require C01.Stride C01.Corr3. (* not imported: Model2 / Model3 re-use the names of C01.Model; Corr3 = correspondence check *)
Open Scope Z_scope.

(* SELECT CASE -> IF chain: for ALL selector expressions, clause lists (value lists, ranges, open
   ranges, CASE DEFAULT anywhere) and stores, the chain ends in the same store, control state and
   trace of writes / outputs / region events as the construct run by the Fortran rules (selector
   evaluated once, the matching block only).  Expressions of the model have no side effects. *)
Theorem C01_lower_select_sound :
  forall f sel (cls : list (sclause (list stmt))) s s' tr c,
    select_sem (fun b st => exec f b st) [] sel cls s = Ok s' tr c ->
    exists f' tr', exec f' (lower_select sel cls) s = Ok s' tr' c /\ noreads tr' = noreads tr.
Proof. exact lower_select_sound_. Qed.
Print Assumptions C01_lower_select_sound.

(* the block chosen by the source semantics is "the unique matching block": with non-overlapping
   case values it does not depend on the order of the clauses *)
Theorem C01_select_unique :
  forall (B : Type) s v (cls : list (list cval * B)) b cvs' b',
    pick s v cls = Some (Some b) ->
    (forall c1 b1 c2 b2, In (c1, b1) cls -> In (c2, b2) cls ->
                         clause_match s v c1 = Some true -> clause_match s v c2 = Some true -> b1 = b2) ->
    In (cvs', b') cls -> clause_match s v cvs' = Some true -> b' = b.
Proof. exact (@pick_unique). Qed.
Print Assumptions C01_select_unique.

Example C01_select_nonvacuous :
  let n := 0%nat in let m := 1%nat in
  let sel := EBin Add (EVar n) (ELit 1) in
  let cls : list (sclause (list stmt)) :=
      [ (None, [SAssign m [] (ELit 0)]);
        (Some [CVal (ELit 1); CBetween (ELit 3) (ELit 5); CUpto (EUn Neg (ELit 2))], [SAssign m [] (ELit 1)]);
        (Some [CFrom (ELit 7)], [SAssign m [] (ELit 2)]) ] in
  let s := store_of [((n, []), 3)] [] in
  lower_select sel cls =
    [SIf (EBin Or (EBin Eq sel (ELit 1))
                  (EBin Or (EBin And (EBin Ge sel (ELit 3)) (EBin Le sel (ELit 5)))
                           (EBin Le sel (EUn Neg (ELit 2)))))
         [SAssign m [] (ELit 1)]
         [SIf (EBin Ge sel (ELit 7)) [SAssign m [] (ELit 2)] [SAssign m [] (ELit 0)]]]
  /\ (exists s' tr, select_sem (fun b st => exec 10 b st) [] sel cls s = Ok s' tr CNormal /\ val s' (m, []) = 1)
  /\ (exists s' tr, exec 10 (lower_select sel cls) s = Ok s' tr CNormal /\ val s' (m, []) = 1).
Proof. exact select_example. Qed.
Print Assumptions C01_select_nonvacuous.

(* WHERE -> loop over 1..extent with lbound + widx - 1 indexing, mask -> IF, ELSEWHERE chain.
   FULL STATEMENT (false of the reader as it is -- see the _refuted theorems):
     forall md dc w s s' ss, where_sem w s = Some s' -> lower_where md dc w = Lowered ss -> <conclusion>.
   Proved for 1-D constructs under [safe_where] (full-range operands -- built into the syntax -- no
   nested WHERE, no reduction, elemental intrinsics, scalar sub-expressions that mention no assigned
   array and not the loop variable) and [dc_ok] (the trip count derived for the mask array is its
   extent).  Arrays may have any, different, lower bounds; an array may be assigned and read in the same
   construct: the per-element interleaving of the loop agrees with Fortran's statement-by-statement
   masked assignment (mask evaluated once, right-hand side evaluated before any store). *)
Theorem C01_lower_where_sound_partial :
  forall md dc w s s' ss,
    safe_where w = true ->
    (forall a0, wfirst (wmask w) = Some a0 -> dc_ok md dc s a0) ->
    where_sem w s = Some s' ->
    lower_where md dc w = Lowered ss ->
    exists f s'' tr,
      exec f ss s = Ok s'' tr CNormal /\ bnd s'' = bnd s' /\
      (forall c, fst c <> wx w -> val s'' c = val s' c) /\ outputs tr = [].
Proof. exact lower_where_sound_partial_. Qed.
Print Assumptions C01_lower_where_sound_partial.

Example C01_where_nonvacuous :
  safe_where ex_w = true /\
  (forall a0, wfirst (wmask ex_w) = Some a0 -> dc_ok Today (fun _ => None) ex_s a0) /\
  ex_check = true.
Proof. exact where_example. Qed.
Print Assumptions C01_where_nonvacuous.

(* the core of the WHERE theorem: statement-major (Fortran) and element-major (the loop) execution of
   the clauses give the same store, up to the loop variable *)
Theorem C01_where_statement_major_is_element_major :
  forall W x n, ~ In x W -> forall cls, safe_clauses W x cls = true -> forall s t',
    wclauses_rows s n (fun _ => true) cls = Some t' ->
    exists p, pm x n cls s 0 n = Some p /\ bnd p = bnd t' /\ forall c, fst c <> x -> val p c = val t' c.
Proof. exact rows_pm. Qed.
Print Assumptions C01_where_statement_major_is_element_major.

(* REFUTED (finding where/upper-bound-as-extent): declared bounds 0:4, the loop runs 1..4 *)
Theorem C01_lower_where_refuted_upper_bound :
  safe_where wA = true /\
  (forall a lb ub, dcA a = Some (lb, ub) -> bnd sA a = [(lb, ub)]) /\
  fst (nB, [4]) <> wx wA /\
  (exists s' ss, where_sem wA sA = Some s' /\ lower_where Today dcA wA = Lowered ss /\
     ~ (exists f s'' tr ctl, exec f ss sA = Ok s'' tr ctl /\ val s'' (nB, [4]) = val s' (nB, [4]))) /\
  differs Fixed dcA wA sA (nB, [4]) 100 = false.
Proof. exact refuted_upper_bound. Qed.
Print Assumptions C01_lower_where_refuted_upper_bound.

(* REFUTED (finding where/nested-where-independent-loop) *)
Theorem C01_lower_where_refuted_nested :
  fst (nC, [2]) <> wx wB /\
  exists s' ss, where_sem wB sB = Some s' /\ lower_where Today (fun _ => None) wB = Lowered ss /\
    val s' (nC, [2]) = 0 /\
    ~ (exists f s'' tr ctl, exec f ss sB = Ok s'' tr ctl /\ val s'' (nC, [2]) = val s' (nC, [2])).
Proof. exact refuted_nested. Qed.
Print Assumptions C01_lower_where_refuted_nested.

(* REFUTED (finding where/reduction-argument-indexed) *)
Theorem C01_lower_where_refuted_reduction :
  wrank maskC = Some 1%nat /\
  (exists s', where_sem wC sC = Some s' /\ val s' (nB, [2]) = 0 /\ val s' (nB, [1]) = 1) /\
  lower_where Today (fun _ => None) wC <> Refused /\
  wrank (index_w nX maskC) = None /\
  lower_where Today (fun _ => None) wC = NotExpressible /\
  lower_where Fixed (fun _ => None) wC = NotExpressible.
Proof. exact refuted_reduction. Qed.
Print Assumptions C01_lower_where_refuted_reduction.

(* programs without SELECT CASE / WHERE (assignments, IF, DO with or without step, EXIT / CYCLE / RETURN,
   nested) are lowered to themselves -- a missing DO step becomes the literal 1 -- and the source
   semantics of such a program IS the MiniFortran semantics of the result (same outcome for every fuel
   and store: store, trace, control state, faults) *)
Theorem C01_lower_do_if_identity :
  forall md dc p, forallb plain p = true ->
    lower md dc p = Some (map embed p) /\ forall f s, sexec f p s = exec f (map embed p) s.
Proof. exact lower_do_if_identity. Qed.
Print Assumptions C01_lower_do_if_identity.

(* COMPOSITIONAL: the whole reader.  For every nested source program p (assignments, IF, DO incl.
   zero-trip / negative / missing step, EXIT / CYCLE / RETURN, SELECT CASE anywhere, 1-D WHERE) that is
   well formed w.r.t. the set X of loop variables the reader creates ([wf X]: no statement mentions a
   name of X; every WHERE satisfies [safe_where], its loop variable is in X) and every store s on which
   the reader's knowledge of declared bounds is right ([dcb_ok], incl. lower bound 1 unless the repaired
   trip count is used): if p, run by the Fortran rules ([sexec]: SELECT CASE by [select_sem], WHERE by
   [where_sem]), ends in store s' with control state c, then the lowered program [lower md dc p], run by
   the MiniFortran semantics from the same store, ends with the same control state in a store that equals
   s' on every location whose name is not in X.  (The source language has no output statements; traces
   differ by the reads of selectors and by the order of the element stores of a WHERE.)
   PARTIAL in the same sense as C01_lower_where_sound_partial (side condition on the WHERE constructs). *)
Theorem C01_lower_program_sound_partial :
  forall X md dc p q f s s' tr c,
    lower md dc p = Some q -> forallb (wf X) p = true -> dcb_ok md dc s ->
    sexec f p s = Ok s' tr c ->
    exists f' t' tr', exec f' q s = Ok t' tr' c /\ bnd t' = bnd s' /\
                      forall l, ~ In (fst l) X -> val t' l = val s' l.
Proof. exact lower_program_sound_partial_. Qed.
Print Assumptions C01_lower_program_sound_partial.

(* a SELECT CASE inside a DO inside an IF, then a WHERE / ELSEWHERE: hypotheses hold, both runs computed *)
Example C01_program_nonvacuous :
  forallb (wf [pe_x]) pe_prog = true /\ dcb_ok Today (fun _ => None) pe_store /\ pe_check = true.
Proof. exact program_example. Qed.
Print Assumptions C01_program_nonvacuous.

(* strided read-only sections a(lo:hi:st) in a 1-D WHERE (coq/C01/Model2.v, WhereLocal2.v, WhereExec2.v:
   the 1-D development over an expression type with the extra operand).  The statement
   [Stride.strided_sound_stmt] is, with the definitions of C01.Model2:
     forall md dc w s s' ss, safe_where w = true ->
       (forall a0, wfirst (wmask w) = Some a0 -> dc_ok md dc s a0) ->
       where_sem w s = Some s' -> lower_where md dc w = Lowered ss ->
       exists f s'' tr, exec f ss s = Ok s'' tr CNormal /\ bnd s'' = bnd s' /\
         (forall c, fst c <> wx w -> val s'' c = val s' c) /\ outputs tr = []
   where [safe_where] additionally demands of a strided operand: not assigned in the construct, and the
   repaired index lower + (widx - 1) * stride (or stride 1). *)
Theorem C01_lower_where_strided_sound_partial : PV.C01.Stride.strided_sound_stmt.
Proof. exact PV.C01.Stride.strided_sound. Qed.
Print Assumptions C01_lower_where_strided_sound_partial.

(* REFUTED for the pre-fix index (stride dropped; finding where/strided-section-step-dropped, repaired in
   /repo by b189692): WHERE (b(:) >= 0) b(:) = a(2:10:2) *)
Theorem C01_lower_where_strided_refuted :
  fst (PV.C01.Stride.sB, [2]) <> PV.C01.Model2.wx (PV.C01.Stride.wS false) /\
  (exists s' ss,
     PV.C01.Model2.where_sem (PV.C01.Stride.wS false) PV.C01.Stride.sS = Some s' /\
     PV.C01.Model2.lower_where PV.C01.Model2.Today (fun _ => None) (PV.C01.Stride.wS false) = PV.C01.Model2.Lowered ss /\
     ~ (exists f s'' tr ctl, exec f ss PV.C01.Stride.sS = Ok s'' tr ctl /\
                             val s'' (PV.C01.Stride.sB, [2]) = val s' (PV.C01.Stride.sB, [2]))) /\
  PV.C01.WhereExec2.safe_where (PV.C01.Stride.wS false) = false /\
  PV.C01.Stride.differs PV.C01.Model2.Today (fun _ => None) (PV.C01.Stride.wS true) PV.C01.Stride.sS (PV.C01.Stride.sB, [2]) 100 = false.
Proof. exact PV.C01.Stride.strided_refuted. Qed.
Print Assumptions C01_lower_where_strided_refuted.

Example C01_strided_nonvacuous :
  PV.C01.WhereExec2.safe_where (PV.C01.Stride.wS true) = true /\ PV.C01.Stride.strided_check = true.
Proof. split; [exact (proj1 PV.C01.Stride.strided_example)|exact (proj2 (proj2 (proj2 PV.C01.Stride.strided_example)))]. Qed.
Print Assumptions C01_strided_nonvacuous.
