(* C29 -- Transformed-kernel output never clobbers other kernels.  Property theorems only.
   Model: C29/Model.v (protocol of CodedKern.rename_and_write as a step function over any number
   of concurrent runs), C29/NamesModel.v (the strings computed by _new_name / rename_and_write).
   [exec sch (init fs0 ks) s]: directory initially fs0, run i transforms kernel [ks i] (i ranges
   over ALL naturals: any number of runs), s is ANY schedule of atomic actions. *)
From Coq Require Import List.
From Coq Require Import String.
Local Open Scope list_scope.
Import ListNotations.
From PV Require Import C29.Model C29.Proofs C29.Live C29.NamesModel C29.NamesProofs.

(* ---------------- 'multiple' scheme: all interleavings, any number of runs ---------------- *)

(* files created by different runs are different files, at every moment *)
Theorem C29_multiple_files_distinct : forall fs0 ks s i j idx idx',
  let st := exec Multiple (init fs0 ks) s in
  i <> j -> own_idx (r_pc (st_runs st i)) = Some idx -> own_idx (r_pc (st_runs st j)) = Some idx' ->
  (k_base (ks i), idx) <> (k_base (ks j), idx').
Proof. exact files_distinct_. Qed.
Print Assumptions C29_multiple_files_distinct.

(* a finished run wrote a file that did not exist before the runs, and it holds its own kernel *)
Theorem C29_multiple_content_is_own : forall fs0 ks s i idx w,
  let st := exec Multiple (init fs0 ks) s in
  r_pc (st_runs st i) = Done idx w ->
  lookup fs0 (k_base (ks i), idx) = None /\
  lookup (st_fs st) (k_base (ks i), idx) = Some (Text (render (ks i) idx)).
Proof. exact content_is_own_. Qed.
Print Assumptions C29_multiple_content_is_own.

(* ... and no continuation of the schedule, by any run, ever changes that file *)
Theorem C29_multiple_never_overwritten : forall fs0 ks s s' i idx w,
  r_pc (st_runs (exec Multiple (init fs0 ks) s) i) = Done idx w ->
  lookup (st_fs (exec Multiple (init fs0 ks) (s ++ s'))) (k_base (ks i), idx)
    = Some (Text (render (ks i) idx)).
Proof. exact never_overwritten_. Qed.
Print Assumptions C29_multiple_never_overwritten.

(* files that were in the directory beforehand are never changed (either scheme) *)
Theorem C29_preexisting_untouched : forall sch fs0 ks s f c,
  lookup fs0 f = Some c -> lookup (st_fs (exec sch (init fs0 ks) s)) f = Some c.
Proof. exact preexisting_untouched_. Qed.
Print Assumptions C29_preexisting_untouched.

(* module and routine names in the file carry the file's (base, index); the PSy layer of the run
   names exactly that module and routine, and the body is the run's own *)
Theorem C29_multiple_names_and_psy : forall fs0 ks s i idx w,
  let st := exec Multiple (init fs0 ks) s in
  r_pc (st_runs st i) = Done idx w ->
  r_psy (st_runs st i) = Some idx /\
  exists c, lookup (st_fs st) (k_base (ks i), idx) = Some (Text c) /\
            c_mod c = (k_base (ks i), idx) /\ c_rout c = (k_rout (ks i), idx) /\
            c_body c = k_body (ks i).
Proof. exact psy_uses_own_. Qed.
Print Assumptions C29_multiple_names_and_psy.

Theorem C29_multiple_never_fails : forall fs0 ks s i idx,
  r_pc (st_runs (exec Multiple (init fs0 ks) s) i) <> Failed idx.
Proof. exact never_fails_. Qed.
Print Assumptions C29_multiple_never_fails.

(* from any reachable state, a run that gets enough steps completes with its own fresh file *)
Theorem C29_multiple_run_completes : forall fs0 ks s i,
  exists n idx, r_pc (st_runs (exec Multiple (init fs0 ks) (s ++ repeat i n)) i) = Done idx true.
Proof. exact run_completes_. Qed.
Print Assumptions C29_multiple_run_completes.

(* ---------------- names as strings ---------------- *)
(* FULL: forall modname tag, module_name false modname tag = file_stem modname tag  -- false of
   the code as it is ([false] = case-sensitive _new_name), see C29_names_match_refuted; proved
   when "_mod" is in lower case or absent in every case, and in full for the repaired variant *)
Theorem C29_names_match_partial : forall modname tag,
  suffix_case_ok modname = true -> module_name false modname tag = file_stem modname tag.
Proof. exact names_match_partial_. Qed.
Print Assumptions C29_names_match_partial.

Theorem C29_names_match_refuted :
  exists modname tag, lower (module_name false modname tag) <> lower (file_stem modname tag).
Proof. exact names_match_refuted_. Qed.
Print Assumptions C29_names_match_refuted.

Theorem C29_names_match_fixed : forall modname tag,
  module_name true modname tag = file_stem modname tag.
Proof. exact names_match_fixed_. Qed.
Print Assumptions C29_names_match_fixed.

Theorem C29_names_tagged : forall ci modname kname tag,
  (exists p, file_name modname tag = p ++ tag ++ S_ "_mod.f90"%string) /\
  (exists p, module_name ci modname tag = p ++ tag ++ S_ "_mod"%string) /\
  (exists p, routine_name ci kname tag = p ++ tag ++ S_ "_code"%string).
Proof.
  intros ci m k t.
  exact (conj (file_tagged_ m t) (conj (module_tagged_ ci m t) (routine_tagged_ ci k t))).
Qed.
Print Assumptions C29_names_tagged.

(* ---------------- 'single' scheme ---------------- *)
(* a run that finishes uses file <base>_0 and that file holds exactly its own kernel: it never
   uses another version *)
Theorem C29_single_uses_identical : forall fs0 ks s i idx w,
  let st := exec Single (init fs0 ks) s in
  r_pc (st_runs st i) = Done idx w ->
  idx = 0 /\ r_psy (st_runs st i) = Some 0 /\
  lookup (st_fs st) (k_base (ks i), 0) = Some (Text (render (ks i) 0)).
Proof. exact single_uses_identical_. Qed.
Print Assumptions C29_single_uses_identical.

(* two runs on one module name whose kernels differ never both succeed *)
Theorem C29_single_different_kernel_fails : forall fs0 ks s i j idx idx' w w',
  let st := exec Single (init fs0 ks) s in
  k_base (ks i) = k_base (ks j) -> ks i <> ks j ->
  r_pc (st_runs st i) = Done idx w -> r_pc (st_runs st j) = Done idx' w' -> False.
Proof. exact different_kernel_fails_. Qed.
Print Assumptions C29_single_different_kernel_fails.

Theorem C29_single_differing_file_fails : forall st a idx,
  r_pc (st_runs st a) = ToRead idx ->
  lookup (st_fs st) (k_base (r_kern (st_runs st a)), idx)
    <> Some (Text (render (r_kern (st_runs st a)) idx)) ->
  r_pc (st_runs (step Single st a) a) = Failed idx.
Proof. exact differing_file_fails_. Qed.
Print Assumptions C29_single_differing_file_fails.

(* FULL ("runs that produce identical kernels share one file"):
     forall fs0 ks s, same_base_same_kernel ks -> dir_compatible fs0 ks ->
       forall i idx, r_pc (st_runs (exec Single (init fs0 ks) s) i) <> Failed idx
   is FALSE of the code: the read-back can see the file between its creation and its writing. *)
Theorem C29_identical_share_refuted :
  exists (fs0 : fsys) (ks : nat -> kernel) (s : list nat) (i idx : nat),
    same_base_same_kernel ks /\ dir_compatible fs0 ks /\
    r_pc (st_runs (exec Single (init fs0 ks) s) i) = Failed idx.
Proof. exact identical_share_refuted_. Qed.
Print Assumptions C29_identical_share_refuted.

(* proved under read_safe (no read-back of a created-but-unwritten file; sequential runs are so) *)
Theorem C29_identical_share_partial : forall fs0 ks s,
  same_base_same_kernel ks -> dir_compatible fs0 ks ->
  read_safe Single (init fs0 ks) s = true ->
  let st := exec Single (init fs0 ks) s in
  forall i, (forall idx, r_pc (st_runs st i) <> Failed idx) /\
            (forall idx w, r_pc (st_runs st i) = Done idx w ->
               idx = 0 /\ r_psy (st_runs st i) = Some 0 /\
               lookup (st_fs st) (k_base (ks i), 0) = Some (Text (render (ks i) 0))).
Proof. exact identical_share_partial_. Qed.
Print Assumptions C29_identical_share_partial.

(* ---------------- non-vacuity ---------------- *)
Example C29_multiple_nonvacuous :
  let fs0 := [((1, 0), Other 5)] in
  let st := exec Multiple (init fs0 (ks_of [k_a; k_b; k_c]))
                 [0; 1; 2; 1; 1; 0; 2; 0; 1; 2; 0; 1; 1; 2; 0; 0] in
  r_pc (st_runs st 0) = Done 2 true /\ r_pc (st_runs st 1) = Done 1 true /\
  r_pc (st_runs st 2) = Done 0 true /\
  lookup (st_fs st) (1, 2) = Some (Text (render k_a 2)) /\
  lookup (st_fs st) (1, 1) = Some (Text (render k_b 1)) /\
  lookup (st_fs st) (1, 0) = Some (Other 5).
Proof. exact multiple_nonvacuous. Qed.
Print Assumptions C29_multiple_nonvacuous.

Example C29_single_nonvacuous :
  let s := [0; 0; 0; 0; 1; 1; 1; 2; 2; 2] in
  let st := exec Single (init [] (ks_of [k_a; k_a; k_b])) s in
  read_safe Single (init [] (ks_of [k_a; k_a; k_b])) s = true /\
  r_pc (st_runs st 0) = Done 0 true /\ r_pc (st_runs st 1) = Done 0 false /\
  r_pc (st_runs st 2) = Failed 0 /\
  lookup (st_fs st) (1, 0) = Some (Text (render k_a 0)).
Proof. exact single_nonvacuous. Qed.
Print Assumptions C29_single_nonvacuous.

Example C29_share_partial_nonvacuous :
  let ks := fun _ : nat => k_a in
  let s := [0; 0; 1; 0; 2; 0; 1; 1; 2; 2] in
  same_base_same_kernel ks /\ dir_compatible [] ks /\
  read_safe Single (init [] ks) s = true /\
  r_pc (st_runs (exec Single (init [] ks) s) 1) = Done 0 false /\
  r_pc (st_runs (exec Single (init [] ks) s) 2) = Done 0 false.
Proof. exact share_partial_nonvacuous. Qed.
Print Assumptions C29_share_partial_nonvacuous.

Example C29_names_nonvacuous :
  suffix_case_ok (S_ "testkern_mod"%string) = true /\ suffix_case_ok (S_ "TESTKERN_mod"%string) = true /\
  suffix_case_ok (S_ "testkern"%string) = true /\ suffix_case_ok (S_ "testkern_MOD"%string) = false /\
  file_name (S_ "testkern_mod"%string) (S_ "_3"%string) = S_ "testkern_3_mod.f90"%string /\
  module_name false (S_ "testkern_mod"%string) (S_ "_3"%string) = S_ "testkern_3_mod"%string /\
  routine_name false (S_ "testkern_code"%string) (S_ "_3"%string) = S_ "testkern_3_code"%string /\
  module_name false (S_ "testkern"%string) (S_ "_0"%string) = S_ "testkern_0_mod"%string /\
  module_name false (S_ "testkern_MOD"%string) (S_ "_0"%string) = S_ "testkern_MOD_0_mod"%string /\
  module_name true (S_ "testkern_MOD"%string) (S_ "_0"%string) = S_ "testkern_0_mod"%string /\
  file_name (S_ "testkern_MOD"%string) (S_ "_0"%string) = S_ "testkern_0_mod.f90"%string.
Proof. exact names_nonvacuous. Qed.
Print Assumptions C29_names_nonvacuous.
