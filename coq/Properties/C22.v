(* C22 — Distributed-memory LFRic code never reads a dirty halo.  Property theorems only.

   Full statement (DESIGN 5/C22), NOT provable of the code as it is today:
     never_reads_dirty : forall invoke, history of accepted transformations, M >= 1, run-time extents >= 1
       and initial halo states, the abstract run of the generated PSy layer reads no dirty halo / annexed
       dof and leaves no recorded state cleaner than the actual one.
   It is FALSE of the faithful model: three refutation theorems below (each witness is replayed on the
   real implementation by the check: known findings).  What is proved:
     - the placement condition established by create_halo_exchanges/update_halo_exchanges, as the checkable
       predicate [well_placed] on the generated invoke, implies the full property (all M, extents, initial
       states; induction over the schedule) -- the check evaluates [well_placed] on every generated invoke;
     - the decision tree of [required], the HaloReadAccess / _halo_read_access / HaloWriteAccess
       computations and the set_dirty/set_clean marks are sound under explicit sufficient conditions
       ([req_safe], not [read_gap]) -- [_partial]: the missing part is exactly the refuted cases. *)
From Coq Require Import List NArith Bool.
Import ListNotations.
From PV Require Import C22.Model C22.Placement C22.Required C22.Access C22.DepthList.
Open Scope N_scope.

(* never reads dirty + recorded no cleaner (+ annexed dofs clean on exit under COMPUTE_ANNEXED_DOFS) for
   every well-placed invoke, every halo depth (at least the deepest literal loop depth mlo of the invoke: smaller
   depths are not valid configurations), all extents, every initial state *)
Theorem C22_placement_safe : forall mlo cfg cont p, well_placed mlo cfg cont p = true ->
  forall M e s0, valid_cfg M e -> mlo <= M -> init_ok cfg M s0 ->
  match run M e p s0 false with
  | Ok s _ => fr s <= fa s /\ (cfg && cont = true -> fann s = true)
  | Invalid => True
  | DirtyRead | RecordedCleaner => False
  end.
Proof. exact placement_safe_. Qed.
Print Assumptions C22_placement_safe.

Example C22_placement_nonvacuous :
  well_placed 1 false true
    [ SHx [SLit 1] true; SLoop [(SLit 1, true)] None;
      SLoop [(SLit 0, true)] (Some (SLit 0, true)); SDirty;
      SHx [SVar false 0 1; SLit 2] false; SLoop [(SVar false 0 1, true)] None ] = true.
Proof. vm_compute. reflexivity. Qed.
Print Assumptions C22_placement_nonvacuous.

(* required = (False, _)  =>  what the writer is believed to leave clean covers what the readers demand *)
Theorem C22_required_sound_partial : forall cfg rc w k,
  req_safe rc = true -> required cfg rc w = (false, k) ->
  forall M e s0, valid_cfg M e -> (cfg = true -> snd s0 = true) ->
  rc_depth M e rc <= M ->
  sat (match w with Some c => after_write cfg M c | None => s0 end) (rc_need M e rc).
Proof. exact required_sound_partial_. Qed.
Print Assumptions C22_required_sound_partial.

(* the same statement at full strength for the code with the repair of props/C22/fix.patch *)
Theorem C22_required_sound_fixed : forall cfg rc w k,
  required_gen true cfg rc w = (false, k) ->
  forall M e s0, valid_cfg M e -> (cfg = true -> snd s0 = true) ->
  rc_depth M e rc <= M ->
  sat (match w with Some c => after_write cfg M c | None => s0 end) (rc_need M e rc).
Proof. exact required_sound_fixed_. Qed.
Print Assumptions C22_required_sound_fixed.

Example C22_required_nonvacuous :
  let rc := [plain_depth None 2] in
  let w := Some {| hw_max := false; hw_lit := 2; hw_dirty_outer := false |} in
  req_safe rc = true /\ required false rc w = (false, true).
Proof. exact required_sound_nonvacuous. Qed.
Print Assumptions C22_required_nonvacuous.

Theorem C22_required_refuted : exists cfg rc w k M e,
  required cfg rc (Some w) = (false, k) /\ valid_cfg M e /\ rc_depth M e rc <= M /\
  ~ sat (after_write cfg M w) (rc_need M e rc).
Proof. exact required_refuted_. Qed.
Print Assumptions C22_required_refuted.

Theorem C22_maxm1_exchange_depth_zero_refuted :
  let reader := {| r_acc := AInc; r_ub := BCellHalo; r_ubd := None; r_disc := false; r_dofkern := false;
                   r_auw := false; r_stencil := None; r_fine := false |} in
  exists h, read_access reader = Some h /\
    eval_max 1 (fun _ => 1) (map sd_of_hd (create_depth_list [h])) = 0 /\
    true_need (KCells LDMax) {| t_acc := AInc; t_cont := true; t_stencil := None; t_ghwc := false |}
      = Some (SMaxM1, true).
Proof. exact maxm1_exchange_depth_zero_. Qed.
Print Assumptions C22_maxm1_exchange_depth_zero_refuted.

(* HaloReadAccess records at least what is really read *)
Theorem C22_read_access_covers_partial : forall cfg a k t h d ann,
  lkind_of (r_ub a) (r_ubd a) = Some k -> compat_r cfg a k t = true -> read_gap a t = false ->
  read_access a = Some h -> true_need k t = Some (d, ann) ->
  forall M e, valid_cfg M e -> meets cfg (hr_need M e h) (eval_sd M e d, ann).
Proof. exact read_access_covers_partial_. Qed.
Print Assumptions C22_read_access_covers_partial.

(* full strength for the code with the repair of props/C22/fix.patch: there the special-case condition
   PSyclone evaluates (r_auw) coincides with the kernel kind of the ground truth (t_ghwc) *)
Theorem C22_read_access_covers_fixed : forall cfg a k t h d ann,
  lkind_of (r_ub a) (r_ubd a) = Some k -> compat_r cfg a k t = true -> r_auw a = t_ghwc t ->
  read_access a = Some h -> true_need k t = Some (d, ann) ->
  forall M e, valid_cfg M e -> meets cfg (hr_need M e h) (eval_sd M e d, ann).
Proof. exact read_access_covers_fixed_. Qed.
Print Assumptions C22_read_access_covers_fixed.

Theorem C22_halo_read_false_sound_fixed : forall cfg a k t d ann,
  lkind_of (r_ub a) (r_ubd a) = Some k -> compat_r cfg a k t = true -> r_auw a = t_ghwc t ->
  halo_read_access cfg (larg_of a) = Some false -> true_need k t = Some (d, ann) ->
  forall M e, eval_sd M e d = 0 /\ (ann = true -> cfg = true).
Proof. exact halo_read_false_sound_fixed_. Qed.
Print Assumptions C22_halo_read_false_sound_fixed.

Example C22_read_access_nonvacuous :
  let a := {| r_acc := ARead; r_ub := BCellHalo; r_ubd := Some 1; r_disc := false; r_dofkern := false;
              r_auw := false; r_stencil := None; r_fine := false |} in
  let t := {| t_acc := ARead; t_cont := true; t_stencil := None; t_ghwc := false |} in
  lkind_of (r_ub a) (r_ubd a) = Some (KCells (LD 1)) /\ compat_r false a (KCells (LD 1)) t = true /\
  read_gap a t = false /\ (exists h, read_access a = Some h) /\
  true_need (KCells (LD 1)) t = Some (SLit 1, true).
Proof. exact read_access_covers_nonvacuous. Qed.
Print Assumptions C22_read_access_nonvacuous.

Theorem C22_read_access_refuted : exists cfg a k t h d ann M e,
  lkind_of (r_ub a) (r_ubd a) = Some k /\ compat_r cfg a k t = true /\
  read_access a = Some h /\ true_need k t = Some (d, ann) /\ valid_cfg M e /\
  ~ meets cfg (hr_need M e h) (eval_sd M e d, ann).
Proof. exact read_access_refuted_. Qed.
Print Assumptions C22_read_access_refuted.

(* _halo_read_access = False  =>  nothing of the halo is read (annexed dofs only under COMPUTE_ANNEXED_DOFS) *)
Theorem C22_halo_read_false_sound_partial : forall cfg a k t d ann,
  lkind_of (r_ub a) (r_ubd a) = Some k -> compat_r cfg a k t = true -> read_gap a t = false ->
  halo_read_access cfg (larg_of a) = Some false -> true_need k t = Some (d, ann) ->
  forall M e, eval_sd M e d = 0 /\ (ann = true -> cfg = true).
Proof. exact halo_read_false_sound_. Qed.
Print Assumptions C22_halo_read_false_sound_partial.

(* what HaloWriteAccess claims is no cleaner than what the loop leaves *)
Theorem C22_write_belief_sound : forall cfg w k t,
  lkind_of (w_ub w) (w_ubd w) = Some k -> compat_w cfg w k t = true ->
  forall M e, valid_cfg M e -> eval_sd M e (fst (true_after k t)) <= M ->
  sat (eval_sd M e (fst (true_after k t)), snd (true_after k t) || (1 <=? eval_sd M e (fst (true_after k t))))
      (after_write cfg M (write_access w)).
Proof. exact write_belief_sound_. Qed.
Print Assumptions C22_write_belief_sound.

(* recorded_no_cleaner for the marks of gen_mark_halos_clean_dirty *)
Theorem C22_recorded_no_cleaner : forall cfg w k t,
  lkind_of (w_ub w) (w_ubd w) = Some k -> compat_w cfg w k t = true ->
  forall M e r, valid_cfg M e -> r <= M -> eval_sd M e (fst (true_after k t)) <= M ->
  let mk := marks (write_access w) in
  N.max (if fst mk then 0 else r) (match snd mk with Some d => eval_sd M e d | None => 0 end)
    <= eval_sd M e (fst (true_after k t)).
Proof. exact marks_no_cleaner_. Qed.
Print Assumptions C22_recorded_no_cleaner.

(* _create_depth_list: the aggregated list demands at least what each reader demands (the excluded case --
   halo depth 1 with a GH_INC reader at maximum depth -- is C22_maxm1_exchange_depth_zero_refuted; an empty
   list makes code generation fail) *)
Theorem C22_depth_list_covers_partial : forall hs h M e,
  In h hs -> valid_cfg M e ->
  forallb wf hs = true ->
  (forall x, In x hs -> hd_maxm1 (hr_d x) = false /\ ev M e (hr_d x) <= M) ->
  create_depth_list hs <> [] ->
  (2 <= M \/ existsb maxinc hs = false) ->
  meets0 (rc_need M e (create_depth_list hs)) (hr_need M e h).
Proof. exact depth_list_covers_partial_. Qed.
Print Assumptions C22_depth_list_covers_partial.

Example C22_depth_list_nonvacuous :
  let h1 := {| hr_d := {| hd_max := false; hd_maxm1 := false; hd_var := Some (false, 0); hd_lit := 1; hd_ann := false |};
               hr_nco := true |} in
  let h2 := {| hr_d := {| hd_max := false; hd_maxm1 := false; hd_var := None; hd_lit := 2; hd_ann := false |};
               hr_nco := false |} in
  forallb wf [h1; h2] = true /\ create_depth_list [h1; h2] <> [] /\ existsb maxinc [h1; h2] = false /\
  map sd_of_hd (create_depth_list [h1; h2]) = [SVar false 0 1; SLit 1].
Proof. exact depth_list_nonvacuous. Qed.
Print Assumptions C22_depth_list_nonvacuous.

(* ---- the placement step itself, untransformed invokes (coq/C22/Place.v: model of create_halo_exchanges).
   Full statement: forall invoke, outside the gaps, well_placed (place invoke) = true.  Proved for every field
   with AT MOST THREE loops touching it, loops drawn from the base-case universe (all access modes x loop
   bounds of LFRicLoop.load x continuity x stencil kinds), by exhaustive vm_compute sweep lifted to a
   forall-statement; the unbounded induction is missing ([_partial]). *)
From PV Require Import C22.Place C22.PlaceProofs.

Theorem C22_place_well_placed_partial : forall cfg cont ls,
  (length ls <= 3)%nat -> Forall (fun l => In l (universe cfg cont)) ls ->
  forallb outside_gap ls = true ->
  well_placed 1 cfg cont (place cfg ls) = true.
Proof. exact place_well_placed_bounded_. Qed.
Print Assumptions C22_place_well_placed_partial.

Theorem C22_universe_spec : forall cfg l, base_ok cfg l = true -> In (pl_st l) stencils ->
  In l (universe cfg (pl_cont l)).
Proof. exact universe_spec. Qed.
Print Assumptions C22_universe_spec.

(* hence no dirty read / recorded-cleaner for the generated untransformed code: all M, extents, initial states *)
Theorem C22_generated_never_reads_dirty_partial : forall cfg cont ls,
  (length ls <= 3)%nat -> Forall (fun l => In l (universe cfg cont)) ls ->
  forallb outside_gap ls = true ->
  forall M e s0, valid_cfg M e -> init_ok cfg M s0 ->
  match run M e (place cfg ls) s0 false with
  | Ok s _ => fr s <= fa s /\ (cfg && cont = true -> fann s = true)
  | Invalid => True
  | DirtyRead | RecordedCleaner => False
  end.
Proof. exact generated_never_reads_dirty_bounded_. Qed.
Print Assumptions C22_generated_never_reads_dirty_partial.

Example C22_place_nonvacuous :
  forallb (base_ok false) ex_invoke = true /\ forallb (fun l => pl_cont l) ex_invoke = true /\
  forallb outside_gap ex_invoke = true /\
  place false ex_invoke =
    [ SLoop [(SLit 0, false)] (Some (SLit 0, false)); SDirty;
      SHx [SVar false 0 0] false;
      SLoop [(SVar false 0 0, true)] None;
      SLoop [(SLit 0, true)] (Some (SLit 0, true)); SDirty ] /\
  well_placed 1 false true (place false ex_invoke) = true.
Proof. exact place_nonvacuous. Qed.
Print Assumptions C22_place_nonvacuous.
