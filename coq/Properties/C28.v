(* C28 — PSyData regions are entered and left in matched pairs.  Property theorems only.

   FULL STATEMENT (false of the faithful model, see the *_refuted theorems):
     forall t p tg o, accept_impl t p tg o = true -> no_escaping_transfer p = true ->
       forall fuel st st' tr c, exec fuel (apply_at (region_tag t o) tg p) st = Ok st' tr c ->
         well_bracketed (regions tr)
   together with uniqueness of region names unless the user supplied equal names.
   What is proved: the statement under the sufficient condition "the selected statements contain
   no RETURN and no EXIT/CYCLE that targets a loop outside the selection" (gap_return / gap_xc =
   false), of which the real validate establishes one half per transformation (Return excluded by
   Profile/NanTest/ReadOnlyVerify; CodeBlock excluded by Extract); the other half is refuted by
   witnesses that the check replays on the implementation. *)
From Coq Require Import List ZArith Bool.
Import ListNotations.
From PV Require Import Fort.Syntax Fort.Sem C28.Model C28.Proofs C28.Gen C28.TableProofs C28.PsyProofs.

(* any program (all stores, all fuel) without escaping transfer has a well-bracketed trace *)
Theorem C28_balanced_partial : forall fuel p st st' tr c,
  no_escaping_transfer p = true -> exec fuel p st = Ok st' tr c -> well_bracketed (regions tr).
Proof. exact balanced_partial_. Qed.
Print Assumptions C28_balanced_partial.

(* wrapping a selection with no RETURN and no directly contained EXIT/CYCLE keeps a program safe *)
Theorem C28_apply_preserves_safe_partial : forall r tg p sel ir d,
  selected p tg = Some sel -> gap_return sel = false -> gap_xc sel = false ->
  safe ir d p = true -> safe ir d (apply_at r tg p) = true.
Proof. exact apply_safe_nogap_. Qed.
Print Assumptions C28_apply_preserves_safe_partial.

(* the property for accepted placements outside the gap *)
Theorem C28_instrumented_balanced_partial : forall t p tg o sel,
  accept_impl t p tg o = true -> no_escaping_transfer p = true ->
  selected p tg = Some sel -> gap_return sel = false -> gap_xc sel = false ->
  forall fuel st st' tr c,
    exec fuel (apply_at (region_tag t o) tg p) st = Ok st' tr c -> well_bracketed (regions tr).
Proof. exact instrumented_balanced_partial_. Qed.
Print Assumptions C28_instrumented_balanced_partial.

(* Profile / NanTest / ReadOnlyVerify (tables of the tree under test): RETURN is excluded by validate *)
Theorem C28_instrumented_balanced_return_excluded_partial : forall t p tg o sel,
  t <> TExtract -> accept_impl t p tg o = true -> no_escaping_transfer p = true ->
  selected p tg = Some sel -> gap_xc sel = false ->
  forall fuel st st' tr c,
    exec fuel (apply_at (region_tag t o) tg p) st = Ok st' tr c -> well_bracketed (regions tr).
Proof. exact instrumented_balanced_return_excluded_. Qed.
Print Assumptions C28_instrumented_balanced_return_excluded_partial.

(* Extract (tables of the tree under test): EXIT/CYCLE (CodeBlocks) are excluded by validate *)
Theorem C28_instrumented_balanced_extract_partial : forall p tg o sel,
  accept_impl TExtract p tg o = true -> no_escaping_transfer p = true ->
  selected p tg = Some sel -> gap_return sel = false ->
  forall fuel st st' tr c,
    exec fuel (apply_at (region_tag TExtract o) tg p) st = Ok st' tr c -> well_bracketed (regions tr).
Proof. exact instrumented_balanced_extract_. Qed.
Print Assumptions C28_instrumented_balanced_extract_partial.

(* for ANY tables: if both Return and CodeBlock are excluded, accept implies the safe condition *)
Theorem C28_accept_implies_safe : forall T t p tg o r ir d,
  x_excl T t KReturn = true -> x_excl T t KCodeBlock = true ->
  accept_with T t p tg o = true -> safe ir d p = true -> safe ir d (apply_at r tg p) = true.
Proof. exact accept_implies_safe_. Qed.
Print Assumptions C28_accept_implies_safe.

(* REFUTED (tree as found): EXIT and CYCLE inside a Profile/NanTest/ReadOnlyVerify region *)
Theorem C28_balanced_refuted_exit : forall t x, t <> TExtract -> x = SExit \/ x = SCycle ->
  accept_with asfound_tables t (wit_loop x) wit_tgt wit_opts = true /\
  no_escaping_transfer (wit_loop x) = true /\
  exists s' tr c,
    exec 20 (apply_at (region_tag t wit_opts) wit_tgt (wit_loop x)) wit_store = Ok s' tr c /\
    ~ well_bracketed (regions tr).
Proof. exact refuted_xc. Qed.
Print Assumptions C28_balanced_refuted_exit.

(* REFUTED (tree as found): RETURN inside an Extract region *)
Theorem C28_balanced_refuted_return_extract :
  accept_with asfound_tables TExtract witr_prog witr_tgt wit_opts = true /\
  no_escaping_transfer witr_prog = true /\
  exists s' tr c,
    exec 20 (apply_at (region_tag TExtract wit_opts) witr_tgt witr_prog) wit_store = Ok s' tr c /\
    ~ well_bracketed (regions tr).
Proof. exact refuted_return_extract. Qed.
Print Assumptions C28_balanced_refuted_return_extract.

(* never directly between a loop directive and its loop, never under an OpenACC directive *)
Theorem C28_accept_not_between : forall t p tg o,
  accept_impl t p tg o = true ->
  exists ancs blk, locate (t_path tg) p [] = Some (ancs, blk) /\
    (forall rest, ancs <> ADir 1 :: rest /\ ancs <> ADir 2 :: rest /\ ancs <> ADir 4 :: rest) /\
    ~ In (ADir 3) ancs /\ ~ In (ADir 4) ancs /\ ~ In (ADir 5) ancs.
Proof. exact accept_not_between_gen. Qed.
Print Assumptions C28_accept_not_between.

(* automatic names "r<pre-order index>" are pairwise distinct *)
Theorem C28_names_unique_auto : forall p, NoDup (filter is_auto (region_names p)).
Proof. exact names_unique_auto_. Qed.
Print Assumptions C28_names_unique_auto.

(* all names distinct unless the user supplied the same name twice (aggregation) *)
Theorem C28_names_unique : forall p,
  NoDup (filter (fun n => negb (is_auto n)) (region_names p)) -> NoDup (region_names p).
Proof. exact names_unique_. Qed.
Print Assumptions C28_names_unique.

(* automatic whole-routine profiling (profiler.py) of valid Fortran cannot be escaped *)
Theorem C28_auto_profile_safe : forall p q,
  auto_profile p = AWrapped q -> safe false true p = true -> no_escaping_transfer q = true.
Proof. exact auto_profile_safe_. Qed.
Print Assumptions C28_auto_profile_safe.

(* non-vacuity *)
Example C28_nonvacuous :
  accept_with asfound_tables TProfile ok_prog ok_tgt wit_opts = true /\
  no_escaping_transfer ok_prog = true /\
  (exists sel, selected ok_prog ok_tgt = Some sel /\ gap_return sel = false /\ gap_xc sel = false) /\
  exists s' tr c,
    exec 30 (apply_at (region_tag TProfile wit_opts) ok_tgt ok_prog) wit_store = Ok s' tr c /\
    regions tr = [Enter 0; Leave 0; Enter 0; Leave 0].
Proof. exact nonvacuous_ok. Qed.
Print Assumptions C28_nonvacuous.

Example C28_gen_nonvacuous :
  accept_impl TProfile ok_prog ok_tgt wit_opts = true /\
  accept_impl TExtract witr_prog (mkTarget [] 0 1) wit_opts = true /\
  accept_impl TNanTest [SDir 1 [SDo 0 (ELit 1%Z) (ELit 2%Z) (ELit 1%Z) []]] (mkTarget [(0, false)] 0 1) wit_opts = false.
Proof. exact gen_nonvacuous. Qed.
Print Assumptions C28_gen_nonvacuous.

(* PSy layer: names issued by get_unique_region_name (LFRic/GOcean extraction) are pairwise distinct
   for any sequence of regions and any earlier history of the counter *)
Theorem C28_psy_issue_unique : forall reqs hist, NoDup (issue hist reqs).
Proof. exact issue_unique_. Qed.
Print Assumptions C28_psy_issue_unique.

(* the tree under test still keys the counter on the name it builds (translator obligation) *)
Theorem C28_psy_key_is_name : gen_psy_key_is_name = true.
Proof. exact gen_psy_key. Qed.
Print Assumptions C28_psy_key_is_name.

(* PSy layer: names chosen at generation time (gen_code) are pairwise distinct *)
Theorem C28_psy_lfric_gen_unique : forall nodes i issued,
  Forall (fun nd => snd nd = PSGen) nodes -> NoDup (lfric_names_from i issued nodes).
Proof. exact lfric_gen_unique_. Qed.
Print Assumptions C28_psy_lfric_gen_unique.

(* REFUTED (tree as found): a generation-time name and an issued name can coincide in one invoke *)
Theorem C28_psy_lfric_mixed_refuted :
  exists reqs nodes, ~ NoDup (lfric_file_names reqs nodes) /\
                     (forall u, ~ In (PNUser u) (lfric_file_names reqs nodes)).
Proof. exact lfric_mixed_refuted_. Qed.
Print Assumptions C28_psy_lfric_mixed_refuted.

Example C28_psy_issue_nonvacuous :
  issue [] [(0, [1; 1]); (0, [2; 2]); (0, [3]); (1, [3]); (0, [3])]
  = [((0, None), 0); ((0, None), 1); ((0, Some 3), 0); ((1, Some 3), 0); ((0, Some 3), 1)].
Proof. exact issue_nonvacuous. Qed.
Print Assumptions C28_psy_issue_nonvacuous.
