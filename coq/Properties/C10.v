From Coq Require Import List.
Import ListNotations.
From PV Require Import C10.Kinds C10.Gen C10.Model C10.Compiler C10.Proofs.
Theorem C10_placeholder : gen_ok [Leaf LAssign] = true.
Proof. exact placeholder_. Qed.
Print Assumptions C10_placeholder.
