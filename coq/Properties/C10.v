(* C10 — Directive trees produced by accepted transformations are valid.  Property theorems only.

   FULL STATEMENT (false of the unchanged code, see C10_gap_witnesses):
     forall r0 ops r, run ops r0 = Some r -> gen_ok r = true -> WF r /\ cc_viol r = []
   i.e. whatever FortranWriter accepts after any history of accepted transformations satisfies the three
   named conditions (WF) and the compiler's nesting rules (cc_viol, coq/C10/Compiler.v, validated against
   gfortran by the check).  What is proved instead:
     * C10_gen_ok_WF_unchecked / C10_gen_ok_WF_gaps: for EVERY tree the writer accepts (hence every history),
       each violation of WF sits at a (clause, directive) pair that the generated tables do not enforce, and
       today those pairs are at most the four of Cover.known_gaps;
     * C10_gen_ok_WF_partial / C10_history_WF_partial: WF holds under the sufficient conditions gap_free /
       op_safe;
     * C10_gap_witnesses: for each known finding, a conditional witness (history, final tree, violation).
   gen_rules / excluded_tab / created_tab / collapse_tab are regenerated from /repo on every run (C10.Gen). *)
From Coq Require Import List Bool.
Import ListNotations.
From PV Require Import C10.Kinds C10.Gen C10.Model C10.Compiler C10.Cover C10.Lemmas C10.Proofs C10.Proofs2 C10.Proofs3
  C10.Witness C10.GenWitness C10.WitnessProof.

(* every WF violation in a tree accepted by the writer is at a (clause, kind) the tables leave unchecked *)
Theorem C10_gen_ok_WF_unchecked : forall r, gen_ok r = true ->
  forall anc n cl, In (anc, n) (rnodes r) -> wf_node (rkinds r) (anc, n) = Some cl -> uncheck cl (kind_of n) = true.
Proof. exact gen_ok_wf_unchecked_. Qed.
Print Assumptions C10_gen_ok_WF_unchecked.

(* ... and with the tables of the tree under test these are at most the four known gaps:
   nested ACC parallel/kernels, collapse of OMPLoopDirective and of ACCLoopDirective *)
Theorem C10_gen_ok_WF_gaps : forall r, gen_ok r = true ->
  forall anc n cl, In (anc, n) (rnodes r) -> wf_node (rkinds r) (anc, n) = Some cl -> In (cl, kind_of n) known_gaps.
Proof. exact gen_ok_wf_gaps_. Qed.
Print Assumptions C10_gen_ok_WF_gaps.

(* the executable specification is the declarative one *)
Theorem C10_wf_b_WF : forall r, wf_b r = true <-> WF r.
Proof. exact wf_b_WF. Qed.
Print Assumptions C10_wf_b_WF.

(* partial form of gen_ok_WF: trees without a gap node *)
Theorem C10_gen_ok_WF_partial : forall r, gen_ok r = true -> gap_free r = true -> WF r.
Proof. exact gen_ok_WF_partial_. Qed.
Print Assumptions C10_gen_ok_WF_partial.

(* any history of operations that insert no ACC parallel/kernels region and no collapse clause on
   `omp loop` / `acc loop`: what the writer accepts is WF, and the loop/statement skeleton is unchanged *)
Theorem C10_history_WF_partial : forall r0 ops r, forallb directive_free r0 = true -> forallb op_safe ops = true ->
  run ops r0 = Some r -> gen_ok r = true -> WF r /\ rerase r = rerase r0.
Proof. exact history_WF_partial_. Qed.
Print Assumptions C10_history_WF_partial.

Theorem C10_history_WF_gaps : forall r0 ops r, run ops r0 = Some r -> gen_ok r = true ->
  forall cl k, In (cl, k) (wf_viol r) -> In (cl, k) known_gaps.
Proof. exact history_WF_gaps_. Qed.
Print Assumptions C10_history_WF_gaps.

Example C10_history_nonvacuous :
  forallb directive_free ex_start = true /\ forallb op_safe ex_ops = true /\
  run ex_ops ex_start = Some [Dir OMPParallel None [Dir OMPDo (Some 2) [Loop [Loop [Leaf LAssign]]]; Leaf LAssign]] /\
  gen_ok [Dir OMPParallel None [Dir OMPDo (Some 2) [Loop [Loop [Leaf LAssign]]]; Leaf LAssign]] = true.
Proof. exact history_nonvacuous_. Qed.
Print Assumptions C10_history_nonvacuous.

Example C10_refusals_nonvacuous :
  gen_ok [Dir OMPDo None [Loop [Leaf LAssign]]] = false /\
  gen_ok [Dir OMPParallel None [Dir OMPParallel None [Leaf LAssign]]] = false /\
  gen_ok [Dir OMPParallel None [Dir OMPDo (Some 2) [Loop [Loop [Leaf LAssign]; Leaf LAssign]]]] = false.
Proof. exact refusals_nonvacuous_. Qed.
Print Assumptions C10_refusals_nonvacuous.

(* the gap between ParallelLoopTrans.validate and generation: validate accepts collapse=2 on an imperfect
   nest (it follows loop_body[0] only) ... *)
Theorem C10_collapse_validate_weaker : forall t, In t [TOMPDo; TOMPParallelDo; TOMPTeamsParDo; TOMPLoop; TACCLoop] ->
  validate_loop t imperfect2 (Build_op t (TNode [] 0) (Some 2) true) = Ok /\ perfect_b 2 [imperfect2] = false.
Proof. exact collapse_validate_weaker_. Qed.
Print Assumptions C10_collapse_validate_weaker.

(* ... and the writer refuses it for OMPDoDirective, OMPParallelDoDirective, OMPTeamsDistributeParallelDo *)
Theorem C10_writer_refuses_imperfect_collapse : forall r anc d c b,
  In (anc, Dir d (Some c) b) (rnodes r) -> In d [OMPDo; OMPParallelDo; OMPTeamsParDo] ->
  perfect_b c b = false -> gen_ok r = false.
Proof. exact writer_refuses_imperfect_collapse_. Qed.
Print Assumptions C10_writer_refuses_imperfect_collapse.

(* shape preservation: every accepted transformation, and every history, only inserts directives *)
Theorem C10_apply_op_erase : forall o r r', apply_op o r = Accepted r' -> rerase r' = rerase r.
Proof. exact apply_op_erase_. Qed.
Print Assumptions C10_apply_op_erase.

Theorem C10_run_erase : forall ops r r', run ops r = Some r' -> rerase r' = rerase r.
Proof. exact run_erase_. Qed.
Print Assumptions C10_run_erase.

(* conditional refutations of the full statement, one per known finding (coq/C10/GenWitness.v is generated
   from props/C10/known_findings.json): IF the model still accepts the history with this final tree and its
   writer accepts that tree, THEN the start is directive-free and the final tree shows the listed violation
   of WF / of the compiler rules.  The check evaluates the premises (Witness.premises_b) on every run and
   replays the witnesses on PSyclone and gfortran. *)
Theorem C10_gap_witnesses : Forall witness_holds witnesses.
Proof. exact all_witnesses_. Qed.
Print Assumptions C10_gap_witnesses.

Example C10_gap_witnesses_nonempty : 1 <= length witnesses.
Proof. exact witnesses_nonempty_. Qed.
Print Assumptions C10_gap_witnesses_nonempty.
