(* C18 — Line-length limiting keeps the program and respects the limit.  Property theorems only.
   Model: C18/Model.v (faithful to src/psyclone/line_length.py for Latin-1 text and limits
   L >= min_limit = 9; tables from the generated C18/Gen.v).  Spec of "joined": C18/Join.v. *)
From Coq Require Import List Arith Bool NArith.
Import ListNotations.
From PV Require Import C18.Types C18.Gen C18.Model C18.Join C18.LimitProofs C18.JoinStmt C18.JoinCmt
  C18.JoinAll C18.Witness C18.TextProofs C18.TextWitness.

(* 1. no output line is longer than the limit (per line and for whole texts), for every limit *)
Theorem C18_limit_respected : forall L l ls,
  process_line L l = Ok ls -> Forall (fun x => length x <= L) ls.
Proof. exact limit_respected_line. Qed.
Print Assumptions C18_limit_respected.

Theorem C18_limit_respected_text : forall L t t',
  process_text L t = TOk t' -> Forall (fun x => length x <= L) (split_nl t') /\ long_lines L t' = false.
Proof. intros L t t' H. split; [exact (limit_respected_text L t t' H) | exact (long_lines_false_after L t t' H)]. Qed.
Print Assumptions C18_limit_respected_text.

(* 2. applying the limiter again changes nothing *)
Theorem C18_idempotent : forall L t t', process_text L t = TOk t' -> process_text L t' = TOk t'.
Proof. exact idempotent_text. Qed.
Print Assumptions C18_idempotent.

(* 3. the model's recursion is total: the continuation loop always terminates within its fuel *)
Theorem C18_process_total : forall L l, process_line L l <> OutOfFuel.
Proof. exact process_line_total. Qed.
Print Assumptions C18_process_total.

(* 4. "never fails on text it is asked to wrap".
   FULL statement (FALSE of the faithful model, see C18_never_fails_refuted):
     forall L l, process_line L l <> Err.
   Proved part: no InternalError when every over-long remainder of the line has a break key inside
   the continuation window (`breakable`, decidable).  Missing: lines with a key-free stretch longer
   than the window (long names, blank-free character literals). *)
Theorem C18_never_fails_partial : forall L l, breakable L l = true -> process_line L l <> Err.
Proof. exact never_fails_partial_. Qed.
Print Assumptions C18_never_fails_partial.

Theorem C18_never_fails_refuted : exists L l, 40 <= L <= 132 /\ L < length l /\ process_line L l = Err.
Proof. exact never_fails_refuted_. Qed.
Print Assumptions C18_never_fails_refuted.

(* 5. "means exactly the same program once continuation lines are joined".
   FULL statement (FALSE of the faithful model, see the five *_refuted theorems):
     forall L l ls r, join [l] = Some r -> process_line L l = Ok ls ->
       exists r', join ls = Some r' /\ jequiv r' r = true.
   Proved part: it holds whenever the line, read on its own by the Fortran rules, is exactly one
   statement without trailing comment and trailing white space / one directive without trailing
   comment / one comment, of the kind the limiter takes it for (`safe`).  jequiv: statements and
   comments exactly, directives modulo white space following white space or `,` `)` `=`. *)
Theorem C18_join_process_partial : forall L l ls r,
  safe l = true -> join [l] = Some r -> process_line L l = Ok ls ->
  exists r', join ls = Some r' /\ jequiv r' r = true.
Proof. exact join_process_partial_. Qed.
Print Assumptions C18_join_process_partial.

(* the exact forms behind it *)
Theorem C18_join_statement_exact : forall L l ls t,
  line_type l = Statement \/ line_type l = Unknown ->
  join [l] = Some ([(KStmt, t)], []) -> last_nonws l = true ->
  process_line L l = Ok ls -> join ls = Some ([(KStmt, t)], []).
Proof. exact join_process_stmt. Qed.
Print Assumptions C18_join_statement_exact.

Theorem C18_join_comment_exact : forall L l ls cm,
  line_type l = CommentT -> join [l] = Some ([], [cm]) ->
  process_line L l = Ok ls -> join ls = Some ([], [cm]).
Proof. exact join_process_cmt. Qed.
Print Assumptions C18_join_comment_exact.

Theorem C18_join_directive_blanks : forall L l ls t,
  (line_type l = Omp /\ join [l] = Some ([(KOmp, t)], []) \/ line_type l = Acc /\ join [l] = Some ([(KAcc, t)], [])) ->
  process_line L l = Ok ls ->
  exists k t', join ls = Some ([(k, t')], []) /\ join [l] = Some ([(k, t)], []) /\ squeeze true t' = squeeze true t.
Proof.
  intros L l ls t [[Ht Hj] | [Ht Hj]] H.
  - destruct (join_process_omp L l ls t Ht Hj H) as [t' [J S]]. exists KOmp, t'. repeat split; assumption.
  - destruct (join_process_acc L l ls t Ht Hj H) as [t' [J S]]. exists KAcc, t'. repeat split; assumption.
Qed.
Print Assumptions C18_join_directive_blanks.

(* refutations of the full join statement on the faithful model (each replayed on the implementation) *)
Theorem C18_trailing_comment_refuted : exists L l, 40 <= L <= 132 /\ line_type l = Unknown /\ join_broken L l.
Proof. exact trailing_comment_refuted_. Qed.
Print Assumptions C18_trailing_comment_refuted.

Theorem C18_conditional_compilation_refuted : exists L l, 40 <= L <= 132 /\ line_type l = CommentT /\ join_broken L l.
Proof. exact cond_comp_refuted_. Qed.
Print Assumptions C18_conditional_compilation_refuted.

Theorem C18_directive_comment_refuted : exists L l, 40 <= L <= 132 /\ line_type l = Omp /\ join_broken L l.
Proof. exact directive_comment_refuted_. Qed.
Print Assumptions C18_directive_comment_refuted.

Theorem C18_lone_ampersand_refuted : exists L l, 40 <= L <= 132 /\ line_type l = Unknown /\ join_broken L l.
Proof. exact lone_ampersand_refuted_. Qed.
Print Assumptions C18_lone_ampersand_refuted.

Theorem C18_sentinel_prefix_refuted :
  exists L l, 40 <= L <= 132 /\ line_type l = Omp /\ join [l] = Some ([], [lstrip l]) /\ join_broken L l.
Proof. exact sentinel_prefix_refuted_. Qed.
Print Assumptions C18_sentinel_prefix_refuted.

(* non-vacuity: five concrete lines (call, declaration with a character literal, !$omp, !$ACC, comment)
   longer than the limit 60 are safe, breakable, really wrapped into several lines within the limit
   and join back *)
Example C18_nonvacuous :
  forallb (nontrivial 60) [ex_stmt; ex_decl; ex_omp; ex_acc; ex_cmt] = true /\
  map line_type [ex_stmt; ex_decl; ex_omp; ex_acc; ex_cmt] = [Statement; Statement; Omp; Acc; CommentT].
Proof. exact nonvacuous_. Qed.
Print Assumptions C18_nonvacuous.

Example C18_nonvacuous_text : exists t t', process_text 60 t = TOk t' /\ t <> t' /\ process_text 60 t' = TOk t'.
Proof. exact example_text. Qed.
Print Assumptions C18_nonvacuous_text.

(* ---- texts (lists of lines processed line by line, as the implementation does) ------------- *)
Theorem C18_limit_respected_text_all : forall L ls out,
  process_lines L ls = Ok out -> Forall (fun x => length x <= L) out.
Proof. exact limit_respected_lines_. Qed.
Print Assumptions C18_limit_respected_text_all.

Theorem C18_idempotent_lines : forall L ls out, process_lines L ls = Ok out -> process_lines L out = Ok out.
Proof. exact idempotent_lines_. Qed.
Print Assumptions C18_idempotent_lines.

(* join is compositional over complete continuation groups: if the text is a concatenation of
   groups (each a complete group of input lines paired with the output lines produced for it; both
   non-empty, neither starting with the comment marker `!& `, both well formed with equivalent
   joins - `group_okb`, decidable), then the whole output joins to something equivalent to the
   whole input.  A group may consist of several input lines (a directive or statement that is
   already continued). *)
Theorem C18_join_groups : forall gs, forallb group_okb gs = true ->
  exists R R', join (concat (map fst gs)) = Some R /\ join (concat (map snd gs)) = Some R' /\ jequiv R' R = true.
Proof. exact join_groups_. Qed.
Print Assumptions C18_join_groups.

(* text-level join theorem, partial: every input line is safe on its own (each line is a complete
   group) and does not start with the marker `!& `; premise on the output (decidable): the first
   output line of each input line does not start with `!& ` either.
   FULL statement (false, see the *_refuted theorems; and not proved for texts whose lines are
   themselves continued, which are covered group-wise by C18_join_groups):
     forall L ls out R, process_lines L ls = Ok out -> join ls = Some R -> exists R', join out = Some R' /\ jequiv R' R = true *)
Theorem C18_join_text_partial : forall L ls out,
  process_lines L ls = Ok out ->
  forallb (fun l => safe l && no_marker l) ls = true ->
  (forall l o, In l ls -> process_line L l = Ok o -> starts_ok o = true) ->
  exists R R', join ls = Some R /\ join out = Some R' /\ jequiv R' R = true.
Proof. exact join_text_partial_. Qed.
Print Assumptions C18_join_text_partial.

(* non-vacuity: a directive already split over two lines whose `!$omp&` continuation line (107
   characters) is longer than the limit 60, a long call and a long comment: the three groups satisfy
   group_okb and their outputs are exactly what the limiter produces for the 4-line text (8 lines) *)
Example C18_nonvacuous_split_directive :
  forallb group_okb (ex_groups 60) = true /\
  process_lines 60 [d1; d2; s1; c1] = Ok (concat (map snd (ex_groups 60))) /\
  concat (map fst (ex_groups 60)) = [d1; d2; s1; c1] /\
  (60 <? length d2) = true /\ iprefixb sent_omp (lstrip d2) = true /\
  length (concat (map snd (ex_groups 60))) = 8.
Proof. exact text_nonvacuous_. Qed.
Print Assumptions C18_nonvacuous_split_directive.

Example C18_nonvacuous_text_allsafe :
  forallb (fun l => safe l && no_marker l) [s1; c1; s1] = true /\
  forallb (fun l => starts_ok (out_of 60 [l])) [s1; c1] = true /\
  length (out_of 60 [s1; c1; s1]) = 6.
Proof. exact text_allsafe_nonvacuous_. Qed.
Print Assumptions C18_nonvacuous_text_allsafe.
