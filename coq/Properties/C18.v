(* C18 — stub, replaced below *)
From Coq Require Import List.
From PV Require Import C18.Types C18.Gen C18.Model.
Theorem C18_stub : min_limit = 9.
Proof. reflexivity. Qed.
Print Assumptions C18_stub.
