(* C09 — OpenMP-parallelised loops compute the serial result on any schedule.  Property theorems only.

   FULL STATEMENT (what the property asks of the code):
     forall loop, accept loop = Some true ->                      (ParallelLoopTrans.validate, no force)
       forall f s s' tr c junk sched,
         exec (S (S f)) [loop] s = Ok s' tr c -> sched_ok loop s sched ->
         exists so, omp_exec (S f) (infer_loop loop) loop junk sched s = Some so /\
                    shared_eq (privatised (loopvar loop) (infer_loop loop)) so s'.
   It is FALSE of the faithful model and of the unchanged code: C09_omp_refuted_* below give accepted
   loops, a store and a schedule on which a non-privatised location differs from the serial run.
   What is proved instead: the statement with `accept` replaced by the sufficient syntactic condition
   `safe` (C09_omp_sound_partial), for ANY clause lists (C09_omp_sound_with_clauses: this is the form the
   harness instantiates with the clauses the implementation really wrote).  Missing for the full
   statement: accept -> safe, which does not hold.

   Scope of omp_exec: iterations are atomic and run in an arbitrary order on an arbitrary assignment to
   threads (every thread count, every schedule kind at iteration granularity); private copies hold
   arbitrary junk per thread at region entry, firstprivate copies the entry value, and both persist
   between the iterations of one thread.  Sub-iteration interleavings and the OpenMP memory model are
   NOT modelled.  The values of privatised scalars after the region are excluded (shared_eq). *)
From Coq Require Import List ZArith Bool Permutation.
Import ListNotations.
From PV Require Import Fort.Syntax Fort.Sem C09.Model C09.Footprint C09.Proofs.
Open Scope Z_scope.

(* any loop in the safe class w.r.t. ANY clauses: every schedule, every junk, same shared part *)
Theorem C09_omp_sound_with_clauses :
  forall f cl loop s s' tr c (junk : nat -> store) (sched : list (nat * nat)),
    safe_with cl loop = true ->
    exec (S (S f)) [loop] s = Ok s' tr c ->
    sched_ok loop s sched ->
    exists so, omp_exec (S f) cl loop junk sched s = Some so /\
               shared_eq (privatised (loopvar loop) cl) so s'.
Proof. exact omp_sound_with. Qed.
Print Assumptions C09_omp_sound_with_clauses.

(* with the clauses infer_sharing_attributes computes for `!$omp parallel do` around the loop *)
Theorem C09_omp_sound_partial :
  forall f loop s s' tr c (junk : nat -> store) (sched : list (nat * nat)),
    safe loop = true ->
    exec (S (S f)) [loop] s = Ok s' tr c ->
    sched_ok loop s sched ->
    exists so, omp_exec (S f) (infer_loop loop) loop junk sched s = Some so /\
               shared_eq (privatised (loopvar loop) (infer_loop loop)) so s'.
Proof. exact omp_sound_partial_. Qed.
Print Assumptions C09_omp_sound_partial.

(* the footprint fact behind it: in a checked body every write of iteration v goes to a privatised
   scalar or to v's slice of a written array, every upward-exposed read is of the loop variable,
   loop-invariant data or v's slice, and the body completes normally *)
Theorem C09_iteration_footprint :
  forall P x SL v, memn x P = true ->
  forall f body D' s s' tr c,
    chks P x SL [x] body = Some D' -> exec f body s = Ok s' tr c -> val s (x, []) = v ->
    c = CNormal /\ (forall l, In l (writes tr) -> allowedW P x SL v l) /\
    (forall l, In l (exposed tr) -> allowedR P SL v [x] l).
Proof. exact iter_fp. Qed.
Print Assumptions C09_iteration_footprint.

(* do i = 1, 3; last = a(i); end do : accepted (WARN_SCALAR_WRITTEN_ONCE ignored), `last` shared,
   order 3, 2, 1 leaves last = a(1) = 1 instead of a(3) = 3 *)
Theorem C09_omp_refuted_written_once :
  exists s junk sched l vs vo,
    accept w_once = Some true /\ sched_ok w_once s sched /\
    memn (fst l) (privatised (loopvar w_once) (infer_loop w_once)) = false /\
    final_val (exec 50 [w_once] s) l = Some vs /\
    omp_val (omp_exec 49 (infer_loop w_once) w_once junk sched s) l = Some vo /\ vs <> vo.
Proof. exact refuted_written_once_. Qed.
Print Assumptions C09_omp_refuted_written_once.

(* do i = 1, 3; if (a(i) > 0) t = a(i); b(i) = t; end do : accepted, firstprivate(t); the value of t
   must flow from iteration 1 to iteration 2 but a second thread starts from the entry value *)
Theorem C09_omp_refuted_cond_firstprivate :
  exists s junk sched l vs vo,
    accept w_cond = Some true /\ sched_ok w_cond s sched /\
    memn (fst l) (privatised (loopvar w_cond) (infer_loop w_cond)) = false /\
    final_val (exec 50 [w_cond] s) l = Some vs /\
    omp_val (omp_exec 49 (infer_loop w_cond) w_cond junk sched s) l = Some vo /\ vs <> vo.
Proof. exact refuted_cond_firstprivate_. Qed.
Print Assumptions C09_omp_refuted_cond_firstprivate.

(* do i = 1, 3; do j = 1, m; t = a(j); end do; b(i) = t; end do : accepted, private(t) because the
   first write is inside a loop; with m = 0 the private copy is read uninitialised *)
Theorem C09_omp_refuted_inner_loop_private :
  exists s junk sched l vs vo,
    accept w_inner = Some true /\ sched_ok w_inner s sched /\
    memn (fst l) (privatised (loopvar w_inner) (infer_loop w_inner)) = false /\
    final_val (exec 50 [w_inner] s) l = Some vs /\
    omp_val (omp_exec 49 (infer_loop w_inner) w_inner junk sched s) l = Some vo /\ vs <> vo.
Proof. exact refuted_inner_loop_private_. Qed.
Print Assumptions C09_omp_refuted_inner_loop_private.

(* non-vacuity: an accepted loop inside the safe class, its serial run, a 3-thread reverse schedule *)
Example C09_sound_nonvacuous :
  accept w_safe = Some true /\ safe w_safe = true /\
  (exists s' tr, exec 50 [w_safe] st0 = Ok s' tr CNormal) /\
  sched_ok w_safe st0 [(0%nat, 2%nat); (1%nat, 1%nat); (2%nat, 0%nat)] /\
  omp_val (omp_exec 49 (infer_loop w_safe) w_safe junk0 [(0%nat, 2%nat); (1%nat, 1%nat); (2%nat, 0%nat)] st0) (nb, [3]) = Some 4.
Proof. exact sound_nonvacuous_. Qed.
Print Assumptions C09_sound_nonvacuous.

(* the three refutation witnesses are in the gap: accepted, outside the safe class *)
Example C09_gap_witnesses : safe w_once = false /\ safe w_cond = false /\ safe w_inner = false.
Proof. exact gap_witnesses. Qed.
Print Assumptions C09_gap_witnesses.

(* regenerated obligation (props/C12/translate.py -> coq/C12/GenTables.v, run by props/C09/check.py before proving): every
   intrinsic of the tree under test is known to the frozen table of the Fortran standard's inquiry functions
   (coq/C12/IntrTable.v), and none is flagged `is_inquiry` -- IntrinsicCall.reference_accesses then records NO read of its
   first argument, so the dependence analysis and infer_sharing_attributes do not see that read -- unless the standard
   classifies it as an inquiry function.  The access-list model (Model.eaccs) relies on exactly this for ABS MIN MAX MOD SIGN
   (arguments read) and LBOUND UBOUND SIZE (first argument skipped). *)
From PV Require Import C12.IntrTable C12.GenTables C12.IntrOblig.
Theorem C09_inquiry_flags_sound : forallb flag_ok gen_intrinsics = true.
Proof. exact inquiry_flags_sound. Qed.
Print Assumptions C09_inquiry_flags_sound.

(* ---- array-section assignments (coq/C09/Sections.v): desugared into MiniFortran, no new semantics ---- *)
From PV Require Import C09.Sections.

(* the desugared block  a(ix) = rhs  (n elements, temporaries tmp 0..n-1) has the Fortran array-assignment meaning:
   its trace is an evaluation phase that writes only temporaries followed by a store phase that reads only
   temporaries (and index scalars): every right-hand-side element is read before any element is stored *)
Theorem C09_section_assign_order :
  forall tmp a ix rhs n (I : loc -> Prop) f s s' tr c,
    idx_reads_in I ix ->
    exec f (section_assign tmp a ix rhs n) s = Ok s' tr c ->
    exists tr1 tr2, tr = tr1 ++ tr2 /\
      (forall l, In l (writes tr1) -> exists k, (k < n)%nat /\ l = (tmp k, [])) /\
      (forall l, In l (reads tr2) -> (exists k, (k < n)%nat /\ l = (tmp k, [])) \/ I l).
Proof. exact section_assign_order. Qed.
Print Assumptions C09_section_assign_order.

(* loops whose bodies contain desugared section assignments, temporaries thread-local: in the safe class (identical
   loop-variable subscripts, i.e. distance 0, in one dimension of every written array; the section dimension is
   free) every schedule leaves the serial shared part *)
Theorem C09_omp_sound_sections :
  forall f cl temps loop s s' tr c (junk : nat -> store) (sched : list (nat * nat)),
    safe_with (with_temps cl temps) loop = true ->
    exec (S (S f)) [loop] s = Ok s' tr c ->
    sched_ok loop s sched ->
    exists so, omp_exec (S f) (with_temps cl temps) loop junk sched s = Some so /\
               shared_eq (privatised (loopvar loop) (with_temps cl temps)) so s'.
Proof. exact omp_sound_sections. Qed.
Print Assumptions C09_omp_sound_sections.

(* non-vacuity:  do i = 1, 3; d(2:4, i) = d(3:5, i) * 2 + e(2:4, i)  (overlap inside one column) is in the class *)
Example C09_sections_nonvacuous :
  safe_with (with_temps sec_cl sec_temps) sec_ok = true /\
  (exists s' tr, exec 60 [sec_ok] sec_store = Ok s' tr CNormal) /\
  sched_ok sec_ok sec_store [(0%nat, 2%nat); (1%nat, 1%nat); (0%nat, 0%nat)] /\
  omp_val (omp_exec 59 (with_temps sec_cl sec_temps) sec_ok junk0 [(0%nat, 2%nat); (1%nat, 1%nat); (0%nat, 0%nat)] sec_store) (nd, [2; 1]) = Some 63 /\
  final_val (exec 60 [sec_ok] sec_store) (nd, [2; 1]) = Some 63.
Proof. exact sections_nonvacuous_. Qed.
Print Assumptions C09_sections_nonvacuous.

(* the overlapping / shifted case  do i = 2, 4; d(2:4, i) = d(3:5, i-1) + 1  is outside the class and a 2-thread
   schedule (iterations in the order 3, 2, 4) leaves d(2,3) = 33 instead of the serial 43.  (The unchanged
   ParallelLoopTrans.validate refuses this loop; the witness shows that the class boundary is not an artefact.) *)
Theorem C09_omp_refuted_overlapping_sections :
  safe_with (with_temps sec_cl sec_temps) sec_bad = false /\
  exists sched l vs vo,
    sched_ok sec_bad sec_store sched /\
    memn (fst l) (privatised (loopvar sec_bad) (with_temps sec_cl sec_temps)) = false /\
    final_val (exec 60 [sec_bad] sec_store) l = Some vs /\
    omp_val (omp_exec 59 (with_temps sec_cl sec_temps) sec_bad junk0 sched sec_store) l = Some vo /\ vs <> vo.
Proof. exact sections_refuted_. Qed.
Print Assumptions C09_omp_refuted_overlapping_sections.
