(* C19 — PSyAD adjoints are the exact transpose of the tangent-linear code.  Property theorems only.

   FULL STATEMENT (false of the unchanged code — see the four _refuted theorems below):
     forall acts L p q sx sy sx' sy', NoDup L -> adj impl_flags acts p = Some q ->
       same_passive acts (lvars_l p) sx sy -> run p sx = Some sx' -> run q sy = Some sy' ->
       dot L sx' sy = dot L sx sy'.
   What is proved instead (…_partial): the same conclusion for every program satisfying the static
   condition [safe] and every execution of the guarded semantics [runG] (active data inside L, no
   run-time aliasing of textually different references to the assigned array, no non-unit-step DO
   entered with 0 < |lo-hi| < |step| on the empty side).  Missing for the full statement: exactly the
   four situations refuted below, plus passive statements among active ones (PSyAD issue #1458). *)
From Coq Require Import List ZArith.
Import ListNotations.
From PV Require Import Fort.Syntax Fort.Sem C19.Model C19.Gen C19.Terms C19.Arith C19.Main C19.Theorems C19.Refute C19.Exec.
Open Scope Z_scope.

(* <A x, y> = <x, A* y> and passive data kept, for all linear programs of the subset, all stores *)
Theorem C19_dot_adjoint_partial : forall fl acts L, NoDup L -> (forall l, In l L -> act acts (fst l) = true) ->
  forall p q sx sy sx',
  safe fl acts p = true -> adj fl acts p = Some q ->
  same_passive acts (lvars_l p) sx sy -> runG acts L p sx = Some sx' ->
  exists sy', run q sy = Some sy' /\ dot L sx' sy = dot L sx sy' /\
              same_passive acts (lvars_l p) sx sx' /\ same_passive acts (lvars_l p) sy sy'.
Proof. exact dot_adjoint. Qed.
Print Assumptions C19_dot_adjoint_partial.

(* the same, for the variant of the code found in the tree under test (Gen.v, from translate.py) *)
Theorem C19_dot_adjoint_current_partial : forall acts L, NoDup L -> (forall l, In l L -> act acts (fst l) = true) ->
  forall p q sx sy sx',
  safe impl_flags acts p = true -> adj impl_flags acts p = Some q ->
  same_passive acts (lvars_l p) sx sy -> runG acts L p sx = Some sx' ->
  exists sy', run q sy = Some sy' /\ dot L sx' sy = dot L sx sy' /\
              same_passive acts (lvars_l p) sx sx' /\ same_passive acts (lvars_l p) sy sy'.
Proof. exact (dot_adjoint impl_flags). Qed.
Print Assumptions C19_dot_adjoint_current_partial.

Theorem C19_passive_preserved : forall fl acts L, NoDup L -> (forall l, In l L -> act acts (fst l) = true) ->
  forall p q sx sy sx' sy',
  safe fl acts p = true -> adj fl acts p = Some q -> same_passive acts (lvars_l p) sx sy ->
  runG acts L p sx = Some sx' -> run q sy = Some sy' ->
  same_passive acts (lvars_l p) sx sx' /\ same_passive acts (lvars_l p) sy sy'.
Proof. exact passive_preserved. Qed.
Print Assumptions C19_passive_preserved.

(* AssignmentTrans: one assignment of any linear shape is transposed by its adjoint *)
Theorem C19_assign_adjoint_transpose : forall fl acts L, NoDup L ->
  forall x ix e q LV E sx sy sx',
  safe_stmt fl acts LV E (SAssign x ix e) = true -> adj_assign fl acts x ix e = Some q ->
  rel acts LV E sx sy -> run1 (guardA acts L) guardL (SAssign x ix e) sx = Some sx' ->
  exists sy', run q sy = Some sy' /\ dot L sx' sy = dot L sx sy'.
Proof. exact assign_adjoint. Qed.
Print Assumptions C19_assign_adjoint_transpose.

(* schedule reversal: sequences of any length *)
Theorem C19_seq_adjoint : forall fl acts L LV p, Forall (TS fl acts LV L) p -> TL fl acts LV L p.
Proof. exact seq_adjoint. Qed.
Print Assumptions C19_seq_adjoint.

(* loop_node: reversal with start' = stop - MOD(stop - start, step) *)
Theorem C19_loop_adjoint_partial : forall fl acts L, (forall l, In l L -> act acts (fst l) = true) ->
  forall LV x lo hi st body, TL fl acts LV L body -> TS fl acts LV L (SDo x lo hi st body).
Proof. exact loop_adjoint. Qed.
Print Assumptions C19_loop_adjoint_partial.

(* the arithmetic of loop_node: the reversed bounds enumerate the same values backwards *)
Theorem C19_reversed_bounds_partial : forall l h t, t <> 0 -> ~ bad_empty l h t ->
  ivals0 (h - Z.rem (h - l) t) (- t) (trip_count (h - Z.rem (h - l) t) l (- t)) = rev (ivals0 l t (trip_count l h t)).
Proof. exact rev_vals. Qed.
Print Assumptions C19_reversed_bounds_partial.

(* the guarded semantics is the semantics; the reference semantics is Fort.Sem.exec on the subset *)
Theorem C19_guarded_is_run : forall acts L p s s', runG acts L p s = Some s' -> run p s = Some s'.
Proof. exact runG_run. Qed.
Print Assumptions C19_guarded_is_run.

Theorem C19_run_is_exec : forall p s s', run p s = Some s' ->
  exists f tr, exec f p s = Ok s' tr CNormal.
Proof. exact run_exec. Qed.
Print Assumptions C19_run_is_exec.

(* refutations of the full statement on the faithful model of the unchanged code *)
Theorem C19_adj_refuted_mod_string :
  exists q, adj unchanged [0; 1; 2]%nat p_mod = Some q /\
    q = [SDo i_ (EBin Sub (EVar n_) (EIntr IMod [EBin Add (EBin Sub (EVar n_) (EVar kk_)) (ELit 1); ELit 3]))
           (EBin Add (EVar kk_) (ELit 1)) (EUn Neg (ELit 3))
           [SAssign b_ [EVar i_] (EBin Add (EIdx b_ [EVar i_]) (EBin Mul (ELit 2) (EIdx a_ [EVar i_])));
            SAssign c_ [EVar i_] (EBin Add (EIdx c_ [EVar i_]) (EBin Mul (ELit 3) (EIdx a_ [EVar i_])));
            SAssign a_ [EVar i_] (ELit 0)]] /\
    violates L_mod p_mod q sx_mod sy_mod = true /\
    (exists sx', runG [0; 1; 2]%nat L_mod p_mod sx_mod = Some sx') /\
    safe unchanged [0; 1; 2]%nat p_mod = false /\ safe (mkFlags true false) [0; 1; 2]%nat p_mod = true.
Proof. exact refuted_mod_string. Qed.
Print Assumptions C19_adj_refuted_mod_string.

Theorem C19_adj_refuted_empty_loop :
  exists q, adj unchanged [0; 2]%nat p_empty = Some q /\
    violates L_empty p_empty q sx_empty sy_empty = true /\
    safe unchanged [0; 2]%nat p_empty = true /\
    runG [0; 2]%nat L_empty p_empty sx_empty = None /\
    adj (mkFlags true true) [0; 2]%nat p_empty = Some q.
Proof. exact refuted_empty_loop. Qed.
Print Assumptions C19_adj_refuted_empty_loop.

Theorem C19_adj_refuted_self_sign :
  exists q, adj unchanged [1; 2]%nat p_sign = Some q /\
    q = [SAssign b_ [ELit 1] (EBin Add (EIdx b_ [ELit 1]) (EIdx c_ [ELit 1]));
         SAssign c_ [ELit 1] (EBin Mul (ELit 2) (EIdx c_ [ELit 1]))] /\
    violates L_sign p_sign q s_sign s_sign = true /\
    (exists sx', runG [1; 2]%nat L_sign p_sign s_sign = Some sx') /\
    safe unchanged [1; 2]%nat p_sign = false /\ safe (mkFlags false true) [1; 2]%nat p_sign = true.
Proof. exact refuted_self_sign. Qed.
Print Assumptions C19_adj_refuted_self_sign.

Theorem C19_adj_refuted_alias :
  exists q, adj unchanged [0; 1]%nat p_alias = Some q /\
    violates L_alias p_alias q s_alias s_alias = true /\
    safe (mkFlags true true) [0; 1]%nat p_alias = true /\
    runG [0; 1]%nat L_alias p_alias s_alias = None.
Proof. exact refuted_alias. Qed.
Print Assumptions C19_adj_refuted_alias.

(* a violation in the sense of [violates] is a concrete pair of runs with different inner products *)
Theorem C19_violates_spec : forall L p q sx sy, violates L p q sx sy = true ->
  exists sx' sy', run p sx = Some sx' /\ run q sy = Some sy' /\ dot L sx' sy <> dot L sx sy'.
Proof. exact violates_spec. Qed.
Print Assumptions C19_violates_spec.

(* non-vacuity: a nested, negative-step, IF-carrying program satisfies every hypothesis of the partial theorem *)
Example C19_nonvacuous :
  NoDup L_ok /\ (forall l, In l L_ok -> act acts_ok (fst l) = true) /\
  safe unchanged acts_ok p_ok = true /\
  (exists q, adj unchanged acts_ok p_ok = Some q) /\
  same_passive acts_ok (lvars_l p_ok) sx_ok sy_ok /\
  (exists sx', runG acts_ok L_ok p_ok sx_ok = Some sx' /\ val sx' (0%nat, [7]) <> val sx_ok (0%nat, [7])).
Proof. exact nonvacuous. Qed.
Print Assumptions C19_nonvacuous.

(* ------------------------------------------------------------------------------------------------
   Deepening (C19/Exact.v): the loop guard made exact. *)
From PV Require Import C19.Assign C19.Exact.

(* pure Z arithmetic, ALL lo, hi and step <> 0 with a non-empty iteration set (positive or negative
   step, aligned or not; MOD = Z.rem): `do i = hi - MOD(hi - lo, step), lo, -step` visits exactly the
   reverse of the original iteration sequence *)
Theorem C19_reversed_bounds_exact : forall l h t, t <> 0 -> trip_count l h t <> 0%nat ->
  ivals0 (h - Z.rem (h - l) t) (- t) (trip_count (h - Z.rem (h - l) t) l (- t)) = rev (ivals0 l t (trip_count l h t)).
Proof. exact reversed_bounds_exact. Qed.
Print Assumptions C19_reversed_bounds_exact.

(* the exception, exactly: the reversal is right iff the loop is not empty with 0 < |lo-hi| < |step|;
   in that case the reversed loop runs once, at lo *)
Theorem C19_reversed_bounds_iff : forall l h t, t <> 0 ->
  (ivals0 (h - Z.rem (h - l) t) (- t) (trip_count (h - Z.rem (h - l) t) l (- t)) = rev (ivals0 l t (trip_count l h t))
   <-> ~ bad_empty l h t).
Proof. exact reversed_bounds_iff. Qed.
Print Assumptions C19_reversed_bounds_iff.

Theorem C19_reversed_empty_exception : forall l h t, t <> 0 -> bad_empty l h t ->
  ivals0 l t (trip_count l h t) = [] /\
  ivals0 (h - Z.rem (h - l) t) (- t) (trip_count (h - Z.rem (h - l) t) l (- t)) = [l].
Proof. exact reversed_empty_exception. Qed.
Print Assumptions C19_reversed_empty_exception.

Theorem C19_reversed_bounds_refuted :
  exists l h t, t <> 0 /\ bad_empty l h t /\
    ivals0 l t (trip_count l h t) = [] /\
    ivals0 (h - Z.rem (h - l) t) (- t) (trip_count (h - Z.rem (h - l) t) l (- t)) = [5].
Proof. exact reversed_bounds_refuted. Qed.
Print Assumptions C19_reversed_bounds_refuted.

(* the loop guard replaced by the decidable condition "non-empty or unit step" (guardNE) *)
Theorem C19_loop_adjoint_nonempty_partial : forall fl acts L, NoDup L -> (forall l, In l L -> act acts (fst l) = true) ->
  forall LV E x lo hi st body q sx sy sx',
  safe_stmt fl acts LV E (SDo x lo hi st body) = true -> adj_stmt fl acts (SDo x lo hi st body) = Some q ->
  rel acts LV E sx sy -> run1 (guardA acts L) guardNE (SDo x lo hi st body) sx = Some sx' ->
  exists sy', run q sy = Some sy' /\ dot L sx' sy = dot L sx sy' /\ rel acts LV E sx sx' /\ rel acts LV E sy sy'.
Proof. exact loop_adjoint_nonempty. Qed.
Print Assumptions C19_loop_adjoint_nonempty_partial.

Theorem C19_dot_adjoint_nonempty_partial : forall fl acts L, NoDup L -> (forall l, In l L -> act acts (fst l) = true) ->
  forall p q sx sy sx',
  safe fl acts p = true -> adj fl acts p = Some q -> same_passive acts (lvars_l p) sx sy ->
  runNE acts L p sx = Some sx' ->
  exists sy', run q sy = Some sy' /\ dot L sx' sy = dot L sx sy' /\
              same_passive acts (lvars_l p) sx sx' /\ same_passive acts (lvars_l p) sy sy'.
Proof. exact dot_adjoint_nonempty. Qed.
Print Assumptions C19_dot_adjoint_nonempty_partial.

(* loops with LITERAL bounds and step: emptiness is decided statically (lit_l), no run-time loop
   guard is left (gLT is the constant-true guard); only the assignment guards remain *)
Theorem C19_dot_adjoint_literal_loops : forall fl acts L, NoDup L -> (forall l, In l L -> act acts (fst l) = true) ->
  forall p q sx sy sx',
  safe fl acts p = true -> lit_l p = true -> adj fl acts p = Some q -> same_passive acts (lvars_l p) sx sy ->
  runl (guardA acts L) gLT p sx = Some sx' ->
  exists sy', run q sy = Some sy' /\ dot L sx' sy = dot L sx sy' /\
              same_passive acts (lvars_l p) sx sx' /\ same_passive acts (lvars_l p) sy sy'.
Proof. exact dot_adjoint_literal_loops. Qed.
Print Assumptions C19_dot_adjoint_literal_loops.

(* non-vacuity: step 3 not aligned; negative step not aligned; a literal-loop program with both *)
Example C19_exact_step3_unaligned :
  trip_count 1 8 3 <> 0%nat /\ ivals0 1 3 (trip_count 1 8 3) = [1; 4; 7] /\
  ivals0 (8 - Z.rem (8 - 1) 3) (- 3) (trip_count (8 - Z.rem (8 - 1) 3) 1 (- 3)) = [7; 4; 1].
Proof. exact exact_step3_unaligned. Qed.
Print Assumptions C19_exact_step3_unaligned.

Example C19_exact_negative_step :
  trip_count 9 2 (-3) <> 0%nat /\ ivals0 9 (-3) (trip_count 9 2 (-3)) = [9; 6; 3] /\
  ivals0 (2 - Z.rem (2 - 9) (-3)) (- -3) (trip_count (2 - Z.rem (2 - 9) (-3)) 9 (- -3)) = [3; 6; 9].
Proof. exact exact_negative_step. Qed.
Print Assumptions C19_exact_negative_step.

Example C19_literal_loops_nonvacuous :
  safe (mkFlags true true) [0%nat; 1%nat] p_lit = true /\ lit_l p_lit = true /\
  (exists q, adj (mkFlags true true) [0%nat; 1%nat] p_lit = Some q) /\
  (exists s', runl (guardA [0%nat; 1%nat] L_lit) gLT p_lit s_lit = Some s' /\ val s' (1%nat, [6]) <> val s_lit (1%nat, [6])).
Proof. exact literal_loops_nonvacuous. Qed.
Print Assumptions C19_literal_loops_nonvacuous.

(* ------------------------------------------------------------------------------------------------
   Deepening 2 (C19/Static.v): the no-alias guard discharged statically. *)
From PV Require Import C19.Static.

(* alias_free (computable, syntactic): every rhs reference to the assigned array has the lhs subscripts
   textually or subscripts differing from them by a non-zero literal offset in some dimension
   => the run-time no-alias guard holds for EVERY store *)
Theorem C19_alias_free_guard : forall acts L s x ix e, alias_free_assign acts x ix e = true ->
  guardDom acts L s x ix e = true -> guardA acts L s x ix e = true.
Proof. exact alias_free_guard. Qed.
Print Assumptions C19_alias_free_guard.

(* only static conditions (safe = linear subset, literal loops, alias_free); the single run-time
   hypothesis left is the domain one: the execution touches active data inside L only (guardDom) *)
Theorem C19_dot_adjoint_static : forall acts L, NoDup L -> (forall l, In l L -> act acts (fst l) = true) ->
  forall fl p q sx sy sx',
  safe fl acts p = true -> lit_l p = true -> alias_free acts p = true -> adj fl acts p = Some q ->
  same_passive acts (lvars_l p) sx sy ->
  runl (guardDom acts L) gLT p sx = Some sx' ->
  exists sy', run q sy = Some sy' /\ dot L sx' sy = dot L sx sy' /\
              same_passive acts (lvars_l p) sx sx' /\ same_passive acts (lvars_l p) sy sy'.
Proof. exact dot_adjoint_static. Qed.
Print Assumptions C19_dot_adjoint_static.

(* non-vacuity: do i = 2, 8, 3 ; a(i) = a(i-1) + 2*b(i) is in the class, a(i) = a(kk+1) + b(i) is not *)
Example C19_static_nonvacuous :
  safe (mkFlags true true) [0%nat; 1%nat] p_st = true /\ lit_l p_st = true /\ alias_free [0%nat; 1%nat] p_st = true /\
  (exists q, adj (mkFlags true true) [0%nat; 1%nat] p_st = Some q) /\
  (exists s', runl (guardDom [0%nat; 1%nat] L_lit) gLT p_st s_st = Some s' /\ val s' (0%nat, [2]) <> val s_st (0%nat, [2])) /\
  alias_free [0%nat; 1%nat]
    [SAssign 0%nat [EVar 9%nat] (EBin Add (EIdx 0%nat [EBin Add (EVar 7%nat) (ELit 1)]) (EIdx 1%nat [EVar 9%nat]))] = false.
Proof. exact static_nonvacuous. Qed.
Print Assumptions C19_static_nonvacuous.
