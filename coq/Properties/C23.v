(* C23 -- LFRic shared-DoF increments are only parallelised over colours.  Property theorems only.

   FULL STATEMENT (what the property asks of the code as it is; `inc_accesses`, `disc_shortcut`
   are generated from the working tree into C23/Gen.v):
     forall t0 h, forallb nodir t0 = true -> no_builtin_incr t0 = true ->
       hist_ok da_ok inc_accesses disc_shortcut h t0 = true ->
       invA_t (run inc_accesses disc_shortcut h t0) = true /\
       invB_t (run inc_accesses disc_shortcut h t0) = true.
   It is FALSE of the faithful model of the unchanged tree, for four independent reasons, each
   with a witness replayed on the implementation by props/C23/check.py:
     A1  has_inc_arg ignores READINC                      (C23_inc_refuted_uncovered)
     A2  field-space shortcut of DynamoOMPParallelLoopTrans (C23_inc_refuted_shortcut)
     B1  OMPParallelTrans / ACCParallelTrans enclose loops over colours
                                                          (C23_colours_refuted_{omp,acc}_region)
     (a loop below `acc loop seq` -- DAccLoopSeq, produced iff options["sequential"] -- is not a
      parallel loop and `acc loop seq` is not a region: invA/invB exempt exactly that directive)
     B2  Dynamo0p3ColourTrans colours a loop below an ACC loop directive
                                                          (C23_colours_refuted_below_acc_loop)
   What is proved instead: part A in full for any has_inc_arg that covers INC and READINC without
   the shortcut (C23_inc_inv_full; C23_current_source_verdict says which case the current source
   is in), part A under `premises` for any parameters (C23_inc_inv_partial), part B for the
   histories whose accepted steps pass the guard safeB (C23_colours_inv_partial). *)
From Coq Require Import List Bool.
Import ListNotations.
From PV Require Import C23.Model C23.Gen C23.ProofsA C23.ProofsB C23.Refute.

(* schedules as generated (no directive) satisfy both parts *)
Theorem C23_generated_schedules_ok : forall t0, forallb nodir t0 = true ->
  invA_t t0 = true /\ invB_t t0 = true.
Proof. exact nodir_list_inv. Qed.
Print Assumptions C23_generated_schedules_ok.

(* part A, all histories, any has_inc_arg that tests INC and READINC, no shortcut *)
Theorem C23_inc_inv_full : forall incs t0 h,
  covers_all incs = true -> no_builtin_incr t0 = true -> invA_t t0 = true ->
  hist_ok da_ok incs false h t0 = true -> invA_t (run incs false h t0) = true.
Proof. exact invA_full. Qed.
Print Assumptions C23_inc_inv_full.

(* part A, all histories, any parameters, under the sufficient condition `premises` on the
   initial schedule (every incrementing argument has an access has_inc_arg tests; with the
   shortcut, no loop on a discontinuous space contains an incrementing kernel) *)
Theorem C23_inc_inv_partial : forall incs sc t0 h,
  premises incs sc t0 = true -> invA_t t0 = true -> hist_ok da_ok incs sc h t0 = true ->
  invA_t (run incs sc h t0) = true /\ premises incs sc (run incs sc h t0) = true.
Proof. exact invA_all_histories. Qed.
Print Assumptions C23_inc_inv_partial.

Theorem C23_inc_refuted_uncovered : forall incs sc, covers_all incs = false ->
  exists t0 h, forallb nodir t0 = true /\ no_builtin_incr t0 = true /\ forallb wf t0 = true /\
               hist_ok da_ok incs sc h t0 = true /\ invA_t (run incs sc h t0) = false.
Proof. exact refuted_uncovered. Qed.
Print Assumptions C23_inc_refuted_uncovered.

Theorem C23_inc_refuted_shortcut : forall incs,
  exists t0 h, forallb nodir t0 = true /\ no_builtin_incr t0 = true /\
               hist_ok da_ok incs true h t0 = true /\ invA_t (run incs true h t0) = false.
Proof. exact refuted_shortcut. Qed.
Print Assumptions C23_inc_refuted_shortcut.

(* the parameters read from the current source: either part A holds for all histories, or there
   is a counterexample history on a generated schedule *)
Theorem C23_current_source_verdict :
  (current_ok = true /\
   forall t0 h, no_builtin_incr t0 = true -> invA_t t0 = true ->
                hist_ok da_ok inc_accesses disc_shortcut h t0 = true ->
                invA_t (run inc_accesses disc_shortcut h t0) = true)
  \/
  (current_ok = false /\
   exists t0 h, forallb nodir t0 = true /\ no_builtin_incr t0 = true /\
                hist_ok da_ok inc_accesses disc_shortcut h t0 = true /\
                invA_t (run inc_accesses disc_shortcut h t0) = false).
Proof. exact current_source_verdict. Qed.
Print Assumptions C23_current_source_verdict.

(* part B *)
Theorem C23_colours_inv_partial : forall incs sc h t0,
  invB_t t0 = true -> hist_ok (safeB incs sc) incs sc h t0 = true ->
  invB_t (run incs sc h t0) = true.
Proof. exact invB_safe_histories. Qed.
Print Assumptions C23_colours_inv_partial.

Theorem C23_colours_refuted_omp_region : forall incs sc,
  invB_t plain = true /\ forallb nodir plain = true /\
  invB_t (run incs sc [OColour [] 0; OOmpParallel [] 0 1] plain) = false.
Proof. exact refuted_colours_omp_region. Qed.
Print Assumptions C23_colours_refuted_omp_region.

Theorem C23_colours_refuted_acc_region : forall incs sc,
  invB_t plain = true /\ forallb nodir plain = true /\
  invB_t (run incs sc [OColour [] 0; OAccParallel [] 0 1] plain) = false.
Proof. exact refuted_colours_acc_region. Qed.
Print Assumptions C23_colours_refuted_acc_region.

Theorem C23_colours_refuted_below_acc_loop : forall incs sc,
  invB_t plain = true /\ forallb nodir plain = true /\
  invB_t (run incs sc [OAccLoop [] 0 DaFalse false false false false; OColour [0] 0] plain) = false.
Proof. exact refuted_colour_below_acc_loop. Qed.
Print Assumptions C23_colours_refuted_below_acc_loop.

(* non-vacuity: a schedule with a halo exchange, an INC kernel and a built-in; colour, OMP DO on
   the colour loop, PARALLEL DO on the dof loop, and a refused ACC LOOP satisfy every hypothesis *)
Example C23_nonvacuous_A :
  premises [AInc; AReadInc] false ex_tree = true /\ no_builtin_incr ex_tree = true /\
  invA_t ex_tree = true /\ hist_ok da_ok [AInc; AReadInc] false ex_hist ex_tree = true /\
  run [AInc; AReadInc] false ex_hist ex_tree =
    [NHalo;
     NLoop LColours false
       [NDir DOmpDo [NLoop LColour false [NKern true false [(AInc, Cont); (ARead, Cont)]]]];
     NDir DOmpParallelDo [NLoop LDof false [NKern false false [(AWrite, Unknown)]]]].
Proof. exact nonvacuous_A. Qed.
Print Assumptions C23_nonvacuous_A.

Example C23_nonvacuous_B :
  invB_t ex_tree = true /\ hist_ok (safeB [AInc] true) [AInc] true ex_hist ex_tree = true /\
  run [AInc] true ex_hist ex_tree <> ex_tree.
Proof. exact nonvacuous_B. Qed.
Print Assumptions C23_nonvacuous_B.

(* ACCLoopTrans options: with `sequential` the INC loop (and a loop over colours, with collapse(2))
   is accepted, but the directive is `acc loop seq`, which is exempt; without it the loop is refused *)
Example C23_seq_exempt :
  run [AInc; AReadInc] false [OAccLoop [] 1 DaFalse true true false false] ex_tree =
    [NHalo; NDir DAccLoopSeq [NLoop LCells false [NKern true false [(AInc, Cont); (ARead, Cont)]]];
     NLoop LDof false [NKern false false [(AWrite, Unknown)]]] /\
  invA_t (run [AInc; AReadInc] false [OAccLoop [] 1 DaFalse true true false false] ex_tree) = true /\
  invB_t (run [AInc; AReadInc] false
            [OColour [] 1; OAccLoop [] 1 DaFalse true false true true] ex_tree) = true /\
  step [AInc; AReadInc] false (OAccLoop [] 1 DaFalse false true false false) ex_tree = None.
Proof. exact seq_exempt. Qed.
Print Assumptions C23_seq_exempt.

Example C23_covers_examples : covers_all [AInc; AReadInc] = true /\ covers_all [AInc] = false.
Proof. exact covers_examples. Qed.
Print Assumptions C23_covers_examples.
