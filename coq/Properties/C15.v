(* C15 — Copies of PSyIR subtrees are independent and equal.  Property theorems only.
   Model: coq/C15/Model.v (Node.copy, ScopingNode._refine_copy, SymbolTable.deep_copy, *.copy of
   symbols).  `write W n` is the id-free written form of tree n in world W (symbols by NAME,
   declarations with their datatype / initial value / interface).  Objects are identities; new
   objects get ids above the offsets off / soff / ooff. *)
From Coq Require Import List NArith Bool.
Import ListNotations.
From PV Require Import C15.Model C15.Basics C15.CopyProofs C15.Indep C15.Witness.
Open Scope N_scope.

(* the copy is equal to the original: same written form (structure, names, declarations) although
   every node id and every symbol id of the copied scopes is new *)
Theorem C15_copy_equal : forall W off soff ooff n,
  wf W off soff ooff n ->
  write (copy_world W off soff ooff n) (copy (hs W) off soff n) = write W n.
Proof. exact copy_equal_. Qed.
Print Assumptions C15_copy_equal.

(* no node object is shared *)
Theorem C15_copy_disjoint_nodes : forall h off soff n,
  Forall (fun i => i < off) (ids n) ->
  forall i, In i (ids n) -> ~ In i (ids (copy h off soff n)).
Proof. exact copy_disjoint_nodes_. Qed.
Print Assumptions C15_copy_disjoint_nodes.

(* every Reference / Loop variable of the copy, position by position: a symbol declared in the copied
   scopes is replaced by the copy's own symbol (declared in the copy's tables, not in the
   original's, same name); any other symbol is kept *)
Theorem C15_copy_refs_local : forall W off soff ooff n,
  wf W off soff ooff n -> wsc n ->
  let W' := copy_world W off soff ooff n in
  let c := copy (hs W) off soff n in
  Forall2 (fun s s' => (In s (owned n) -> s' = s + soff /\ In s' (owned c) /\ ~ In s' (owned n)
                                          /\ sname (hs W' s') = sname (hs W s))
                       /\ (~ In s (owned n) -> s' = s))
          (refs n) (refs c).
Proof. exact copy_refs_local_. Qed.
Print Assumptions C15_copy_refs_local.

(* FULL statement (FALSE of the faithful model — see the _refuted theorems):
     forall W n es, wf -> wsc -> edits es address one tree only ->
       the written form of the other tree is unchanged.
   PROVED PART: under `no_symbol_in_datatypes` (no literal precision, datatype object, interface
   object or initial value of the copied scopes mentions a symbol of the copied scopes) and for
   edit sequences that are `valid`: rename / add / re-attribute symbols of the edited tree's
   scopes, create objects, replace nodes of the edited tree by trees built from its own or new
   nodes — but no in-place mutation of a datatype / interface object that the other tree reaches. *)
Theorem C15_copy_independent_partial : forall W off soff ooff n,
  wf W off soff ooff n -> wsc n -> no_symbol_in_datatypes W n ->
  let W' := copy_world W off soff ooff n in
  let c := copy (hs W) off soff n in
  write W' n = write W n
  /\ (forall es, let st0 := {| sw := W'; sa := n; sb := c |} in
        valid_seq es st0 -> write (sw (run es st0)) (sb (run es st0)) = write W' c)
  /\ (forall es, let st0 := {| sw := W'; sa := c; sb := n |} in
        valid_seq es st0 -> write (sw (run es st0)) (sb (run es st0)) = write W' n).
Proof. exact copy_independent_partial_. Qed.
Print Assumptions C15_copy_independent_partial.

(* one direction holds without the side condition: valid edits of the COPY never show in the original *)
Theorem C15_copy_edits_invisible_in_original : forall W off soff ooff n,
  wf W off soff ooff n ->
  let W' := copy_world W off soff ooff n in
  let c := copy (hs W) off soff n in
  forall es, let st0 := {| sw := W'; sa := c; sb := n |} in
    valid_seq es st0 -> write (sw (run es st0)) (sb (run es st0)) = write W n.
Proof. exact copy_edits_invisible_in_original_. Qed.
Print Assumptions C15_copy_edits_invisible_in_original.

(* the general engine: edits on one side of two trees that share nothing are invisible on the other *)
Theorem C15_edits_invisible : forall es st, inv st -> valid_seq es st ->
  write (sw (run es st)) (sb (run es st)) = write (sw st) (sb st).
Proof. exact edits_invisible. Qed.
Print Assumptions C15_edits_invisible.

(* ---- refutations of the full independence statement: well-formed, well-scoped tree, a VALID edit
   of the original (rename of local `m`), and the copy's written form changes *)
Theorem C15_copy_refuted_shape_symbol :          (* real, dimension(m) :: b *)
  exists W n es, refutes W n es.
Proof. exists (wit_world [ref_m] [] None), (wit_tree lit), rename_m. exact refuted_shape_symbol_. Qed.
Print Assumptions C15_copy_refuted_shape_symbol.

Theorem C15_copy_refuted_kind_symbol :           (* real(kind=m) :: b *)
  exists W n es, refutes W n es.
Proof. exists (wit_world [] [1] None), (wit_tree lit), rename_m. exact refuted_kind_symbol_. Qed.
Print Assumptions C15_copy_refuted_kind_symbol.

Theorem C15_copy_refuted_initial_value :         (* real :: b = m *)
  exists W n es, refutes W n es.
Proof. exists (wit_world [] [] (Some ref_m)), (wit_tree lit), rename_m. exact refuted_initial_value_. Qed.
Print Assumptions C15_copy_refuted_initial_value.

Theorem C15_copy_refuted_literal_precision :     (* b = 1.0_m *)
  exists W n es, refutes W n es.
Proof. exists (wit_world [] [] None), (wit_tree lit_kind_m), rename_m. exact refuted_literal_precision_. Qed.
Print Assumptions C15_copy_refuted_literal_precision.

(* in-place mutation of an object shared by copy (datatype object; interface object of a typed
   symbol) shows in the copy even when `no_symbol_in_datatypes` holds *)
Theorem C15_copy_refuted_shared_datatype_object :
  exists W n s a, refutes_inplace W n s sdt a.
Proof.
  exists (wit_world [] [] None), (wit_tree lit), 3, {| obounds := []; osyms := []; opay := 77 |}.
  exact refuted_shared_datatype_object_.
Qed.
Print Assumptions C15_copy_refuted_shared_datatype_object.

Theorem C15_copy_refuted_shared_interface_object :
  exists W n s a, refutes_inplace W n s (fun y => match sintf y with ILocal o => o | IImport _ => 0 end) a.
Proof.
  exists (wit_world [] [] None), (wit_tree lit), 3, {| obounds := []; osyms := []; opay := 78 |}.
  exact refuted_shared_interface_object_.
Qed.
Print Assumptions C15_copy_refuted_shared_interface_object.

(* non-vacuity: a tree with nested scopes, shadowing, an import, an untyped symbol, a loop variable and
   datatypes mentioning an OUTSIDE symbol satisfies all hypotheses; a six-step edit sequence using
   every kind of edit is valid, really changes the edited tree, and the re-bound references are as
   listed *)
Example C15_nonvacuous :
  (wf nv_world 1000 1000 1000 nv_tree /\ wsc nv_tree /\ no_symbol_in_datatypes nv_world nv_tree)
  /\ (let W' := copy_world nv_world 1000 1000 1000 nv_tree in
      let c := copy (hs nv_world) 1000 1000 nv_tree in
      let st0 := {| sw := W'; sa := nv_tree; sb := c |} in
      valid_seq nv_edits st0
      /\ write (sw (run nv_edits st0)) (sa (run nv_edits st0)) <> write W' nv_tree
      /\ refs c = [1005; 1002; 1004; 1006; 1004; 9; 1003]
      /\ smem (hs W' 1007) = [1003]).
Proof. exact (conj nv_hyps nv_valid). Qed.
Print Assumptions C15_nonvacuous.
