(* C17 — Symbolic comparisons agree with Fortran integer arithmetic.  Property theorems only.

   FULL STATEMENT (properties.jsonl): for all integer expressions a b over plus, minus, times, "/",
   power, unary minus, MOD, MIN, MAX and array accesses, with sympy sound (simplify_sound orc etc.):
       equal_m orc fixed a b = true        -> forall E, feval E a = feval E b
       never_equal_m orc fixed a b = true  -> forall E, feval E a <> feval E b
       every reported solution is a solution;  expansion keeps the value.
   This is FALSE of the faithful model of the unchanged tree (theorems [*_refuted] below: "/" is
   translated to rational division, MOD to sympy's Mod (sign of the divisor), and a power whose base
   is a power is written without brackets).  What is proved is the statement restricted to the
   fragment [in_frag] (plus, minus, times, power with a non-negative literal exponent, unary minus,
   MIN/MAX, arrays): the [*_partial] theorems.  What is missing is exactly "/", MOD, general exponents
   (and, on the unchanged tree, a power whose base is a power).
   [fixed] = whether the writer brackets a power that is the base of a power;
   C17.Gen.pow_left_bracketed is what the tree under test does (props/C17/translate.py). *)
From Coq Require Import List ZArith QArith String.
Import ListNotations.
From PV Require Import C17.Model C17.Proofs C17.Refute C17.Gen C17.Current.

(* on the fragment the sympy value of the translation is the (injected) Fortran value *)
Theorem C17_tr_exact : forall fixed e, in_frag fixed e = true ->
  forall E, feval E e <> None /\
            oeq (seval (qenv_of E) (tr fixed e)) (option_map inject_Z (feval E e)).
Proof. exact tr_exact_. Qed.
Print Assumptions C17_tr_exact.

(* ... in particular for the writer of the tree under test *)
Theorem C17_tr_exact_current_tree : forall e, in_frag pow_left_bracketed e = true ->
  forall E, oeq (seval (qenv_of E) (tr pow_left_bracketed e)) (option_map inject_Z (feval E e)).
Proof. exact tr_exact_current_tree_. Qed.
Print Assumptions C17_tr_exact_current_tree.

Theorem C17_equal_sound_partial : forall fixed orc, simplify_sound orc ->
  forall a b, in_frag fixed a = true -> in_frag fixed b = true ->
  equal_m orc fixed a b = true -> forall E, feval E a = feval E b.
Proof. exact equal_sound_partial_. Qed.
Print Assumptions C17_equal_sound_partial.

Theorem C17_never_equal_sound_partial : forall fixed orc, simplify_sound orc ->
  forall a b, in_frag fixed a = true -> in_frag fixed b = true ->
  never_equal_m orc fixed a b = true -> forall E, feval E a <> feval E b.
Proof. exact never_equal_sound_partial_. Qed.
Print Assumptions C17_never_equal_sound_partial.

Theorem C17_solutions_are_solutions_partial : forall fixed osolve, solveset_sound osolve ->
  forall a b x sols sol z, in_frag fixed a = true -> in_frag fixed b = true ->
  solve_m osolve fixed a b x = Some sols -> In sol sols ->
  forall E, oeq (seval (qenv_of E) sol) (Some (inject_Z z)) ->
  feval (upd E x z) a = feval (upd E x z) b.
Proof. exact solutions_are_solutions_partial_. Qed.
Print Assumptions C17_solutions_are_solutions_partial.

Theorem C17_expand_preserves_partial : forall fixed oexpand, expand_sound oexpand ->
  forall reader, reader_faithful fixed reader ->
  forall e e', in_frag fixed e = true -> expand_m oexpand reader fixed e = Some e' ->
  in_frag fixed e' = true -> forall E, feval E e' = feval E e.
Proof. exact expand_preserves_partial_. Qed.
Print Assumptions C17_expand_preserves_partial.

(* closed instance: a proved-sound polynomial normaliser satisfies the oracle premise, so on the
   polynomial fragment the verdicts are decided inside Coq with no premise at all *)
Theorem C17_poly_const_sound : simplify_sound poly_const.
Proof. exact poly_const_sound_. Qed.
Print Assumptions C17_poly_const_sound.

Theorem C17_normalise_sound : forall E s p, norm s = Some p -> zseval E s = Some (peval E p).
Proof. exact norm_sound. Qed.
Print Assumptions C17_normalise_sound.

Theorem C17_equal_poly_sound : forall fixed a b, in_frag fixed a = true -> in_frag fixed b = true ->
  equal_m poly_const fixed a b = true -> forall E, feval E a = feval E b.
Proof. exact equal_poly_sound_. Qed.
Print Assumptions C17_equal_poly_sound.

Theorem C17_never_equal_poly_sound : forall fixed a b, in_frag fixed a = true -> in_frag fixed b = true ->
  never_equal_m poly_const fixed a b = true -> forall E, feval E a <> feval E b.
Proof. exact never_equal_poly_sound_. Qed.
Print Assumptions C17_never_equal_poly_sound.

Theorem C17_expand_poly_preserves : forall fixed e e', in_frag fixed e = true ->
  expand_m poly_expand untr fixed e = Some e' -> forall E, feval E e' = feval E e.
Proof. exact expand_poly_preserves_. Qed.
Print Assumptions C17_expand_poly_preserves.

(* ------------------------------------------------------------ refutations *)
(* n/2*2 against n at n = 1 *)
Theorem C17_equal_refuted_div : forall fixed,
  exists orc, simplify_sound orc /\
  exists a b E za zb, equal_m orc fixed a b = true /\
                      feval E a = Some za /\ feval E b = Some zb /\ za <> zb.
Proof. exact equal_refuted_div_. Qed.
Print Assumptions C17_equal_refuted_div.

(* MOD(-7,2) against 1 *)
Theorem C17_equal_refuted_mod : forall fixed,
  exists orc, simplify_sound orc /\
  exists a b E za zb, equal_m orc fixed a b = true /\
                      feval E a = Some za /\ feval E b = Some zb /\ za <> zb.
Proof. exact equal_refuted_mod_. Qed.
Print Assumptions C17_equal_refuted_mod.

(* n^2^3 bracketed to the left against bracketed to the right, at n = 2 (64 against 256); unchanged
   writer only; the input is in the fragment of a writer that brackets *)
Theorem C17_equal_refuted_pow_assoc :
  exists orc, simplify_sound orc /\
  exists a b E za zb, in_frag true a = true /\ equal_m orc false a b = true /\
                      feval E a = Some za /\ feval E b = Some zb /\ za <> zb.
Proof. exact equal_refuted_pow_assoc_. Qed.
Print Assumptions C17_equal_refuted_pow_assoc.

(* n/2*2+1 against n at n = 1 *)
Theorem C17_never_equal_refuted_div : forall fixed,
  exists orc, simplify_sound orc /\
  exists a b E z, never_equal_m orc fixed a b = true /\ feval E a = Some z /\ feval E b = Some z.
Proof. exact never_equal_refuted_div_. Qed.
Print Assumptions C17_never_equal_refuted_div.

(* i/2*2 = 3 solved for i: the reported solution 3 is none (3/2*2 = 2) *)
Theorem C17_solutions_refuted_div : forall fixed,
  exists osolve, solveset_sound osolve /\
  exists a b x sols sol z E za zb,
    solve_m osolve fixed a b x = Some sols /\ In sol sols /\
    oeq (seval (qenv_of E) sol) (Some (inject_Z z)) /\
    feval (upd E x z) a = Some za /\ feval (upd E x z) b = Some zb /\ za <> zb.
Proof. exact solutions_refuted_div_. Qed.
Print Assumptions C17_solutions_refuted_div.

(* MOD(-7,2)*(n+1) expands to n+1 *)
Theorem C17_expand_refuted_mod : forall fixed,
  exists oexpand reader, expand_sound oexpand /\ reader_faithful fixed reader /\
  exists e e' E z z', expand_m oexpand reader fixed e = Some e' /\
                      feval E e = Some z /\ feval E e' = Some z' /\ z <> z'.
Proof. exact expand_refuted_mod_. Qed.
Print Assumptions C17_expand_refuted_mod.

(* ------------------------------------------------------------- non-vacuity *)
Example C17_frag_nonvacuous :
  in_frag false ex_frag = true /\
  feval (mk_env 1 [("i", 2); ("j", -1); ("n", -4); ("m", 3)]%string%Z) ex_frag = Some 3%Z /\
  oeqb (seval (qenv_of (mk_env 1 [("i", 2); ("j", -1); ("n", -4); ("m", 3)]%string%Z)) (tr false ex_frag))
       (Some (inject_Z 3)) = true.
Proof. exact frag_nonvacuous. Qed.
Print Assumptions C17_frag_nonvacuous.

Example C17_equal_nonvacuous :
  in_frag false ex_a = true /\ in_frag false ex_b = true /\
  equal_m poly_const false ex_a ex_b = true /\
  never_equal_m poly_const false (EBin Add ex_a (ELit 1)) ex_b = true /\
  never_equal_m poly_const false ex_a vn = false.
Proof. exact equal_nonvacuous. Qed.
Print Assumptions C17_equal_nonvacuous.

Example C17_solve_nonvacuous : forall fixed,
  solveset_sound (pt_solve (sdiff fixed ex_sq (ELit 4)) "i" [SInt 2; SInt (-2)]) /\
  in_frag fixed ex_sq = true /\
  solve_m (pt_solve (sdiff fixed ex_sq (ELit 4)) "i" [SInt 2; SInt (-2)]) fixed ex_sq (ELit 4) "i"
  = Some [SInt 2; SInt (-2)].
Proof. exact solve_nonvacuous_. Qed.
Print Assumptions C17_solve_nonvacuous.

Example C17_expand_nonvacuous :
  expand_m poly_expand untr false ex_a
  = Some (EBin Add (EBin Mul (ENeg (ELit 1)) (EBin Mul vm vm)) (EBin Mul (ELit 1) (EBin Mul vn vn))).
Proof. exact expand_nonvacuous. Qed.
Print Assumptions C17_expand_nonvacuous.

(* ------------------------------------------------ type map and reserved-name renaming (C17/TypeMap.v) *)
From PV Require Import C17.TypeMap C17.TypeMapProofs C17.TypeMapTotal.

(* the unique-name search terminates with a fresh name (pigeonhole over base_1 .. base_1000, whose decimal
   suffixes are pairwise distinct): no "build succeeds" hypothesis below, only a size bound
   (968 = fuel 1000 of the model - 32 reserved keywords) *)
Theorem C17_unique_name_terminates : forall used base, (List.length used < 1000)%nat ->
  exists u, new_name used base = Some u /\ ~ In u used.
Proof. exact unique_name_terminates_. Qed.
Print Assumptions C17_unique_name_terminates.

(* every name occurring in the translation (any operand position, inside intrinsic / array arguments, nested)
   is bound by the type map built from the expression *)
Theorem C17_type_map_total : forall fixed e, (List.length (occs e) < 968)%nat ->
  exists tm, build [e] = Some tm /\ forall x, In x (snames (tr fixed e)) -> has_fname tm x = true.
Proof. exact type_map_total_u. Qed.
Print Assumptions C17_type_map_total.

(* distinct Fortran names (reserved or not) get distinct names in the text and distinct sympy objects *)
Theorem C17_type_map_injective : forall es, (List.length (flat_map occs es) < 968)%nat ->
  exists tm, build es = Some tm /\
  forall e1 e2, In e1 tm -> In e2 tm -> fname e1 <> fname e2 ->
  uname e1 <> uname e2 /\ (ekind e1, sname e1) <> (ekind e2, sname e2).
Proof. exact type_map_injective_u. Qed.
Print Assumptions C17_type_map_injective.

(* tr_exact composed with the renaming: the sympy object built under the type map, evaluated under the renamed
   valuation, has the Fortran value on the fragment *)
Theorem C17_renaming_preserves_value : forall fixed e, in_frag fixed e = true ->
  (List.length (occs e) < 968)%nat ->
  exists tm, build [e] = Some tm /\
  forall E, oeq (seval (renv tm (qenv_of E)) (obj tm (tr fixed e))) (option_map inject_Z (feval E e)).
Proof. exact renaming_preserves_value_u. Qed.
Print Assumptions C17_renaming_preserves_value.

Example C17_type_map_nonvacuous :
  build [tm_ex] = Some tm_ex_map /\ in_frag false tm_ex = true /\
  build [ECall (FArr "while") [EVar "lambda_1"; EVar "lambda"]]
  = Some [mk_entry "while" KFun "while_1"; mk_entry "lambda_1" KSym "lambda_1"; mk_entry "lambda" KSym "lambda_2"] /\
  feval (mk_env 0 [("pi", 5); ("lambda", 2)]%Z) tm_ex = Some (2 + 2 * std_arr 0 "re" [2])%Z /\
  oeqb (seval (renv tm_ex_map (qenv_of (mk_env 0 [("pi", 5); ("lambda", 2)]%Z))) (obj tm_ex_map (tr false tm_ex)))
       (Some (inject_Z (2 + 2 * std_arr 0 "re" [2]))) = true.
Proof. exact type_map_nonvacuous. Qed.
Print Assumptions C17_type_map_nonvacuous.
