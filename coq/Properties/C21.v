(* C21 — LFRic kernel calls match the kernel interface for all metadata.  Property theorems only.

   Vocabulary (coq/C21/Model.v): [walk m] = the hook invocations of ArgOrdering.generate on metadata m;
   [call_args v e] / [stub_args v e] = what KernCallArgList / KernStubArgList (+ the stub's declarations)
   append for hook invocation e, as lists of (role, (intrinsic type, kind, rank, intent));
   [call_list v m] = flat_map (call_args v) (walk m) = the actual arguments of the kernel call in the PSy
   layer, [stub_list v m] = the dummy arguments of the generated kernel stub.  [v : variant] says which of
   the two repaired defects are present in the tree; the tree under test has [gen_variant]
   (coq/C21/GenHooks.v, regenerated on every run).

   FULL STATEMENT of the property (FALSE of the unchanged code, see the _refuted theorems):
     forall m, md_valid m = true -> stub_supported m = true -> all_default m = true ->
               call_list v_unchanged m = stub_list v_unchanged m
     and  erase_list (doc_list m) = erase_list (stub_list v_unchanged m)   (the documented rules).
   Proved: the statement under the sufficient condition [safe] (all metadata, no size bound), the exact
   characterisation of the gap (two reasons), the full statement for the repaired variant [v_fixed],
   and agreement with the user guide's numbered rules under [rules_safe]; the places where the guide
   read literally differs from the code are refuted by concrete valid metadata. *)
From Coq Require Import List Bool.
Import ListNotations.
From PV Require Import C21.Model C21.Safe C21.Proofs C21.Rules C21.RulesProofs C21.RulesRefuted
                       C21.GenHooks C21.Hooks.

(* ---- per hook: both classes append the same arguments (role, type, kind, rank, intent) *)
Theorem C21_event_agree : forall v e, ev_ok v true e = true -> call_args v e = stub_args v e.
Proof. exact event_agree_. Qed.
Print Assumptions C21_event_agree.

(* ---- per hook, mixed precision in the algorithm layer: everything but the kind *)
Theorem C21_event_agree_mixed_precision : forall v e, ev_ok v false e = true ->
  map erase_kind (call_args v e) = map erase_kind (stub_args v e).
Proof. exact event_agree_modkind_. Qed.
Print Assumptions C21_event_agree_mixed_precision.

(* ---- for ALL safe metadata the call matches the stub (by flat_map congruence over the walk).
   _partial: [safe] excludes (for the unchanged variant) gh_evaluator listed before a quadrature shape and
   cross2d stencils mixed with other stencil types; the full statement is refuted below. *)
Theorem C21_call_matches_stub_partial : forall v m, safe v true m = true -> call_list v m = stub_list v m.
Proof. exact call_matches_stub_. Qed.
Print Assumptions C21_call_matches_stub_partial.

(* the same in the words of the property: same count, and position by position the same role,
   intrinsic type, kind, rank and intent *)
Theorem C21_positions_agree_partial : forall v m, safe v true m = true ->
  length (call_list v m) = length (stub_list v m) /\
  forall n, nth_error (call_list v m) n = nth_error (stub_list v m) n.
Proof. exact positions_agree_. Qed.
Print Assumptions C21_positions_agree_partial.

Theorem C21_call_matches_stub_mixed_precision_partial : forall v m, safe v false m = true ->
  map erase_kind (call_list v m) = map erase_kind (stub_list v m).
Proof. exact call_matches_stub_modkind_. Qed.
Print Assumptions C21_call_matches_stub_mixed_precision_partial.

(* ---- the gap between "a stub exists, default precisions" and [safe] is exactly two reasons *)
Theorem C21_gap_characterised : forall v m,
  stub_supported m = true -> all_default m = true ->
  v_basis_in_shape_order v || quad_then_eval [] (eval_shapes m) = true ->
  v_sizes_per_arg v || forallb (stencil_consistent (sizes_declared_as_arrays m)) (m_args m) = true ->
  safe v true m = true.
Proof. exact gap_characterised_. Qed.
Print Assumptions C21_gap_characterised.

(* ---- with both repairs (props/C21/fix.patch) the full statement holds *)
Theorem C21_call_matches_stub_fixed : forall m,
  stub_supported m = true -> all_default m = true -> call_list v_fixed m = stub_list v_fixed m.
Proof. exact call_matches_stub_fixed_. Qed.
Print Assumptions C21_call_matches_stub_fixed.

(* ---- the unchanged code violates the full statement: valid metadata, a stub exists, default
   precisions, same count, but at some position the ranks differ *)
Theorem C21_call_matches_stub_refuted_shapes : exists m,
  md_valid m = true /\ stub_supported m = true /\ all_default m = true /\ rank_differs v_unchanged m.
Proof. exact refuted_shapes_. Qed.
Print Assumptions C21_call_matches_stub_refuted_shapes.

Theorem C21_call_matches_stub_refuted_stencil : exists m,
  md_valid m = true /\ stub_supported m = true /\ all_default m = true /\ rank_differs v_unchanged m.
Proof. exact refuted_stencil_. Qed.
Print Assumptions C21_call_matches_stub_refuted_stencil.

(* ---- both follow the documented rules.  _partial: [rules_safe] excludes the places where the user
   guide read literally differs from the code (refuted below) or is silent (boundary-condition
   kernels, basis functions / mesh properties of CMA and inter-grid kernels, DoF kernels). *)
Theorem C21_walk_matches_rules_partial : forall v m, rules_safe v m = true ->
  erase_list (doc_list m) = erase_list (call_list v m).
Proof. exact walk_matches_rules_. Qed.
Print Assumptions C21_walk_matches_rules_partial.

Theorem C21_stub_matches_rules_partial : forall v m, rules_safe v m = true -> safe v false m = true ->
  erase_list (doc_list m) = erase_list (stub_list v m).
Proof. exact stub_matches_rules_. Qed.
Print Assumptions C21_stub_matches_rules_partial.

Theorem C21_rules_refuted_xory1d_direction : doc_differs w_xory1d.
Proof. exact doc_xory1d_. Qed.
Print Assumptions C21_rules_refuted_xory1d_direction.
Theorem C21_rules_refuted_cma_apply_indirection : doc_differs w_apply.
Proof. exact doc_apply_. Qed.
Print Assumptions C21_rules_refuted_cma_apply_indirection.
Theorem C21_rules_refuted_cma_assembly_ncell3d : doc_differs w_assembly.
Proof. exact doc_assembly_. Qed.
Print Assumptions C21_rules_refuted_cma_assembly_ncell3d.
Theorem C21_rules_refuted_basis_operation_order : doc_differs w_basis_order.
Proof. exact doc_basis_order_. Qed.
Print Assumptions C21_rules_refuted_basis_operation_order.
Theorem C21_rules_refuted_refelem_normals_type : doc_differs w_refelem.
Proof. exact doc_refelem_. Qed.
Print Assumptions C21_rules_refuted_refelem_normals_type.
Theorem C21_rules_refuted_domain_dofmap_rank : md_valid w_domain = true /\
  forall v, erase_list (doc_list w_domain) <> erase_list (call_list v w_domain).
Proof. exact doc_domain_. Qed.
Print Assumptions C21_rules_refuted_domain_dofmap_rank.

(* ---- obligations against the tables regenerated from the tree under test *)
Theorem C21_hook_order_as_modelled : gen_hook_order = model_hook_order.
Proof. exact hook_order_ok_. Qed.
Print Assumptions C21_hook_order_as_modelled.
Theorem C21_hook_overrides_as_modelled : gen_overrides = model_overrides.
Proof. exact overrides_ok_. Qed.
Print Assumptions C21_hook_overrides_as_modelled.
Theorem C21_call_matches_stub_this_tree_partial : forall m, safe gen_variant true m = true ->
  call_list gen_variant m = stub_list gen_variant m.
Proof. exact here_call_matches_stub_. Qed.
Print Assumptions C21_call_matches_stub_this_tree_partial.
Theorem C21_walk_matches_rules_this_tree_partial : forall m, rules_safe gen_variant m = true ->
  erase_list (doc_list m) = erase_list (call_list gen_variant m).
Proof. exact here_walk_matches_rules_. Qed.
Print Assumptions C21_walk_matches_rules_this_tree_partial.

(* ---- non-vacuity: the hypotheses hold of concrete non-trivial metadata *)
Example C21_nonvacuous_safe :
  md_valid example_safe = true /\ safe v_unchanged true example_safe = true /\
  length (stub_list v_unchanged example_safe) = 47 /\
  call_list v_unchanged example_safe = stub_list v_unchanged example_safe.
Proof. exact example_safe_ok_. Qed.
Print Assumptions C21_nonvacuous_safe.
Example C21_nonvacuous_cma :
  md_valid example_cma = true /\ safe v_unchanged true example_cma = true /\
  cma_operation example_cma = Some Assembly /\ length (call_list v_unchanged example_cma) = 18.
Proof. exact example_cma_ok_. Qed.
Print Assumptions C21_nonvacuous_cma.
Example C21_nonvacuous_mixed_precision :
  md_valid example_mixed = true /\ safe v_unchanged false example_mixed = true /\
  safe v_unchanged true example_mixed = false /\
  map snd (call_list v_unchanged example_mixed) <> map snd (stub_list v_unchanged example_mixed).
Proof. exact example_mixed_ok_. Qed.
Print Assumptions C21_nonvacuous_mixed_precision.
Example C21_nonvacuous_rules :
  forallb (fun m => md_valid m && rules_safe v_unchanged m) [r_general; r_intergrid; r_assembly; r_apply; r_mm] = true /\
  length (doc_list r_general) = 40 /\ length (doc_list r_intergrid) = 14.
Proof. exact rules_nonvacuous_. Qed.
Print Assumptions C21_nonvacuous_rules.
Example C21_witnesses_repaired :
  call_list v_fixed witness_shapes = stub_list v_fixed witness_shapes /\
  call_list v_fixed witness_stencil = stub_list v_fixed witness_stencil.
Proof. exact witnesses_fixed_. Qed.
Print Assumptions C21_witnesses_repaired.
