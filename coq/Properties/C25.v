(* C25 - GOcean loops visit exactly the configured grid points.  Property theorems only.
   Model: C25/Model.v; live table: C25/Gen.v (regenerated from the working tree on every run).
   lib_contract (C25/GenFacts.v) is the explicit, unverifiable premise about the dl_esm_inf library. *)
From Coq Require Import List ZArith Bool String Sorting.Sorted.
Import ListNotations.
From PV Require Import C25.Model C25.BoundsFacts C25.TraceFacts C25.Gen C25.TableFacts C25.GenFacts C25.FuseFacts.
Local Open Scope Z_scope.
Local Open Scope string_scope.
Local Open Scope list_scope.

(* A DO nest  do j=jlo,jhi; do i=ilo,ihi; call k(i,j)  calls the kernel at exactly the points of the
   rectangle, once each, in row-major order - for any bounds (empty ranges included). *)
Theorem C25_nest_visits_exactly : forall k r,
  (forall k' i j, In (k', i, j) (nest k r) <-> k' = k /\ inside r i j) /\
  NoDup (nest k r) /\ StronglySorted rm_lt (nest k r).
Proof. intros k r; split; [intros; apply in_nest|split; [apply nodup_nest|apply sorted_nest]]. Qed.
Print Assumptions C25_nest_visits_exactly.

(* Every entry of the built-in table (all offsets, point types, iteration spaces: 37 entries today),
   on every grid with internal region 2..sx x 2..sy: never beyond the depth-1 halo. *)
Theorem C25_table_within_halo : forall k b, lookup builtin_table k = Some b ->
  forall sx sy, 2 <= sx -> 2 <= sy ->
  1 <= jlo (region_of b sx sy) /\ jhi (region_of b sx sy) <= sy + 1 /\
  1 <= ilo (region_of b sx sy) /\ ihi (region_of b sx sy) <= sx + 1.
Proof. exact table_within_halo_. Qed.
Print Assumptions C25_table_within_halo.

(* "always contains the internal region": go_all_pts contains the table's own go_internal_pts region
   of the same offset and point type, and every built-in region contains [2, stop-1]^2, the points
   that are internal for every point type under both offsets. *)
Theorem C25_all_pts_contains_internal :
  (forall o t ba bi, lookup builtin_table (o, t, "go_all_pts") = Some ba ->
     lookup builtin_table (o, t, "go_internal_pts") = Some bi ->
     forall sx sy, 2 <= sx -> 2 <= sy -> rect_subset (region_of bi sx sy) (region_of ba sx sy)) /\
  (forall k b, lookup builtin_table k = Some b ->
     forall sx sy, 2 <= sx -> 2 <= sy -> rect_subset (mkR 2 (sy - 1) 2 (sx - 1)) (region_of b sx sy)).
Proof. split; [exact all_pts_contains_internal_|exact builtin_contains_core_]. Qed.
Print Assumptions C25_all_pts_contains_internal.

(* The built-in table of the working tree is the reference table (C25/Model.v ref_table), which is
   taken as the definition of the built-in regions and as the library contract. *)
Theorem C25_builtin_table_is_reference : forall k, lookup builtin_table k = lookup ref_table k.
Proof. exact builtin_table_is_reference_. Qed.
Print Assumptions C25_builtin_table_is_reference.

(* User-defined iteration spaces: add_bounds stores exactly the four bounds of the line under its
   key and leaves every other key alone; GOceanConfig applied to the translator's configuration file
   yields the table the model predicts (last line wins); the region is the line's bounds with
   {start}=2 and {stop}=the grid's internal stop index of that direction (region_of). *)
Theorem C25_user_space_substitution :
  (forall tb k b, lookup (add_bounds tb k b) k = Some b) /\
  (forall tb k b k', k' <> k -> lookup (add_bounds tb k b) k' = lookup tb k') /\
  (forall k, lookup table_after_config k =
             match lookup_last user_cfg_entries k with Some b => Some b | None => lookup builtin_table k end) /\
  (forall b sx sy, region_of b sx sy =
     mkR (eval_b 2 sy (o_lo b)) (eval_b 2 sy (o_hi b)) (eval_b 2 sx (i_lo b)) (eval_b 2 sx (i_hi b))).
Proof.
  split; [exact lookup_add_same|]. split; [exact lookup_add_other|].
  split; [exact config_parsing_is_add_bounds_|reflexivity].
Qed.
Print Assumptions C25_user_space_substitution.

(* FULL statement (false of the unchanged code, see the two _refuted theorems): for every kernel the
   generated nest visits exactly the configured region (spec_region), with or without constant loop
   bounds.
   PARTIAL (proved): it does on the default code path whenever the kernel's configuration line is
   not one the code never looks at (attr_ok includes cfg_ignored = false), under lib_contract. *)
Theorem C25_generated_region_is_configured_partial : forall lib, lib_contract lib ->
  forall cfg en k o,
  attr_ok cfg en (attr_of k) ->
  gen_outer (add_all builtin_table cfg) 0 k = Some o ->
  exists r, spec_region cfg (e_goff en) k (e_sx en) (e_sy en) = Some r /\
            exec_outer lib en o = nest (k_id k) r.
Proof.
  intros lib HC cfg en k o Hok H.
  apply (generated_region_is_configured_ lib HC cfg _ 0 en k o (table_is_add_all_builtin cfg) Hok H).
Qed.
Print Assumptions C25_generated_region_is_configured_partial.

Theorem C25_config_line_ignored_refuted :
  exists (cfg : table) (k : kern) (en : env) (o : outer) (r : rect),
    cfg_ignored cfg k = true /\
    gen_outer (add_all ref_table cfg) 0 k = Some o /\
    spec_region cfg (e_goff en) k (e_sx en) (e_sy en) = Some r /\
    exec_outer ref_lib en o <> nest (k_id k) r.
Proof. exact config_line_ignored_refuted_. Qed.
Print Assumptions C25_config_line_ignored_refuted.

(* Constant loop bounds.  FULL: region after GOConstLoopBoundsTrans = region before, for every kernel.
   PARTIAL (proved, under lib_contract): for kernels written for the grid's own offset, or over
   go_every, or over a space that is not a built-in name (const_safe).  Missing: GO_OFFSET_ANY with
   go_internal_pts / go_all_pts - refuted below. *)
Theorem C25_const_bounds_same_region_partial : forall lib, lib_contract lib ->
  forall cfg en k o o',
  attr_ok cfg en (attr_of k) -> const_safe en (attr_of k) ->
  gen_outer (add_all builtin_table cfg) 0 k = Some o ->
  const_outer (add_all builtin_table cfg) 0 o = Some o' ->
  exec_outer lib en o' = exec_outer lib en o.
Proof.
  intros lib HC cfg en k o o' Hok Hs Hg Hc.
  apply (const_bounds_same_region_ lib HC cfg _ 0 en k o o' (table_is_add_all_builtin cfg) Hok Hs Hg Hc).
Qed.
Print Assumptions C25_const_bounds_same_region_partial.

Theorem C25_const_bounds_any_offset_refuted :
  exists (k : kern) (en : env) (o o' : outer),
    lib_contract ref_lib /\ attr_ok [] en (attr_of k) /\
    gen_outer ref_table 0 k = Some o /\ const_outer ref_table 0 o = Some o' /\
    spec_region [] (e_goff en) k (e_sx en) (e_sy en) = Some (mkR 2 3 2 3) /\
    exec_outer ref_lib en o = nest (k_id k) (mkR 2 3 2 3) /\
    exec_outer ref_lib en o' = nest (k_id k) (mkR 1 3 1 3) /\
    exec_outer ref_lib en o' <> exec_outer ref_lib en o.
Proof. exact const_bounds_any_offset_refuted_. Qed.
Print Assumptions C25_const_bounds_any_offset_refuted.

(* Loop fusion.  FULL: every accepted GOcean loop fusion keeps, at every point, the kernels called
   and their order.  PARTIAL (proved, any library): it does when the two fused loops have equal
   evaluated bounds.  The code compares only the loops' iteration_space/field_space attributes -
   refuted below. *)
Theorem C25_fusion_preserves_per_point_sequence_partial : forall lib en tb first s,
  (forall n s', apply_x tb first s (XFuseOuter n) = Some s' ->
     (forall a b, nth_error s n = Some a -> nth_error s (S n) = Some b -> same_bounds_o lib en a b) ->
     forall i j, at_pt i j (exec lib en s') = at_pt i j (exec lib en s)) /\
  (forall n m s', apply_x tb first s (XFuseInner n m) = Some s' ->
     (forall o a b, nth_error s n = Some o -> nth_error (out_body o) m = Some a ->
                    nth_error (out_body o) (S m) = Some b -> same_bounds_i lib en a b) ->
     forall i j, at_pt i j (exec lib en s') = at_pt i j (exec lib en s)).
Proof.
  intros lib en tb first s; split.
  - intros n s' H HP. apply (fuse_outer_preserves_ lib en tb first s n s' H HP).
  - intros n m s' H HP. apply (fuse_inner_preserves_ lib en tb first s n m s' H HP).
Qed.
Print Assumptions C25_fusion_preserves_per_point_sequence_partial.

Theorem C25_fusion_attrs_only_refuted :
  exists (ks : list kern) (en : env) (s s1 s2 : sched),
    lib_contract ref_lib /\
    Forall (fun k => attr_ok [] en (attr_of k)) ks /\
    gen_sched ref_table 0 ks = Some s /\
    apply_x ref_table 0 s XConst = Some s1 /\
    apply_x ref_table 0 s1 (XFuseOuter 0) = Some s2 /\
    at_pt 1 1 (exec ref_lib en s1) = [2%nat] /\ at_pt 1 1 (exec ref_lib en s2) = [].
Proof. exact fusion_attrs_only_refuted_. Qed.
Print Assumptions C25_fusion_attrs_only_refuted.

(* OpenMP / OpenACC directives and extraction regions around a nest or an inner loop leave the loop
   bounds, hence the whole trace, unchanged (modelled: the wrappers execute nothing themselves). *)
Theorem C25_omp_acc_extract_do_not_change_bounds : forall lib en tb first s x s',
  (exists n w, x = XWrapOuter n w) \/ (exists n m w, x = XWrapInner n m w) ->
  apply_x tb first s x = Some s' -> exec lib en s' = exec lib en s.
Proof. exact wrap_preserves_trace_. Qed.
Print Assumptions C25_omp_acc_extract_do_not_change_bounds.

(* Histories.  FULL: any accepted sequence of constant-loop-bounds, fusion and wrapper
   transformations keeps the per-point call sequences.  PARTIAL (proved, under lib_contract): for
   invokes all of whose kernels are written for the grid's own index offset (no GO_OFFSET_ANY) and
   have no ignored configuration line.  No bound on the number of kernels or on the history length. *)
Theorem C25_history_preserves_per_point_partial : forall lib, lib_contract lib ->
  forall cfg en ks h s s',
  Forall (fun k => attr_ok cfg en (attr_of k) /\ k_off k = e_goff en) ks ->
  gen_sched (add_all builtin_table cfg) 0 ks = Some s ->
  apply_hist (add_all builtin_table cfg) 0 s h = Some s' ->
  forall i j, at_pt i j (exec lib en s') = at_pt i j (exec lib en s).
Proof.
  intros lib HC cfg en ks h s s' HF Hg Hh.
  apply (history_preserves_per_point_ lib HC cfg _ (table_is_add_all_builtin cfg) 0 en ks h s s' HF Hg Hh).
Qed.
Print Assumptions C25_history_preserves_per_point_partial.

(* non-vacuity *)
Example C25_generated_region_nonvacuous :
  let k := mkK 1 "go_offset_ne" "go_cu" "go_internal_pts" 0 in
  let en := wit_env "go_offset_ne" 4 5 "go_cu" in
  attr_ok [] en (attr_of k) /\ const_safe en (attr_of k) /\
  (exists o o', gen_outer builtin_table 0 k = Some o /\ const_outer builtin_table 0 o = Some o' /\
                exec_outer ref_lib en o = nest 1 (mkR 2 5 2 3) /\ exec_outer ref_lib en o' = nest 1 (mkR 2 5 2 3)).
Proof. exact generated_region_nonvacuous. Qed.
Print Assumptions C25_generated_region_nonvacuous.

Example C25_history_nonvacuous :
  let ks := [mkK 1 "go_offset_ne" "go_cu" "go_internal_pts" 0; mkK 2 "go_offset_ne" "go_cu" "go_internal_pts" 1;
             mkK 3 "go_offset_ne" "go_every" "go_all_pts" 2] in
  let en := mkEnv "go_offset_ne" 4 3 (fun f => match f with 2%nat => "go_ct" | _ => "go_cu" end) in
  let h := [XFuseOuter 0; XConst; XFuseInner 0 0; XWrapOuter 0 1; XWrapInner 1 0 2] in
  Forall (fun k => attr_ok [] en (attr_of k) /\ k_off k = e_goff en) ks /\
  exists s s', gen_sched builtin_table 0 ks = Some s /\ apply_hist builtin_table 0 s h = Some s' /\
               List.length s' = 2%nat /\ at_pt 2 2 (exec ref_lib en s') = [1%nat; 2%nat; 3%nat].
Proof. exact history_nonvacuous. Qed.
Print Assumptions C25_history_nonvacuous.
