(* C12 — Extraction regions record every input and output they need.  Property theorems only.

   FULL PROPERTY (false of the faithful model of get_in_out_parameters; see the _refuted theorems):
     forall sh r f s1 s1' tr s2, bnd s2 = bnd s1 -> agree_on (inputs sh r) s1 s2 ->
       exec f r s1 = Ok s1' tr CNormal ->
       exists s2', exec f r s2 = Ok s2' tr CNormal /\ forall x, In x (outputs r) -> var_agree r x s1' s2'
     and every location modified by r belongs to a variable of outputs r.
   The second half is proved without side condition (C12_outputs_cover_modified); the first half is
   proved under the static condition [safe] (C12_replay_sound_partial) and, for any single run, under
   the run-time condition "no upward-exposed read outside the inputs" (C12_replay_sound_dyn).
   Array extents: the theorems C12_replay_sound_dyn / _partial ask the two stores to have the same bounds for
   every array; the _ext versions weaken this to the bounds of the RECORDED variables (reported inputs and
   outputs) and therefore need [inq_ok]: every array whose LBOUND/UBOUND/SIZE the region can read is
   recorded (true under ExtractTrans' option COLLECT-ARRAY-SHAPE-READS; false by design for an array that
   is only inquired when the option is off).
   What is missing for the full statement: regions outside [safe] — arrays whose first access is a
   write (sound only if the run overwrites every element), scalars first written under a condition,
   DO variables read by their own bounds. *)
From Coq Require Import List ZArith Bool.
Import ListNotations.
From PV Require Import Fort.Syntax Fort.Sem C11.Access C12.InOut C12.Proofs C12.LinkC11 C12.Bounds.

Theorem C12_outputs_cover_modified : forall sh f r s s' tr c,
  exec f r s = Ok s' tr c ->
  (forall l, In l (writes tr) -> In (fst l) (outputs_of (accs sh r))) /\
  (forall l, val s' l <> val s l -> In (fst l) (outputs_of (accs sh r))).
Proof. exact outputs_cover_modified. Qed.
Print Assumptions C12_outputs_cover_modified.

Theorem C12_replay_sound_dyn : forall sh f r s1 s1' tr c s2,
  exec f r s1 = Ok s1' tr c ->
  (forall l, In l (exposed tr) -> In (fst l) (inputs sh r)) ->
  bnd s2 = bnd s1 -> agree_on (inputs sh r) s1 s2 ->
  exists s2', exec f r s2 = Ok s2' tr c /\ bnd s2' = bnd s1' /\
    (forall l, In (fst l) (inputs sh r) \/ In l (writes tr) -> val s2' l = val s1' l).
Proof. exact replay_sound_dyn. Qed.
Print Assumptions C12_replay_sound_dyn.

Theorem C12_replay_sound_partial : forall sh f r s1 s1' tr c s2,
  safe sh r = true ->
  exec f r s1 = Ok s1' tr c ->
  bnd s2 = bnd s1 -> agree_on (inputs sh r) s1 s2 ->
  exists s2', exec f r s2 = Ok s2' tr c /\ bnd s2' = bnd s1' /\
    agree_on (inputs sh r) s1' s2' /\
    (forall l, In l (writes tr) -> val s2' l = val s1' l) /\
    (c = CNormal -> forall x, In x (outputs r) -> var_agree r x s1' s2').
Proof. exact replay_sound_partial. Qed.
Print Assumptions C12_replay_sound_partial.

(* the static condition implies the run-time one: no upward-exposed read outside V *)
Theorem C12_flow_sound : forall V f r s s' tr c D',
  exec f r s = Ok s' tr c -> flow_block V r [] = Some D' ->
  (forall l, In l (exposed tr) -> In (fst l) V) /\
  (c = CNormal -> forall x, In x D' -> In (x, []) (writes tr)).
Proof. exact flow_sound. Qed.
Print Assumptions C12_flow_sound.

Example C12_safe_nonvacuous :
  safe false r_ok = true /\ safe true r_ok = true /\
  inputs false r_ok = [vb; vn; vs] /\ outputs r_ok = [vb; vt; vi; vs] /\
  exists s' tr, exec 20 r_ok (st_of [((vn, []), 3); ((vb, [1%Z]), 5)])%Z = Ok s' tr CNormal /\
                val s' (vb, [1%Z]) = 15%Z /\ val s' (vs, []) = 6%Z.
Proof. exact safe_nonvacuous. Qed.
Print Assumptions C12_safe_nonvacuous.

(* a(1) = 0 ; s = a(2) *)
Theorem C12_inputs_refuted_partial_array :
  inputs false r_partial = [] /\ inputs true r_partial = [] /\ safe false r_partial = false /\
  refutes false r_partial (st_of [((va, [2%Z]), 7%Z)]) (st_of [((va, [2%Z]), 9%Z)]) vs.
Proof. exact inputs_refuted_partial_array. Qed.
Print Assumptions C12_inputs_refuted_partial_array.

(* if (t > 0) m = 1 ; n = m *)
Theorem C12_inputs_refuted_conditional :
  inputs false r_cond = [vt] /\ safe false r_cond = false /\
  refutes false r_cond (st_of [((vm, []), 7%Z)]) (st_of [((vm, []), 9%Z)]) vn.
Proof. exact inputs_refuted_conditional. Qed.
Print Assumptions C12_inputs_refuted_conditional.

(* do i = i, 5 : s = s + 1 *)
Theorem C12_inputs_refuted_do_bounds :
  inputs false r_dovar = [vs] /\ safe false r_dovar = false /\
  refutes false r_dovar (st_of [((vi, []), 1%Z)]) (st_of [((vi, []), 4%Z)]) vs.
Proof. exact inputs_refuted_do_bounds. Qed.
Print Assumptions C12_inputs_refuted_do_bounds.

(* a(1) = 0 : output `a` recorded whole, a(2:) not reproducible from the inputs *)
Theorem C12_outputs_refuted_partial_write :
  inputs false r_wonly = [] /\ outputs r_wonly = [va] /\ reads_safe false r_wonly = true /\
  safe false r_wonly = false /\
  let s1 := st_of [((va, [2%Z]), 7%Z)] in let s2 := st_of [((va, [2%Z]), 9%Z)] in
  agree_on (inputs false r_wonly) s1 s2 /\
  exists s1' tr1 s2' tr2, exec 20 r_wonly s1 = Ok s1' tr1 CNormal /\ exec 20 r_wonly s2 = Ok s2' tr2 CNormal /\
                          ~ var_agree r_wonly va s1' s2'.
Proof. exact outputs_refuted_partial_write. Qed.
Print Assumptions C12_outputs_refuted_partial_write.

(* the access list used here is the C11 model of VariablesAccessInfo, projected *)
Theorem C12_accs_is_C11_projection : forall r, accs false r = map sk (accesses r).
Proof. exact accs_is_C11_projection. Qed.
Print Assumptions C12_accs_is_C11_projection.

(* the bounds of arrays the region never inquires are irrelevant to its execution *)
Theorem C12_exec_bounds_irrelevant : forall b f ss s,
  (forall a, In a (inq_of ss) -> b a = bnd s a) ->
  exec f ss (setb s b) = omapb b (exec f ss s).
Proof. exact exec_setb. Qed.
Print Assumptions C12_exec_bounds_irrelevant.

Theorem C12_replay_sound_dyn_ext : forall sh f r s1 s1' tr c s2,
  exec f r s1 = Ok s1' tr c ->
  (forall l, In l (exposed tr) -> In (fst l) (inputs sh r)) ->
  inq_ok sh r = true ->
  bnd_agree_on (recorded sh r) s1 s2 -> agree_on (inputs sh r) s1 s2 ->
  exists s2', exec f r s2 = Ok s2' tr c /\ bnd s2' = bnd s2 /\
    (forall l, In (fst l) (inputs sh r) \/ In l (writes tr) -> val s2' l = val s1' l).
Proof. exact replay_sound_dyn_ext. Qed.
Print Assumptions C12_replay_sound_dyn_ext.

Theorem C12_replay_sound_partial_ext : forall sh f r s1 s1' tr c s2,
  safe_ext sh r = true ->
  exec f r s1 = Ok s1' tr c ->
  bnd_agree_on (recorded sh r) s1 s2 -> agree_on (inputs sh r) s1 s2 ->
  exists s2', exec f r s2 = Ok s2' tr c /\ bnd s2' = bnd s2 /\
    agree_on (inputs sh r) s1' s2' /\
    (forall l, In l (writes tr) -> val s2' l = val s1' l) /\
    (c = CNormal -> forall x, In x (outputs r) -> var_agree r x s1' s2').
Proof. exact replay_sound_partial_ext. Qed.
Print Assumptions C12_replay_sound_partial_ext.

(* hist(size(active,1)) = hist(1) + 1 *)
Example C12_ext_nonvacuous :
  safe_ext true r_hist = true /\ inputs true r_hist = [0%nat; 1%nat] /\
  inq_of r_hist = [1%nat] /\ inq_ok false r_hist = false /\ inputs false r_hist = [0%nat] /\
  exists s' tr, exec 5 r_hist (store_of [((0%nat, [1%Z]), 4%Z)] [(0%nat, [(1%Z, 6%Z)]); (1%nat, [(1%Z, 3%Z)])]) = Ok s' tr CNormal /\
                val s' (0%nat, [3%Z]) = 5%Z.
Proof. exact ext_nonvacuous. Qed.
Print Assumptions C12_ext_nonvacuous.

(* any list V of recorded inputs, any statement list as the region's semantics (calls expanded) *)
Theorem C12_replay_sound_any : forall (V : list name) f r s1 s1' tr c s2,
  exec f r s1 = Ok s1' tr c ->
  (forall l, In l (exposed tr) -> In (fst l) V) ->
  bnd s2 = bnd s1 -> agree_on V s1 s2 ->
  exists s2', exec f r s2 = Ok s2' tr c /\ bnd s2' = bnd s1' /\
    (forall l, In (fst l) V \/ In l (writes tr) -> val s2' l = val s1' l).
Proof. exact replay_sound_any. Qed.
Print Assumptions C12_replay_sound_any.

(* a by-reference argument of a non-pure call (READWRITE access) is an output, and an input unless written first *)
Theorem C12_readwrite_in_out : forall x l,
  In (x, READWRITE) l -> (wfirst x l = false -> In x (inputs_of l)) /\ In x (outputs_of l).
Proof. exact readwrite_in_out. Qed.
Print Assumptions C12_readwrite_in_out.

(* regenerated obligation (props/C12/translate.py -> coq/C12/GenTables.v): every intrinsic of the tree under test is known to the
   frozen table of the Fortran standard's inquiry functions, and none is flagged `is_inquiry` (first argument skipped by
   IntrinsicCall.reference_accesses) unless the standard classifies it as an inquiry function *)
From PV Require Import C12.IntrTable C12.GenTables C12.IntrOblig.
Theorem C12_inquiry_flags_sound : forallb flag_ok gen_intrinsics = true.
Proof. exact inquiry_flags_sound. Qed.
Print Assumptions C12_inquiry_flags_sound.

(* ---- the extraction protocol as PSyDataNode.lower_to_language_level emits it (model C12/Protocol.v; compared with the calls
   read from the generated code on every run) *)
From PV Require Import C12.Protocol.
Theorem C12_protocol_records_reported : forall ins outs,
  provided_before (lower_extract ins outs) = ins /\
  provided_after (lower_extract ins outs) = outs /\
  declared (lower_extract ins outs) = ins ++ outs /\
  announced (lower_extract ins outs) = Some (length ins, length outs).
Proof. exact protocol_records_reported. Qed.
Print Assumptions C12_protocol_records_reported.

(* a region without inputs still declares and provides every output *)
Theorem C12_outputs_provided_without_inputs : forall outs,
  provided_after (lower_extract [] outs) = outs /\ declared (lower_extract [] outs) = outs /\
  announced (lower_extract [] outs) = Some (0%nat, length outs).
Proof. exact outputs_provided_without_inputs. Qed.
Print Assumptions C12_outputs_provided_without_inputs.

(* ---- regions containing DO WHILE directly (fuelled semantics C12/While.v: wexec / wloop; OutOfFuel distinct) *)
From PV Require Import C12.While C12.WhileReplay.
Theorem C12_replay_sound_any_while : forall (V : list name) f ws s1 s1' tr c s2,
  wexec f ws s1 = Ok s1' tr c ->
  (forall l, In l (exposed tr) -> In (fst l) V) ->
  bnd s2 = bnd s1 -> agree_on V s1 s2 ->
  exists s2', wexec f ws s2 = Ok s2' tr c /\ bnd s2' = bnd s1' /\
    (forall l, In (fst l) V \/ In l (writes tr) -> val s2' l = val s1' l).
Proof. exact replay_sound_any_while. Qed.
Print Assumptions C12_replay_sound_any_while.

Theorem C12_while_same_iterations : forall (V : list name) n c body s1 s1' tr c0 s2,
  wloop n c body s1 = Ok s1' tr c0 ->
  (forall l, In l (exposed tr) -> In (fst l) V) ->
  bnd s2 = bnd s1 -> agree_on V s1 s2 ->
  witers n c body s2 = witers n c body s1.
Proof. exact while_same_iterations. Qed.
Print Assumptions C12_while_same_iterations.

Example C12_while_runs :
  let c := EBin And (EBin Gt (EIdx 0%nat [ELit 1%Z]) (ELit 1%Z)) (EBin Lt (EVar 1%nat) (ELit 3%Z)) in
  let body := [SAssign 0%nat [ELit 1%Z] (EBin Sub (EIdx 0%nat [ELit 1%Z]) (ELit 1%Z)); SAssign 1%nat [] (EBin Add (EVar 1%nat) (ELit 1%Z))] in
  let st := store_of [((0%nat, [1%Z]), 3%Z)] [] in
  witers 10 c body st = 2%nat /\
  exists s' tr, wexec 10 [WWhile c body] st = Ok s' tr CNormal /\ val s' (0%nat, [1%Z]) = 1%Z /\ val s' (1%nat, []) = 2%Z /\
  wexec 1 [WWhile c body] st = OutOfFuel.
Proof. exact while_runs. Qed.
Print Assumptions C12_while_runs.

(* ---- call-tree resolution of module variables (model C12/CallTree.v, proofs C12/CallTreeProofs.v) *)
From Coq Require Import Permutation.
From PV Require Import C12.CallTree C12.CallTreeProofs.

(* any processing order of the routines gives the same lists (the r2 seed made the first-processed routine decide) *)
Theorem C12_calltree_order_independent : forall rs rs' globals,
  Permutation rs rs' ->
  ct_inputs rs' globals = ct_inputs rs globals /\ ct_outputs rs' globals = ct_outputs rs globals.
Proof. exact calltree_order_independent. Qed.
Print Assumptions C12_calltree_order_independent.

(* PARTIAL. Fragment: a table p of routines whose bodies are core statements and top-level calls without arguments to routines
   of the table; meaning of a call = the callee inlined (to depth n); entry = any body.  "Incoming value read before being
   written" is taken, as in the implementation, as "first access in the inlined access list is not a WRITE"; with the must-
   define data-flow succeeding this covers every upward-exposed read (C12_calltree_exposed_reads_covered). Missing for the full
   statement: the is_written_first gaps (partial array write, conditional write) of the inlined code. *)
Theorem C12_calltree_covers_partial : forall n p entry globals,
  let rs := map to_x (reached n p entry) in
  (forall v, In v globals -> In v (inputs false (inline n p entry)) -> In v (ct_inputs rs globals)) /\
  (forall f st st' tr c, exec f (inline n p entry) st = Ok st' tr c ->
     forall l, In l (writes tr) -> In (fst l) globals -> In (fst l) (ct_outputs rs globals)).
Proof. exact calltree_covers_partial. Qed.
Print Assumptions C12_calltree_covers_partial.

Theorem C12_calltree_exposed_reads_covered : forall n p entry globals f st st' tr c D',
  exec f (inline n p entry) st = Ok st' tr c ->
  flow_block (inputs false (inline n p entry)) (inline n p entry) [] = Some D' ->
  forall l, In l (exposed tr) -> In (fst l) globals ->
  In (fst l) (ct_inputs (map to_x (reached n p entry)) globals).
Proof. exact calltree_exposed_reads_covered. Qed.
Print Assumptions C12_calltree_exposed_reads_covered.

(* entry: g2 = g1 + 1; call h1     h1: call h2; g3 = g2     h2: g1 = 5 *)
Example C12_calltree_nonvacuous :
  let entry := nth 0 prog3 [] in
  let rs := map to_x (reached 2 prog3 entry) in
  inline 2 prog3 entry = [SAssign g2 [] (EBin Add (EVar g1) (ELit 1%Z)); SAssign g1 [] (ELit 5%Z); SAssign g3 [] (EVar g2)] /\
  length rs = 3%nat /\
  ct_inputs rs [g1; g2; g3] = [g1; g2] /\ ct_outputs rs [g1; g2; g3] = [g1; g2; g3] /\
  ct_inputs (rev rs) [g1; g2; g3] = [g1; g2] /\
  ct_inputs [to_x (nth 2 prog3 [])] [g1; g2; g3] = [] /\
  exists st' tr, exec 10 (inline 2 prog3 entry) (store_of [((g1, []), 7%Z)] []) = Ok st' tr CNormal /\
                 val st' (g3, []) = 8%Z /\ val st' (g1, []) = 5%Z.
Proof. exact calltree_nonvacuous. Qed.
Print Assumptions C12_calltree_nonvacuous.
