(* C24 -- Generated algorithm and PSy layers agree on invoke arguments.  Property theorems only.
   Model: C24/Model.v (argument lists of both layers, tag-based naming), C24/Order.v (the two parse-tree walks).

   FULL STATEMENT (kernel_arg_bound_to_its_actual): for all pre ks k j ra,
       In k ks -> nth_error (flat_args k) j = Some ra -> passed ra = true ->
       bound_ok (alg_args pre ks) (psy_dummies pre ks) (used_of (final pre ks) ra) (text (snd ra)).
   It is FALSE of the code as it is (C24_kernel_arg_bound_to_its_actual_refuted: stencil extents and
   directions are passed by their PSy-layer name, not by the text written).  Proved instead:
   unconditionally for kernel arguments proper and quadrature (…_main_qr), for all roles under stencil_safe
   (…_partial), and for all roles of the repaired algorithm layer alg_args_fixed (…_fixed).
   FULL STATEMENT (positions_aligned): psy_dummies pre ks = map (name_of (final pre ks)) (alg_args pre ks):
   same situation (…_partial under stencil_safe, …_fixed unconditional). *)
From Coq Require Import List String.
Import ListNotations.
From PV Require Import C24.Fresh C24.Model C24.Proofs C24.Order.

(* the parse-tree walk of parse.algorithm and the walk of Alg.gen pair every invoke statement with the
   Invoke object built from that very statement, for every parse tree *)
Theorem C24_invoke_order_aligned : forall t, Forall (fun pr => snd pr = Some (fst pr)) (alg_gen t).
Proof. exact invoke_order_aligned_. Qed.
Print Assumptions C24_invoke_order_aligned.

Theorem C24_all_invokes_rewritten : forall t, map fst (alg_gen t) = parse_invokes t.
Proof. exact all_invokes_rewritten_. Qed.
Print Assumptions C24_all_invokes_rewritten.

(* same number of actuals and dummies -- for ALL invokes, the code as it is *)
Theorem C24_alg_psy_same_length : forall pre ks,
    List.length (alg_args pre ks) = List.length (psy_dummies pre ks).
Proof. exact alg_psy_same_length_. Qed.
Print Assumptions C24_alg_psy_same_length.

(* the i-th dummy is the name of the i-th actual: repaired layer, all invokes *)
Theorem C24_positions_aligned_fixed : forall pre ks,
    psy_dummies pre ks = map (name_of (final pre ks)) (alg_args_fixed ks).
Proof. exact dummies_are_names_of_fixed. Qed.
Print Assumptions C24_positions_aligned_fixed.

(* ... the code as it is, when every passed stencil extent/direction is a name left unchanged *)
Theorem C24_positions_aligned_partial : forall pre ks,
    stencil_safe pre ks = true ->
    psy_dummies pre ks = map (name_of (final pre ks)) (alg_args pre ks).
Proof. exact positions_aligned_partial_. Qed.
Print Assumptions C24_positions_aligned_partial.

(* every kernel argument (field, scalar, operator) and quadrature object, however repeated / spelled /
   indexed / dereferenced, is bound to the actual with its source text: the code as it is, all invokes *)
Theorem C24_kernel_arg_bound_main_qr : forall pre ks k j ra,
    In k ks -> nth_error (flat_args k) j = Some ra -> passed ra = true ->
    (fst ra = RMain \/ fst ra = RQr) ->
    bound_ok (alg_args pre ks) (psy_dummies pre ks) (used_of (final pre ks) ra) (text (snd ra)).
Proof. exact kernel_arg_bound_main_qr_. Qed.
Print Assumptions C24_kernel_arg_bound_main_qr.

Theorem C24_kernel_arg_bound_to_its_actual_partial : forall pre ks k j ra,
    stencil_safe pre ks = true ->
    In k ks -> nth_error (flat_args k) j = Some ra -> passed ra = true ->
    nth_error (kernel_used (final pre ks) k) j = Some (used_of (final pre ks) ra) /\
    bound_ok (alg_args pre ks) (psy_dummies pre ks) (used_of (final pre ks) ra) (text (snd ra)).
Proof. exact kernel_arg_bound_partial_. Qed.
Print Assumptions C24_kernel_arg_bound_to_its_actual_partial.

Theorem C24_kernel_arg_bound_fixed : forall pre ks k j ra,
    In k ks -> nth_error (flat_args k) j = Some ra -> passed ra = true ->
    nth_error (kernel_used (final pre ks) k) j = Some (used_of (final pre ks) ra) /\
    bound_ok (alg_args_fixed ks) (psy_dummies pre ks) (used_of (final pre ks) ra) (text (snd ra)).
Proof. exact kernel_arg_bound_fixed_. Qed.
Print Assumptions C24_kernel_arg_bound_fixed.

(* the code as it is violates the full statement: testkern_stencil_type(f1, f2, exts(1), m1, m2) *)
Theorem C24_kernel_arg_bound_to_its_actual_refuted :
  exists pre ks k j ra,
    In k ks /\ nth_error (flat_args k) j = Some ra /\ passed ra = true /\
    ~ bound_ok (alg_args pre ks) (psy_dummies pre ks) (used_of (final pre ks) ra) (text (snd ra)).
Proof. exact refuted_binding. Qed.
Print Assumptions C24_kernel_arg_bound_to_its_actual_refuted.

Theorem C24_actual_is_not_source_text_refuted :
  exists pre ks, alg_args pre ks = ["f1"; "f2"; "m1"; "m2"; "exts"]%string /\
                 alg_args_fixed ks = ["f1"; "f2"; "m1"; "m2"; "exts(1)"]%string /\
                 psy_dummies pre ks = ["f1"; "f2"; "m1"; "m2"; "exts"]%string.
Proof. exact refuted_actual_text. Qed.
Print Assumptions C24_actual_is_not_source_text_refuted.

(* distinct texts <-> distinct PSy names, for all arguments of an invoke whatever their role *)
Theorem C24_names_injective_on_texts : forall pre ks r1 r2 t1 t2,
    In t1 (texts_of r1 ks) -> In t2 (texts_of r2 ks) ->
    (name_of (final pre ks) t1 = name_of (final pre ks) t2 <-> t1 = t2).
Proof. exact names_injective_on_texts_. Qed.
Print Assumptions C24_names_injective_on_texts.

(* the name search never returns a name in use (pigeonhole; no freshness premise needed) *)
Theorem C24_fresh_name_unused : forall root used, ~ In (normalize (fresh root used)) used.
Proof. exact fresh_not_used. Qed.
Print Assumptions C24_fresh_name_unused.

(* FULL STATEMENT: forall pre ks, NoDup (psy_dummies pre ks) -- FALSE of the code as it is (refuted below) *)
Theorem C24_dummies_nodup_partial : forall pre ks,
    NoDup (alg_args_fixed ks) -> NoDup (psy_dummies pre ks).
Proof. exact dummies_nodup_partial_. Qed.
Print Assumptions C24_dummies_nodup_partial.

Theorem C24_dummies_nodup_refuted : exists pre ks, ~ NoDup (psy_dummies pre ks).
Proof. exact refuted_nodup. Qed.
Print Assumptions C24_dummies_nodup_refuted.

(* non-vacuity: an invoke with repeats, spellings, renamings, a literal, a simple extent, a direction
   constant and quadrature satisfies stencil_safe and NoDup (alg_args_fixed) *)
Example C24_nonvacuous :
  stencil_safe pre0 ex_ok = true /\ NoDup (alg_args_fixed ex_ok) /\
  alg_args pre0 ex_ok = ["obj%f"; "f1"; "obj_f"; "fa(2)"; "fa_1"; "ext"; "qr"]%string /\
  psy_dummies pre0 ex_ok = ["obj_f"; "f1"; "obj_f_1"; "fa"; "fa_1"; "ext"; "qr"]%string /\
  map (kernel_used (final pre0 ex_ok)) ex_ok =
    [["obj_f"; "f1"; "ext"; "x_direction"; "obj_f_1"; "fa"; "qr"]; ["fa"; "1.0_r_def"; "fa_1"; "f1"]]%string.
Proof. exact nonvacuous_ok. Qed.
Print Assumptions C24_nonvacuous.

Example C24_order_example :
  alg_gen ex_tree = [(6, Some 6); (7, Some 7); (11, Some 11)] /\ parse_invokes ex_tree = [6; 7; 11].
Proof. exact ex_tree_pairs. Qed.
Print Assumptions C24_order_example.

(* ------------------------------------------------------------------------------------------------
   The PSyIR-based algorithm generation (generator.LFRIC_TESTING; C24/Psyir.v) and the tag keys (C24/Qr.v,
   keys extracted from the tree under test into C24/GenQr.v).
   FULL STATEMENT (psyir_positions_aligned): forall cb pre ks,
       psy_dummies pre ks = map (name_of (final pre ks)) (psyir_alg_args cb ks)
   FALSE of the code as it is (C24_psyir_positions_aligned_refuted); proved under psyir_safe (no CodeBlock
   argument, PSyIR equality key = text for every passed argument, i.e. lower-case structure members). *)
From PV Require Import C24.Psyir C24.GenQr C24.Qr.

Theorem C24_psyir_positions_aligned_partial : forall cb pre ks,
    psyir_safe cb ks = true ->
    psy_dummies pre ks = map (name_of (final pre ks)) (psyir_alg_args cb ks).
Proof. exact psyir_positions_aligned_partial_. Qed.
Print Assumptions C24_psyir_positions_aligned_partial.

Theorem C24_psyir_positions_aligned_refuted :
  exists cb pre ks, psy_dummies pre ks <> map (name_of (final pre ks)) (psyir_alg_args cb ks).
Proof. exact refuted_psyir_aligned. Qed.
Print Assumptions C24_psyir_positions_aligned_refuted.

(* finding: repeated structure argument passed twice -- invoke(setval_c(obj%v(1), 1.0_r_def), setval_X(f1, OBJ % V( 1 ))) *)
Theorem C24_psyir_structure_argument_passed_twice_refuted :
  psyir_alg_args (fun _ => false) wit_struct = ["obj%v(1)"; "f1"; "obj%v(1)"]%string /\
  psy_dummies ("invoke_0"%string :: nil) wit_struct = ["obj_v"; "f1"]%string /\
  alg_args_fixed wit_struct = ["obj%v(1)"; "f1"]%string.
Proof. exact refuted_struct_dup. Qed.
Print Assumptions C24_psyir_structure_argument_passed_twice_refuted.

(* finding: named single built-in invoke called by its index name; agreement everywhere else *)
Theorem C24_psyir_routine_names_agree_partial : forall label i ks,
    named_single_builtin label ks = false -> psyir_rname label i ks = psy_rname label i ks.
Proof. exact routine_names_agree_partial_. Qed.
Print Assumptions C24_psyir_routine_names_agree_partial.

Theorem C24_psyir_routine_names_refuted : exists label i ks, psyir_rname label i ks <> psy_rname label i ks.
Proof. exact routine_names_refuted. Qed.
Print Assumptions C24_psyir_routine_names_refuted.

(* quadrature: the tag key extracted from lfric_kern.py is the TEXT, hence different texts (qr(1), qr(2)) get
   different PSy dummies *)
Theorem C24_qr_names_injective_on_texts : forall pre ks a b,
    In (text a) (texts_of RQr ks) -> In (text b) (texts_of RQr ks) -> text a <> text b ->
    qr_name (final pre ks) a <> qr_name (final pre ks) b.
Proof. exact qr_names_injective_on_texts_. Qed.
Print Assumptions C24_qr_names_injective_on_texts.

Theorem C24_extracted_tag_keys_are_texts : (forall a, qr_tag a = tagof (text a)) /\ (forall a, arg_tag a = tagof (text a)).
Proof. split; [exact qr_tag_is_text_tag | exact arg_tag_is_text_tag]. Qed.
Print Assumptions C24_extracted_tag_keys_are_texts.

Example C24_qr_example :
  qr_name (final pre0 ex_qr) (ix "qrs" "1") = "qrs"%string /\ qr_name (final pre0 ex_qr) (ix "QRS" " 2") = "qrs_1"%string /\
  psy_dummies pre0 ex_qr = ["f1"; "qrs"; "qrs_1"]%string /\ alg_args pre0 ex_qr = ["f1"; "qrs(1)"; "qrs(2)"]%string.
Proof. exact ex_qr_names. Qed.
Print Assumptions C24_qr_example.
