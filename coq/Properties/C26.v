(* C26 — A rejected transformation leaves the code unchanged.  Property theorems only.

   FULL STATEMENT (not provable, and false of the unchanged tree): for every Transformation T of
   PSyclone, every PSyIR tree and every option dictionary, if T.apply raises TransformationError
   then the tree and all its symbol tables are exactly as before.
   What is proved is PARTIAL: the statement over *effect skeletons* (C26/Skeleton.v), i.e. over the
   abstraction of each apply() to "where can TransformationError be raised / where is the PSyIR
   mutated / control structure", extracted from the source of the tree under test by
   props/C26/translate.py into C26/Gen.v.  Missing: (i) the classification of the mutating
   primitives and the translator are trusted, not verified; (ii) skeletons that are not `safe`
   (unsafe_names in Gen.v) are outside the theorem: each is either a known finding with a concrete
   witness on the implementation or on the committed baseline of statically-unsafe-but-no-witness
   pairs (props/C26/static_unsafe_baseline.json); the dynamic search of props/C26/check.py
   evaluates the property itself on the implementation for all transformations. *)
From Coq Require Import List String Bool.
Import ListNotations.
From PV Require Import C26.Skeleton C26.Proofs C26.Gen.

(* Meta-theorem, for ALL skeletons, states and resolutions of the non-determinism: if every raise
   site that can leave the skeleton precedes every mutation site on every path (transitively
   through followed calls and nested applies), then a run that ends in TransformationError has
   the state it started with. *)
Theorem C26_safe_skeleton_sound_partial : forall s, safe s = true ->
  forall st ch st' ch', run s st ch = (RErr, st', ch') -> st' = st.
Proof. exact safe_skeleton_sound_. Qed.
Print Assumptions C26_safe_skeleton_sound_partial.

(* The state is a log that only grows, so "st' = st" says that NO mutation was executed. *)
Theorem C26_run_log_extends : forall s st ch, exists l, state_of (run s st ch) = (l ++ st)%list.
Proof. exact run_log_extends_. Qed.
Print Assumptions C26_run_log_extends.

(* Instantiation on the GENERATED skeletons of the tree under test: every transformation listed in
   safe_names (Gen.v; checked safe by computation) has the property at skeleton level. *)
Theorem C26_generated_safe_transformations_partial : forall n, In n safe_names ->
  exists s, lookup_sk all_skeletons n = Some s /\
    forall st ch st' ch', run s st ch = (RErr, st', ch') -> st' = st.
Proof. exact (table_sound_ all_skeletons safe_names all_safe_names). Qed.
Print Assumptions C26_generated_safe_transformations_partial.

(* safe_names and unsafe_names together cover every generated skeleton *)
Theorem C26_names_partition :
  List.length safe_names + List.length unsafe_names = List.length all_skeletons.
Proof. exact names_partition. Qed.
Print Assumptions C26_names_partition.

(* The statement without the `safe` premise is false: the shape present today in
   ArrayAssignment2LoopsTrans (options verbose=True: attach a comment, then raise) ends in
   TransformationError with a changed state.  The witness is replayed on the implementation by
   the check (known finding ArrayAssignment2LoopsTrans/verbose-comment-before-raise). *)
Theorem C26_unsafe_shape_refuted :
  exists s st ch st' ch', run s st ch = (RErr, st', ch') /\ st' <> st.
Proof. exact unsafe_shape_refutes_. Qed.
Print Assumptions C26_unsafe_shape_refuted.

(* Non-vacuity: a safe skeleton of the usual shape (validate, then mutate; loops, early return,
   try/except) that has both a raising run and a mutating run. *)
Example C26_nonvacuous :
  safe validate_then_mutate = true /\
  (exists ch st' ch', run validate_then_mutate [] ch = (RErr, st', ch')) /\
  (exists ch st' ch', run validate_then_mutate [] ch = (ROk, st', ch') /\ st' <> []).
Proof. exact nonvacuous_safe. Qed.
Print Assumptions C26_nonvacuous.
