(* placeholder while the model is being validated *)
From PV Require Import C16.Model.
Theorem C16_placeholder : True.
Proof. exact I. Qed.
Print Assumptions C16_placeholder.
