(* C16 -- Symbol tables keep names unique and lookups scoped.  Property theorems only.
   Model: C16/Model.v ([step] = one public SymbolTable operation on a state made of symbol objects,
   a chain of nested scopes with their tables, and detached tables).  [reachable st] = st is the
   state after some history of operations from n nested empty scopes.

   Property, full strength (properties.jsonl C16):
     (1) names unique case-insensitively within a table            -- PROVED   (C16_unique_names_inv)
     (2) lookup returns the symbol of the innermost enclosing scope -- PROVED   (C16_lookup_innermost ...)
     (3) a generated name clashes with nothing in table/ancestors/other -- PROVED (C16_fresh_name_fresh ...)
     (4) merge adds every non-skipped symbol exactly once           -- REFUTED for imported symbols
         (C16_merge_adds_once_refuted); PROVED for every symbol that is not imported/unresolved
         (C16_merge_adds_once_partial); containers and imported/unresolved symbols may be
         identified with a symbol already present -- that identification is where the code is wrong
     (5) merge renames only where needed                            -- REFUTED (C16_merge_renames_refuted:
         symbols_to_skip is ignored by the container pass); PROVED: no symbol outside the two tables
         is renamed (C16_merge_renames_local_partial) and nothing at all is renamed when the tables
         have no key in common (C16_merge_renames_only_clashes_partial)
     (6) a rejected operation changes nothing                       -- PROVED for every operation but
         merge (C16_rejected_unchanged_partial) and for merge rejected by check_for_clashes when no
         unresolved symbol of the receiving table has an intrinsic's name
         (C16_merge_rejected_unchanged_partial); REFUTED for merge in general
         (C16_rejected_unchanged_refuted_specialise, C16_rejected_unchanged_refuted_partial_update). *)
From Coq Require Import List Arith Bool String NArith.
Import ListNotations.
From PV Require Import C16.GenTables C16.Model C16.Names C16.Inv C16.MergeProofs C16.RenameProofs C16.StateInv C16.Proofs C16.Witness C16.CodeBlocks C16.ExecCB C16.CodeBlocksInv.
Open Scope string_scope.
Open Scope list_scope.

(* (1) for all histories, in every table of the state (attached to a scope or detached): keys are
   unique, they are exactly the lower-cased names of the symbols they hold, no two symbols of a
   table have names equal up to case, no symbol object is listed twice *)
Theorem C16_unique_names_inv : forall n ops T,
    let st := run (init_state n) ops in
    In T (all_tables st) ->
    NoDup (keys T) /\ NoDup (sids T) /\
    (forall k s, In (k, s) (t_syms T) -> k = normalize (s_name (hget (st_heap st) s))) /\
    (forall k1 s1 k2 s2, In (k1, s1) (t_syms T) -> In (k2, s2) (t_syms T) ->
                         normalize (s_name (hget (st_heap st) s1)) = normalize (s_name (hget (st_heap st) s2)) ->
                         s1 = s2).
Proof. exact unique_names_run. Qed.
Print Assumptions C16_unique_names_inv.

(* tags are unique per table and never stale: a tagged symbol is in the table that holds the tag *)
Theorem C16_tags_never_stale : forall n ops T,
    In T (all_tables (run (init_state n) ops)) ->
    NoDup (map fst (t_tags T)) /\ forall tg s, In (tg, s) (t_tags T) -> In s (sids T).
Proof. exact tags_run. Qed.
Print Assumptions C16_tags_never_stale.

(* no symbol object is held by two tables (the domain restriction under which (1) is stated:
   the model only lets operations create their own symbol objects, and drops the other table of a
   merge that got past check_for_clashes) *)
Theorem C16_one_owner : forall n ops, NoDup (flat_map sids (all_tables (run (init_state n) ops))).
Proof. exact one_owner_run. Qed.
Print Assumptions C16_one_owner.

(* (2) lookup(name), computed as the code does through the merged dictionary of get_symbols(),
   returns exactly the entry of the first table -- the table itself, then its enclosing tables
   outwards -- that has the lower-cased name; KeyError iff no table of the chain has it *)
Theorem C16_lookup_innermost : forall T anc name s,
    lookup T anc name = Some s <->
    exists pre T' post, T :: anc = pre ++ T' :: post /\
                        (forall P, In P pre -> ~ In (normalize name) (keys P)) /\
                        find_key (normalize name) (t_syms T') = Some s.
Proof. exact lookup_innermost_. Qed.
Print Assumptions C16_lookup_innermost.

Theorem C16_lookup_keyerror : forall T anc name,
    lookup T anc name = None <-> forall P, In P (T :: anc) -> ~ In (normalize name) (keys P).
Proof. exact lookup_none_. Qed.
Print Assumptions C16_lookup_keyerror.

Theorem C16_lookup_tag_innermost : forall T anc tag s,
    lookup_tag T anc tag = Some s <->
    exists pre T' post, T :: anc = pre ++ T' :: post /\
                        (forall P, In P pre -> ~ In tag (map fst (t_tags P))) /\
                        find_key tag (t_tags T') = Some s.
Proof. exact lookup_tag_innermost_. Qed.
Print Assumptions C16_lookup_tag_innermost.

(* after any history the symbol returned for `name` is named `name` up to case *)
Theorem C16_lookup_sound : forall n ops t T name s,
    let st := run (init_state n) ops in
    get_table st t = Some T -> lookup T (ancestors st t) name = Some s ->
    normalize (s_name (hget (st_heap st) s)) = normalize name.
Proof. exact lookup_sound_run. Qed.
Print Assumptions C16_lookup_sound.

(* (3) next_available_name: the counter loop always ends within |existing names|+1 iterations
   (pigeonhole: the candidates root, root_1, root_2, ... are pairwise distinct after lower-casing);
   the result is not a key of the table, nor -- unless shadowing -- of an enclosing table, nor of
   other_table; it is the first free candidate *)
Theorem C16_fresh_name_fresh : forall T anc root shadowing other,
    exists nm, next_available_name T anc root shadowing other = Some nm /\
               ~ In (normalize nm) (keys T) /\
               (shadowing = false -> forall A, In A anc -> ~ In (normalize nm) (keys A)) /\
               (forall Ot, other = Some Ot -> ~ In (normalize nm) (keys Ot)) /\
               exists k, nm = cand (if String.eqb root "" then default_root else root) (N.of_nat k) /\
                         forall k', k' < k ->
                                    In (normalize (cand (if String.eqb root "" then default_root else root) (N.of_nat k')))
                                       (existing_names T anc shadowing other).
Proof. exact fresh_name_fresh_. Qed.
Print Assumptions C16_fresh_name_fresh.

(* after any history: no symbol of the table, its enclosing tables (unless shadowing) or the other
   table is named like the generated name up to case *)
Theorem C16_fresh_name_no_clash : forall n ops t T root shadowing other nm,
    let st := run (init_state n) ops in
    get_table st t = Some T ->
    (forall Ot, other = Some Ot -> exists ot, get_table st ot = Some Ot) ->
    next_available_name T (ancestors st t) root shadowing other = Some nm ->
    forall P k s,
      (P = T \/ (shadowing = false /\ In P (ancestors st t)) \/ other = Some P) ->
      In (k, s) (t_syms P) ->
      normalize (s_name (hget (st_heap st) s)) <> normalize nm.
Proof. exact fresh_name_no_clash_run. Qed.
Print Assumptions C16_fresh_name_no_clash.

(* (4) full statement, FALSE of the code:
     forall completed merges, every symbol s of the other table with s not in symbols_to_skip is
     in the receiving table exactly once afterwards (or an equivalent symbol of the same name is).
   Proved part: nothing lost, nothing twice, nothing from elsewhere, and every non-skipped symbol
   that is not a ContainerSymbol, not imported and not unresolved is there exactly once. *)
Theorem C16_merge_adds_once_partial : forall h T anc Ot skip m,
    TOK h T -> TOK h Ot -> (forall s, In s (sids T) -> ~ In s (sids Ot)) ->
    merge h T anc Ot skip = (m, MDone, None) ->
    NoDup (sids (m_self m)) /\ NoDup (keys (m_self m)) /\
    (forall s, In s (sids T) -> In s (sids (m_self m))) /\
    (forall s, In s (sids (m_self m)) -> In s (sids T) \/ In s (sids Ot)) /\
    (forall s, In s (sids Ot) -> ~ In s skip -> is_container (hget h s) = false ->
               is_import (hget h s) = false -> is_unres (hget h s) = false ->
               In s (sids (m_self m)) /\ count_occ Nat.eq_dec (sids (m_self m)) s = 1).
Proof. exact merge_adds_once_partial_. Qed.
Print Assumptions C16_merge_adds_once_partial.

(* the hypotheses hold in every reachable state for the two tables of a merge *)
Theorem C16_merge_hypotheses_reachable : forall n ops t j T Ot,
    let st := run (init_state n) ops in
    get_table st t = Some T -> nth_error (st_det st) j = Some Ot ->
    (match t with TDet j' => Nat.eqb j' j | _ => false end) = false ->
    TOK (st_heap st) T /\ TOK (st_heap st) Ot /\ (forall s, In s (sids T) -> ~ In s (sids Ot)).
Proof. exact merge_hypotheses_run. Qed.
Print Assumptions C16_merge_hypotheses_reachable.

Theorem C16_merge_adds_once_refuted :
  exists st t j skip T Ot st' T' s,
    reachable st /\ get_table st t = Some T /\ nth_error (st_det st) j = Some Ot /\
    step st (OMerge t j skip) = (st', RUnit) /\ get_table st' t = Some T' /\
    In s (sids Ot) /\ ~ In s skip /\ is_container (hget (st_heap st) s) = false /\
    ~ In s (sids T') /\
    forallb (fun s' => negb (is_import (hget (st_heap st') s')) && negb (is_unres (hget (st_heap st') s')))
            (sids T') = true.
Proof. exact merge_adds_once_refuted_. Qed.
Print Assumptions C16_merge_adds_once_refuted.

(* whatever the outcome of a merge (completed, rejected, or an exception half-way), the receiving
   table is consistent over the heap that is left: unique keys = lower-cased names *)
Theorem C16_merge_keeps_table_consistent : forall h T anc Ot skip m ph oe,
    TOK h T -> TOK h Ot -> (forall s, In s (sids T) -> ~ In s (sids Ot)) ->
    merge h T anc Ot skip = (m, ph, oe) -> TOK (m_heap m) (m_self m).
Proof. exact merge_keeps_table_ok_. Qed.
Print Assumptions C16_merge_keeps_table_consistent.

(* (5) full statement, FALSE of the code:
     a completed merge changes the name of a symbol only if a non-skipped symbol of the other table
     had the same name up to case. *)
Theorem C16_merge_renames_refuted :
  exists st t j skip T Ot st' s,
    reachable st /\ get_table st t = Some T /\ nth_error (st_det st) j = Some Ot /\
    step st (OMerge t j skip) = (st', RUnit) /\
    In s (sids T) /\ s_name (hget (st_heap st') s) <> s_name (hget (st_heap st) s) /\
    forallb (fun e => negb (String.eqb (fst e) (normalize (s_name (hget (st_heap st) s))))
                      || mem_sid (snd e) skip) (t_syms Ot) = true.
Proof. exact merge_renames_refuted_. Qed.
Print Assumptions C16_merge_renames_refuted.

(* proved part of (5): with no key in common between the two tables, merge -- whatever its outcome --
   leaves every name as it was; and in any case only symbols of the two tables can be renamed.
   (Missing for the full statement restricted to non-skipped symbols: a per-symbol version, "s is
   renamed only if ITS key is in both tables".) *)
Theorem C16_merge_renames_only_clashes_partial : forall h T anc Ot skip m ph oe,
    TOK h T -> TOK h Ot -> (forall s, In s (sids T) -> ~ In s (sids Ot)) ->
    (forall s, In s (sids Ot) -> is_import (hget h s) = true -> is_container (hget h s) = false) ->
    (forall k, In k (keys T) -> ~ In k (keys Ot)) ->
    merge h T anc Ot skip = (m, ph, oe) ->
    forall s, s_name (hget (m_heap m) s) = s_name (hget h s).
Proof. exact merge_no_clash_no_rename_. Qed.
Print Assumptions C16_merge_renames_only_clashes_partial.

Theorem C16_merge_renames_local_partial : forall h T anc Ot skip m ph oe,
    TOK h T -> TOK h Ot -> (forall s, In s (sids T) -> ~ In s (sids Ot)) ->
    merge h T anc Ot skip = (m, ph, oe) ->
    forall s, ~ In s (sids T) -> ~ In s (sids Ot) -> s_name (hget (m_heap m) s) = s_name (hget h s).
Proof. exact merge_renames_local_. Qed.
Print Assumptions C16_merge_renames_local_partial.

Example C16_merge_no_clash_nonvacuous :
  exists st T Ot m,
    reachable st /\ get_table st (TSlot 0) = Some T /\ nth_error (st_det st) 0 = Some Ot /\
    (forall s, In s (sids Ot) -> is_import (hget (st_heap st) s) = true -> is_container (hget (st_heap st) s) = false) /\
    (forall k, In k (keys T) -> ~ In k (keys Ot)) /\
    merge (st_heap st) T (ancestors st (TSlot 0)) Ot [] = (m, MDone, None) /\
    map (fun s => s_name (hget (m_heap m) s)) (sids (m_self m)) = ["a"; "B"; "m"; "x"; "c"].
Proof. exact merge_no_clash_nonvacuous. Qed.
Print Assumptions C16_merge_no_clash_nonvacuous.

(* (6) full statement, FALSE of the code:  forall st o st' e, step st o = (st', RErr e) -> st' = st.
   Proved for every operation except merge: *)
Theorem C16_rejected_unchanged_partial : forall st o st' e,
    is_merge o = false -> step st o = (st', RErr e) -> st' = st.
Proof. exact rejected_unchanged_nonmerge_. Qed.
Print Assumptions C16_rejected_unchanged_partial.

(* merge rejected by check_for_clashes never touches a table; it leaves the symbol objects
   untouched too if no unresolved symbol of the receiving table is named like an intrinsic *)
Theorem C16_merge_rejected_unchanged_partial : forall st t j skip T Ot m oe st' r,
    get_table st t = Some T -> nth_error (st_det st) j = Some Ot ->
    merge (st_heap st) T (ancestors st t) Ot skip = (m, MRejected, oe) ->
    (m_self m = T /\ m_other m = Ot) /\
    (no_intrinsic_unresolved (st_heap st) T ->
     step st (OMerge t j skip) = (st', r) -> st' = st).
Proof. exact merge_rejected_unchanged_both. Qed.
Print Assumptions C16_merge_rejected_unchanged_partial.

Theorem C16_rejected_unchanged_refuted_specialise :
  exists st o st' e, reachable st /\ step st o = (st', RErr e) /\
                     map s_kind (st_heap st') <> map s_kind (st_heap st) /\
                     st_slots st' = st_slots st /\ st_det st' = st_det st.
Proof. exact rejected_unchanged_refuted_a. Qed.
Print Assumptions C16_rejected_unchanged_refuted_specialise.

Theorem C16_rejected_unchanged_refuted_partial_update :
  exists st o st' e, reachable st /\ step st o = (st', RErr e) /\
                     get_table st' (TSlot 0) <> get_table st (TSlot 0).
Proof. exact rejected_unchanged_refuted_b. Qed.
Print Assumptions C16_rejected_unchanged_refuted_partial_update.

(* non-vacuity of the hypotheses used above *)
Example C16_merge_adds_once_nonvacuous :
  exists st T Ot m,
    reachable st /\ get_table st (TSlot 0) = Some T /\ nth_error (st_det st) 0 = Some Ot /\
    TOK (st_heap st) T /\ TOK (st_heap st) Ot /\ (forall s, In s (sids T) -> ~ In s (sids Ot)) /\
    merge (st_heap st) T (ancestors st (TSlot 0)) Ot [] = (m, MDone, None) /\
    map (fun s => s_name (hget (m_heap m) s)) (sids (m_self m)) = ["a"; "A_2"; "B_1"; "B"; "c"].
Proof. exact merge_adds_once_nonvacuous. Qed.
Print Assumptions C16_merge_adds_once_nonvacuous.

Example C16_merge_rejected_nonvacuous :
  exists st T Ot m,
    reachable st /\ get_table st (TSlot 0) = Some T /\ nth_error (st_det st) 0 = Some Ot /\
    merge (st_heap st) T (ancestors st (TSlot 0)) Ot [] = (m, MRejected, Some ESymbol) /\
    no_intrinsic_unresolved (st_heap st) T /\
    step st (OMerge (TSlot 0) 0 []) = (st, RErr ESymbol).
Proof. exact merge_rejected_nonvacuous. Qed.
Print Assumptions C16_merge_rejected_nonvacuous.

Example C16_rejected_nonmerge_nonvacuous :
  let st := run (init_state 2) [OAdd (TSlot 1) "a" sp_data "t"; OAdd (TSlot 0) "B" sp_arg ""] in
  step st (OAdd (TSlot 1) "A" sp_data "") = (st, RErr EKey) /\
  step st (OAdd (TSlot 0) "c" sp_data "t") = (st, RErr EKey) /\
  step st (ORename (TSlot 0) 1 "b2") = (st, RErr ESymbol) /\
  step st (ORemove (TSlot 1) 0) = (st, RErr ENotImpl) /\
  step st (ONewSymbol (TSlot 0) "a" "" false sp_data false) = (st, RErr ESymbol).
Proof. exact rejected_nonmerge_nonvacuous. Qed.
Print Assumptions C16_rejected_nonmerge_nonvacuous.

(* the rejections of remove/swap that depend on references (ContainerSymbol still imported from,
   RoutineSymbol that is a member of a GenericInterfaceSymbol), on TAGGED symbols: nothing changes,
   in particular not the tag map (C16_rejected_unchanged_partial is about the whole state) *)
Example C16_rejected_remove_tagged_nonvacuous :
  let st := run (init_state 1) ops_E4 in
  step st (ORemove (TSlot 0) 0) = (st, RErr EValue) /\
  step st (ORemove (TSlot 0) 2) = (st, RErr EValue) /\
  step st (OSwap (TSlot 0) 0 "MOD1" sp_cont) = (st, RErr EValue) /\
  snd (step st (OLookupTag (TSlot 0) "c1")) = RSym 0 /\
  snd (step st (OLookupTag (TSlot 0) "r1")) = RSym 2 /\
  snd (step st (OFindOrCreateTag (TSlot 0) "c1" "mod1" false sp_cont true)) = RSym 0 /\
  snd (step (run st [ORemove (TSlot 0) 3; ORemove (TSlot 0) 2]) (OLookupTag (TSlot 0) "r1")) = RErr EKey.
Proof. exact rejected_remove_tagged_nonvacuous. Qed.
Print Assumptions C16_rejected_remove_tagged_nonvacuous.

Example C16_fresh_name_nonvacuous :
  let st := run (init_state 2)
                [OAdd (TSlot 1) "a" sp_data ""; OAdd (TSlot 0) "A_1" sp_data ""; ONewTable;
                 OAdd (TDet 0) "a_2" sp_data ""] in
  snd (step st (ONextName (TSlot 0) "A" false (Some (TDet 0)))) = RName "A_3" /\
  snd (step st (ONextName (TSlot 0) "A" false None)) = RName "A_2" /\
  snd (step st (ONextName (TSlot 0) "A" true None)) = RName "A" /\
  snd (step st (ONextName (TSlot 1) "" false None)) = RName "psyir_tmp".
Proof. exact fresh_name_nonvacuous. Qed.
Print Assumptions C16_fresh_name_nonvacuous.

Example C16_lookup_nonvacuous :
  let st := run (init_state 3) [OAdd (TSlot 2) "a" sp_data ""; OAdd (TSlot 0) "A" (mkSpec KGeneric false IAuto) ""] in
  snd (step st (OLookup (TSlot 0) "a")) = RSym 1 /\ snd (step st (OLookup (TSlot 1) "A")) = RSym 0 /\
  snd (step (fst (step st (ODetach 1))) (OLookup (TSlot 0) "a")) = RSym 1 /\
  snd (step (fst (step (fst (step st (ORemove (TSlot 0) 1))) (ODetach 1))) (OLookup (TSlot 0) "a")) = RErr EKey.
Proof. exact lookup_nonvacuous. Qed.
Print Assumptions C16_lookup_nonvacuous.

(* ---- extension with CodeBlocks (C16/CodeBlocks.v): every scope carries the normalised names mentioned
   in CodeBlocks of its tree; rename_symbol refuses such a symbol after all its other checks and
   before the dry_run return; check_for_clashes/merge decide through that dry run ---- *)

(* a rename that is refused -- for whatever reason, a CodeBlock access included -- leaves the whole
   state unchanged; and a symbol named in a CodeBlock in scope IS refused with SymbolError, dry run or not *)
Theorem C16_rename_codeblock_rejected_unchanged : forall cbs st t s name dry st' e,
    rename_step_cb cbs st t s name dry = (st', RErr e) -> st' = st.
Proof. exact rename_rejected_unchanged_cb. Qed.
Print Assumptions C16_rename_codeblock_rejected_unchanged.

Theorem C16_rename_codeblock_refused : forall cbs st t T s name dry,
    get_table st t = Some T -> rename_check (st_heap st) T s name = None ->
    In (normalize (s_name (hget (st_heap st) s))) (cb_of cbs t) ->
    rename_step_cb cbs st t s name dry = (st, RErr ESymbol).
Proof. exact rename_codeblock_refused. Qed.
Print Assumptions C16_rename_codeblock_refused.

(* dry_run=True never changes anything and succeeds / fails (with the same exception) exactly when the
   real rename would *)
Theorem C16_dry_run_pure : forall cb h T s name,
    TOK h T ->
    (forall r, rename_symbol_cb cb h T s name true = inl r -> r = (h, T)) /\
    (forall e, rename_symbol_cb cb h T s name true = inr e <-> rename_symbol_cb cb h T s name false = inr e) /\
    ((exists r, rename_symbol_cb cb h T s name true = inl r) <->
     (exists r, rename_symbol_cb cb h T s name false = inl r)).
Proof. exact dry_run_pure_full_. Qed.
Print Assumptions C16_dry_run_pure.

Theorem C16_dry_run_state_unchanged : forall cbs st t s name st' r,
    rename_step_cb cbs st t s name true = (st', r) ->
    st_slots st' = st_slots st /\ st_det st' = st_det st /\ st_heap st' = st_heap st.
Proof. exact dry_run_state_unchanged_. Qed.
Print Assumptions C16_dry_run_state_unchanged.

(* a clash between an ordinary local symbol of the receiving table that cannot be renamed (named in a
   CodeBlock, argument, common block ...) and a symbol of the other table that cannot be renamed either
   is rejected by check_for_clashes, and merge leaves heap and both tables as they were.  Partial: one
   clashing pair, no unresolved symbol of the receiving table named like an intrinsic (otherwise
   check_for_clashes may already have specialised symbols: the open finding A). *)
Theorem C16_merge_unrenameable_clash_rejected_upfront_partial : forall cb h self anc other skip os ts e2,
    no_intrinsic_unresolved h self ->
    In os (sids other) -> ~ In os skip ->
    find_key (normalize (s_name (hget h os))) (t_syms self) = Some ts ->
    plain_local h ts ->
    rename_check_cb cb h self ts "" = Some ESymbol ->
    rename_check_cb [] h other os "" = Some e2 ->
    exists e, check_for_clashes_cb cb h self anc other skip = (h, Some e) /\
              merge_cb cb h self anc other skip = (mkM h self other, MRejected, Some e).
Proof. exact merge_unrenameable_clash_rejected_upfront_partial_. Qed.
Print Assumptions C16_merge_unrenameable_clash_rejected_upfront_partial.

Example C16_rename_codeblock_nonvacuous :
  rename_step_cb cb_cbs cb_st (TSlot 0) 0 "z" false = (cb_st, RErr ESymbol) /\
  rename_step_cb cb_cbs cb_st (TSlot 0) 0 "z" true = (cb_st, RErr ESymbol) /\
  rename_step_cb cb_cbs cb_st (TSlot 0) 0 "Y" false = (cb_st, RErr EKey) /\
  snd (rename_step_cb cb_cbs cb_st (TSlot 0) 1 "z" false) = RUnit /\
  rename_step_cb cb_cbs cb_st (TSlot 0) 1 "z" true = (cb_st, RUnit) /\
  snd (rename_step_cb [[]; []] cb_st (TSlot 0) 0 "z" false) = RUnit.
Proof. exact rename_codeblock_nonvacuous. Qed.
Print Assumptions C16_rename_codeblock_nonvacuous.

Example C16_merge_unrenameable_nonvacuous :
  exists T Ot,
    get_table cb_st (TSlot 0) = Some T /\ nth_error (st_det cb_st) 0 = Some Ot /\
    no_intrinsic_unresolved (st_heap cb_st) T /\ In 3 (sids Ot) /\
    find_key (normalize (s_name (hget (st_heap cb_st) 3))) (t_syms T) = Some 0 /\
    plain_local (st_heap cb_st) 0 /\
    rename_check_cb ["x"] (st_heap cb_st) T 0 "" = Some ESymbol /\
    rename_check_cb [] (st_heap cb_st) Ot 3 "" = Some ESymbol /\
    merge_cb ["x"] (st_heap cb_st) T [] Ot [] = (mkM (st_heap cb_st) T Ot, MRejected, Some ESymbol) /\
    (exists m, merge_cb [] (st_heap cb_st) T [] Ot [] = (m, MDone, None) /\
               map (fun s => s_name (hget (m_heap m) s)) (sids (m_self m)) = ["y"; "first"; "X_1"; "X"]).
Proof. exact merge_unrenameable_nonvacuous. Qed.
Print Assumptions C16_merge_unrenameable_nonvacuous.

(* ---- the invariants over ALL histories of the CodeBlock-aware step (ExecCB.step_cb, run_cb = fold_left),
   by simulation: every operation other than merge is Model.step or a CodeBlock refusal that changes
   nothing.  PARTIAL: histories without merge (no_merge ops); missing: the merge invariant (MergeProofs.MI)
   re-established for merge_cb, where a CodeBlock refusal can also stop a merge half-way ---- *)
Theorem C16_unique_names_inv_cb_partial : forall cbs n ops T,
    no_merge ops = true ->
    let st := run_cb cbs (init_state n) ops in
    In T (all_tables st) ->
    NoDup (keys T) /\ NoDup (sids T) /\
    (forall k s, In (k, s) (t_syms T) -> k = normalize (s_name (hget (st_heap st) s))) /\
    (forall k1 s1 k2 s2, In (k1, s1) (t_syms T) -> In (k2, s2) (t_syms T) ->
                         normalize (s_name (hget (st_heap st) s1)) = normalize (s_name (hget (st_heap st) s2)) ->
                         s1 = s2).
Proof. exact unique_names_inv_cb_. Qed.
Print Assumptions C16_unique_names_inv_cb_partial.

Theorem C16_tags_never_stale_cb_partial : forall cbs n ops T,
    no_merge ops = true -> In T (all_tables (run_cb cbs (init_state n) ops)) ->
    NoDup (map fst (t_tags T)) /\ forall tg s, In (tg, s) (t_tags T) -> In s (sids T).
Proof. exact tags_never_stale_cb_. Qed.
Print Assumptions C16_tags_never_stale_cb_partial.

Theorem C16_lookup_innermost_cb_partial : forall cbs n ops t T name s,
    no_merge ops = true ->
    let st := run_cb cbs (init_state n) ops in
    get_table st t = Some T ->
    (lookup T (ancestors st t) name = Some s <->
     exists pre T' post, T :: ancestors st t = pre ++ T' :: post /\
                         (forall P, In P pre -> ~ In (normalize name) (keys P)) /\
                         find_key (normalize name) (t_syms T') = Some s) /\
    (lookup T (ancestors st t) name = Some s ->
     normalize (s_name (hget (st_heap st) s)) = normalize name).
Proof. exact lookup_innermost_cb_. Qed.
Print Assumptions C16_lookup_innermost_cb_partial.

Theorem C16_step_cb_simulation : forall cbs st o,
    is_merge o = false ->
    step_cb cbs st o = step st o \/
    (exists t s name, o = ORename t s name /\ step_cb cbs st o = (st, RErr ESymbol)).
Proof. exact step_cb_sim. Qed.
Print Assumptions C16_step_cb_simulation.

Theorem C16_rejected_unchanged_cb_partial : forall cbs st o st' e,
    is_merge o = false -> step_cb cbs st o = (st', RErr e) -> st' = st.
Proof. exact rejected_unchanged_cb_. Qed.
Print Assumptions C16_rejected_unchanged_cb_partial.

(* general form of the up-front rejection: any number of clashing pairs; as soon as one non-skipped pair
   that has to be resolved by renaming cannot be (both dry runs fail, or the first raises something else
   than SymbolError), check_for_clashes raises -- at that pair or an earlier one -- and merge returns with
   heap and tables untouched.  Partial only in: no unresolved symbol of the receiving table is named like an
   intrinsic (else symbols may have been specialised before the raise: open finding A). *)
Theorem C16_merge_unrenameable_clash_rejected_upfront_general_partial : forall cb h self anc other skip os ts,
    no_intrinsic_unresolved h self ->
    In os (sids other) -> ~ In os skip ->
    find_key (normalize (s_name (hget h os))) (t_syms self) = Some ts ->
    needs_rename h ts os -> unrenameable_pair cb h self other ts os ->
    exists e, check_for_clashes_cb cb h self anc other skip = (h, Some e) /\
              merge_cb cb h self anc other skip = (mkM h self other, MRejected, Some e).
Proof. exact merge_unrenameable_clash_rejected_upfront_. Qed.
Print Assumptions C16_merge_unrenameable_clash_rejected_upfront_general_partial.

Example C16_invariants_cb_nonvacuous :
  no_merge cbi_ops = true /\
  map snd (map (step_cb [["x"; "a"]; []] (run_cb [["x"; "a"]; []] (init_state 2) (firstn 3 cbi_ops)))
               [ORename (TSlot 0) 1 "z"; ORename (TSlot 1) 0 "q"; ORename (TSlot 0) 2 "B"])
  = [RErr ESymbol; RErr ESymbol; RErr ESymbol] /\
  map s_name (st_heap (run_cb [["x"; "a"]; []] (init_state 2) cbi_ops)) = ["a"; "x"; "A"] /\
  map s_name (st_heap (run_cb [[]; []] (init_state 2) cbi_ops)) = ["q"; "z"; "x"].
Proof. exact invariants_cb_nonvacuous. Qed.
Print Assumptions C16_invariants_cb_nonvacuous.

Example C16_merge_upfront_general_nonvacuous :
  exists T Ot,
    get_table cbg_st (TSlot 0) = Some T /\ nth_error (st_det cbg_st) 0 = Some Ot /\
    no_intrinsic_unresolved (st_heap cbg_st) T /\ In 4 (sids Ot) /\
    find_key (normalize (s_name (hget (st_heap cbg_st) 4))) (t_syms T) = Some 1 /\
    needs_rename (st_heap cbg_st) 1 4 /\ unrenameable_pair ["x"] (st_heap cbg_st) T Ot 1 4 /\
    merge_cb ["x"] (st_heap cbg_st) T [] Ot [] = (mkM (st_heap cbg_st) T Ot, MRejected, Some ESymbol) /\
    (exists m, merge_cb [] (st_heap cbg_st) T [] Ot [] = (m, MDone, None) /\
               map (fun s => s_name (hget (m_heap m) s)) (sids (m_self m)) = ["b"; "B_1"; "first"; "X_1"; "X"]).
Proof. exact merge_upfront_general_nonvacuous. Qed.
Print Assumptions C16_merge_upfront_general_nonvacuous.
