(* C02 — Written expressions keep the operation order of the PSyIR tree.  Property theorems only.

   FULL STATEMENT (properties.jsonl): for every PSyIR expression tree e, the text written by
   FortranWriter is in the Fortran grammar and is read back as e:
       forall e, wf e = true -> parse (write impl_rules e) = Some e.
   It is FALSE of the faithful model of the unchanged writer (theorems C02_write_refuted_...).  Proved
   instead: the statement under the syntactic side condition shape_ok (three excluded shapes),
   for every rule set; and the full statement for any writer making the three left-operand
   decisions (`complete`).  props/C02/fix.patch makes two of them plus the left-spine sign rule
   (rules_patch); the third contradicts PSyclone's own test-suite.  C02_impl_status says which
   situation the writer read by translate.py is in.  Literals whose written form loses information (wf
   requires lit_ok) are refuted separately and are not repaired by the patch. *)
From Coq Require Import List NArith Bool String.
Import ListNotations.
From PV Require Import C02.Syntax C02.Gen C02.Model C02.Facts C02.ParseProof C02.Shape C02.Witness C02.Head.

(* sharpest form: the local, computable condition `safe` (= ok at the top position) *)
Theorem C02_parse_write_safe_partial : forall R e, safe R e = true -> parse (write R e) = Some e.
Proof. exact parse_write_safe. Qed.
Print Assumptions C02_parse_write_safe_partial.

(* partial theorem: well-formed trees without the three shapes are read back, for any rule set *)
Theorem C02_parse_write_partial :
  forall R e, wf e = true -> shape_ok R e = true -> parse (write R e) = Some e.
Proof. exact parse_write_shape. Qed.
Print Assumptions C02_parse_write_partial.

(* ... in particular for the writer as translate.py found it in the working tree *)
Theorem C02_parse_write_impl_partial :
  forall e, wf e = true -> shape_ok impl_rules e = true -> parse (write impl_rules e) = Some e.
Proof. exact (parse_write_shape impl_rules). Qed.
Print Assumptions C02_parse_write_impl_partial.

(* full statement for any writer that makes the three left-operand decisions (the complete repair) *)
Theorem C02_parse_write_complete :
  forall R e, complete R = true -> wf e = true -> parse (write R e) = Some e.
Proof. exact parse_write_complete. Qed.
Print Assumptions C02_parse_write_complete.

(* what props/C02/fix.patch achieves and what it leaves *)
Theorem C02_patch_witnesses :
  forallb (fun e => match parse (write rules_patch e) with Some t => expr_eqb t e | None => false end)
          [w_pow; w_rel_chain; w_sign_deep; w_plus_mul] = true /\
  refutes rules_patch w_neg_mul /\ refutes rules_patch w_not_rel.
Proof. exact patch_witnesses. Qed.
Print Assumptions C02_patch_witnesses.

(* literals in the form the reader produces are read back unchanged *)
Theorem C02_literal_roundtrip : forall l, lit_ok l = true -> read_lit (write_lit l) = l.
Proof. exact lit_roundtrip. Qed.
Print Assumptions C02_literal_roundtrip.

(* the full statement is false of the model of the unchanged writer *)
Theorem C02_write_refuted_pow : refutes rules_orig w_pow /\
  parse (write rules_orig w_pow) = Some (Bin Pow (v "a") (Bin Pow (v "b") (v "c"))).
Proof. exact refuted_pow. Qed.
Print Assumptions C02_write_refuted_pow.
Theorem C02_write_refuted_neg_mul : refutes rules_orig w_neg_mul /\
  parse (write rules_orig w_neg_mul) = Some (Un Neg (Bin Mul (v "a") (v "b"))).
Proof. exact refuted_neg_mul. Qed.
Print Assumptions C02_write_refuted_neg_mul.
Theorem C02_write_refuted_not_rel : refutes rules_orig w_not_rel /\
  parse (write rules_orig w_not_rel) = Some (Bin Eqv (Un Not (Bin Eq (v "a") (v "b"))) (v "c")).
Proof. exact refuted_not_rel. Qed.
Print Assumptions C02_write_refuted_not_rel.
Theorem C02_write_refuted_rel_chain :
  refutes rules_orig w_rel_chain /\ parse (write rules_orig w_rel_chain) = None.
Proof. exact refuted_rel_chain. Qed.
Print Assumptions C02_write_refuted_rel_chain.
Theorem C02_write_refuted_sign_deep :
  refutes rules_orig w_sign_deep /\ parse (write rules_orig w_sign_deep) = None.
Proof. exact refuted_sign_deep. Qed.
Print Assumptions C02_write_refuted_sign_deep.
Theorem C02_write_refuted_lit_double : lit_refutes (mkLit KReal "1.0" PDouble) /\
  read_lit (write_lit (mkLit KReal "1.0" PDouble)) = mkLit KReal "1.0" PUndef.
Proof. exact refuted_lit_double. Qed.
Print Assumptions C02_write_refuted_lit_double.
Theorem C02_write_refuted_lit_signed : forall R,
  parse (write R w_lit_signed) = None /\
  parse (write R (Lit (mkLit KInt "-1" PUndef))) = Some (Un Neg (Lit (mkLit KInt "1" PUndef))).
Proof. exact refuted_lit_signed. Qed.
Print Assumptions C02_write_refuted_lit_signed.

(* the writer in the working tree: repaired, or refuted by one of the witnesses *)
Theorem C02_impl_status :
  (complete impl_rules = true /\ forall e, wf e = true -> parse (write impl_rules e) = Some e) \/
  exists e, In e [w_pow; w_neg_mul; w_not_rel; w_rel_chain] /\ refutes impl_rules e.
Proof. exact impl_status. Qed.
Print Assumptions C02_impl_status.

(* non-vacuity of the partial theorems *)
Example C02_nonvacuous :
  wf w_good = true /\ shape_ok rules_orig w_good = true /\ safe rules_orig w_good = true /\
  parse (write rules_orig w_good) = Some w_good /\
  write_text rules_orig w_good =
  "-a + b * c ** (d ** (-x)) < MAX(a, b - (c - d), dim=1) .OR. (.NOT.(f%vals(i:n + 1_8:2,1.5d3) .AND. (.true. .EQV. ck_""it's"" /= y)))"%string.
Proof. exact nonvacuous. Qed.
Print Assumptions C02_nonvacuous.

(* ---- the writer as it is on /repo HEAD (R_head = rules_patch) ----
   Wanted: forall e, wf e = true -> (parse (write R_head e) = Some e <-> no_bad_shape_head e = true),
   with no_bad_shape_head the computable, position-aware predicate of C02/Head.v naming the
   remaining classes (unbracketed unary left operand of a tighter binary operator: sign left of
   * / **, .NOT. left of a relational/arithmetic operator).
   Proved: the <- direction for all trees of any size and every rule set; both directions on the
   finite domain of all trees with <= 2 operator levels (5472) and all operator chains of length 3
   (35937) by a vm_compute sweep; a witness per class.  The -> direction for unbounded trees
   (a bad shape anywhere always breaks the round trip) is NOT proved. *)
Theorem C02_head_roundtrip_if_partial :
  forall R e, wf e = true -> no_bad_shape R e = true -> parse (write R e) = Some e.
Proof. exact no_bad_shape_roundtrip. Qed.
Print Assumptions C02_head_roundtrip_if_partial.

Theorem C02_head_roundtrip_iff_bounded : forall e, In e (small_trees ++ chains3) ->
  (parse (write R_head e) = Some e <-> no_bad_shape_head e = true).
Proof. exact head_roundtrip_iff_bounded. Qed.
Print Assumptions C02_head_roundtrip_iff_bounded.

Theorem C02_head_sweep_sizes :
  N.of_nat (List.length small_trees) = 5472%N /\ N.of_nat (List.length chains3) = 35937%N.
Proof. exact sweep_sizes. Qed.
Print Assumptions C02_head_sweep_sizes.

Example C02_head_bad_classes :
  no_bad_shape_head w_neg_mul = false /\ parse (write R_head w_neg_mul) <> Some w_neg_mul /\
  no_bad_shape_head (Bin Pow (Un Pos (v "a")) (v "b")) = false /\
  no_bad_shape_head w_not_rel = false /\ parse (write R_head w_not_rel) <> Some w_not_rel /\
  no_bad_shape_head w_pow = true /\ no_bad_shape_head w_rel_chain = true /\
  no_bad_shape_head w_sign_deep = true /\ no_bad_shape_head w_plus_mul = true /\
  no_bad_shape_head (Un Neg (Bin Mul (Un Neg (v "a")) (v "b"))) = true /\
  no_bad_shape_head w_good = true.
Proof. exact head_bad_classes. Qed.
Print Assumptions C02_head_bad_classes.

(* the generated precedence() table is an order embedding into the Fortran 2008 levels of the
   grammar (same strict order, same ties), binary and unary operators together *)
Theorem C02_prec_table_order :
  (forall a b, Nat.compare (prec_bin a) (prec_bin b) = Nat.compare (lvl a) (lvl b)) /\
  (forall u o, Nat.compare (prec_un u) (prec_bin o) = Nat.compare (pre_max u) (lvl o)) /\
  (forall u w, Nat.compare (prec_un u) (prec_un w) = Nat.compare (pre_max u) (pre_max w)).
Proof. exact (conj prec_order_bin (conj prec_order_un_bin prec_order_un)). Qed.
Print Assumptions C02_prec_table_order.

Example C02_prec_order_example :
  prec_bin Eqv < prec_bin Or /\ prec_bin Or < prec_bin And /\ prec_bin And < prec_un Not /\
  prec_un Not < prec_bin Eq /\ prec_bin Ge < prec_bin Sub /\ prec_bin Add < prec_bin Div /\
  prec_bin Mul < prec_bin Pow /\ prec_bin Eqv = prec_bin Neqv /\ prec_bin Lt = prec_bin Ne /\
  prec_un Neg = prec_bin Add /\ prec_bin Mul = prec_bin Div.
Proof. exact prec_order_example. Qed.
Print Assumptions C02_prec_order_example.
