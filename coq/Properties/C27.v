(* C27 — Module dependency sort orders dependencies first.  Property theorems only. *)
From Coq Require Import List Permutation.
Import ListNotations.
From PV Require Import C27.Model C27.Proofs.

(* every listed module exactly once — with or without cycles, with or without unknown deps *)
Theorem C27_sort_perm : forall m, NoDup (keys m) -> Permutation (sort_modules m) (keys m).
Proof. exact sort_perm_. Qed.
Print Assumptions C27_sort_perm.

(* no cycle among known dependencies => every module comes after all its known dependencies *)
Theorem C27_sort_respects : forall m, NoDup (keys m) -> acyclic_known m ->
  forall a ds b, In (a, ds) m -> In b ds -> In b (keys m) -> before b a (sort_modules m).
Proof. exact sort_respects_. Qed.
Print Assumptions C27_sort_respects.

(* unknown dependencies are ignored *)
Theorem C27_unknown_ignored : forall m m', prune m = prune m' -> sort_modules m = sort_modules m'.
Proof. exact unknown_added_. Qed.
Print Assumptions C27_unknown_ignored.

Example C27_nonvacuous :
  let m := [(3, [1; 2; 9]); (1, [0]); (2, [0; 7]); (0, [])] in
  NoDup (keys m) /\ acyclic_known m /\ sort_modules m = [0; 1; 2; 3].
Proof. exact acyclic_nonvacuous. Qed.
Print Assumptions C27_nonvacuous.

(* "no cycle" stated on paths through the known dependencies (transitive closure), proved
   equivalent to the rank formulation used above (coq/C27/Acyclic.v) *)
From PV Require Import C27.Acyclic.

Theorem C27_no_cycle_iff_rank : forall m, NoDup (keys m) -> (no_cycle m <-> acyclic_known m).
Proof. exact no_cycle_iff_acyclic_known. Qed.
Print Assumptions C27_no_cycle_iff_rank.

Theorem C27_sort_respects_no_cycle : forall m, NoDup (keys m) -> no_cycle m ->
  forall a ds b, In (a, ds) m -> In b ds -> In b (keys m) -> before b a (sort_modules m).
Proof. exact sort_respects_no_cycle. Qed.
Print Assumptions C27_sort_respects_no_cycle.
