(* C28 — PSyData regions are entered and left in matched pairs.  MODEL (definitions only).

   What is modelled (src/psyclone, tree under test):
   * psyir/transformations/region_trans.py  RegionTrans.validate  : consecutive children of one
     Schedule, `excluded_node_types` walk over the selected nodes and all their descendants;
   * psyir/transformations/psy_data_trans.py PSyDataTrans.validate : non-empty list, "between an
     OpenMP/ACC loop directive and its loop", "inside an OpenACC region", region_name / prefix
     option validity; PSyDataTrans.apply : the selected nodes become the body of one PSyDataNode;
   * extract_trans.py / read_only_verify_trans.py / nan_test_trans.py validate : a selected Loop
     whose parent Schedule belongs to a Directive, and any thread-parallel ancestor, are refused;
     profile_trans.py adds nothing;
   * psyir/nodes/psy_data_node.py lower_to_language_level : PreStart/PostEnd around the body
     (= `SRegion` of Fort.Syntax, whose semantics emits Enter r ... Leave r and NO Leave when the
     body is left by EXIT/CYCLE/RETURN) and the automatic region name "r<idx>", idx = number of
     PSyData regions preceding the node in pre-order;
   * profiler.py Profiler.add_profile_nodes (option "routines"/"invokes").
   The class-level facts (each transformation's `excluded_node_types`, the directive class
   hierarchy) are NOT written here: they are the record `tables`, instantiated by the generated
   file Gen.v (translator props/C28/translate.py) and, for the witnesses of the refuted
   statements, by `asfound_tables` (the tables as found in the unchanged tree). *)
From Coq Require Import List ZArith Bool Arith Lia.
Import ListNotations.
From PV Require Import Fort.Syntax Fort.Sem Base.Harness.
Close Scope Z_scope.
Open Scope nat_scope.

(* ------------------------------------------------------------------ region tags *)
(* A PSyData region `SRegion r body` carries r = 4 * nm + code, code = which node class
   (ProfileNode / ExtractNode / NanTestNode / ReadOnlyVerifyNode), nm = 0 when the region has no
   user-supplied name (named at lowering), nm = S u for options["region_name"] = user name u. *)
Inductive tkind := TProfile | TExtract | TNanTest | TReadOnly.

Definition tcode (t : tkind) : nat :=
  match t with TProfile => 0 | TExtract => 1 | TNanTest => 2 | TReadOnly => 3 end.
Definition tdecode (n : nat) : tkind :=
  match n with 0 => TProfile | 1 => TExtract | 2 => TNanTest | _ => TReadOnly end.
Definition tkind_eqb (a b : tkind) : bool := Nat.eqb (tcode a) (tcode b).

Definition enc_tag (t : tkind) (nm : option nat) : nat :=
  4 * (match nm with None => 0 | Some u => S u end) + tcode t.
Definition tag_kind (r : nat) : tkind := tdecode (r mod 4).
Definition tag_name (r : nat) : option nat := match r / 4 with 0 => None | S u => Some u end.

(* ------------------------------------------------------------------ node kinds *)
(* PSyIR class of the node a MiniFortran statement stands for.  EXIT, CYCLE (and GOTO, PRINT,
   WRITE...) reach the PSyIR as CodeBlock; RETURN is a Return node. *)
Inductive nkind := KAssign | KIf | KLoop | KCodeBlock | KReturn | KRegion (t : tkind) | KDir (d : nat).

Definition nkind_eqb (a b : nkind) : bool :=
  match a, b with
  | KAssign, KAssign | KIf, KIf | KLoop, KLoop | KCodeBlock, KCodeBlock | KReturn, KReturn => true
  | KRegion x, KRegion y => tkind_eqb x y
  | KDir x, KDir y => Nat.eqb x y
  | _, _ => false
  end.

Definition kind_of (s : stmt) : nkind :=
  match s with
  | SAssign _ _ _ => KAssign
  | SIf _ _ _ => KIf
  | SDo _ _ _ _ _ => KLoop
  | SExit | SCycle | SPrint _ => KCodeBlock
  | SReturn => KReturn
  | SRegion r _ => KRegion (tag_kind r)
  | SDir d _ => KDir d
  end.

(* class-level facts of the tree under test (instantiated by Gen.v) *)
Record tables := mkTables {
  x_excl : tkind -> nkind -> bool;     (* isinstance(node, T.excluded_node_types)              *)
  x_loopdir : nat -> bool;             (* isinstance(dir, (OMPDoDirective, ACCLoopDirective))   *)
  x_acc : nat -> bool;                 (* isinstance(dir, ACCDirective)                         *)
  x_par : tkind -> nat -> bool;        (* T.validate: node.ancestor((OMPParallelDirective, ACCParallelDirective)) *)
  x_loopchk : tkind -> bool            (* T.validate has "Loop without its parent Directive"     *)
}.

(* Node.walk: the node itself and all its descendants (Schedules are skipped by the caller) *)
Fixpoint any_stmt (P : stmt -> bool) (s : stmt) : bool :=
  P s ||
  match s with
  | SIf _ th el => existsb (any_stmt P) th || existsb (any_stmt P) el
  | SDo _ _ _ _ b => existsb (any_stmt P) b
  | SRegion _ b => existsb (any_stmt P) b
  | SDir _ b => existsb (any_stmt P) b
  | _ => false
  end.
Definition any_in (P : stmt -> bool) (ss : list stmt) : bool := existsb (any_stmt P) ss.

(* ------------------------------------------------------------------ positions in the tree *)
Inductive anc := ALoop | AIf | ARegion (r : nat) | ADir (d : nat).
Definition step := (nat * bool)%type.    (* (index of the child statement, else-branch?) *)

Definition sub_block (s : stmt) (el : bool) : option (anc * list stmt) :=
  match s with
  | SIf _ th e => Some (AIf, if el then e else th)
  | SDo _ _ _ _ b => if el then None else Some (ALoop, b)
  | SRegion r b => if el then None else Some (ARegion r, b)
  | SDir d b => if el then None else Some (ADir d, b)
  | _ => None
  end.

(* the block (Schedule) reached by [path] and its ancestors, innermost first *)
Fixpoint locate (path : list step) (ss : list stmt) (ancs : list anc) : option (list anc * list stmt) :=
  match path with
  | [] => Some (ancs, ss)
  | (i, el) :: rest =>
      match nth_error ss i with
      | Some s => match sub_block s el with
                  | Some (a, b) => locate rest b (a :: ancs)
                  | None => None
                  end
      | None => None
      end
  end.

Record target := mkTarget { t_path : list step; t_lo : nat; t_len : nat }.

Definition sel_of (lo len : nat) (blk : list stmt) : list stmt := firstn len (skipn lo blk).

Definition selected (p : list stmt) (tg : target) : option (list stmt) :=
  match locate (t_path tg) p [] with
  | Some (_, blk) => Some (sel_of (t_lo tg) (t_len tg) blk)
  | None => None
  end.

(* ------------------------------------------------------------------ options *)
Inductive nameopt := NAuto | NBad | NUser (u : nat).   (* no region_name / malformed / ("m","u") *)
Record opts := mkOpts { o_name : nameopt; o_prefix_ok : bool }.

Definition name_ok (o : opts) : bool := match o_name o with NBad => false | _ => true end.

(* ------------------------------------------------------------------ validate *)
Definition is_loop (s : stmt) : bool := match s with SDo _ _ _ _ _ => true | _ => false end.
Definition anc_is (f : nat -> bool) (a : anc) : bool := match a with ADir d => f d | _ => false end.

(* extra checks of ExtractTrans.validate and ReadOnlyVerifyTrans.validate (NanTestTrans inherits) *)
Definition extra_ok (T : tables) (t : tkind) (ancs : list anc) (sel : list stmt) : bool :=
  negb (x_loopchk T t && existsb is_loop sel && match ancs with ADir _ :: _ => true | _ => false end)
  && negb (existsb (anc_is (x_par T t)) ancs).

Definition accept_with (T : tables) (t : tkind) (p : list stmt) (tg : target) (o : opts) : bool :=
  match locate (t_path tg) p [] with
  | None => false
  | Some (ancs, blk) =>
      let sel := sel_of (t_lo tg) (t_len tg) blk in
      (1 <=? t_len tg) && (t_lo tg + t_len tg <=? length blk)
      && negb (match ancs with a :: _ => anc_is (x_loopdir T) a | [] => false end)
      && negb (existsb (anc_is (x_acc T)) ancs)
      && name_ok o && o_prefix_ok o
      && negb (any_in (fun s => x_excl T t (kind_of s)) sel)
      && extra_ok T t ancs sel
  end.

(* ------------------------------------------------------------------ apply *)
Fixpoint map_nth {A} (i : nat) (f : A -> A) (l : list A) : list A :=
  match l, i with
  | [], _ => []
  | x :: r, O => f x :: r
  | x :: r, S j => x :: map_nth j f r
  end.

Definition in_sub (el : bool) (g : list stmt -> list stmt) (s : stmt) : stmt :=
  match s with
  | SIf c th e => if el then SIf c th (g e) else SIf c (g th) e
  | SDo x lo hi st b => if el then s else SDo x lo hi st (g b)
  | SRegion r b => if el then s else SRegion r (g b)
  | SDir d b => if el then s else SDir d (g b)
  | _ => s
  end.

Fixpoint upd_block (path : list step) (f : list stmt -> list stmt) (ss : list stmt) : list stmt :=
  match path with
  | [] => f ss
  | (i, el) :: rest => map_nth i (in_sub el (upd_block rest f)) ss
  end.

Definition wrap (r lo len : nat) (blk : list stmt) : list stmt :=
  firstn lo blk ++ [SRegion r (sel_of lo len blk)] ++ skipn (lo + len) blk.

Definition apply_at (r : nat) (tg : target) (p : list stmt) : list stmt :=
  upd_block (t_path tg) (wrap r (t_lo tg) (t_len tg)) p.

Definition region_tag (t : tkind) (o : opts) : nat :=
  enc_tag t (match o_name o with NUser u => Some u | _ => None end).

(* PSyDataTrans.apply: validate, then wrap; None = TransformationError *)
Definition apply_with (T : tables) (t : tkind) (p : list stmt) (tg : target) (o : opts) : option (list stmt) :=
  if accept_with T t p tg o then Some (apply_at (region_tag t o) tg p) else None.

(* ------------------------------------------------------------------ the run-time property *)
(* stack discipline on Enter/Leave events: [wb stack tr] = the stack after tr, None on a Leave
   that does not match the innermost open region *)
Fixpoint wb (stack : list nat) (tr : list event) : option (list nat) :=
  match tr with
  | [] => Some stack
  | Enter r :: t => wb (r :: stack) t
  | Leave r :: t => match stack with
                    | r' :: st' => if Nat.eqb r r' then wb st' t else None
                    | [] => None
                    end
  | _ :: t => wb stack t
  end.

Definition wb_ok (tr : list event) : bool := match wb [] tr with Some [] => true | _ => false end.
Definition well_bracketed (tr : list event) : Prop := wb [] tr = Some [].

(* ------------------------------------------------------------------ sufficient condition *)
(* [safe_s inreg direct s]: inreg = inside some region; direct = the nearest enclosing loop-or-
   region is a region.  EXIT/CYCLE leave the nearest enclosing loop: they escape a region iff
   [direct]; RETURN escapes every enclosing region. *)
Fixpoint safe_s (inreg direct : bool) (s : stmt) : bool :=
  match s with
  | SExit | SCycle => negb direct
  | SReturn => negb inreg
  | SIf _ th el => forallb (safe_s inreg direct) th && forallb (safe_s inreg direct) el
  | SDo _ _ _ _ b => forallb (safe_s inreg false) b
  | SRegion _ b => forallb (safe_s true true) b
  | SDir _ b => forallb (safe_s inreg direct) b
  | _ => true
  end.
Definition safe (inreg direct : bool) (ss : list stmt) : bool := forallb (safe_s inreg direct) ss.

(* no EXIT/CYCLE targeting a loop outside a region it is in, and no RETURN inside a region *)
Definition no_escaping_transfer (p : list stmt) : bool := safe false false p.

Definition is_return (s : stmt) : bool := match s with SReturn => true | _ => false end.
Definition is_xc (s : stmt) : bool := match s with SExit | SCycle => true | _ => false end.

(* reason codes for the gap accept /\ ~safe: which kinds of statement escape the NEW region *)
Definition gap_return (sel : list stmt) : bool := any_in is_return sel.
Definition gap_xc (sel : list stmt) : bool := negb (safe false true sel).

(* ------------------------------------------------------------------ region names *)
(* pre-order list of the region tags (Node.walk order: if-body before else-body) *)
Fixpoint regs_of (s : stmt) : list nat :=
  match s with
  | SRegion r b => r :: flat_map regs_of b
  | SIf _ th el => flat_map regs_of th ++ flat_map regs_of el
  | SDo _ _ _ _ b => flat_map regs_of b
  | SDir _ b => flat_map regs_of b
  | _ => []
  end.
Definition regs (p : list stmt) : list nat := flat_map regs_of p.

Inductive rname := RAuto (i : nat) | RUser (u : nat).   (* "r<i>"  |  the user's pair *)

Fixpoint name_from (i : nat) (tags : list nat) : list rname :=
  match tags with
  | [] => []
  | r :: rest => (match tag_name r with None => RAuto i | Some u => RUser u end) :: name_from (S i) rest
  end.

(* names passed to PreStart, in pre-order, after lower_to_language_level *)
Definition region_names (p : list stmt) : list rname := name_from 0 (regs p).

Definition rname_eqb (a b : rname) : bool :=
  match a, b with RAuto x, RAuto y | RUser x, RUser y => Nat.eqb x y | _, _ => false end.

Definition is_auto (n : rname) : bool := match n with RAuto _ => true | _ => false end.

(* ------------------------------------------------------------------ automatic profiling *)
Fixpoint count_s (P : stmt -> bool) (s : stmt) : nat :=
  (if P s then 1 else 0) +
  match s with
  | SIf _ th el => list_sum (map (count_s P) th) + list_sum (map (count_s P) el)
  | SDo _ _ _ _ b => list_sum (map (count_s P) b)
  | SRegion _ b => list_sum (map (count_s P) b)
  | SDir _ b => list_sum (map (count_s P) b)
  | _ => 0
  end.
Definition count_in (P : stmt -> bool) (ss : list stmt) : nat := list_sum (map (count_s P) ss).

Inductive auto_result := AWrapped (q : list stmt) | ASkipped | ARaised.

(* Profiler.add_profile_nodes with the routines/invokes option; r = enc_tag TProfile None.
   `apply(schedule.children[:-1])` on a routine that is just RETURN raises (empty node list). *)
Definition auto_profile (p : list stmt) : auto_result :=
  let r := enc_tag TProfile None in
  match count_in is_return p with
  | 0 => match p with [] => ASkipped | _ => AWrapped [SRegion r p] end
  | 1 => match last p SExit with
         | SReturn => match removelast p with
                      | [] => ARaised
                      | body => AWrapped [SRegion r body; SReturn]
                      end
         | _ => ASkipped
         end
  | _ => ASkipped
  end.

(* ------------------------------------------------------------------ the unchanged tree's tables *)
(* Pinned copy of the class-level facts of the tree as found (used ONLY by the *_refuted
   witnesses, so that they keep compiling when the tree is repaired); the check compares these
   with Gen.v and reports which findings still apply.  Directive codes: 0 OMPParallel, 1 OMPDo,
   2 OMPParallelDo, 3 ACCParallel, 4 ACCLoop, 5 ACCKernels, 6 OMPTarget. *)
Definition asfound_excl (t : tkind) : list nkind :=
  match t with
  | TExtract => [KCodeBlock; KRegion TExtract]
  | _ => [KReturn]
  end.
Definition asfound_tables : tables :=
  mkTables (fun t k => existsb (nkind_eqb k) (asfound_excl t))
           (fun d => match d with 1 | 2 | 4 => true | _ => false end)
           (fun d => match d with 3 | 4 | 5 => true | _ => false end)
           (fun t d => match t with TProfile => false | _ => match d with 0 | 2 | 3 => true | _ => false end end)
           (fun t => match t with TProfile => false | _ => true end).

(* ------------------------------------------------------------------ executable helpers for the harness *)
Fixpoint expr_eqb (a b : expr) {struct a} : bool :=
  let leq := (fix leq (x y : list expr) {struct x} : bool :=
                match x, y with
                | [], [] => true
                | u :: x', v :: y' => expr_eqb u v && leq x' y'
                | _, _ => false
                end) in
  match a, b with
  | ELit x, ELit y => Z.eqb x y
  | EVar x, EVar y => Nat.eqb x y
  | EIdx x ix, EIdx y iy => Nat.eqb x y && leq ix iy
  | EUn o e, EUn o' e' => (match o, o' with Neg, Neg | Not, Not => true | _, _ => false end) && expr_eqb e e'
  | EBin o l r, EBin o' l' r' =>
      (match o, o' with
       | Add, Add | Sub, Sub | Mul, Mul | Div, Div | Pow, Pow | Eq, Eq | Ne, Ne | Lt, Lt | Le, Le
       | Gt, Gt | Ge, Ge | And, And | Or, Or => true | _, _ => false end)
      && expr_eqb l l' && expr_eqb r r'
  | EIntr f xs, EIntr g ys =>
      (match f, g with
       | IMin, IMin | IMax, IMax | IMod, IMod | IAbs, IAbs | ISign, ISign | ILbound, ILbound
       | IUbound, IUbound | ISize, ISize => true | _, _ => false end)
      && leq xs ys
  | _, _ => false
  end.

Fixpoint stmt_eqb (a b : stmt) {struct a} : bool :=
  let leq := (fix leq (x y : list stmt) {struct x} : bool :=
                match x, y with
                | [], [] => true
                | u :: x', v :: y' => stmt_eqb u v && leq x' y'
                | _, _ => false
                end) in
  match a, b with
  | SAssign x ix e, SAssign y iy e' => Nat.eqb x y && list_beq expr_eqb ix iy && expr_eqb e e'
  | SIf c th el, SIf c' th' el' => expr_eqb c c' && leq th th' && leq el el'
  | SDo x lo hi st b, SDo x' lo' hi' st' b' =>
      Nat.eqb x x' && expr_eqb lo lo' && expr_eqb hi hi' && expr_eqb st st' && leq b b'
  | SExit, SExit | SCycle, SCycle | SReturn, SReturn => true
  | SPrint es, SPrint es' => list_beq expr_eqb es es'
  | SRegion r b, SRegion r' b' => Nat.eqb r r' && leq b b'
  | SDir d b, SDir d' b' => Nat.eqb d d' && leq b b'
  | _, _ => false
  end.
Definition stmts_eqb := list_beq stmt_eqb.

(* A structural hash (h' = (65537 * h + x) mod 2^56; cheap under vm_compute, and injective in any
   single position since 65537 is odd), mirrored in props/C28/check.py: lets the harness
   ship the implementation's resulting tree as one number for most cases (a sample is still
   compared node by node with [stmts_eqb]). *)
Definition hmask : Z := 72057594037927935%Z.     (* 2^56 - 1 *)
Definition mix (h x : Z) : Z := Z.land (65537 * h + x)%Z hmask.
Definition binop_code (o : binop) : Z :=
  match o with Add => 1 | Sub => 2 | Mul => 3 | Div => 4 | Pow => 5 | Eq => 6 | Ne => 7 | Lt => 8
             | Le => 9 | Gt => 10 | Ge => 11 | And => 12 | Or => 13 end%Z.
Definition unop_code (o : unop) : Z := match o with Neg => 1 | Not => 2 end%Z.
Definition intr_code (f : intr) : Z :=
  match f with IMin => 1 | IMax => 2 | IMod => 3 | IAbs => 4 | ISign => 5 | ILbound => 6 | IUbound => 7
             | ISize => 8 end%Z.

Fixpoint hash_expr (e : expr) (h : Z) {struct e} : Z :=
  let go := (fix go (l : list expr) (h : Z) {struct l} : Z :=
               match l with [] => mix h 90 | x :: r => go r (hash_expr x h) end) in
  match e with
  | ELit z => mix (mix h 1) z
  | EVar x => mix (mix h 2) (Z.of_nat x)
  | EIdx a ix => go ix (mix (mix h 3) (Z.of_nat a))
  | EUn o e1 => hash_expr e1 (mix (mix h 4) (unop_code o))
  | EBin o l r => hash_expr r (hash_expr l (mix (mix h 5) (binop_code o)))
  | EIntr f args => go args (mix (mix h 6) (intr_code f))
  end.

Fixpoint hash_exprs (l : list expr) (h : Z) : Z :=
  match l with [] => mix h 90 | x :: r => hash_exprs r (hash_expr x h) end.

Fixpoint hash_stmt (s : stmt) (h : Z) {struct s} : Z :=
  let go := (fix go (l : list stmt) (h : Z) {struct l} : Z :=
               match l with [] => mix h 91 | x :: r => go r (hash_stmt x h) end) in
  match s with
  | SAssign x ix e => hash_expr e (hash_exprs ix (mix (mix h 11) (Z.of_nat x)))
  | SIf c th el => go el (go th (hash_expr c (mix h 12)))
  | SDo x lo hi st b => go b (hash_expr st (hash_expr hi (hash_expr lo (mix (mix h 13) (Z.of_nat x)))))
  | SExit => mix h 14
  | SCycle => mix h 15
  | SReturn => mix h 16
  | SPrint es => hash_exprs es (mix h 17)
  | SRegion r b => go b (mix (mix h 18) (Z.of_nat r))
  | SDir d b => go b (mix (mix h 19) (Z.of_nat d))
  end.

Fixpoint hash_stmts (l : list stmt) (h : Z) : Z :=
  match l with [] => mix h 91 | x :: r => hash_stmts r (hash_stmt x h) end.
Definition tree_hash (p : list stmt) : Z := hash_stmts p 7%Z.

(* ------------------------------------------------------------------ PSy-layer region names *)
(* PSyDataTrans.get_unique_region_name (called by LFRicExtractTrans / GOceanExtractTrans.apply):
   region name = invoke name [":" kernel name if the region holds exactly one kernel] ":r" idx,
   idx = how many names with the same (module | name-without-index) key were issued before
   (class-level dict _used_kernel_names).  One PSy module per file, so the module is left out. *)
Definition pkey := (nat * option nat)%type.        (* invoke, Some k = exactly one kernel k *)
Definition pkey_eqb (a b : pkey) : bool :=
  Nat.eqb (fst a) (fst b) && option_beq Nat.eqb (snd a) (snd b).
Definition base_of (inv : nat) (kerns : list nat) : pkey :=
  (inv, match kerns with [k] => Some k | _ => None end).
Definition count_key (k : pkey) (hist : list pkey) : nat := length (filter (pkey_eqb k) hist).

(* names issued for a sequence of requests (invoke, kernels of the region), in application order *)
Fixpoint issue (hist : list pkey) (reqs : list (nat * list nat)) : list (pkey * nat) :=
  match reqs with
  | [] => []
  | (inv, ks) :: r => let b := base_of inv ks in (b, count_key b hist) :: issue (b :: hist) r
  end.

(* PSyDataNode.gen_code (LFRic): a region without a stored name is named at generation time,
   idx = its position among ALL PSyData nodes of the file in pre-order (self.root.walk);
   PSyDataNode.lower_to_language_level (GOcean): module = the invoke routine, "r" idx with idx =
   position among the PSyData regions of that routine. *)
Inductive pscheme := PSUser (u : nat) | PSIssued (k : nat) | PSGen.
Inductive pname :=
| PNUser (u : nat)
| PNInvoke (b : pkey) (i : nat)          (* (psy module, "<invoke>[:<kern>]:r<i>") *)
| PNLocal (inv : nat) (i : nat).         (* ("<invoke>", "r<i>")  -- GOcean lowering *)
Definition pnode := (nat * list nat * pscheme)%type.     (* invoke, kernels inside, naming scheme *)

Definition pname_eqb (a b : pname) : bool :=
  match a, b with
  | PNUser x, PNUser y => Nat.eqb x y
  | PNInvoke k i, PNInvoke k' i' => pkey_eqb k k' && Nat.eqb i i'
  | PNLocal v i, PNLocal v' i' => Nat.eqb v v' && Nat.eqb i i'
  | _, _ => false
  end.

Definition issued_name (issued : list (pkey * nat)) (k : nat) : pname :=
  match nth_error issued k with Some (b, i) => PNInvoke b i | None => PNUser 0 end.

(* LFRic: global pre-order position *)
Fixpoint lfric_names_from (i : nat) (issued : list (pkey * nat)) (nodes : list pnode) : list pname :=
  match nodes with
  | [] => []
  | (inv, ks, s) :: r =>
      (match s with
       | PSUser u => PNUser u
       | PSIssued k => issued_name issued k
       | PSGen => PNInvoke (base_of inv ks) i
       end) :: lfric_names_from (S i) issued r
  end.
Definition lfric_file_names (reqs : list (nat * list nat)) (nodes : list pnode) : list pname :=
  lfric_names_from 0 (issue [] reqs) nodes.

(* GOcean: position among the regions of the same invoke routine *)
Fixpoint gocean_names_from (seen : list nat) (issued : list (pkey * nat)) (nodes : list pnode) : list pname :=
  match nodes with
  | [] => []
  | (inv, ks, s) :: r =>
      (match s with
       | PSUser u => PNUser u
       | PSIssued k => issued_name issued k
       | PSGen => PNLocal inv (length (filter (Nat.eqb inv) seen))
       end) :: gocean_names_from (inv :: seen) issued r
  end.
Definition gocean_file_names (reqs : list (nat * list nat)) (nodes : list pnode) : list pname :=
  gocean_names_from [] (issue [] reqs) nodes.
