(* C28 — proofs about the model (no dependency on the generated tables; see TableProofs.v). *)
From Coq Require Import List ZArith Bool Arith Lia.
Import ListNotations.
From PV Require Import Fort.Syntax Fort.Sem Base.Harness C28.Model.
Close Scope Z_scope.
Open Scope nat_scope.

(* ================================================================== stack discipline *)
Lemma wb_app st t1 t2 :
  wb st (t1 ++ t2) = match wb st t1 with Some st' => wb st' t2 | None => None end.
Proof.
  revert st; induction t1 as [|e t1 IH]; intros st; cbn [app wb]; [reflexivity|].
  destruct e as [l|l|v|r|r]; try apply IH.
  destruct st as [|r' st']; [reflexivity|]. destruct (Nat.eqb r r'); [apply IH|reflexivity].
Qed.

Lemma wb_regions st tr : wb st (regions tr) = wb st tr.
Proof.
  revert st; induction tr as [|e tr IH]; intros st; [reflexivity|].
  destruct e as [l|l|v|r|r]; cbn [regions wb]; try apply IH.
  destruct st as [|r' st']; [reflexivity|]. destruct (Nat.eqb r r'); [apply IH|reflexivity].
Qed.

(* a trace that leaves every stack as it found it *)
Definition bal (tr : list event) : Prop := forall st, wb st tr = Some st.

Lemma bal_nil : bal [].
Proof. intro st; reflexivity. Qed.

Lemma bal_app t1 t2 : bal t1 -> bal t2 -> bal (t1 ++ t2).
Proof. intros H1 H2 st. rewrite wb_app, H1. apply H2. Qed.

Lemma bal_region r t : bal t -> bal (Enter r :: t ++ [Leave r]).
Proof. intros H st. cbn [wb]. rewrite wb_app, H. cbn [wb]. rewrite Nat.eqb_refl. reflexivity. Qed.

Lemma bal_rds l : bal (rds l).
Proof. induction l as [|x l IH]; intro st; [reflexivity|]. cbn. apply IH. Qed.

Lemma bal_wr l : bal [Wr l].
Proof. intro st; reflexivity. Qed.

Lemma bal_out v : bal [Out v].
Proof. intro st; reflexivity. Qed.

Lemma bal_cons_wr l t : bal t -> bal (Wr l :: t).
Proof. intros H st. cbn [wb]. apply H. Qed.

Lemma bal_well_bracketed tr : bal tr -> well_bracketed (regions tr).
Proof. intro H. unfold well_bracketed. rewrite wb_regions. apply H. Qed.

Lemma wb_ok_iff tr : wb_ok tr = true <-> well_bracketed tr.
Proof.
  unfold wb_ok, well_bracketed. destruct (wb [] tr) as [[|x l]|]; split; intro H; try reflexivity; try discriminate.
Qed.

(* ================================================================== one step of exec *)
Definition exec1 (f : nat) (st : stmt) (s : store) : outcome :=
  match st with
  | SAssign x ix e =>
      match opt_all (map (eval s) ix), eval s e with
      | Some vs, Some v =>
          Ok (upd s (x, vs) v) (rds (ereads s e ++ flat_map (ereads s) ix) ++ [Wr (x, vs)]) CNormal
      | _, _ => Fault
      end
  | SIf c th el =>
      match eval s c with
      | Some v => prepend (rds (ereads s c)) (exec f (if (v =? 0)%Z then el else th) s)
      | None => Fault
      end
  | SDo x lo hi st body =>
      match eval s lo, eval s hi, eval s st with
      | Some l, Some h, Some t =>
          if (t =? 0)%Z then Fault
          else prepend (rds (ereads s lo ++ ereads s hi ++ ereads s st))
                       (do_loop (exec f body) x l t (trip_count l h t) 0%Z s)
      | _, _, _ => Fault
      end
  | SExit => Ok s [] CExit
  | SCycle => Ok s [] CCycle
  | SReturn => Ok s [] CReturn
  | SPrint es =>
      match opt_all (map (eval s) es) with
      | Some vs => Ok s (rds (flat_map (ereads s) es) ++ [Out vs]) CNormal
      | None => Fault
      end
  | SRegion r body =>
      match exec f body s with
      | Ok s1 tr c => Ok s1 (Enter r :: tr ++ (match c with CNormal => [Leave r] | _ => [] end)) c
      | other => other
      end
  | SDir _ body => exec f body s
  end.

Lemma exec_S_cons0 f st rest s :
  exec (S f) (st :: rest) s =
  let r1 := exec1 f st s in
  match r1 with
  | Ok s1 tr1 CNormal => prepend tr1 (exec f rest s1)
  | other => other
  end.
Proof. reflexivity. Qed.

Lemma exec_S_cons f st rest s :
  exec (S f) (st :: rest) s =
  match exec1 f st s with
  | Ok s1 tr1 c1 => match c1 with CNormal => prepend tr1 (exec f rest s1) | _ => Ok s1 tr1 c1 end
  | Fault => Fault
  | OutOfFuel => OutOfFuel
  end.
Proof. rewrite exec_S_cons0. cbv zeta. destruct (exec1 f st s) as [s1 tr1 c1| |]; [destruct c1|..]; reflexivity. Qed.

(* ================================================================== safe programs are balanced *)
Definition ctl_ok (ir d : bool) (c : ctl) : Prop :=
  match c with
  | CNormal => True
  | CExit | CCycle => d = false
  | CReturn => ir = false
  end.

Lemma do_loop_safe (run : store -> outcome) (ir : bool) x l t :
  (forall s s' tr c, run s = Ok s' tr c -> bal tr /\ ctl_ok ir false c) ->
  forall n k s s' tr c, do_loop run x l t n k s = Ok s' tr c ->
    bal tr /\ (c = CNormal \/ (c = CReturn /\ ir = false)).
Proof.
  intros Hrun n. induction n as [|n IH]; intros k s s' tr c H; cbn [do_loop] in H.
  - inversion H; subst. split; [apply bal_wr | left; reflexivity].
  - destruct (run (upd s (x, []) (l + k * t)%Z)) as [s2 tr2 c2| |] eqn:E; try discriminate.
    apply Hrun in E as [Hb Hc].
    destruct c2.
    + destruct (do_loop run x l t n (k + 1)%Z s2) as [s3 tr3 c3| |] eqn:E2; cbn [prepend] in H; try discriminate.
      inversion H; subst. apply IH in E2 as [Hb2 Hc2]. split; [|exact Hc2].
      apply (bal_app (Wr (x, []) :: tr2) tr3); [apply bal_cons_wr, Hb | exact Hb2].
    + inversion H; subst. split; [apply bal_cons_wr, Hb | left; reflexivity].
    + destruct (do_loop run x l t n (k + 1)%Z s2) as [s3 tr3 c3| |] eqn:E2; cbn [prepend] in H; try discriminate.
      inversion H; subst. apply IH in E2 as [Hb2 Hc2]. split; [|exact Hc2].
      apply (bal_app (Wr (x, []) :: tr2) tr3); [apply bal_cons_wr, Hb | exact Hb2].
    + inversion H; subst. split; [apply bal_cons_wr, Hb | right; split; [reflexivity | exact Hc]].
Qed.

Lemma exec1_safe f
  (IH : forall ss s ir d s' tr c, safe ir d ss = true -> exec f ss s = Ok s' tr c -> bal tr /\ ctl_ok ir d c) :
  forall st s ir d s' tr c, safe_s ir d st = true -> exec1 f st s = Ok s' tr c -> bal tr /\ ctl_ok ir d c.
Proof.
  intros st s ir d s' tr c Hs He.
  destruct st as [x ix e | c0 th el | x lo hi stp body | | | | es | r body | dd body];
    cbn [exec1] in He; cbn [safe_s] in Hs.
  - destruct (opt_all (map (eval s) ix)) as [vs|]; [|discriminate].
    destruct (eval s e) as [v|]; [|discriminate]. inversion He; subst.
    split; [|exact I]. apply bal_app; [apply bal_rds | apply bal_wr].
  - destruct (eval s c0) as [v|]; [|discriminate].
    apply andb_true_iff in Hs as [H1 H2].
    destruct (exec f (if (v =? 0)%Z then el else th) s) as [s2 tr2 c2| |] eqn:E; cbn [prepend] in He; try discriminate.
    inversion He; subst.
    apply IH with (ir := ir) (d := d) in E; [|destruct (v =? 0)%Z; assumption].
    destruct E as [Hb Hc]. split; [apply bal_app; [apply bal_rds | exact Hb] | exact Hc].
  - destruct (eval s lo) as [l|]; [|discriminate]. destruct (eval s hi) as [h|]; [|discriminate].
    destruct (eval s stp) as [t|]; [|discriminate]. destruct (t =? 0)%Z; [discriminate|].
    destruct (do_loop (exec f body) x l t (trip_count l h t) 0%Z s) as [s2 tr2 c2| |] eqn:E;
      cbn [prepend] in He; try discriminate.
    inversion He; subst.
    apply do_loop_safe with (ir := ir) in E.
    + destruct E as [Hb Hc]. split; [apply bal_app; [apply bal_rds | exact Hb]|].
      destruct Hc as [-> | [-> Hir]]; [exact I | exact Hir].
    + intros s0 s0' tr0 c0 H0. eapply IH; [exact Hs | exact H0].
  - inversion He; subst. split; [apply bal_nil|]. cbn. destruct d; [discriminate | reflexivity].
  - inversion He; subst. split; [apply bal_nil|]. cbn. destruct d; [discriminate | reflexivity].
  - inversion He; subst. split; [apply bal_nil|]. cbn. destruct ir; [discriminate | reflexivity].
  - destruct (opt_all (map (eval s) es)) as [vs|]; [|discriminate]. inversion He; subst.
    split; [|exact I]. apply bal_app; [apply bal_rds | apply bal_out].
  - destruct (exec f body s) as [s2 tr2 c2| |] eqn:E; try discriminate.
    apply IH with (ir := true) (d := true) in E; [|exact Hs]. destruct E as [Hb Hc].
    destruct c2; cbn in Hc; try discriminate. inversion He; subst.
    split; [apply bal_region, Hb | exact I].
  - eapply IH; [exact Hs | exact He].
Qed.

Lemma exec_safe : forall f ss s ir d s' tr c,
  safe ir d ss = true -> exec f ss s = Ok s' tr c -> bal tr /\ ctl_ok ir d c.
Proof.
  induction f as [|f IH]; intros ss s ir d s' tr c Hs He; [discriminate|].
  destruct ss as [|st rest].
  - cbn in He. inversion He; subst. split; [apply bal_nil | exact I].
  - rewrite exec_S_cons in He. cbn [safe forallb] in Hs. apply andb_true_iff in Hs as [H1 H2].
    destruct (exec1 f st s) as [s1 tr1 c1| |] eqn:E1; try discriminate.
    destruct (exec1_safe f IH _ _ _ _ _ _ _ H1 E1) as [Hb1 Hc1].
    destruct c1; try (inversion He; subst; split; assumption).
    destruct (exec f rest s1) as [s2 tr2 c2| |] eqn:E2; cbn [prepend] in He; try discriminate.
    inversion He; subst. apply IH with (ir := ir) (d := d) in E2; [|exact H2].
    destruct E2 as [Hb2 Hc2]. split; [apply bal_app; assumption | exact Hc2].
Qed.

(* THE partial theorem: no escaping transfer => every execution (any store, any fuel) that
   terminates normally or by RETURN/EXIT/CYCLE at routine level has a well-bracketed trace. *)
Theorem balanced_partial_ : forall fuel p st st' tr c,
  no_escaping_transfer p = true -> exec fuel p st = Ok st' tr c -> well_bracketed (regions tr).
Proof.
  intros fuel p st st' tr c Hs He. apply bal_well_bracketed.
  exact (proj1 (exec_safe fuel p st false false st' tr c Hs He)).
Qed.

(* ================================================================== apply preserves safety *)
Lemma forallb_firstn {A} (P : A -> bool) n : forall l, forallb P l = true -> forallb P (firstn n l) = true.
Proof.
  induction n as [|n IH]; intros [|x l] H; try reflexivity. cbn in *.
  apply andb_true_iff in H as [H1 H2]. rewrite H1. cbn. apply IH, H2.
Qed.

Lemma forallb_skipn {A} (P : A -> bool) n : forall l, forallb P l = true -> forallb P (skipn n l) = true.
Proof.
  induction n as [|n IH]; intros [|x l] H; try reflexivity; try exact H. cbn in *.
  apply andb_true_iff in H as [H1 H2]. apply IH, H2.
Qed.

Lemma wrap_safe r lo len blk ir d :
  safe true true (sel_of lo len blk) = true -> safe ir d blk = true -> safe ir d (wrap r lo len blk) = true.
Proof.
  intros Hsel Hb. unfold wrap, safe. rewrite !forallb_app. cbn [forallb safe_s].
  unfold safe in Hsel. rewrite Hsel.
  rewrite (forallb_firstn _ lo blk Hb), (forallb_skipn _ (lo + len) blk Hb). reflexivity.
Qed.

Lemma map_nth_forallb {A} (P : A -> bool) (g : A -> A) : forall l i,
  forallb P l = true -> (forall x, nth_error l i = Some x -> P x = true -> P (g x) = true) ->
  forallb P (map_nth i g l) = true.
Proof.
  induction l as [|x l IH]; intros i H Hg; [destruct i; reflexivity|].
  cbn in H. apply andb_true_iff in H as [H1 H2].
  destruct i as [|j]; cbn [map_nth forallb].
  - rewrite (Hg x eq_refl H1), H2. reflexivity.
  - rewrite H1. cbn. apply IH; [exact H2|]. intros y Hy. apply Hg. exact Hy.
Qed.

Lemma upd_block_safe : forall path p ancs ancs' blk f ir d,
  locate path p ancs = Some (ancs', blk) ->
  (forall ir' d', safe ir' d' blk = true -> safe ir' d' (f blk) = true) ->
  safe ir d p = true -> safe ir d (upd_block path f p) = true.
Proof.
  induction path as [|[i el] rest IH]; intros p ancs ancs' blk f ir d Hl Hf Hs.
  - cbn in Hl. inversion Hl; subst. cbn. apply Hf, Hs.
  - cbn [locate] in Hl. cbn [upd_block]. unfold safe. apply map_nth_forallb; [exact Hs|].
    intros s Hn Hss. rewrite Hn in Hl.
    destruct s as [x ix e | c0 th e0 | x lo hi stp body | | | | es | r body | dd body];
      cbn [sub_block] in Hl; try discriminate; cbn [in_sub].
    + destruct el; cbn [safe_s] in *; apply andb_true_iff in Hss as [Ha Hb].
      * rewrite Ha. cbn. exact (IH _ _ _ _ _ _ _ Hl Hf Hb).
      * rewrite Hb, andb_true_r. exact (IH _ _ _ _ _ _ _ Hl Hf Ha).
    + destruct el; [discriminate|]. cbn [safe_s] in *. exact (IH _ _ _ _ _ _ _ Hl Hf Hss).
    + destruct el; [discriminate|]. cbn [safe_s] in *. exact (IH _ _ _ _ _ _ _ Hl Hf Hss).
    + destruct el; [discriminate|]. cbn [safe_s] in *. exact (IH _ _ _ _ _ _ _ Hl Hf Hss).
Qed.

Theorem apply_safe_ : forall r tg p sel ir d,
  selected p tg = Some sel -> safe true true sel = true ->
  safe ir d p = true -> safe ir d (apply_at r tg p) = true.
Proof.
  intros r tg p sel ir d Hsel Hss Hp. unfold selected in Hsel. unfold apply_at.
  destruct (locate (t_path tg) p []) as [[ancs blk]|] eqn:El; [|discriminate].
  inversion Hsel; subst. eapply upd_block_safe; [exact El | | exact Hp].
  intros ir' d' Hb. apply wrap_safe; assumption.
Qed.

(* ================================================================== what the exclusion walk gives *)
Lemma existsb_false_forall {A} (f g : A -> bool) l :
  Forall (fun x => f x = false -> g x = false) l -> existsb f l = false -> existsb g l = false.
Proof.
  induction 1 as [|x l Hx _ IH]; intro H; [reflexivity|]. cbn in *.
  apply orb_false_iff in H as [H1 H2]. rewrite (Hx H1), (IH H2). reflexivity.
Qed.

Lemma any_stmt_mono (P Q : stmt -> bool) :
  (forall s, Q s = true -> P s = true) -> forall s, any_stmt P s = false -> any_stmt Q s = false.
Proof.
  intros HPQ. induction s using stmt_ind'; cbn [any_stmt]; intro Hany;
    apply orb_false_iff in Hany as [Hh Ht]; apply orb_false_iff;
    (split; [match goal with |- Q ?s = false => destruct (Q s) eqn:EQ; [apply HPQ in EQ; congruence | reflexivity] end|]);
    try reflexivity.
  - apply orb_false_iff in Ht as [Ht1 Ht2]. apply orb_false_iff. split; eapply existsb_false_forall; eauto.
  - eapply existsb_false_forall; eauto.
  - eapply existsb_false_forall; eauto.
  - eapply existsb_false_forall; eauto.
Qed.

Lemma any_in_mono (P Q : stmt -> bool) ss :
  (forall s, Q s = true -> P s = true) -> any_in P ss = false -> any_in Q ss = false.
Proof.
  intros HPQ. unfold any_in. apply existsb_false_forall. apply Forall_forall. intros s _.
  apply any_stmt_mono, HPQ.
Qed.

Definition is_xfer (s : stmt) : bool := is_return s || is_xc s.

Lemma forallb_from_existsb {A} (f : A -> bool) (g : A -> bool) l :
  Forall (fun x => f x = false -> g x = true) l -> existsb f l = false -> forallb g l = true.
Proof.
  induction 1 as [|x l Hx _ IH]; intro H; [reflexivity|]. cbn in *.
  apply orb_false_iff in H as [H1 H2]. rewrite (Hx H1), (IH H2). reflexivity.
Qed.

Lemma noxfer_safe_s : forall s, any_stmt is_xfer s = false -> forall ir d, safe_s ir d s = true.
Proof.
  induction s using stmt_ind'; cbn [any_stmt]; intros Hany ir0 d0;
    apply orb_false_iff in Hany as [Hh Ht]; cbn [safe_s]; try reflexivity; try discriminate.
  - apply orb_false_iff in Ht as [Ht1 Ht2]. apply andb_true_iff. split.
    + eapply forallb_from_existsb; [|exact Ht1]. eapply Forall_impl; [|exact H]. cbn. auto.
    + eapply forallb_from_existsb; [|exact Ht2]. eapply Forall_impl; [|exact H0]. cbn. auto.
  - eapply forallb_from_existsb; [|exact Ht]. eapply Forall_impl; [|exact H]. cbn. auto.
  - eapply forallb_from_existsb; [|exact Ht]. eapply Forall_impl; [|exact H]. cbn. auto.
  - eapply forallb_from_existsb; [|exact Ht]. eapply Forall_impl; [|exact H]. cbn. auto.
Qed.

Lemma noxfer_safe ss : any_in is_xfer ss = false -> forall ir d, safe ir d ss = true.
Proof.
  intros H ir d. unfold safe. eapply forallb_from_existsb; [|exact H].
  apply Forall_forall. intros s _ Hs. apply noxfer_safe_s, Hs.
Qed.

Lemma forallb_forall2 {A} (f g : A -> bool) l :
  Forall (fun x => f x = true -> g x = true) l -> forallb f l = true -> forallb g l = true.
Proof.
  induction 1 as [|x l Hx _ IH]; intro H; [reflexivity|]. cbn in *.
  apply andb_true_iff in H as [H1 H2]. rewrite (Hx H1), (IH H2). reflexivity.
Qed.

(* without RETURN, being inside a region changes nothing *)
Lemma noret_safe_s : forall s, any_stmt is_return s = false ->
  forall ir d, safe_s ir d s = true -> safe_s true d s = true.
Proof.
  induction s using stmt_ind'; cbn [any_stmt]; intros Hany ir0 d0 Hs;
    apply orb_false_iff in Hany as [Hh Ht]; cbn [safe_s] in *; try reflexivity; try discriminate; try exact Hs.
  - apply orb_false_iff in Ht as [Ht1 Ht2]. apply andb_true_iff in Hs as [Hs1 Hs2]. apply andb_true_iff. split.
    + revert Hs1. apply forallb_forall2. rewrite Forall_forall in *. intros s Hin. apply H; [exact Hin|].
      destruct (any_stmt is_return s) eqn:E; [|reflexivity].
      assert (existsb (any_stmt is_return) th = true) by (apply existsb_exists; exists s; auto). congruence.
    + revert Hs2. apply forallb_forall2. rewrite Forall_forall in *. intros s Hin. apply H0; [exact Hin|].
      destruct (any_stmt is_return s) eqn:E; [|reflexivity].
      assert (existsb (any_stmt is_return) el = true) by (apply existsb_exists; exists s; auto). congruence.
  - revert Hs. apply forallb_forall2. rewrite Forall_forall in *. intros s Hin. apply H; [exact Hin|].
    destruct (any_stmt is_return s) eqn:E; [|reflexivity].
    assert (existsb (any_stmt is_return) body = true) by (apply existsb_exists; exists s; auto). congruence.
  - revert Hs. apply forallb_forall2. rewrite Forall_forall in *. intros s Hin. apply H; [exact Hin|].
    destruct (any_stmt is_return s) eqn:E; [|reflexivity].
    assert (existsb (any_stmt is_return) body = true) by (apply existsb_exists; exists s; auto). congruence.
Qed.

Lemma noret_safe ss ir d : any_in is_return ss = false -> safe ir d ss = true -> safe true d ss = true.
Proof.
  intros Hn. unfold safe. apply forallb_forall2. apply Forall_forall. intros s Hin. apply noret_safe_s.
  destruct (any_stmt is_return s) eqn:E; [|reflexivity].
  assert (any_in is_return ss = true) by (apply existsb_exists; exists s; auto). congruence.
Qed.

(* no RETURN in the selection and no EXIT/CYCLE directly in it => the new region is safe *)
Lemma nogap_safe sel : gap_return sel = false -> gap_xc sel = false -> safe true true sel = true.
Proof.
  unfold gap_return, gap_xc. intros Hr Hx. apply negb_false_iff in Hx. eapply noret_safe; eassumption.
Qed.

Theorem apply_safe_nogap_ : forall r tg p sel ir d,
  selected p tg = Some sel -> gap_return sel = false -> gap_xc sel = false ->
  safe ir d p = true -> safe ir d (apply_at r tg p) = true.
Proof. intros. eapply apply_safe_; eauto using nogap_safe. Qed.

(* what accept gives for an excluded kind *)
Lemma accept_sel T t p tg o :
  accept_with T t p tg o = true ->
  exists ancs blk, locate (t_path tg) p [] = Some (ancs, blk) /\
    selected p tg = Some (sel_of (t_lo tg) (t_len tg) blk) /\
    any_in (fun s => x_excl T t (kind_of s)) (sel_of (t_lo tg) (t_len tg) blk) = false /\
    (match ancs with a :: _ => anc_is (x_loopdir T) a | [] => false end) = false /\
    existsb (anc_is (x_acc T)) ancs = false /\
    1 <= t_len tg /\ t_lo tg + t_len tg <= length blk.
Proof.
  unfold accept_with, selected. destruct (locate (t_path tg) p []) as [[ancs blk]|]; [|discriminate].
  intro H. repeat (apply andb_true_iff in H; destruct H as [H ?]).
  exists ancs, blk. repeat split; try reflexivity.
  - apply negb_true_iff. assumption.
  - apply negb_true_iff. assumption.
  - apply negb_true_iff. assumption.
  - apply Nat.leb_le. assumption.
  - apply Nat.leb_le. assumption.
Qed.

Theorem accept_excludes_return_ : forall T t p tg o sel,
  x_excl T t KReturn = true -> accept_with T t p tg o = true -> selected p tg = Some sel ->
  gap_return sel = false.
Proof.
  intros T t p tg o sel Hx Ha Hs. destruct (accept_sel _ _ _ _ _ Ha) as (ancs & blk & _ & Hs' & Hany & _).
  rewrite Hs in Hs'. inversion Hs'; subst. unfold gap_return. revert Hany. apply any_in_mono.
  intros s Hr. destruct s; try discriminate. exact Hx.
Qed.


(* a block without EXIT/CYCLE anywhere and without RETURN inside its regions *)
Lemma noxc_gap : forall sel, any_in is_xc sel = false -> safe false false sel = true -> gap_xc sel = false.
Proof.
  intros sel Hx Hs. unfold gap_xc. apply negb_false_iff. revert Hs. unfold safe.
  assert (G : forall s, any_stmt is_xc s = false -> forall ir d d', safe_s ir d s = true -> safe_s ir d' s = true).
  { induction s using stmt_ind'; cbn [any_stmt]; intros Hany ir0 d0 d0' Hs;
      apply orb_false_iff in Hany as [Hh Ht]; cbn [safe_s] in *; try reflexivity; try discriminate; try exact Hs.
    apply orb_false_iff in Ht as [Ht1 Ht2]. apply andb_true_iff in Hs as [Hs1 Hs2]. apply andb_true_iff. split.
    - revert Hs1. apply forallb_forall2. rewrite Forall_forall in *. intros s Hin. apply H; [exact Hin|].
      destruct (any_stmt is_xc s) eqn:E; [|reflexivity].
      assert (existsb (any_stmt is_xc) th = true) by (apply existsb_exists; exists s; auto). congruence.
    - revert Hs2. apply forallb_forall2. rewrite Forall_forall in *. intros s Hin. apply H0; [exact Hin|].
      destruct (any_stmt is_xc s) eqn:E; [|reflexivity].
      assert (existsb (any_stmt is_xc) el = true) by (apply existsb_exists; exists s; auto). congruence.
    - revert Hs. apply forallb_forall2. rewrite Forall_forall in *. intros s Hin. apply H; [exact Hin|].
      destruct (any_stmt is_xc s) eqn:E; [|reflexivity].
      assert (existsb (any_stmt is_xc) body = true) by (apply existsb_exists; exists s; auto). congruence. }
  apply forallb_forall2. apply Forall_forall. intros s Hin. apply G.
  destruct (any_stmt is_xc s) eqn:E; [|reflexivity].
  assert (any_in is_xc sel = true) by (apply existsb_exists; exists s; auto). congruence.
Qed.

Theorem accept_excludes_xc_ : forall T t p tg o sel,
  x_excl T t KCodeBlock = true -> accept_with T t p tg o = true -> selected p tg = Some sel ->
  any_in is_xc sel = false.
Proof.
  intros T t p tg o sel Hx Ha Hs. destruct (accept_sel _ _ _ _ _ Ha) as (ancs & blk & _ & Hs' & Hany & _).
  rewrite Hs in Hs'. inversion Hs'; subst. revert Hany. apply any_in_mono.
  intros s Hr. destruct s; try discriminate; exact Hx.
Qed.

(* sub-blocks of a safe program are safe for some flags; needed to use accept_excludes_xc *)
Lemma locate_safe : forall path p ancs ancs' blk ir d,
  locate path p ancs = Some (ancs', blk) -> safe ir d p = true -> exists ir' d', safe ir' d' blk = true.
Proof.
  induction path as [|[i el] rest IH]; intros p ancs ancs' blk ir d Hl Hs.
  - cbn in Hl. inversion Hl; subst. eauto.
  - cbn [locate] in Hl. destruct (nth_error p i) as [s|] eqn:En; [|discriminate].
    assert (Hss : safe_s ir d s = true).
    { unfold safe in Hs. rewrite forallb_forall in Hs. apply Hs. eapply nth_error_In; eauto. }
    destruct s as [x ix e | c0 th e0 | x lo hi stp body | | | | es | r body | dd body];
      cbn [sub_block] in Hl; try discriminate; cbn [safe_s] in Hss.
    + apply andb_true_iff in Hss as [Ha Hb]. destruct el; eapply IH; eauto.
    + destruct el; [discriminate|]. eapply IH; eauto.
    + destruct el; [discriminate|]. eapply IH; eauto.
    + destruct el; [discriminate|]. eapply IH; eauto.
Qed.

(* weakening the flags *)
Lemma safe_s_weaken : forall s ir d, safe_s ir d s = true -> safe_s false false s = true.
Proof.
  induction s using stmt_ind'; intros ir0 d0 Hs; cbn [safe_s] in *; try reflexivity; try exact Hs.
  - apply andb_true_iff in Hs as [Hs1 Hs2]. apply andb_true_iff. split.
    + revert Hs1. apply forallb_forall2. eapply Forall_impl; [|exact H]. cbn. eauto.
    + revert Hs2. apply forallb_forall2. eapply Forall_impl; [|exact H0]. cbn. eauto.
  - revert Hs. apply forallb_forall2. eapply Forall_impl; [|exact H]. cbn. eauto.
  - revert Hs. apply forallb_forall2. eapply Forall_impl; [|exact H]. cbn. eauto.
Qed.

Lemma safe_weaken ss ir d : safe ir d ss = true -> safe false false ss = true.
Proof.
  unfold safe. apply forallb_forall2. apply Forall_forall. intros s _. apply safe_s_weaken.
Qed.

(* If both Return and CodeBlock are excluded, accept implies the sufficient condition. *)
Theorem accept_implies_safe_ : forall T t p tg o r ir d,
  x_excl T t KReturn = true -> x_excl T t KCodeBlock = true ->
  accept_with T t p tg o = true -> safe ir d p = true -> safe ir d (apply_at r tg p) = true.
Proof.
  intros T t p tg o r ir d Hr Hc Ha Hs.
  destruct (accept_sel _ _ _ _ _ Ha) as (ancs & blk & Hl & Hsel & _).
  eapply apply_safe_nogap_; [exact Hsel | | | exact Hs].
  - eapply accept_excludes_return_; eauto.
  - apply noxc_gap; [eapply accept_excludes_xc_; eauto|].
    destruct (locate_safe _ _ _ _ _ _ _ Hl Hs) as (ir' & d' & Hb).
    apply safe_weaken with (ir := ir') (d := d'). unfold safe, sel_of in *.
    apply forallb_firstn, forallb_skipn, Hb.
Qed.

(* a region is never accepted directly between a loop directive and its loop, nor under an
   OpenACC directive *)
Theorem accept_not_between_ : forall T t p tg o,
  accept_with T t p tg o = true ->
  exists ancs blk, locate (t_path tg) p [] = Some (ancs, blk) /\
    (forall d rest, ancs = ADir d :: rest -> x_loopdir T d = false) /\
    (forall d, In (ADir d) ancs -> x_acc T d = false).
Proof.
  intros T t p tg o Ha. destruct (accept_sel _ _ _ _ _ Ha) as (ancs & blk & Hl & _ & _ & Hb & Hacc & _).
  exists ancs, blk. split; [exact Hl|]. split.
  - intros d rest ->. exact Hb.
  - intros d Hin. destruct (x_acc T d) eqn:E; [|reflexivity].
    assert (existsb (anc_is (x_acc T)) ancs = true) by (apply existsb_exists; exists (ADir d); auto). congruence.
Qed.

(* ================================================================== refutations (tree as found) *)
(*   do i = 1, 3 ; [region:  a(i) = i ; if (a(i) > 1) exit ] ; end do     (x0 = i, x1 = a)      *)
Definition wit_body (x : stmt) : list stmt :=
  [SAssign 1 [EVar 0] (EVar 0); SIf (EBin Gt (EIdx 1 [EVar 0]) (ELit 1%Z)) [x] []].
Definition wit_loop (x : stmt) : list stmt := [SDo 0 (ELit 1%Z) (ELit 3%Z) (ELit 1%Z) (wit_body x)].
Definition wit_tgt : target := mkTarget [(0, false)] 0 2.
Definition wit_opts : opts := mkOpts NAuto true.
Definition wit_store : store := store_of [] [(1, [(1%Z, 3%Z)])].

Lemma refuted_xc (t : tkind) (x : stmt) :
  t <> TExtract -> x = SExit \/ x = SCycle ->
  accept_with asfound_tables t (wit_loop x) wit_tgt wit_opts = true /\
  no_escaping_transfer (wit_loop x) = true /\
  exists s' tr c,
    exec 20 (apply_at (region_tag t wit_opts) wit_tgt (wit_loop x)) wit_store = Ok s' tr c /\
    ~ well_bracketed (regions tr).
Proof.
  intros Ht Hx. split; [|split].
  - destruct t; try congruence; destruct Hx as [-> | ->]; vm_compute; reflexivity.
  - destruct Hx as [-> | ->]; vm_compute; reflexivity.
  - destruct t; try congruence; destruct Hx as [-> | ->];
      (eexists; eexists; eexists; split; [vm_compute; reflexivity | vm_compute; discriminate]).
Qed.

(*   a(1) = 2 ; [region:  if (a(1) > 1) return ] ; a(2) = 3          accepted by ExtractTrans   *)
Definition witr_prog : list stmt :=
  [SAssign 1 [ELit 1%Z] (ELit 2%Z); SIf (EBin Gt (EIdx 1 [ELit 1%Z]) (ELit 1%Z)) [SReturn] [];
   SAssign 1 [ELit 2%Z] (ELit 3%Z)].
Definition witr_tgt : target := mkTarget [] 1 1.

Lemma refuted_return_extract :
  accept_with asfound_tables TExtract witr_prog witr_tgt wit_opts = true /\
  no_escaping_transfer witr_prog = true /\
  exists s' tr c,
    exec 20 (apply_at (region_tag TExtract wit_opts) witr_tgt witr_prog) wit_store = Ok s' tr c /\
    ~ well_bracketed (regions tr).
Proof.
  split; [vm_compute; reflexivity | split; [vm_compute; reflexivity|]].
  eexists; eexists; eexists; split; [vm_compute; reflexivity | vm_compute; discriminate].
Qed.

(* non-vacuity of the positive theorems: a placement that is accepted, safe and really runs *)
Definition ok_prog : list stmt :=
  [SDo 0 (ELit 1%Z) (ELit 3%Z) (ELit 1%Z)
     [SAssign 1 [EVar 0] (EVar 0);
      SDo 2 (ELit 1%Z) (ELit 2%Z) (ELit 1%Z) [SIf (EBin Gt (EVar 2) (ELit 1%Z)) [SExit] []];
      SIf (EBin Gt (EIdx 1 [EVar 0]) (ELit 1%Z)) [SExit] []]].
Definition ok_tgt : target := mkTarget [(0, false)] 0 2.     (* a(i)=i and the inner loop *)

Lemma nonvacuous_ok :
  accept_with asfound_tables TProfile ok_prog ok_tgt wit_opts = true /\
  no_escaping_transfer ok_prog = true /\
  (exists sel, selected ok_prog ok_tgt = Some sel /\ gap_return sel = false /\ gap_xc sel = false) /\
  exists s' tr c,
    exec 30 (apply_at (region_tag TProfile wit_opts) ok_tgt ok_prog) wit_store = Ok s' tr c /\
    regions tr = [Enter 0; Leave 0; Enter 0; Leave 0].
Proof.
  split; [vm_compute; reflexivity | split; [vm_compute; reflexivity | split]].
  - eexists; split; [vm_compute; reflexivity | split; vm_compute; reflexivity].
  - eexists; eexists; eexists; split; vm_compute; reflexivity.
Qed.

(* ================================================================== region names *)
Lemma tcode_lt t : tcode t < 4.
Proof. destruct t; cbn; lia. Qed.

Lemma tag_name_enc t nm : tag_name (enc_tag t nm) = nm.
Proof.
  unfold tag_name, enc_tag. pose proof (tcode_lt t) as Hc.
  set (k := match nm with None => 0 | Some u => S u end).
  assert (E : (4 * k + tcode t) / 4 = k) by (symmetry; apply Nat.div_unique with (tcode t); lia).
  rewrite E. destruct nm; reflexivity.
Qed.

Lemma tag_kind_enc t nm : tag_kind (enc_tag t nm) = t.
Proof.
  unfold tag_kind, enc_tag. pose proof (tcode_lt t) as Hc.
  set (k := match nm with None => 0 | Some u => S u end).
  assert (E : (4 * k + tcode t) mod 4 = tcode t) by (symmetry; apply Nat.mod_unique with k; lia).
  rewrite E. destruct t; reflexivity.
Qed.

Lemma name_from_auto_ge : forall tags i n, In (RAuto n) (name_from i tags) -> i <= n.
Proof.
  induction tags as [|r tags IH]; intros i n H; [destruct H|]. cbn [name_from] in H. destruct H as [H|H].
  - destruct (tag_name r); inversion H; subst. lia.
  - apply IH in H. lia.
Qed.

Lemma names_unique_from : forall tags i, NoDup (filter is_auto (name_from i tags)).
Proof.
  induction tags as [|r tags IH]; intros i; [constructor|]. cbn [name_from filter].
  destruct (tag_name r) as [u|]; cbn [is_auto]; [apply IH|].
  constructor; [|apply IH]. intro Hin. apply filter_In in Hin as [Hin _].
  apply name_from_auto_ge in Hin. lia.
Qed.

(* the automatically chosen names are pairwise distinct, whatever user-named regions exist *)
Theorem names_unique_auto_ : forall p, NoDup (filter is_auto (region_names p)).
Proof. intro p. apply names_unique_from. Qed.

Lemma NoDup_split_auto (l : list rname) :
  NoDup (filter is_auto l) -> NoDup (filter (fun n => negb (is_auto n)) l) -> NoDup l.
Proof.
  induction l as [|a l IH]; intros Ha Hu; [constructor|]. cbn [filter] in *.
  destruct (is_auto a) eqn:E; cbn [negb] in *.
  - inversion Ha; subst. constructor; [|apply IH; assumption].
    intro Hin. apply H1. apply filter_In. split; assumption.
  - inversion Hu; subst. constructor; [|apply IH; assumption].
    intro Hin. apply H1. apply filter_In. split; [assumption|]. rewrite E. reflexivity.
Qed.

(* all names unique unless the USER supplied the same name twice *)
Theorem names_unique_ : forall p,
  NoDup (filter (fun n => negb (is_auto n)) (region_names p)) -> NoDup (region_names p).
Proof. intros p Hu. apply NoDup_split_auto; [apply names_unique_auto_ | exact Hu]. Qed.

Example names_nonvacuous :
  region_names [SRegion (enc_tag TProfile None) [SRegion (enc_tag TExtract (Some 7)) []; SRegion (enc_tag TNanTest None) []];
                SIf (ELit 1%Z) [SRegion (enc_tag TReadOnly None) []] [SRegion (enc_tag TProfile None) []]]
  = [RAuto 0; RUser 7; RAuto 2; RAuto 3; RAuto 4].
Proof. vm_compute. reflexivity. Qed.

(* ================================================================== automatic profiling *)
Lemma count0_any_list (P : stmt -> bool) l :
  Forall (fun s => count_s P s = 0 -> any_stmt P s = false) l ->
  list_sum (map (count_s P) l) = 0 -> existsb (any_stmt P) l = false.
Proof.
  induction 1 as [|x l Hx _ IH]; intro H; [reflexivity|].
  change (list_sum (map (count_s P) (x :: l))) with (count_s P x + list_sum (map (count_s P) l)) in H.
  assert (H0 : count_s P x = 0) by lia. assert (H1 : list_sum (map (count_s P) l) = 0) by lia.
  cbn [existsb]. rewrite (Hx H0), (IH H1). reflexivity.
Qed.

Lemma count0_any (P : stmt -> bool) : forall s, count_s P s = 0 -> any_stmt P s = false.
Proof.
  induction s using stmt_ind'; cbn [count_s any_stmt]; intro Hc; destruct (P _) eqn:EP; try lia; cbn [orb];
    try reflexivity.
  - apply orb_false_iff. split; apply count0_any_list; auto; lia.
  - apply count0_any_list; auto; lia.
  - apply count0_any_list; auto; lia.
  - apply count0_any_list; auto; lia.
Qed.

Lemma count0_any_in P ss : count_in P ss = 0 -> any_in P ss = false.
Proof.
  unfold count_in, any_in. apply count0_any_list. apply Forall_forall. intros s _. apply count0_any.
Qed.

Lemma count_in_app P a b : count_in P (a ++ b) = count_in P a + count_in P b.
Proof. unfold count_in. rewrite map_app, list_sum_app. reflexivity. Qed.

(* Valid Fortran has no EXIT/CYCLE outside a loop: [safe false true p].  Then the automatically
   inserted whole-routine region cannot be escaped. *)
Theorem auto_profile_safe_ : forall p q,
  auto_profile p = AWrapped q -> safe false true p = true -> no_escaping_transfer q = true.
Proof.
  intros p q Ha Hs. unfold auto_profile in Ha. unfold no_escaping_transfer.
  destruct (count_in is_return p) as [|[|n]] eqn:Ec.
  - destruct p as [|s0 p0]; [discriminate|]. inversion Ha; subst.
    change (safe true true (s0 :: p0) && true = true). rewrite andb_true_r.
    apply (noret_safe _ false true); [apply count0_any_in, Ec | exact Hs].
  - destruct p as [|s0 p0]; [discriminate|].
    assert (Hne : s0 :: p0 <> []) by discriminate.
    pose proof (app_removelast_last SExit Hne) as Hsplit.
    destruct (last (s0 :: p0) SExit) eqn:El; try discriminate.
    destruct (removelast (s0 :: p0)) as [|b0 body] eqn:Er; [discriminate|]. inversion Ha; subst.
    rewrite Hsplit in Ec, Hs. rewrite count_in_app in Ec. unfold safe in Hs. rewrite forallb_app in Hs.
    apply andb_true_iff in Hs as [Hs1 _].
    assert (Ec0 : count_in is_return (b0 :: body) = 0) by (cbn in Ec |- *; cbn in Ec; lia).
    change (safe true true (b0 :: body) && true = true). rewrite andb_true_r.
    apply (noret_safe _ false true); [apply count0_any_in, Ec0 | exact Hs1].
  - discriminate.
Qed.

Example auto_profile_nonvacuous :
  auto_profile [SDo 0 (ELit 1%Z) (ELit 3%Z) (ELit 1%Z) [SIf (EVar 0) [SExit] []]; SReturn]
  = AWrapped [SRegion 0 [SDo 0 (ELit 1%Z) (ELit 3%Z) (ELit 1%Z) [SIf (EVar 0) [SExit] []]]; SReturn].
Proof. vm_compute. reflexivity. Qed.
