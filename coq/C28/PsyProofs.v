(* C28 — PSy-layer region names: get_unique_region_name issues pairwise distinct names; names
   chosen at generation time are pairwise distinct; the two schemes together are NOT (refuted). *)
From Coq Require Import List ZArith Bool Arith Lia.
Import ListNotations.
From PV Require Import Fort.Syntax Base.Harness C28.Model.
Close Scope Z_scope.
Open Scope nat_scope.

Lemma pkey_eqb_eq a b : pkey_eqb a b = true <-> a = b.
Proof.
  destruct a as [i k], b as [j l]. unfold pkey_eqb. cbn [fst snd]. rewrite andb_true_iff, Nat.eqb_eq.
  split.
  - intros [-> H]. destruct k as [x|], l as [y|]; cbn in H; try discriminate; try reflexivity.
    apply Nat.eqb_eq in H. subst. reflexivity.
  - intro E. inversion E; subst. split; [reflexivity|]. destruct l as [y|]; cbn; [apply Nat.eqb_refl | reflexivity].
Qed.

Lemma pkey_eqb_refl a : pkey_eqb a a = true.
Proof. apply pkey_eqb_eq. reflexivity. Qed.

Lemma count_key_cons_le k b hist : count_key k hist <= count_key k (b :: hist).
Proof. unfold count_key. cbn [filter]. destruct (pkey_eqb k b); cbn [length]; lia. Qed.

Lemma count_key_cons_same k hist : count_key k (k :: hist) = S (count_key k hist).
Proof. unfold count_key. cbn [filter]. rewrite pkey_eqb_refl. reflexivity. Qed.

(* every name issued later for a key carries an index >= the number of earlier uses of that key *)
Lemma issue_ge : forall reqs hist b n, In (b, n) (issue hist reqs) -> count_key b hist <= n.
Proof.
  induction reqs as [|[inv ks] r IH]; intros hist b n H; [destruct H|]. cbn [issue] in H. destruct H as [H|H].
  - inversion H; subst. lia.
  - apply IH in H. pose proof (count_key_cons_le b (base_of inv ks) hist). lia.
Qed.

(* FULL: whatever the requests and whatever was issued before, the issued names are pairwise
   distinct (and, by issue_ge, distinct from the earlier ones) *)
Theorem issue_unique_ : forall reqs hist, NoDup (issue hist reqs).
Proof.
  induction reqs as [|[inv ks] r IH]; intros hist; [constructor|]. cbn [issue]. constructor; [|apply IH].
  intro Hin. apply issue_ge in Hin. rewrite count_key_cons_same in Hin. lia.
Qed.

(* names chosen at generation time (all regions PSGen) are pairwise distinct: LFRic *)
Lemma lfric_gen_ge : forall nodes i issued b n,
  In (PNInvoke b n) (lfric_names_from i issued nodes) ->
  Forall (fun nd => snd nd = PSGen) nodes -> i <= n.
Proof.
  induction nodes as [|[[inv ks] s] r IH]; intros i issued b n H Hall; [destruct H|].
  inversion Hall as [|x l Hs Hr]; subst. cbn in Hs. subst s. cbn [lfric_names_from] in H. destruct H as [H|H].
  - inversion H; subst. lia.
  - apply IH in H; [lia | exact Hr].
Qed.

Theorem lfric_gen_unique_ : forall nodes i issued,
  Forall (fun nd => snd nd = PSGen) nodes -> NoDup (lfric_names_from i issued nodes).
Proof.
  induction nodes as [|[[inv ks] s] r IH]; intros i issued Hall; [constructor|].
  inversion Hall as [|x l Hs Hr]; subst. cbn in Hs. subst s. cbn [lfric_names_from]. constructor; [|apply IH, Hr].
  intro Hin. apply lfric_gen_ge in Hin; [lia | exact Hr].
Qed.

(* REFUTED (tree as found): a generation-time name and an issued name can coincide.  One invoke 0
   with kernels 1 1 2 2: a Profile region around the first two (named at generation: position 0)
   and an LFRicExtractTrans region around the last two (issued: counter 0) both get "invoke:r0". *)
Theorem lfric_mixed_refuted_ :
  exists reqs nodes, ~ NoDup (lfric_file_names reqs nodes) /\
                     (forall u, ~ In (PNUser u) (lfric_file_names reqs nodes)).
Proof.
  exists [(0, [2; 2])], [(0, [1; 1], PSGen); (0, [2; 2], PSIssued 0)]. split.
  - vm_compute. intro H. inversion H as [|x l Hn Hd]; subst. apply Hn. left. reflexivity.
  - intros u H. vm_compute in H. destruct H as [H|[H|H]]; try discriminate; destruct H.
Qed.

Example issue_nonvacuous :
  issue [] [(0, [1; 1]); (0, [2; 2]); (0, [3]); (1, [3]); (0, [3])]
  = [((0, None), 0); ((0, None), 1); ((0, Some 3), 0); ((1, Some 3), 0); ((0, Some 3), 1)].
Proof. vm_compute. reflexivity. Qed.
