(* C28 — obligations about the GENERATED tables (Gen.v = the tree under test).  These are
   re-checked on every run; they break when e.g. Return is dropped from a transformation's
   excluded_node_types or a loop directive is no longer recognised by PSyDataTrans.validate. *)
From Coq Require Import List ZArith Bool Arith Lia.
Import ListNotations.
From PV Require Import Fort.Syntax Fort.Sem Base.Harness C28.Model C28.Proofs C28.Gen.
Close Scope Z_scope.
Open Scope nat_scope.

(* Return is excluded by every transformation except (as found) ExtractTrans *)
Lemma gen_return_excluded : forall t, t <> TExtract -> x_excl gen_tables t KReturn = true.
Proof. intros t Ht. destruct t; try congruence; vm_compute; reflexivity. Qed.

(* ExtractTrans excludes CodeBlocks, hence EXIT/CYCLE *)
Lemma gen_extract_codeblock : x_excl gen_tables TExtract KCodeBlock = true.
Proof. vm_compute. reflexivity. Qed.

(* OMPDo (1), OMPParallelDo (2), ACCLoop (4) are loop directives; ACCParallel (3), ACCLoop (4),
   ACCKernels (5) are OpenACC directives *)
Lemma gen_loopdirs : x_loopdir gen_tables 1 = true /\ x_loopdir gen_tables 2 = true /\ x_loopdir gen_tables 4 = true.
Proof. vm_compute. repeat split. Qed.

Lemma gen_accdirs : x_acc gen_tables 3 = true /\ x_acc gen_tables 4 = true /\ x_acc gen_tables 5 = true.
Proof. vm_compute. repeat split. Qed.

(* get_unique_region_name keys its counter on exactly the (module, name-without-index) pair that the
   issued name is built from: the premise under which Model.issue is its faithful model *)
Lemma gen_psy_key : gen_psy_key_is_name = true.
Proof. reflexivity. Qed.

(* the tables are at least as strict as the ones found in the unchanged tree on the two kinds
   that matter for the property (so every placement the current tree accepts was accepted by the
   tree as found, as far as Return / CodeBlock exclusion goes) *)
Lemma gen_at_least_asfound : forall t k, (k = KReturn \/ k = KCodeBlock) ->
  x_excl asfound_tables t k = true -> x_excl gen_tables t k = true.
Proof. intros t k [-> | ->]; destruct t; vm_compute; intro H; try discriminate; reflexivity. Qed.

Theorem accept_excludes_return_gen : forall t p tg o sel,
  t <> TExtract -> accept_impl t p tg o = true -> selected p tg = Some sel -> gap_return sel = false.
Proof. intros t p tg o sel Ht. apply accept_excludes_return_. apply gen_return_excluded, Ht. Qed.

Theorem accept_excludes_xc_gen : forall p tg o sel,
  accept_impl TExtract p tg o = true -> selected p tg = Some sel -> any_in is_xc sel = false.
Proof. intros p tg o sel. apply accept_excludes_xc_. apply gen_extract_codeblock. Qed.

(* accepted + no gap reason => instrumented program is balanced on every execution *)
Theorem instrumented_balanced_partial_ : forall t p tg o sel,
  accept_impl t p tg o = true -> no_escaping_transfer p = true ->
  selected p tg = Some sel -> gap_return sel = false -> gap_xc sel = false ->
  forall fuel st st' tr c,
    exec fuel (apply_at (region_tag t o) tg p) st = Ok st' tr c -> well_bracketed (regions tr).
Proof.
  intros t p tg o sel _ Hp Hsel Hr Hx fuel st st' tr c He.
  eapply balanced_partial_; [|exact He]. unfold no_escaping_transfer in *.
  eapply apply_safe_nogap_; eauto.
Qed.

(* for the transformations that exclude Return: only EXIT/CYCLE directly in the region can break it *)
Theorem instrumented_balanced_return_excluded_ : forall t p tg o sel,
  t <> TExtract -> accept_impl t p tg o = true -> no_escaping_transfer p = true ->
  selected p tg = Some sel -> gap_xc sel = false ->
  forall fuel st st' tr c,
    exec fuel (apply_at (region_tag t o) tg p) st = Ok st' tr c -> well_bracketed (regions tr).
Proof.
  intros t p tg o sel Ht Ha Hp Hsel Hx. eapply instrumented_balanced_partial_; eauto.
  eapply accept_excludes_return_gen; eauto.
Qed.

(* ExtractTrans: only RETURN can break it *)
Theorem instrumented_balanced_extract_ : forall p tg o sel,
  accept_impl TExtract p tg o = true -> no_escaping_transfer p = true ->
  selected p tg = Some sel -> gap_return sel = false ->
  forall fuel st st' tr c,
    exec fuel (apply_at (region_tag TExtract o) tg p) st = Ok st' tr c -> well_bracketed (regions tr).
Proof.
  intros p tg o sel Ha Hp Hsel Hr. eapply instrumented_balanced_partial_; eauto.
  apply noxc_gap; [eapply accept_excludes_xc_gen; eauto|].
  destruct (accept_sel _ _ _ _ _ Ha) as (ancs & blk & Hl & Hsel' & _).
  rewrite Hsel in Hsel'. inversion Hsel'; subst.
  destruct (locate_safe _ _ _ _ _ _ _ Hl Hp) as (ir' & d' & Hb).
  apply safe_weaken with (ir := ir') (d := d'). unfold safe, sel_of in *.
  apply forallb_firstn, forallb_skipn, Hb.
Qed.

Theorem accept_not_between_gen : forall t p tg o,
  accept_impl t p tg o = true ->
  exists ancs blk, locate (t_path tg) p [] = Some (ancs, blk) /\
    (forall rest, ancs <> ADir 1 :: rest /\ ancs <> ADir 2 :: rest /\ ancs <> ADir 4 :: rest) /\
    ~ In (ADir 3) ancs /\ ~ In (ADir 4) ancs /\ ~ In (ADir 5) ancs.
Proof.
  intros t p tg o Ha. destruct (accept_not_between_ _ _ _ _ _ Ha) as (ancs & blk & Hl & Hb & Hacc).
  destruct gen_loopdirs as (L1 & L2 & L4). destruct gen_accdirs as (A3 & A4 & A5).
  exists ancs, blk. split; [exact Hl|]. split; [|repeat split].
  - intro rest. repeat split; intro E; apply Hb in E; congruence.
  - intro Hin. apply Hacc in Hin. congruence.
  - intro Hin. apply Hacc in Hin. congruence.
  - intro Hin. apply Hacc in Hin. congruence.
Qed.

(* non-vacuity on the generated tables *)
Example gen_nonvacuous :
  accept_impl TProfile ok_prog ok_tgt wit_opts = true /\
  accept_impl TExtract witr_prog (mkTarget [] 0 1) wit_opts = true /\
  accept_impl TNanTest [SDir 1 [SDo 0 (ELit 1%Z) (ELit 2%Z) (ELit 1%Z) []]] (mkTarget [(0, false)] 0 1) wit_opts = false.
Proof. vm_compute. repeat split. Qed.
