(* C09 — array-section assignments  a(lo:hi, i+d) = rhs  on the Coq side.
   No new semantics: a section assignment is DESUGARED into MiniFortran statements exactly as
   props/C09/check.py `desugar` does: element k of the right-hand side is evaluated into a thread-local
   temporary tmp k, then the elements are stored.  (1) [section_assign] and the ordering lemma: in any
   run of the desugared block every write that happens before the stores is to a temporary, and every
   read that happens during the stores is of a temporary or of an index scalar: all right-hand-side
   elements are read before any element is stored (Fortran array-assignment meaning).
   (2) the desugared block is ordinary MiniFortran, so Model.safe_with / omp_sound_with apply to loop
   bodies containing it once the temporaries are listed as private: [omp_sound_sections].
   (3) the overlapping / shifted case  d(2:4,i) = d(3:5,i-1) + 1  is refuted by vm_compute. *)
From Coq Require Import List ZArith Bool Lia Permutation.
Import ListNotations.
From PV Require Import Fort.Syntax Fort.Sem Fort.Facts C09.Model C09.Footprint C09.Proofs.
Open Scope Z_scope.

(* ------------------------------------------------------------------------------------------ *)
(** * section syntax (outside Fort.Syntax) and its elements *)

Inductive sidx := IScal (e : expr) | IRange (lo : Z).      (* lo : lo + n - 1, n given by the statement *)

Inductive sx :=
| XLit (z : Z)
| XVar (x : name)
| XRef (a : name) (ix : list sidx)
| XBin (o : binop) (l r : sx).

Definition idx_elem (k : nat) (i : sidx) : expr :=
  match i with IScal e => e | IRange lo => ELit (lo + Z.of_nat k) end.

Fixpoint sx_elem (k : nat) (e : sx) : expr :=
  match e with
  | XLit z => ELit z
  | XVar x => EVar x
  | XRef a ix => EIdx a (map (idx_elem k) ix)
  | XBin o l r => EBin o (sx_elem k l) (sx_elem k r)
  end.

(* a(ix) = rhs with n elements and temporaries tmp 0 .. tmp (n-1) *)
Definition eval_part (tmp : nat -> name) (rhs : sx) (ks : list nat) : list stmt :=
  map (fun k => SAssign (tmp k) [] (sx_elem k rhs)) ks.
Definition store_part (tmp : nat -> name) (a : name) (ix : list sidx) (ks : list nat) : list stmt :=
  map (fun k => SAssign a (map (idx_elem k) ix) (EVar (tmp k))) ks.
Definition section_assign (tmp : nat -> name) (a : name) (ix : list sidx) (rhs : sx) (n : nat) : list stmt :=
  eval_part tmp rhs (seq 0 n) ++ store_part tmp a ix (seq 0 n).

(* ------------------------------------------------------------------------------------------ *)
(** * (1) ordering: evaluate every element, then store *)

Lemma eval_part_writes tmp rhs ks : forall f s s' tr c,
  exec f (eval_part tmp rhs ks) s = Ok s' tr c ->
  forall l, In l (writes tr) -> exists k, In k ks /\ l = (tmp k, []).
Proof.
  induction ks as [|k ks IH]; intros f s s' tr c H l Hl.
  - destruct f; [discriminate|]. cbn [eval_part map] in H. rewrite exec_nil in H. inversion H; subst. destruct Hl.
  - destruct f; [discriminate|]. cbn [eval_part map] in H. rewrite exec_cons in H.
    apply then_run_ok_inv in H as [[s1 [tr1 [tr2 [H1 [H2 ->]]]]]|[N H1]].
    + cbn [exec_stmt map opt_all] in H1. destruct (eval s (sx_elem k rhs)) as [z|]; [|discriminate].
      inversion H1; subst. rewrite writes_app in Hl. apply in_app_or in Hl as [Hl|Hl].
      * rewrite writes_app, writes_rds in Hl. cbn in Hl. destruct Hl as [<-|[]]. exists k. split; [left|]; reflexivity.
      * destruct (IH _ _ _ _ _ H2 l Hl) as [k' [Hk ->]]. exists k'. split; [right; exact Hk|reflexivity].
    + cbn [exec_stmt map opt_all] in H1. destruct (eval s (sx_elem k rhs)) as [z|]; [|discriminate].
      inversion H1; subst. congruence.
Qed.

(* index expressions of the stored elements read only locations in I *)
Definition idx_reads_in (I : loc -> Prop) (ix : list sidx) : Prop :=
  forall k e s l, In e (map (idx_elem k) ix) -> In l (ereads s e) -> I l.

Lemma store_part_reads tmp a ix (I : loc -> Prop) ks : idx_reads_in I ix -> forall f s s' tr c,
  exec f (store_part tmp a ix ks) s = Ok s' tr c ->
  forall l, In l (reads tr) -> (exists k, In k ks /\ l = (tmp k, [])) \/ I l.
Proof.
  intro HI. induction ks as [|k ks IH]; intros f s s' tr c H l Hl.
  - destruct f; [discriminate|]. cbn [store_part map] in H. rewrite exec_nil in H. inversion H; subst. destruct Hl.
  - destruct f; [discriminate|]. cbn [store_part map] in H. rewrite exec_cons in H.
    assert (Hone : forall s1 tr1 c1, exec_stmt (exec f) (SAssign a (map (idx_elem k) ix) (EVar (tmp k))) s = Ok s1 tr1 c1 ->
                   forall l0, In l0 (reads tr1) -> l0 = (tmp k, []) \/ I l0).
    { intros s1 tr1 c1 H1 l0 Hl0. cbn [exec_stmt eval] in H1.
      destruct (opt_all (map (eval s) (map (idx_elem k) ix))) as [vs|]; [|discriminate].
      inversion H1; subst s1 tr1 c1. cbn [reads] in Hl0. destruct Hl0 as [<-|Hl0]; [left; reflexivity|].
      rewrite reads_app, reads_rds in Hl0. cbn [reads] in Hl0. rewrite app_nil_r in Hl0.
      right. apply in_flat_map in Hl0 as [e [He Hle]]. eapply HI; eassumption. }
    apply then_run_ok_inv in H as [[s1 [tr1 [tr2 [H1 [H2 ->]]]]]|[N H1]].
    + rewrite reads_app in Hl. apply in_app_or in Hl as [Hl|Hl].
      * destruct (Hone _ _ _ H1 l Hl) as [->|Hi]; [left; exists k; split; [left|]; reflexivity|right; exact Hi].
      * destruct (IH _ _ _ _ _ H2 l Hl) as [[k' [Hk ->]]|Hi]; [left; exists k'; split; [right; exact Hk|reflexivity]|right; exact Hi].
    + destruct (Hone _ _ _ H1 l Hl) as [->|Hi]; [left; exists k; split; [left|]; reflexivity|right; exact Hi].
Qed.

(* Fortran array-assignment meaning of the desugared block: its trace splits into an evaluation phase
   that writes nothing but temporaries and a store phase that reads nothing but temporaries (and index
   scalars): no element of the left-hand side is stored before every right-hand-side element is read *)
Theorem section_assign_order tmp a ix rhs n (I : loc -> Prop) f s s' tr c :
  idx_reads_in I ix ->
  exec f (section_assign tmp a ix rhs n) s = Ok s' tr c ->
  exists tr1 tr2, tr = tr1 ++ tr2 /\
    (forall l, In l (writes tr1) -> exists k, (k < n)%nat /\ l = (tmp k, [])) /\
    (forall l, In l (reads tr2) -> (exists k, (k < n)%nat /\ l = (tmp k, [])) \/ I l).
Proof.
  intros HI H. unfold section_assign in H.
  apply exec_app_inv in H as [[s1 [tr1 [tr2 [H1 [H2 ->]]]]]|[N H1]].
  - exists tr1, tr2. split; [reflexivity|]. split.
    + intros l Hl. destruct (eval_part_writes _ _ _ _ _ _ _ _ H1 l Hl) as [k [Hk ->]].
      exists k. split; [apply in_seq in Hk; lia|reflexivity].
    + intros l Hl. destruct (store_part_reads _ _ _ I _ HI _ _ _ _ _ H2 l Hl) as [[k [Hk ->]]|Hi]; [left|right; exact Hi].
      exists k. split; [apply in_seq in Hk; lia|reflexivity].
  - exists tr, []. split; [rewrite app_nil_r; reflexivity|]. split.
    + intros l Hl. destruct (eval_part_writes _ _ _ _ _ _ _ _ H1 l Hl) as [k [Hk ->]].
      exists k. split; [apply in_seq in Hk; lia|reflexivity].
    + intros l [].
Qed.

(* ------------------------------------------------------------------------------------------ *)
(** * (2) loops whose bodies contain desugared section assignments *)

(* the temporaries are compiler temporaries: thread-local, i.e. additional private scalars *)
Definition with_temps (cl : clauses) (temps : list name) : clauses :=
  mkClauses (c_priv cl ++ temps) (c_fpriv cl).

(* any loop (its body may contain section_assign blocks) in the safe class w.r.t. the clauses extended
   with the temporaries: every schedule leaves the serial shared part.  For a section assignment
   a(lo:hi, i+d) = ... a(lo':hi', i+d) ... the class demands what Model.chks demands of its element
   statements: the loop-variable subscripts of all accesses to the written array are identical
   (distance 0) and sit in one dimension; the section dimension is free. *)
Theorem omp_sound_sections f cl temps loop s s' tr c (junk : nat -> store) sched :
  safe_with (with_temps cl temps) loop = true ->
  exec (S (S f)) [loop] s = Ok s' tr c ->
  sched_ok loop s sched ->
  exists so, omp_exec (S f) (with_temps cl temps) loop junk sched s = Some so /\
             shared_eq (privatised (loopvar loop) (with_temps cl temps)) so s'.
Proof. apply omp_sound_with. Qed.

(* names: d=0 e=1 i=2 zt0=3 zt1=4 zt2=5 *)
Definition nd := 0%nat. Definition ne := 1%nat. Definition nI := 2%nat.
Definition ztmp (k : nat) : name := (3 + k)%nat.

(* do i = 1, 3;  d(2:4, i) = d(3:5, i) * 2 + e(2:4, i);  end do     (backward overlap inside one column) *)
Definition sec_ok_body : list stmt :=
  section_assign ztmp nd [IRange 2; IScal (EVar nI)]
    (XBin Add (XBin Mul (XRef nd [IRange 3; IScal (EVar nI)]) (XLit 2)) (XRef ne [IRange 2; IScal (EVar nI)])) 3.
Definition sec_ok : stmt := SDo nI (ELit 1) (ELit 3) (ELit 1) sec_ok_body.

(* do i = 2, 4;  d(2:4, i) = d(3:5, i-1) + 1;  end do              (carried through overlapping sections) *)
Definition sec_bad_body : list stmt :=
  section_assign ztmp nd [IRange 2; IScal (EVar nI)]
    (XBin Add (XRef nd [IRange 3; IScal (EBin Sub (EVar nI) (ELit 1))]) (XLit 1)) 3.
Definition sec_bad : stmt := SDo nI (ELit 2) (ELit 4) (ELit 1) sec_bad_body.

Definition sec_cl : clauses := mkClauses [nI] [].
Definition sec_temps : list name := [ztmp 0; ztmp 1; ztmp 2].

(* d(r, c) = 10 r + c for r, c in 1..5; e = 1 *)
Definition sec_store : store :=
  mkStore (fun l => match l with
                    | (O, [r; c]) => 10 * r + c
                    | (S O, _) => 1
                    | _ => 0 end) (fun _ => []).

Lemma perm_210' : Permutation [2%nat; 1%nat; 0%nat] (seq 0 3).
Proof. exact perm_210. Qed.

(* non-vacuity: the independent section loop is in the safe class, runs serially, and the conclusion
   evaluated on a 2-thread schedule in reverse order gives d(2,1) = 2*d(3,1) + e(2,1) = 63 *)
Lemma sections_nonvacuous_ :
  safe_with (with_temps sec_cl sec_temps) sec_ok = true /\
  (exists s' tr, exec 60 [sec_ok] sec_store = Ok s' tr CNormal) /\
  sched_ok sec_ok sec_store [(0%nat, 2%nat); (1%nat, 1%nat); (0%nat, 0%nat)] /\
  omp_val (omp_exec 59 (with_temps sec_cl sec_temps) sec_ok junk0 [(0%nat, 2%nat); (1%nat, 1%nat); (0%nat, 0%nat)] sec_store) (nd, [2; 1]) = Some 63 /\
  final_val (exec 60 [sec_ok] sec_store) (nd, [2; 1]) = Some 63.
Proof.
  split; [vm_compute; reflexivity|]. split; [eexists; eexists; vm_compute; reflexivity|].
  split; [exact perm_210'|]. split; vm_compute; reflexivity.
Qed.

(* (3) the shifted / overlapping case is outside the class and really fails: with iterations 2, 3, 4 on
   two threads in the order 3, 2, 4 the element d(2,3) = d(3,2) + 1 is computed from the OLD d(3,2) = 32
   (33) while serially iteration 2 has already stored d(3,2) = d(4,1) + 1 = 42 (43) *)
Lemma sections_refuted_ :
  safe_with (with_temps sec_cl sec_temps) sec_bad = false /\
  exists sched l vs vo,
    sched_ok sec_bad sec_store sched /\
    memn (fst l) (privatised (loopvar sec_bad) (with_temps sec_cl sec_temps)) = false /\
    final_val (exec 60 [sec_bad] sec_store) l = Some vs /\
    omp_val (omp_exec 59 (with_temps sec_cl sec_temps) sec_bad junk0 sched sec_store) l = Some vo /\ vs <> vo.
Proof.
  split; [vm_compute; reflexivity|].
  exists [(1%nat, 1%nat); (0%nat, 0%nat); (1%nat, 2%nat)], (nd, [2; 3]), 43, 33.
  split; [cbn [sched_ok sec_bad eval]; cbn; apply perm_swap|].
  split; [vm_compute; reflexivity|]. split; [vm_compute; reflexivity|].
  split; [vm_compute; reflexivity|]. discriminate.
Qed.
