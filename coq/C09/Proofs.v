(* C09 — proofs: iterations of a loop in the safe class are insensitive to the privatised copies and
   commute modulo the shared part; hence every schedule of omp_exec leaves the shared part of the
   serial run.  Refutations of the full statement on the faithful model (vm_compute witnesses). *)
From Coq Require Import List ZArith Bool Lia Permutation.
Import ListNotations.
From PV Require Import Fort.Syntax Fort.Sem Fort.Facts C09.Model C09.Footprint.
Open Scope Z_scope.

(* ------------------------------------------------------------------------------------------ *)
(** * shared_eq is an equivalence *)

Lemma shared_eq_refl P s : shared_eq P s s.
Proof. split; auto. Qed.

Lemma shared_eq_sym P s1 s2 : shared_eq P s1 s2 -> shared_eq P s2 s1.
Proof. intros [H1 H2]. split; [auto|]. intros l Hl. symmetry. auto. Qed.

Lemma shared_eq_trans P s1 s2 s3 : shared_eq P s1 s2 -> shared_eq P s2 s3 -> shared_eq P s1 s3.
Proof. intros [A1 A2] [B1 B2]. split; [congruence|]. intros l Hl. rewrite A2, B2; auto. Qed.

Lemma shared_eq_mix P a b : shared_eq P (mix P a b) b.
Proof. split; [reflexivity|]. intros l Hl. unfold mix. cbn [val]. rewrite Hl. reflexivity. Qed.

(* ------------------------------------------------------------------------------------------ *)
(** * one iteration *)

Section Iter.
  Variable P : list name.
  Variable x : name.
  Variable SL : slices.
  Variable f : nat.
  Variable body : list stmt.
  Variable D' : list name.
  Hypothesis HxP : memn x P = true.
  Hypothesis Hchk : chks P x SL [x] body = Some D'.

  (* iteration with loop-variable value v *)
  Definition R (v : Z) (s : store) : outcome := exec f body (upd s (x, []) v).

  Lemma x_not_shared (l : loc) : memn (fst l) P = false -> l <> (x, []).
  Proof. intros E N. subst l. cbn [fst] in E. congruence. Qed.

  (* exposed reads of iteration v agree on two stores with the same shared part *)
  Lemma exposed_agree v tr s s2 :
    (forall l, In l (exposed tr) -> allowedR P SL v [x] l) ->
    (forall l, memn (fst l) P = false -> In l (exposed tr) -> val s2 l = val s l) ->
    forall l, In l (exposed tr) -> val (upd s2 (x, []) v) l = val (upd s (x, []) v) l.
  Proof.
    intros HR Hs l Hl. destruct (HR l Hl) as [A1 _].
    destruct (memn (fst l) P) eqn:E.
    - destruct (A1 eq_refl) as [E1 [E2|[]]]. destruct l as [n ix]. cbn [fst snd] in *. subst.
      rewrite !val_upd_same. reflexivity.
    - rewrite !val_upd_other by (apply x_not_shared; exact E). apply Hs; assumption.
  Qed.

  (* H1: the shared effect of an iteration does not depend on the privatised part of the store *)
  Lemma iter_insensitive v s s2 s1 tr c :
    shared_eq P s s2 -> R v s = Ok s1 tr c ->
    exists s1', R v s2 = Ok s1' tr c /\ shared_eq P s1 s1' /\ c = CNormal.
  Proof.
    intros [Hb Hs] H. unfold R in *.
    destruct (iter_fp P x SL v HxP f body D' _ _ _ _ Hchk H (val_upd_same _ _ _)) as [-> [HW HRd]].
    assert (Hb2 : bnd (upd s2 (x, []) v) = bnd (upd s (x, []) v)) by (rewrite !bnd_upd; auto).
    destruct (exec_frame _ _ _ _ _ _ (upd s2 (x, []) v) H Hb2) as [s1' [E1 [E2 [E3 E4]]]].
    { apply exposed_agree; [exact HRd|]. intros l Hl _. symmetry. apply Hs, Hl. }
    exists s1'. split; [exact E1|]. split; [|reflexivity].
    split.
    - rewrite E2, Hb2. apply (exec_bnd _ _ _ _ _ _ H).
    - intros l Hl. destruct (in_dec loc_eq_dec l (writes tr)) as [Hw|Hw].
      + symmetry. apply E3, Hw.
      + rewrite (E4 l Hw), (exec_unchanged _ _ _ _ _ _ l H Hw).
        rewrite !val_upd_other by (apply x_not_shared; exact Hl). apply Hs, Hl.
  Qed.

  (* writes of iteration v never meet the exposed reads or the writes of iteration v' <> v on shared data *)
  Lemma slices_disjoint v v' (l : loc) D :
    v <> v' -> memn (fst l) P = false -> allowedW P x SL v l -> allowedR P SL v' D l -> False.
  Proof.
    intros N E [[E1 _]|[_ [p [c [Hs Hn]]]]] [_ A2]; [congruence|].
    specialize (A2 E p c Hs). rewrite Hn in A2. inversion A2. lia.
  Qed.

  Lemma slices_disjoint_w v v' (l : loc) :
    v <> v' -> memn (fst l) P = false -> allowedW P x SL v l -> allowedW P x SL v' l -> False.
  Proof.
    intros N E [[E1 _]|[_ [p [c [Hs Hn]]]]] [[E2 _]|[_ [p' [c' [Hs' Hn']]]]]; try congruence.
    rewrite Hs in Hs'. inversion Hs'; subst. rewrite Hn in Hn'. inversion Hn'. lia.
  Qed.

  (* H2: two different iterations commute modulo the privatised part *)
  Lemma iter_commute v v' s s1 tr1 c1 s2 tr2 c2 :
    v <> v' -> R v s = Ok s1 tr1 c1 -> R v' s1 = Ok s2 tr2 c2 ->
    exists s1' s2', R v' s = Ok s1' tr2 c2 /\ R v s1' = Ok s2' tr1 c1 /\ shared_eq P s2 s2'.
  Proof.
    intros N H1 H2. unfold R in *.
    destruct (iter_fp P x SL v HxP f body D' _ _ _ _ Hchk H1 (val_upd_same _ _ _)) as [-> [HW1 HR1]].
    destruct (iter_fp P x SL v' HxP f body D' _ _ _ _ Hchk H2 (val_upd_same _ _ _)) as [-> [HW2 HR2]].
    pose proof (exec_bnd _ _ _ _ _ _ H1) as B1. rewrite bnd_upd in B1.
    pose proof (exec_bnd _ _ _ _ _ _ H2) as B2. rewrite bnd_upd in B2.
    (* shared locations outside writes tr1 are the same in s1 and s *)
    assert (U1 : forall l, memn (fst l) P = false -> ~ In l (writes tr1) -> val s1 l = val s l).
    { intros l E Hn. rewrite (exec_unchanged _ _ _ _ _ _ l H1 Hn). apply val_upd_other, x_not_shared, E. }
    (* step 1: replay iteration v' from s *)
    destruct (exec_frame _ _ _ _ _ _ (upd s (x, []) v') H2) as [s1' [F1 [F2 [F3 F4]]]].
    { rewrite !bnd_upd. congruence. }
    { apply exposed_agree; [exact HR2|]. intros l E Hl. symmetry. apply U1; [exact E|].
      intro Hw. exact (slices_disjoint v v' l [x] N E (HW1 l Hw) (HR2 l Hl)). }
    rewrite bnd_upd in F2.
    (* step 2: replay iteration v from s1' *)
    destruct (exec_frame _ _ _ _ _ _ (upd s1' (x, []) v) H1) as [s2' [G1 [G2 [G3 G4]]]].
    { rewrite !bnd_upd. congruence. }
    { apply exposed_agree; [exact HR1|]. intros l E Hl.
      assert (Hn : ~ In l (writes tr2)).
      { intro Hw. exact (slices_disjoint v' v l [x] (not_eq_sym N) E (HW2 l Hw) (HR1 l Hl)). }
      rewrite (F4 l Hn). apply val_upd_other, x_not_shared, E. }
    rewrite bnd_upd in G2.
    exists s1', s2'. split; [exact F1|]. split; [exact G1|].
    split; [congruence|].
    intros l E.
    destruct (in_dec loc_eq_dec l (writes tr1)) as [Hw1|Hw1].
    - assert (Hn2 : ~ In l (writes tr2)).
      { intro Hw2. exact (slices_disjoint_w v v' l N E (HW1 l Hw1) (HW2 l Hw2)). }
      rewrite (G3 l Hw1). rewrite (exec_unchanged _ _ _ _ _ _ l H2 Hn2).
      apply val_upd_other, x_not_shared, E.
    - rewrite (G4 l Hw1). rewrite (val_upd_other _ _ _ _ (x_not_shared l E)).
      destruct (in_dec loc_eq_dec l (writes tr2)) as [Hw2|Hw2].
      + symmetry. apply F3, Hw2.
      + rewrite (F4 l Hw2), (exec_unchanged _ _ _ _ _ _ l H2 Hw2).
        rewrite !(val_upd_other _ _ _ _ (x_not_shared l E)). apply U1; assumption.
  Qed.

  (* ---------------------------------------------------------------------------------------- *)
  (** sequences of iterations *)

  Fixpoint seq_iters (vs : list Z) (s : store) : option store :=
    match vs with
    | [] => Some s
    | v :: r => match R v s with Ok s' _ CNormal => seq_iters r s' | _ => None end
    end.

  Lemma seq_iters_shared vs : forall s s2 s1,
    shared_eq P s s2 -> seq_iters vs s = Some s1 ->
    exists s1', seq_iters vs s2 = Some s1' /\ shared_eq P s1 s1'.
  Proof.
    induction vs as [|v vs IH]; intros s s2 s1 Hs H; cbn [seq_iters] in *.
    - inversion H; subst. eauto.
    - destruct (R v s) as [s' tr c| |] eqn:E; try discriminate.
      destruct (iter_insensitive v s s2 s' tr c Hs E) as [s'' [E2 [Hs2 ->]]].
      rewrite E2. eapply IH; eassumption.
  Qed.

  Lemma seq_iters_perm vs vs' : Permutation vs vs' -> NoDup vs ->
    forall s s2 s1, shared_eq P s s2 -> seq_iters vs s = Some s1 ->
    exists s1', seq_iters vs' s2 = Some s1' /\ shared_eq P s1 s1'.
  Proof.
    induction 1 as [|v l l' Hp IH|a b l|l1 l2 l3 Hp1 IH1 Hp2 IH2]; intros Hnd s s2 s1 Hs H.
    - cbn [seq_iters] in *. inversion H; subst. eauto.
    - cbn [seq_iters] in *. destruct (R v s) as [s' tr c| |] eqn:E; try discriminate.
      destruct (iter_insensitive v s s2 s' tr c Hs E) as [s'' [E2 [Hs2 ->]]].
      rewrite E2. inversion Hnd; subst. eapply IH; eassumption.
    - (* swap: vs = b :: a :: l, vs' = a :: b :: l *)
      cbn [seq_iters] in H.
      destruct (R b s) as [sb trb cb| |] eqn:Eb; try discriminate.
      destruct cb; try discriminate.
      destruct (R a sb) as [sa tra ca| |] eqn:Ea; try discriminate.
      destruct ca; try discriminate.
      assert (Nab : b <> a).
      { inversion Hnd as [|? ? Hni _]; subst. intro E. apply Hni. left. auto. }
      destruct (iter_commute b a s sb trb CNormal sa tra CNormal Nab Eb Ea) as [s1' [s2' [C1 [C2 C3]]]].
      destruct (iter_insensitive a s s2 s1' tra CNormal Hs C1) as [t1 [T1 [Ht1 _]]].
      destruct (iter_insensitive b s1' t1 s2' trb CNormal Ht1 C2) as [t2 [T2 [Ht2 _]]].
      cbn [seq_iters]. rewrite T1, T2.
      eapply seq_iters_shared; [|exact H].
      eapply shared_eq_trans; eassumption.
    - destruct (IH1 Hnd s s s1 (shared_eq_refl P s) H) as [sm [M1 M2]].
      assert (Hnd2 : NoDup l2) by (eapply Permutation_NoDup; eassumption).
      destruct (IH2 Hnd2 s s2 sm Hs M1) as [se [E1 E2]].
      exists se. split; [exact E1|]. eapply shared_eq_trans; eassumption.
  Qed.

  (* the serial loop is the sequence of its iterations, then the final value of the loop variable *)
  Lemma do_loop_seq l t : forall n k s s' tr c,
    do_loop (exec f body) x l t n k s = Ok s' tr c ->
    exists s'', seq_iters (ivals l t k n) s = Some s'' /\ s' = upd s'' (x, []) (l + (k + Z.of_nat n) * t).
  Proof.
    induction n as [|n IH]; intros k s s' tr c H.
    - cbn [do_loop] in H. inversion H; subst. exists s. split; [reflexivity|].
      cbn [Z.of_nat]. rewrite Z.add_0_r. reflexivity.
    - cbn [do_loop] in H.
      destruct (exec f body (upd s (x, []) (l + k * t))) as [s2 trb cb| |] eqn:E; try discriminate.
      destruct (iter_fp P x SL (l + k * t) HxP f body D' _ _ _ _ Hchk E (val_upd_same _ _ _)) as [-> _].
      apply prepend_ok_inv in H as [tr0 [H _]].
      destruct (IH _ _ _ _ _ H) as [s'' [S1 S2]].
      exists s''. split.
      + unfold ivals. cbn [zseq map seq_iters]. unfold R. rewrite E. exact S1.
      + rewrite S2. f_equal. lia.
  Qed.

  (* the parallel run follows the sequence of its iterations in schedule order *)
  Lemma omp_iters_seq l t (sched : list (nat * nat)) : forall sh T ss ss',
    shared_eq P ss sh ->
    seq_iters (map (fun k => l + Z.of_nat k * t) (map snd sched)) ss = Some ss' ->
    exists so, omp_iters (exec f body) x l t P sched sh T = Some so /\ shared_eq P ss' so.
  Proof.
    induction sched as [|[tid k] r IH]; intros sh T ss ss' Hs H.
    - cbn [map seq_iters omp_iters] in *. inversion H; subst. eauto.
    - cbn [map snd seq_iters omp_iters] in *.
      destruct (R (l + Z.of_nat k * t) ss) as [s1 tr c| |] eqn:E; try discriminate.
      assert (Hm : shared_eq P ss (mix P (T tid) sh)).
      { eapply shared_eq_trans; [exact Hs|]. apply shared_eq_sym, shared_eq_mix. }
      destruct (iter_insensitive _ _ _ _ _ _ Hm E) as [s1' [E1 [Hs1 ->]]].
      unfold R in E1. rewrite E1. eapply IH; eassumption.
  Qed.
End Iter.

(* ------------------------------------------------------------------------------------------ *)
(** * the theorem *)

Lemma zseq_seq n : forall k, zseq (Z.of_nat k) n = map Z.of_nat (seq k n).
Proof.
  induction n as [|n IH]; intro k; cbn [zseq seq map]; [reflexivity|].
  f_equal. rewrite <- IH. f_equal. lia.
Qed.

Lemma ivals_seq l t n : ivals l t 0 n = map (fun k => l + Z.of_nat k * t) (seq 0 n).
Proof. unfold ivals. change 0 with (Z.of_nat 0). rewrite zseq_seq, map_map. reflexivity. Qed.

(* a schedule runs every iteration index 0..n-1 exactly once, on any thread, in any order *)
Definition sched_ok (loop : stmt) (s : store) (sched : list (nat * nat)) : Prop :=
  match loop with
  | SDo x lo hi st _ =>
      match eval s lo, eval s hi, eval s st with
      | Some l, Some h, Some t => Permutation (map snd sched) (seq 0 (trip_count l h t))
      | _, _, _ => False
      end
  | _ => False
  end.

Definition loopvar (loop : stmt) : name := match loop with SDo x _ _ _ _ => x | _ => O end.

Theorem omp_sound_with f cl loop s s' tr c junk sched :
  safe_with cl loop = true ->
  exec (S (S f)) [loop] s = Ok s' tr c ->
  sched_ok loop s sched ->
  exists so, omp_exec (S f) cl loop junk sched s = Some so /\
             shared_eq (privatised (loopvar loop) cl) so s'.
Proof.
  intros Hsafe Hex Hsched.
  destruct loop as [| |x lo hi st body| | | | | |]; try discriminate.
  cbn [safe_with] in Hsafe. cbn [loopvar].
  destruct (choose_slices x body) as [SL|]; [|discriminate].
  set (P := privatised x cl) in *.
  destruct (chks P x SL [x] body) as [D'|] eqn:Hchk; [|discriminate].
  assert (HxP : memn x P = true) by (apply memn_In; left; reflexivity).
  apply exec_do_inv in Hex as [f' [l [h [t [tr0 [Ef [E1 [E2 [E3 [Nt [Hdo _]]]]]]]]]]].
  inversion Ef; subst f'. clear Ef.
  cbn [sched_ok] in Hsched. rewrite E1, E2, E3 in Hsched.
  cbn [omp_exec]. rewrite E1, E2, E3. apply Z.eqb_neq in Nt. rewrite Nt. apply Z.eqb_neq in Nt.
  destruct (do_loop_seq P x SL (S f) body D' HxP Hchk l t _ _ _ _ _ _ Hdo) as [s'' [S1 S2]].
  rewrite Z.add_0_l in S2.
  (* reorder the iterations *)
  assert (Hperm : Permutation (ivals l t 0 (trip_count l h t))
                              (map (fun k => l + Z.of_nat k * t) (map snd sched))).
  { rewrite ivals_seq. apply Permutation_map, Permutation_sym, Hsched. }
  destruct (seq_iters_perm P x SL (S f) body D' HxP Hchk _ _ Hperm (ivals_NoDup l t 0 _ Nt)
              s s s'' (shared_eq_refl P s) S1) as [sp [Sp1 Sp2]].
  destruct (omp_iters_seq P x SL (S f) body D' HxP Hchk l t sched s
              (fun tid => mix (c_fpriv cl) s (junk tid)) s sp (shared_eq_refl P s) Sp1) as [so [O1 O2]].
  exists so. split; [exact O1|].
  apply shared_eq_sym. eapply shared_eq_trans; [|exact O2].
  eapply shared_eq_trans; [|exact Sp2].
  subst s'. split; [apply bnd_upd|].
  intros l0 E. apply val_upd_other. intro N. subst l0. cbn [fst] in E. congruence.
Qed.

(* with the clauses PSyclone infers *)
Theorem omp_sound_partial_ f loop s s' tr c junk sched :
  safe loop = true ->
  exec (S (S f)) [loop] s = Ok s' tr c ->
  sched_ok loop s sched ->
  exists so, omp_exec (S f) (infer_loop loop) loop junk sched s = Some so /\
             shared_eq (privatised (loopvar loop) (infer_loop loop)) so s'.
Proof. intros H. apply omp_sound_with. exact H. Qed.

(* ------------------------------------------------------------------------------------------ *)
(** * witnesses *)

(* names: a=0 b=1 i=2 j=3 last=4 m=5 t=6 *)
Definition na := 0%nat. Definition nb := 1%nat. Definition ni := 2%nat. Definition nj := 3%nat.
Definition nlast := 4%nat. Definition nm := 5%nat. Definition nt := 6%nat.

Definition a_i : expr := EIdx na [EVar ni].
Definition loop_over (body : list stmt) : stmt := SDo ni (ELit 1) (ELit 3) (ELit 1) body.

(* a = (1, 2, 3); everything else 0 *)
Definition st0 : store := store_of [((na, [1]), 1); ((na, [2]), 2); ((na, [3]), 3)] [].
(* a = (5, -1, 7), t = 9 *)
Definition st1 : store := store_of [((na, [1]), 5); ((na, [2]), -1); ((na, [3]), 7); ((nt, []), 9)] [].
Definition junk0 : nat -> store := fun _ => store_of [] [].

(* do i = 1, 3; last = a(i); end do *)
Definition w_once : stmt := loop_over [SAssign nlast [] a_i].
(* do i = 1, 3; if (a(i) > 0) t = a(i); b(i) = t; end do *)
Definition w_cond : stmt :=
  loop_over [SIf (EBin Gt a_i (ELit 0)) [SAssign nt [] a_i] []; SAssign nb [EVar ni] (EVar nt)].
(* do i = 1, 3; do j = 1, m; t = a(j); end do; b(i) = t; end do   (m = 0: the inner loop never runs) *)
Definition w_inner : stmt :=
  loop_over [SDo nj (ELit 1) (EVar nm) (ELit 1) [SAssign nt [] (EIdx na [EVar nj])]; SAssign nb [EVar ni] (EVar nt)].
(* do i = 1, 3; t = a(i); b(i) = t + 1; end do *)
Definition w_safe : stmt :=
  loop_over [SAssign nt [] a_i; SAssign nb [EVar ni] (EBin Add (EVar nt) (ELit 1))].

Definition final_val (o : outcome) (l : loc) : option Z :=
  match o with Ok s _ CNormal => Some (val s l) | _ => None end.
Definition omp_val (o : option store) (l : loc) : option Z :=
  match o with Some s => Some (val s l) | None => None end.

(* the refutation statement: the unchanged code accepts the loop, infers the clauses [infer_loop],
   and some schedule leaves a non-privatised location with a value other than the serial one *)
Definition refuted (loop : stmt) : Prop :=
  exists s junk sched l vs vo,
    accept loop = Some true /\ sched_ok loop s sched /\
    memn (fst l) (privatised (loopvar loop) (infer_loop loop)) = false /\
    final_val (exec 50 [loop] s) l = Some vs /\
    omp_val (omp_exec 49 (infer_loop loop) loop junk sched s) l = Some vo /\ vs <> vo.

Lemma perm_210 : Permutation [2%nat; 1%nat; 0%nat] (seq 0 3).
Proof.
  cbn [seq]. apply Permutation_trans with [1%nat; 2%nat; 0%nat]; [apply perm_swap|].
  apply Permutation_trans with [1%nat; 0%nat; 2%nat]; [apply perm_skip, perm_swap|apply perm_swap].
Qed.

Lemma perm_120 : Permutation [1%nat; 2%nat; 0%nat] (seq 0 3).
Proof.
  cbn [seq]. apply Permutation_trans with [1%nat; 0%nat; 2%nat]; [apply perm_skip, perm_swap|apply perm_swap].
Qed.

(* `last` is written once: WARN_SCALAR_WRITTEN_ONCE is ignored, `last` stays shared, and with the
   iterations executed in the order 3, 2, 1 it ends as a(1) instead of a(3) *)
Lemma refuted_written_once_ : refuted w_once.
Proof.
  exists st0, junk0, [(0%nat, 2%nat); (1%nat, 1%nat); (2%nat, 0%nat)], (nlast, []), 3, 1.
  split; [vm_compute; reflexivity|]. split; [exact perm_210|].
  split; [vm_compute; reflexivity|]. split; [vm_compute; reflexivity|].
  split; [vm_compute; reflexivity|]. discriminate.
Qed.

(* t is written under an IF: firstprivate.  Serially b(2) = t = a(1) = 5 flows from iteration 1;
   with one thread per iteration, iteration 2 sees the value of t at region entry, 9 *)
Lemma refuted_cond_firstprivate_ : refuted w_cond.
Proof.
  exists st1, junk0, [(0%nat, 0%nat); (1%nat, 1%nat); (2%nat, 2%nat)], (nb, [2]), 5, 9.
  split; [vm_compute; reflexivity|]. split; [apply Permutation_refl|].
  split; [vm_compute; reflexivity|]. split; [vm_compute; reflexivity|].
  split; [vm_compute; reflexivity|]. discriminate.
Qed.

(* t is first written inside an inner loop: private, although the inner loop may run zero times
   (m = 0); serially b(i) = t = 9 (the value before the loop), the private copy is junk (0) *)
Lemma refuted_inner_loop_private_ : refuted w_inner.
Proof.
  exists st1, junk0, [(0%nat, 0%nat); (0%nat, 1%nat); (0%nat, 2%nat)], (nb, [1]), 9, 0.
  split; [vm_compute; reflexivity|]. split; [apply Permutation_refl|].
  split; [vm_compute; reflexivity|]. split; [vm_compute; reflexivity|].
  split; [vm_compute; reflexivity|]. discriminate.
Qed.

(* what the model infers for the witnesses *)
Lemma witness_clauses :
  infer_loop w_once = mkClauses [ni] [] /\ infer_loop w_cond = mkClauses [ni] [nt] /\
  infer_loop w_inner = mkClauses [ni; nj; nt] [] /\ infer_loop w_safe = mkClauses [ni; nt] [].
Proof. vm_compute. auto. Qed.

(* non-vacuity of omp_sound_partial: an accepted loop in the safe class, its serial run and a
   schedule (three threads, reverse order); and the conclusion evaluated on it *)
Lemma sound_nonvacuous_ :
  accept w_safe = Some true /\ safe w_safe = true /\
  (exists s' tr, exec 50 [w_safe] st0 = Ok s' tr CNormal) /\
  sched_ok w_safe st0 [(0%nat, 2%nat); (1%nat, 1%nat); (2%nat, 0%nat)] /\
  omp_val (omp_exec 49 (infer_loop w_safe) w_safe junk0 [(0%nat, 2%nat); (1%nat, 1%nat); (2%nat, 0%nat)] st0) (nb, [3]) = Some 4.
Proof.
  split; [vm_compute; reflexivity|]. split; [vm_compute; reflexivity|].
  split; [eexists; eexists; vm_compute; reflexivity|]. split; [exact perm_210|].
  vm_compute. reflexivity.
Qed.

(* the gap: accepted by the model of validate but outside the safe class *)
Lemma gap_witnesses :
  safe w_once = false /\ safe w_cond = false /\ safe w_inner = false.
Proof. vm_compute. auto. Qed.
