(* C09 — OpenMP-parallelised loops compute the serial result on any schedule.  MODEL (no proofs).

   Part 1  access lists of a region body, as Node.reference_accesses builds them for the MiniFortran
           subset (Assignment: rhs reads, lhs index reads, lhs write; IfBlock: condition, then, else;
           Loop: WRITE+READ of the loop variable, start, stop, step, body), each access annotated with
           what OMPParallelDirective.infer_sharing_attributes asks of its node: the loop bodies that
           enclose it, the `loop_ancestor` of a write and whether an IfBlock sits between the two.
   Part 2  [infer]: OMPParallelDirective.infer_sharing_attributes (omp_directives.py l.1528-1677):
           private / firstprivate / need_sync, everything else shared.
   Part 3  [validate_msgs]/[accept]: ParallelLoopTrans.validate (parallel_loop_trans.py l.149-165) on top
           of DependencyTools.can_loop_be_parallelised (dependency_tools.py l.730-805): scalar rules
           exactly; array rule for subscripts of the form  c | v | v+c | v-c  (answer None outside it).
   Part 4  [omp_exec]: thread-level, iteration-granularity semantics of `!$omp parallel do` with
           private / firstprivate clauses on top of Fort.Sem.exec.
   Part 5  [safe_with]: the syntactic sufficient condition of theorem omp_sound_partial. *)
From Coq Require Import List ZArith Bool Lia.
Import ListNotations.
From PV Require Import Fort.Syntax Fort.Sem.
Open Scope Z_scope.

Definition memn (x : name) (l : list name) : bool := existsb (Nat.eqb x) l.

(* ------------------------------------------------------------------------------------------ *)
(** * 1. access lists *)

Inductive akind := AR | AW.

Record acc := mkAcc {
  a_name : name;
  a_kind : akind;
  a_subs : list expr;        (* index expressions ([] = scalar access) *)
  a_in   : list nat;         (* ids of the loop bodies that contain the node, innermost first *)
  a_loop : option nat;       (* writes: id of node.ancestor((Loop,WhileLoop), limit=directive, include_self=True) *)
  a_cond : bool }.           (* writes: node.ancestor(IfBlock, limit=loop_ancestor, include_self=True) exists *)

Definition a_arr (a : acc) : bool := match a_subs a with [] => false | _ => true end.
Definition is_rd (a : acc) : bool := match a_kind a with AR => true | AW => false end.

Fixpoint eaccs (stk : list nat) (e : expr) : list acc :=
  match e with
  | ELit _ => []
  | EVar y => [mkAcc y AR [] stk None false]
  | EIdx a ix => flat_map (eaccs stk) ix ++ [mkAcc a AR ix stk None false]
  | EUn _ e1 => eaccs stk e1
  | EBin _ l r => eaccs stk l ++ eaccs stk r
  | EIntr f args =>
      if is_inquiry f then match args with [] => [] | _ :: r => flat_map (eaccs stk) r end
      else flat_map (eaccs stk) args
  end.

(* [n] is the next fresh loop id; a loop takes id n and its body is numbered from n+1 *)
Fixpoint saccs (stk : list nat) (cur : option nat) (cond : bool) (n : nat) (s : stmt) {struct s}
  : list acc * nat :=
  match s with
  | SAssign y ix e => (eaccs stk e ++ flat_map (eaccs stk) ix ++ [mkAcc y AW ix stk cur cond], n)
  | SIf c th el =>
      let go := fix go (l : list stmt) (n : nat) {struct l} : list acc * nat :=
        match l with
        | [] => ([], n)
        | s1 :: r => let (a1, n1) := saccs stk cur true n s1 in
                     let (a2, n2) := go r n1 in (a1 ++ a2, n2)
        end in
      let (a1, n1) := go th n in
      let (a2, n2) := go el n1 in
      (eaccs stk c ++ a1 ++ a2, n2)
  | SDo y lo hi st body =>
      let go := fix go (l : list stmt) (m : nat) {struct l} : list acc * nat :=
        match l with
        | [] => ([], m)
        | s1 :: r => let (a1, n1) := saccs (n :: stk) (Some n) false m s1 in
                     let (a2, n2) := go r n1 in (a1 ++ a2, n2)
        end in
      let (ab, n') := go body (S n) in
      (mkAcc y AW [] stk (Some n) false :: mkAcc y AR [] stk None false ::
       eaccs stk lo ++ eaccs stk hi ++ eaccs stk st ++ ab, n')
  | SDir _ body =>
      (fix go (l : list stmt) (n : nat) {struct l} : list acc * nat :=
        match l with
        | [] => ([], n)
        | s1 :: r => let (a1, n1) := saccs stk cur cond n s1 in
                     let (a2, n2) := go r n1 in (a1 ++ a2, n2)
        end) body n
  | _ => ([], n)
  end.

Fixpoint laccs (stk : list nat) (cur : option nat) (cond : bool) (n : nat) (l : list stmt) : list acc * nat :=
  match l with
  | [] => ([], n)
  | s1 :: r => let (a1, n1) := saccs stk cur cond n s1 in
               let (a2, n2) := laccs stk cur cond n1 r in (a1 ++ a2, n2)
  end.

(* the accesses of a directive body (a region: statement list at nesting level 0) *)
Definition region_accs (body : list stmt) : list acc := fst (laccs [] None false 0%nat body).

Fixpoint dedup (l : list name) (seen : list name) : list name :=
  match l with
  | [] => []
  | x :: r => if memn x seen then dedup r seen else x :: dedup r (x :: seen)
  end.

Definition acc_names (l : list acc) : list name := dedup (map a_name l) [].
Definition accs_of (y : name) (l : list acc) : list acc := filter (fun a => Nat.eqb (a_name a) y) l.

(* ------------------------------------------------------------------------------------------ *)
(** * 2. infer_sharing_attributes *)

Inductive cls := CShared | CPrivate | CFirst | CSync | CArray.

(* the `for access in accesses` loop: every branch taken at the first WRITE ends the loop *)
Fixpoint scan (has_read : bool) (last_in : list nat) (l : list acc) : cls :=
  match l with
  | [] => CShared
  | a :: r =>
      match a_kind a with
      | AR => scan true (a_in a) r
      | AW =>
          match a_loop a with
          | None => CShared                                   (* written outside a loop: stays shared *)
          | Some L =>
              if has_read then
                (if existsb (Nat.eqb L) last_in then CSync    (* last read inside the same loop body *)
                 else CFirst)                                 (* last read before that loop body *)
              else if a_cond a then CFirst                    (* conditional write *)
              else CPrivate
          end
      end
  end.

Definition classify (l : list acc) : cls :=
  match l with
  | [] => CShared
  | a :: r => if a_arr a then CArray                        (* accesses[0].is_array(): skipped *)
              else match r with [] => CShared               (* accessed once: shared *)
                   | _ => scan false [] l end
  end.

Definition cls_eqb (a b : cls) : bool :=
  match a, b with
  | CShared, CShared | CPrivate, CPrivate | CFirst, CFirst | CSync, CSync | CArray, CArray => true
  | _, _ => false end.

Definition names_of_class (c : cls) (accs : list acc) : list name :=
  filter (fun y => cls_eqb (classify (accs_of y accs)) c) (acc_names accs).

Record clauses := mkClauses { c_priv : list name; c_fpriv : list name }.

(* (private, firstprivate, need_sync) of a directive whose body is [body] *)
Definition infer3 (body : list stmt) : list name * list name * list name :=
  let accs := region_accs body in
  (names_of_class CPrivate accs, names_of_class CFirst accs, names_of_class CSync accs).

Definition infer (body : list stmt) : clauses :=
  let accs := region_accs body in
  mkClauses (names_of_class CPrivate accs) (names_of_class CFirst accs).

(* ------------------------------------------------------------------------------------------ *)
(** * 3. ParallelLoopTrans.validate *)

(* loop.walk(Loop): the variables of this loop and of all loops inside it, pre-order *)
Fixpoint loopvars (s : stmt) : list name :=
  let go := fix go (l : list stmt) : list name :=
    match l with [] => [] | s1 :: r => loopvars s1 ++ go r end in
  match s with
  | SDo y _ _ _ body => y :: go body
  | SIf _ th el => go th ++ go el
  | SDir _ body => go body
  | SRegion _ body => go body
  | _ => []
  end.

(* CodeBlock (EXIT, CYCLE, PRINT) and Return are excluded node types *)
Fixpoint has_excluded (s : stmt) : bool :=
  let go := fix go (l : list stmt) : bool :=
    match l with [] => false | s1 :: r => has_excluded s1 || go r end in
  match s with
  | SAssign _ _ _ => false
  | SIf _ th el => go th || go el
  | SDo _ _ _ _ body => go body
  | SDir _ body => go body
  | SRegion _ body => go body
  | SExit | SCycle | SReturn | SPrint _ => true
  end.

(* subscripts in the modelled class:  c | v | v + c | c + v | v - c  *)
Definition aff (e : expr) : option (option name * Z) :=
  match e with
  | ELit c => Some (None, c)
  | EUn Neg (ELit c) => Some (None, - c)
  | EVar y => Some (Some y, 0)
  | EBin Add (EVar y) (ELit c) => Some (Some y, c)
  | EBin Add (ELit c) (EVar y) => Some (Some y, c)
  | EBin Sub (EVar y) (ELit c) => Some (Some y, - c)
  | _ => None
  end.

Definition asub := (option name * Z)%type.

Definition sub_lvars (lvs : list name) (s : asub) : list name :=
  match fst s with Some y => if memn y lvs then [y] else [] | None => [] end.

Definition union (a b : list name) : list name := a ++ filter (fun y => negb (memn y a)) b.

Definition pinfo := (list name * list nat)%type.

(* merge every partition that uses loop variable y into the first one that does *)
Fixpoint merge_y (y : name) (l : list pinfo) : list pinfo :=
  match l with
  | [] => []
  | p :: r =>
      if memn y (fst p) then
        fold_left (fun (a q : pinfo) => (union (fst a) (fst q), snd a ++ snd q))
                  (filter (fun q : pinfo => memn y (fst q)) r) p
        :: filter (fun q : pinfo => negb (memn y (fst q))) r
      else p :: merge_y y r
  end.

Fixpoint init_parts (lvs : list name) (k : nat) (w o : list asub) : list pinfo :=
  match w, o with
  | sw :: w', so :: o' => (union (sub_lvars lvs sw) (sub_lvars lvs so), [k]) :: init_parts lvs (S k) w' o'
  | _, _ => []
  end.

Definition partition (lvs : list name) (w o : list asub) : list pinfo :=
  fold_left (fun l y => merge_y y l) lvs (init_parts lvs 0%nat w o).

(* _get_dependency_distance(loop_var, ..) == 0 in the modelled class: both are loop_var + c, same c *)
Definition dist0 (i : name) (sw so : asub) : bool :=
  match fst sw, fst so with
  | Some y, Some z => Nat.eqb y i && Nat.eqb z i && Z.eqb (snd sw) (snd so)
  | _, _ => false
  end.

(* SymbolicMaths.never_equal in the modelled class: same (or no) variable, different constants *)
Definition indep0 (sw so : asub) : bool :=
  match fst sw, fst so with
  | Some y, Some z => Nat.eqb y z && negb (Z.eqb (snd sw) (snd so))
  | None, None => negb (Z.eqb (snd sw) (snd so))
  | _, _ => false
  end.

Definition nth_sub (l : list asub) (p : nat) : asub := nth p l (None, 0).

(* _is_loop_carried_dependency: true = this pair of accesses can be parallelised *)
Fixpoint parts_indep (i : name) (w o : list asub) (ps : list pinfo) : bool :=
  match ps with
  | [] => false
  | (vars, subs) :: r =>
      match subs with
      | [p] =>
          match length vars with
          | O => if indep0 (nth_sub w p) (nth_sub o p) then true else parts_indep i w o r
          | S O => if dist0 i (nth_sub w p) (nth_sub o p) then true else parts_indep i w o r
          | _ => false
          end
      | _ => if existsb (fun p => dist0 i (nth_sub w p) (nth_sub o p)) subs then true
             else parts_indep i w o r
      end
  end.

Fixpoint opt_map_all {A B} (f : A -> option B) (l : list A) : option (list B) :=
  match l with
  | [] => Some []
  | x :: r => match f x, opt_map_all f r with Some y, Some ys => Some (y :: ys) | _, _ => None end
  end.

(* None: a subscript outside the modelled class *)
Definition pair_ok (lvs : list name) (w o : acc) : option bool :=
  match opt_map_all aff (a_subs w), opt_map_all aff (a_subs o) with
  | Some sw, Some so =>
      match lvs with
      | i :: _ => Some (parts_indep i sw so (partition lvs sw so))
      | [] => None
      end
  | _, _ => None
  end.

(* messages: (code, variable).  101 written once, 102 reduction, 201 write-write race, 202 dependency *)
Definition msg := (nat * name)%type.

(* inner loop of _array_access_parallelisable for one write access (index wi) *)
Fixpoint arr_scan_o (lvs : list name) (y : name) (w : acc) (wi : nat) (k : nat) (os : list acc)
  : option (option msg) :=
  match os with
  | [] => Some None
  | o :: r =>
      match pair_ok lvs w o with
      | None => None
      | Some true => arr_scan_o lvs y w wi (S k) r
      | Some false => Some (Some ((if Nat.eqb k wi then 201 else 202)%nat, y))
      end
  end.

Fixpoint arr_scan_w (lvs : list name) (y : name) (all : list acc) (k : nat) (ws : list acc)
  : option (option msg) :=
  match ws with
  | [] => Some None
  | w :: r =>
      match a_kind w with
      | AR => arr_scan_w lvs y all (S k) r
      | AW =>
          match arr_scan_o lvs y w k 0%nat all with
          | None => None
          | Some (Some m) => Some (Some m)
          | Some None => arr_scan_w lvs y all (S k) r
          end
      end
  end.

Definition array_msg (lvs : list name) (y : name) (l : list acc) : option (option msg) :=
  if forallb is_rd l then Some None else arr_scan_w lvs y l 0%nat l.

(* _is_scalar_parallelisable *)
Definition scalar_msg (y : name) (l : list acc) : option msg :=
  if forallb is_rd l then None
  else match l with
       | [_] => Some (101%nat, y)
       | a :: _ => if is_rd a then Some (102%nat, y) else None
       | [] => None
       end.

Fixpoint collect_msgs (lvs : list name) (accs : list acc) (ys : list name) : option (list msg) :=
  match ys with
  | [] => Some []
  | y :: r =>
      if memn y lvs then collect_msgs lvs accs r       (* loop variables are skipped *)
      else
        let l := accs_of y accs in
        let here := match l with
                    | a :: _ => if a_arr a then array_msg lvs y l else Some (scalar_msg y l)
                    | [] => Some None
                    end in
        match here, collect_msgs lvs accs r with
        | Some (Some m), Some ms => Some (m :: ms)
        | Some None, Some ms => Some ms
        | _, _ => None
        end
  end.

(* the messages DependencyTools leaves after can_loop_be_parallelised(loop, test_all_variables=True);
   None = some array subscript is outside the modelled class *)
Definition validate_msgs (loop : stmt) : option (list msg) :=
  let accs := fst (saccs [] None false 0%nat loop) in
  collect_msgs (loopvars loop) accs (acc_names accs).

(* validate raises unless every message is WARN_SCALAR_WRITTEN_ONCE *)
Definition accept (loop : stmt) : option bool :=
  match loop with
  | SDo _ _ _ _ _ =>
      if has_excluded loop then Some false
      else match validate_msgs loop with
           | Some ms => Some (forallb (fun m : msg => Nat.eqb (fst m) 101%nat) ms)
           | None => None
           end
  | _ => Some false
  end.

(* ------------------------------------------------------------------------------------------ *)
(** * 4. the parallel semantics *)

(* [mix P a b]: the locations of the names in P come from a, everything else (and the bounds) from b *)
Definition mix (P : list name) (a b : store) : store :=
  mkStore (fun l => if memn (fst l) P then val a l else val b l) (bnd b).

Definition privatised (x : name) (cl : clauses) : list name := x :: c_priv cl ++ c_fpriv cl.

Definition setT (T : nat -> store) (tid : nat) (s : store) : nat -> store :=
  fun t => if Nat.eqb t tid then s else T t.

(* A schedule is a list of (thread, iteration index): iteration k runs as a whole on thread tid, on
   the common store overlaid with that thread's copies of the privatised scalars; the loop variable
   is set by the run time.  EXIT/RETURN leaving the loop, faults and fuel exhaustion give None. *)
Fixpoint omp_iters (run : store -> outcome) (x : name) (l t : Z) (P : list name)
         (sched : list (nat * nat)) (sh : store) (T : nat -> store) : option store :=
  match sched with
  | [] => Some sh
  | (tid, k) :: r =>
      match run (upd (mix P (T tid) sh) (x, []) (l + Z.of_nat k * t)) with
      | Ok s' _ CNormal | Ok s' _ CCycle => omp_iters run x l t P r s' (setT T tid s')
      | _ => None
      end
  end.

(* thread tid starts with junk in its private copies ([junk tid] is arbitrary) and the value at
   region entry in its firstprivate copies *)
Definition omp_exec (f : nat) (cl : clauses) (loop : stmt) (junk : nat -> store)
           (sched : list (nat * nat)) (s : store) : option store :=
  match loop with
  | SDo x lo hi st body =>
      match eval s lo, eval s hi, eval s st with
      | Some l, Some h, Some t =>
          if t =? 0 then None
          else omp_iters (exec f body) x l t (privatised x cl) sched s
                         (fun tid => mix (c_fpriv cl) s (junk tid))
      | _, _, _ => None
      end
  | _ => None
  end.

(* a schedule for n iterations runs each of 0..n-1 exactly once (any thread, any order) *)
Definition nat_count (k : nat) (l : list nat) : nat := length (filter (Nat.eqb k) l).
Definition valid_sched_b (n : nat) (sched : list (nat * nat)) : bool :=
  Nat.eqb (length sched) n && forallb (fun k => Nat.eqb (nat_count k (map snd sched)) 1) (seq 0 n).

(* the shared part: everything whose name is not privatised *)
Definition shared_eq (P : list name) (s1 s2 : store) : Prop :=
  bnd s1 = bnd s2 /\ forall l, memn (fst l) P = false -> val s1 l = val s2 l.

(* ------------------------------------------------------------------------------------------ *)
(** * 5. the sufficient condition [safe] *)

(* e is syntactically  x + c *)
Definition is_xoff (x : name) (c : Z) (e : expr) : bool :=
  match e with
  | EVar y => Nat.eqb y x && Z.eqb c 0
  | EBin Add (EVar y) (ELit d) => Nat.eqb y x && Z.eqb c d
  | EBin Add (ELit d) (EVar y) => Nat.eqb y x && Z.eqb c d
  | EBin Sub (EVar y) (ELit d) => Nat.eqb y x && Z.eqb c (- d)
  | _ => false
  end.

Definition xoff (x : name) (e : expr) : option Z :=
  match e with
  | EVar y => if Nat.eqb y x then Some 0 else None
  | EBin Add (EVar y) (ELit d) => if Nat.eqb y x then Some d else None
  | EBin Add (ELit d) (EVar y) => if Nat.eqb y x then Some d else None
  | EBin Sub (EVar y) (ELit d) => if Nat.eqb y x then Some (- d) else None
  | _ => None
  end.

Definition slices := list (name * (nat * Z)).

Definition slice_of (SL : slices) (a : name) : option (nat * Z) :=
  match find (fun p => Nat.eqb (fst p) a) SL with Some p => Some (snd p) | None => None end.

Section Check.
  Variable P : list name.      (* privatised scalars, including the loop variable *)
  Variable x : name.           (* the parallel loop variable *)
  Variable SL : slices.        (* written arrays: (dimension p, offset c): every access has x + c at p *)

  (* reads of privatised scalars are definitely assigned (in D); every access to a written array
     stays in this iteration's slice; nothing else is ever written, so all other reads are of
     loop-invariant data *)
  Fixpoint eok (D : list name) (e : expr) : bool :=
    match e with
    | ELit _ => true
    | EVar y => if memn y P then memn y D else match slice_of SL y with None => true | Some _ => false end
    | EIdx a ix =>
        negb (memn a P) && match ix with [] => false | _ => true end && forallb (eok D) ix &&
        match slice_of SL a with
        | None => true
        | Some (p, c) => match nth_error ix p with Some e1 => is_xoff x c e1 | None => false end
        end
    | EUn _ e1 => eok D e1
    | EBin _ l r => eok D l && eok D r
    | EIntr f args =>
        if is_inquiry f then match args with [] => true | _ :: r => forallb (eok D) r end
        else forallb (eok D) args
    end.

  (* returns the definitely-assigned set after the statement; None = not in the safe class *)
  Fixpoint chk (D : list name) (s : stmt) {struct s} : option (list name) :=
    match s with
    | SAssign y [] e =>
        if eok D e && memn y P && negb (Nat.eqb y x) then Some (y :: D) else None
    | SAssign a ix e =>
        match slice_of SL a with
        | Some (p, c) =>
            if negb (memn a P) && eok D e && forallb (eok D) ix &&
               match nth_error ix p with Some e1 => is_xoff x c e1 | None => false end
            then Some D else None
        | None => None
        end
    | SIf c th el =>
        let go := fix go (D : list name) (l : list stmt) {struct l} : option (list name) :=
          match l with
          | [] => Some D
          | s1 :: r => match chk D s1 with Some D1 => go D1 r | None => None end
          end in
        if eok D c then
          match go D th, go D el with
          | Some D1, Some D2 => Some (D ++ filter (fun y => memn y D2) D1)
          | _, _ => None
          end
        else None
    | SDo y lo hi st body =>
        let go := fix go (D : list name) (l : list stmt) {struct l} : option (list name) :=
          match l with
          | [] => Some D
          | s1 :: r => match chk D s1 with Some D1 => go D1 r | None => None end
          end in
        if eok D lo && eok D hi && eok D st && memn y P && negb (Nat.eqb y x) then
          match go (y :: D) body with
          | Some _ => Some (y :: D)          (* the body may run zero times *)
          | None => None
          end
        else None
    | _ => None
    end.

  Fixpoint chks (D : list name) (l : list stmt) : option (list name) :=
    match l with
    | [] => Some D
    | s1 :: r => match chk D s1 with Some D1 => chks D1 r | None => None end
    end.
End Check.

(* choosing the slices: for every array written in the body, the first dimension of its first write
   that is  x + c  and that every other access of the array repeats *)

Definition arr_accs (accs : list acc) : list acc := filter a_arr accs.

Definition acc_matches (x : name) (p : nat) (c : Z) (a : acc) : bool :=
  match nth_error (a_subs a) p with Some e => is_xoff x c e | None => false end.

Fixpoint cands (x : name) (p : nat) (ix : list expr) : list (nat * Z) :=
  match ix with
  | [] => []
  | e :: r => match xoff x e with Some c => (p, c) :: cands x (S p) r | None => cands x (S p) r end
  end.

Definition choose_slice (x : name) (accs : list acc) (a : name) : option (nat * Z) :=
  let mine := accs_of a accs in
  match filter (fun w => negb (is_rd w)) mine with
  | [] => None
  | w :: _ => find (fun pc => forallb (acc_matches x (fst pc) (snd pc)) mine) (cands x 0%nat (a_subs w))
  end.

Definition written_arrays (accs : list acc) : list name :=
  dedup (map a_name (filter (fun a => a_arr a && negb (is_rd a)) accs)) [].

Definition choose_slices (x : name) (body : list stmt) : option slices :=
  let accs := region_accs body in
  opt_map_all (fun a => match choose_slice x accs a with Some pc => Some (a, pc) | None => None end)
              (written_arrays accs).

Definition safe_with (cl : clauses) (loop : stmt) : bool :=
  match loop with
  | SDo x lo hi st body =>
      match choose_slices x body with
      | Some SL =>
          match chks (privatised x cl) x SL [x] body with Some _ => true | None => false end
      | None => false
      end
  | _ => false
  end.

(* the clauses PSyclone puts on `!$omp parallel do` around [loop]: the directive body is the loop *)
Definition infer_loop (loop : stmt) : clauses := infer [loop].
Definition safe (loop : stmt) : bool := safe_with (infer_loop loop) loop.

(* ------------------------------------------------------------------------------------------ *)
(** * 6. executable checks used by the correspondence harness (props/C09/check.py) *)

Definition set_eqb (a b : list name) : bool :=
  forallb (fun y => memn y b) a && forallb (fun y => memn y a) b.

(* case: directive body, observed (private, firstprivate, need_sync) *)
Definition infer_case := (list stmt * (list name * list name * list name))%type.
Definition infer_agrees (c : infer_case) : bool :=
  match c with
  | (body, (p, f, ns)) =>
      match infer3 body with
      | (p', f', ns') => set_eqb p p' && set_eqb f f' && set_eqb ns ns'
      end
  end.

(* case: loop, implementation accepted?, observed clauses.  One-directional: an implementation that
   accepts what the model rejects disagrees; a stricter implementation does not. *)
Definition verdict_case := (stmt * bool)%type.
Definition verdict_agrees (c : verdict_case) : bool :=
  match c with
  | (loop, impl_ok) =>
      match accept loop with
      | None => true
      | Some m => if impl_ok then m else true
      end
  end.
Definition verdict_equal (c : verdict_case) : bool :=
  match c with
  | (loop, impl_ok) => match accept loop with None => true | Some m => Bool.eqb m impl_ok end
  end.
Definition verdict_known (c : verdict_case) : bool :=
  match accept (fst c) with None => false | Some _ => true end.

Definition safe_case := (stmt * (list name * list name))%type.
Definition safe_holds (c : safe_case) : bool :=
  match c with (loop, (p, f)) => safe_with (mkClauses p f) loop end.
