(* C09 — footprint of one iteration of a body in the safe class (Model.chks):
   every write goes to a privatised scalar (never the loop variable) or to this iteration's slice of
   a written array; every upward-exposed read is of the loop variable, of loop-invariant data, or of
   this iteration's slice; the body completes normally. *)
From Coq Require Import List ZArith Bool Lia.
Import ListNotations.
From PV Require Import Fort.Syntax Fort.Sem Fort.Facts C09.Model.
Open Scope Z_scope.

Lemma memn_In y l : memn y l = true <-> In y l.
Proof.
  unfold memn. rewrite existsb_exists. split.
  - intros [z [Hz E]]. apply Nat.eqb_eq in E. subst. exact Hz.
  - intro H. exists y. split; [exact H | apply Nat.eqb_refl].
Qed.

Lemma memn_false y l : memn y l = false <-> ~ In y l.
Proof.
  split.
  - intros E H. apply memn_In in H. congruence.
  - intro H. destruct (memn y l) eqn:E; [|reflexivity]. apply memn_In in E. contradiction.
Qed.

Lemma opt_all_nth (l : list (option Z)) : forall vs p z,
  opt_all l = Some vs -> nth_error l p = Some (Some z) -> nth_error vs p = Some z.
Proof.
  induction l as [|o l IH]; intros vs p z H1 H2.
  - destruct p; discriminate.
  - cbn [opt_all] in H1. destruct o as [z0|]; [|discriminate].
    destruct (opt_all l) as [vs0|] eqn:E; [|discriminate]. inversion H1; subst.
    destruct p as [|p]; cbn [nth_error] in *.
    + inversion H2; subst. reflexivity.
    + eapply IH; [reflexivity | exact H2].
Qed.

Section FP.
  Variable P : list name.
  Variable x : name.
  Variable SL : slices.
  Variable v : Z.                       (* the value of the loop variable in this iteration *)
  Hypothesis HxP : memn x P = true.

  Definition allowedW (l : loc) : Prop :=
    (memn (fst l) P = true /\ fst l <> x /\ snd l = []) \/
    (memn (fst l) P = false /\ exists p c, slice_of SL (fst l) = Some (p, c) /\ nth_error (snd l) p = Some (v + c)).

  Definition allowedR (D : list name) (l : loc) : Prop :=
    (memn (fst l) P = true -> snd l = [] /\ In (fst l) D) /\
    (memn (fst l) P = false -> forall p c, slice_of SL (fst l) = Some (p, c) -> nth_error (snd l) p = Some (v + c)).

  Definition fp_ok (D : list name) (tr : list event) (D' : list name) : Prop :=
    (forall l, In l (writes tr) -> allowedW l) /\
    (forall l, In l (exposed tr) -> allowedR D l) /\
    (forall y, In y D' -> In y D \/ In (y, []) (writes tr)).

  Lemma is_xoff_eval c e s :
    is_xoff x c e = true -> val s (x, []) = v -> eval s e = Some (v + c).
  Proof.
    intros H Hv.
    destruct e as [z|y|a ix|o e1|o l r|f args]; try discriminate.
    - cbn [is_xoff] in H. apply andb_true_iff in H as [H1 H2].
      apply Nat.eqb_eq in H1. apply Z.eqb_eq in H2. subst y c. cbn [eval]. rewrite Hv; try reflexivity; f_equal; lia.
    - destruct o; try discriminate.
      + destruct l as [z|y|a ix|o e1|o l1 r1|f args]; try discriminate.
        * destruct r as [z'|y| | | | ]; try discriminate.
          cbn [is_xoff] in H. apply andb_true_iff in H as [H1 H2].
          apply Nat.eqb_eq in H1. apply Z.eqb_eq in H2. subst y c. cbn [eval eval_bin]. rewrite Hv; try reflexivity; f_equal; lia.
        * destruct r as [z'|y'| | | | ]; try discriminate.
          cbn [is_xoff] in H. apply andb_true_iff in H as [H1 H2].
          apply Nat.eqb_eq in H1. apply Z.eqb_eq in H2. subst y c. cbn [eval eval_bin]. rewrite Hv; try reflexivity; f_equal; lia.
      + destruct l as [z|y|a ix|o e1|o l1 r1|f args]; try discriminate.
        destruct r as [z'|y'| | | | ]; try discriminate.
        cbn [is_xoff] in H. apply andb_true_iff in H as [H1 H2].
        apply Nat.eqb_eq in H1. apply Z.eqb_eq in H2. subst y c. cbn [eval eval_bin]. rewrite Hv; try reflexivity; f_equal; lia.
  Qed.

  Lemma slice_nth s ix vs p c e1 :
    val s (x, []) = v -> opt_all (map (eval s) ix) = Some vs ->
    nth_error ix p = Some e1 -> is_xoff x c e1 = true -> nth_error vs p = Some (v + c).
  Proof.
    intros Hv Hvs Hn Hx. eapply opt_all_nth; [exact Hvs|].
    rewrite nth_error_map, Hn. cbn [option_map]. f_equal. eapply is_xoff_eval; eassumption.
  Qed.

  Lemma eok_reads D e : forall s, eok P x SL D e = true -> val s (x, []) = v ->
    forall l, In l (ereads s e) -> allowedR D l.
  Proof.
    induction e as [z|y|a ix IH|o e1 IH|o l1 r1 IH1 IH2|f args IH] using expr_ind'; intros s H Hv l Hl;
      cbn [ereads eok] in *.
    - destruct Hl.
    - destruct Hl as [<-|[]]. unfold allowedR. cbn [fst snd]. split.
      + intro E. rewrite E in H. apply memn_In in H. split; [reflexivity | exact H].
      + intros E p c Hs. rewrite E, Hs in H. discriminate.
    - apply andb_true_iff in H as [H H4]. apply andb_true_iff in H as [H H3].
      apply andb_true_iff in H as [H1 H2]. apply negb_true_iff in H1.
      apply in_app_or in Hl as [Hl|Hl].
      + apply in_flat_map in Hl as [e0 [He0 Hl]].
        rewrite Forall_forall in IH. eapply IH; [exact He0| |exact Hv|exact Hl].
        rewrite forallb_forall in H3. apply H3, He0.
      + destruct (opt_all (map (eval s) ix)) as [vs|] eqn:E; [|destruct Hl].
        destruct Hl as [<-|[]]. unfold allowedR. cbn [fst snd]. split; [intro E1; congruence|].
        intros _ p c Hs. rewrite Hs in H4.
        destruct (nth_error ix p) as [e1|] eqn:En; [|discriminate].
        eapply slice_nth; eassumption.
    - eapply IH; eassumption.
    - apply andb_true_iff in H as [H1 H2]. apply in_app_or in Hl as [Hl|Hl]; [eapply IH1|eapply IH2]; eassumption.
    - rewrite Forall_forall in IH. destruct (is_inquiry f).
      + destruct args as [|a0 r]; [destruct Hl|].
        apply in_flat_map in Hl as [e0 [He0 Hl]]. rewrite forallb_forall in H.
        eapply IH; [right; exact He0|apply H, He0|exact Hv|exact Hl].
      + apply in_flat_map in Hl as [e0 [He0 Hl]]. rewrite forallb_forall in H.
        eapply IH; [exact He0|apply H, He0|exact Hv|exact Hl].
  Qed.

  Lemma eoks_reads D es s : forallb (eok P x SL D) es = true -> val s (x, []) = v ->
    forall l, In l (flat_map (ereads s) es) -> allowedR D l.
  Proof.
    intros H Hv l Hl. apply in_flat_map in Hl as [e0 [He0 Hl]].
    rewrite forallb_forall in H. eapply eok_reads; [apply H, He0|exact Hv|exact Hl].
  Qed.

  Lemma allowedR_drop y D l : allowedR (y :: D) l -> l <> (y, []) -> allowedR D l.
  Proof.
    intros [H1 H2] N. split; [|exact H2].
    intro E. destruct (H1 E) as [E1 [E2|E2]]; [|auto].
    exfalso. apply N. destruct l as [n ix]. cbn [fst snd] in *. subst. reflexivity.
  Qed.

  Lemma allowedR_incl D D2 l : allowedR D l -> incl D D2 -> allowedR D2 l.
  Proof. intros [H1 H2] Hi. split; [|exact H2]. intro E. destruct (H1 E). split; auto. Qed.

  Lemma fp_ok_nil D : fp_ok D [] D.
  Proof. split; [intros l []|split; [intros l []|intros y Hy; left; exact Hy]]. Qed.

  Lemma fp_ok_app D t1 D1 t2 D2 : fp_ok D t1 D1 -> fp_ok D1 t2 D2 -> fp_ok D (t1 ++ t2) D2.
  Proof.
    intros [A1 [A2 A3]] [B1 [B2 B3]]. split; [|split].
    - intros l Hl. rewrite writes_app in Hl. apply in_app_or in Hl as [Hl|Hl]; auto.
    - intros l Hl. apply in_exposed_app in Hl as [Hl|[Hn Hl]]; [auto|].
      destruct (B2 l Hl) as [C1 C2]. split; [|exact C2].
      intro E. destruct (C1 E) as [E1 E2]. split; [exact E1|].
      destruct (A3 _ E2) as [Hd|Hw]; [exact Hd|].
      exfalso. apply Hn. destruct l as [n ix]. cbn [fst snd] in *. subst. exact Hw.
    - intros y Hy. rewrite writes_app. destruct (B3 y Hy) as [Hd|Hw].
      + destruct (A3 y Hd) as [Hd'|Hw]; [left; exact Hd'|right; apply in_or_app; left; exact Hw].
      + right. apply in_or_app. right. exact Hw.
  Qed.

  (* reads R in front of a block *)
  Lemma fp_ok_rds D R tr D' :
    (forall l, In l R -> allowedR D l) -> fp_ok D tr D' -> fp_ok D (rds R ++ tr) D'.
  Proof.
    intros HR [A1 [A2 A3]]. split; [|split].
    - intros l Hl. rewrite writes_rds_app in Hl. auto.
    - intros l Hl. apply in_exposed_app in Hl as [Hl|[_ Hl]]; [|auto].
      rewrite exposed_rds in Hl. auto.
    - intros y Hy. rewrite writes_rds_app. auto.
  Qed.

  Lemma chk_if_eq D c th el :
    chk P x SL D (SIf c th el) =
    if eok P x SL D c then
      match chks P x SL D th, chks P x SL D el with
      | Some D1, Some D2 => Some (D ++ filter (fun y => memn y D2) D1)
      | _, _ => None
      end
    else None.
  Proof. reflexivity. Qed.

  Lemma chk_do_eq D y lo hi st body :
    chk P x SL D (SDo y lo hi st body) =
    if eok P x SL D lo && eok P x SL D hi && eok P x SL D st && memn y P && negb (Nat.eqb y x) then
      match chks P x SL (y :: D) body with Some _ => Some (y :: D) | None => None end
    else None.
  Proof. reflexivity. Qed.

  Definition good (f : nat) : Prop := forall ss D D' s s' tr c,
    chks P x SL D ss = Some D' -> exec f ss s = Ok s' tr c -> val s (x, []) = v ->
    c = CNormal /\ fp_ok D tr D' /\ val s' (x, []) = v.

  Lemma scalar_write_ok y : memn y P = true -> y <> x -> allowedW (y, []).
  Proof. intros H N. left. cbn [fst snd]. auto. Qed.

  (* the iterations of an inner loop over y *)
  Lemma do_loop_fp f body y D Db l t :
    good f -> memn y P = true -> y <> x -> chks P x SL (y :: D) body = Some Db ->
    forall n k s s1 tr c,
    do_loop (exec f body) y l t n k s = Ok s1 tr c -> val s (x, []) = v ->
    c = CNormal /\ fp_ok D tr (y :: D) /\ val s1 (x, []) = v.
  Proof.
    intros IHf HyP Hyx Hb.
    assert (Nx : (x, @nil Z) <> (y, [])) by (intro E; inversion E; congruence).
    induction n as [|n IHn]; intros k s s1 tr c H Hv.
    - cbn [do_loop] in H. inversion H; subst s1 tr c. split; [reflexivity|]. split.
      + split; [|split].
        * intros l0 [<-|[]]. apply scalar_write_ok; assumption.
        * intros l0 Hl. cbn in Hl. destruct Hl.
        * intros y0 [<-|Hy0]; [right; left; reflexivity|left; exact Hy0].
      + rewrite val_upd_other by exact Nx. exact Hv.
    - cbn [do_loop] in H.
      destruct (exec f body (upd s (y, []) (l + k * t))) as [s2 trb cb| |] eqn:E; try discriminate.
      assert (Hv2 : val (upd s (y, []) (l + k * t)) (x, []) = v) by (rewrite val_upd_other by exact Nx; exact Hv).
      destruct (IHf _ _ _ _ _ _ _ Hb E Hv2) as [-> [[B1 [B2 B3]] Hv3]].
      apply prepend_ok_inv in H as [tr0 [H ->]].
      destruct (IHn _ _ _ _ _ H Hv3) as [-> [[C1 [C2 C3]] Hv4]].
      split; [reflexivity|]. split; [|exact Hv4].
      split; [|split].
      + intros l0 Hl. change (Wr (y, []) :: trb) with ([Wr (y, [])] ++ trb) in Hl.
        rewrite !writes_app in Hl. cbn [writes] in Hl.
        destruct Hl as [<-|Hl]; [apply scalar_write_ok; assumption|].
        cbn [app] in Hl. apply in_app_or in Hl as [Hl|Hl]; auto.
      + intros l0 Hl. cbn [app] in Hl. apply in_exposed_cons_wr in Hl as [N Hl].
        apply in_exposed_app in Hl as [Hl|[_ Hl]]; [|auto].
        apply allowedR_drop with (y := y); auto.
      + intros y0 [<-|Hy0]; [right; left; reflexivity|left; exact Hy0].
  Qed.

  Lemma stmt_fp f st D D1 s s1 tr1 c1 :
    good f -> chk P x SL D st = Some D1 -> exec_stmt (exec f) st s = Ok s1 tr1 c1 -> val s (x, []) = v ->
    c1 = CNormal /\ fp_ok D tr1 D1 /\ val s1 (x, []) = v.
  Proof.
    intros IHf Hc He Hv.
    destruct st as [y ix e|c th el|y lo hi st body| | | |es|r body|d body]; try discriminate.
    - (* assignment *)
      cbn [exec_stmt] in He.
      destruct (opt_all (map (eval s) ix)) as [vs|] eqn:Evs; [|discriminate].
      destruct (eval s e) as [z|] eqn:Ez; [|discriminate]. inversion He; subst s1 tr1 c1. clear He.
      split; [reflexivity|].
      destruct ix as [|i0 ix0].
      + (* scalar *)
        cbn [chk] in Hc.
        destruct (eok P x SL D e && memn y P && negb (Nat.eqb y x)) eqn:Eg; [|discriminate].
        inversion Hc; subst D1. apply andb_true_iff in Eg as [Eg G3]. apply andb_true_iff in Eg as [G1 G2].
        apply negb_true_iff in G3. apply Nat.eqb_neq in G3.
        cbn [map opt_all] in Evs. inversion Evs; subst vs.
        split.
        * cbn [flat_map]. rewrite app_nil_r.
          replace (rds (ereads s e) ++ [Wr (y, [])]) with (rds (ereads s e) ++ [Wr (y, [])]) by reflexivity.
          apply fp_ok_rds; [intros l Hl; eapply eok_reads; eassumption|].
          split; [|split].
          -- intros l [<-|[]]. apply scalar_write_ok; assumption.
          -- intros l Hl. cbn in Hl. destruct Hl.
          -- intros y0 [<-|Hy0]; [right; left; reflexivity|left; exact Hy0].
        * rewrite val_upd_other; [exact Hv|]. intro E. inversion E. congruence.
      + (* array element *)
        cbn [chk] in Hc.
        destruct (slice_of SL y) as [[p c]|] eqn:Es; [|discriminate].
        match type of Hc with (if ?g then _ else _) = _ => destruct g eqn:Eg; [|discriminate] end.
        inversion Hc; subst D1. clear Hc.
        apply andb_true_iff in Eg as [Eg G4]. apply andb_true_iff in Eg as [Eg G3].
        apply andb_true_iff in Eg as [G1 G2]. apply negb_true_iff in G1.
        destruct (nth_error (i0 :: ix0) p) as [e1|] eqn:En; [|discriminate].
        assert (Hn : nth_error vs p = Some (v + c)) by (eapply slice_nth; eassumption).
        split.
        * rewrite rds_app, <- app_assoc. apply fp_ok_rds; [intros l Hl; eapply eok_reads; eassumption|].
          apply fp_ok_rds; [intros l Hl; eapply eoks_reads; eassumption|].
          split; [|split].
          -- intros l [<-|[]]. right. cbn [fst snd]. split; [exact G1|]. exists p, c. auto.
          -- intros l Hl. cbn in Hl. destruct Hl.
          -- intros y0 Hy0. left. exact Hy0.
        * rewrite val_upd_other; [exact Hv|]. intro E. inversion E. congruence.
    - (* if *)
      rewrite chk_if_eq in Hc. destruct (eok P x SL D c) eqn:Ec; [|discriminate].
      destruct (chks P x SL D th) as [Dt|] eqn:Et; [|discriminate].
      destruct (chks P x SL D el) as [De|] eqn:Ee; [|discriminate].
      inversion Hc; subst D1. clear Hc.
      cbn [exec_stmt] in He. destruct (eval s c) as [z|] eqn:Ez; [|discriminate].
      apply prepend_ok_inv in He as [tr0 [He ->]].
      assert (HR : forall l, In l (ereads s c) -> allowedR D l) by (intros l Hl; eapply eok_reads; eassumption).
      destruct (z =? 0) eqn:Ezz.
      + destruct (IHf _ _ _ _ _ _ _ Ee He Hv) as [-> [[B1 [B2 B3]] Hv1]].
        split; [reflexivity|]. split; [|exact Hv1]. apply fp_ok_rds; [exact HR|].
        split; [exact B1|split; [exact B2|]].
        intros y Hy. apply in_app_or in Hy as [Hy|Hy]; [left; exact Hy|].
        apply filter_In in Hy as [_ Hy]. apply memn_In in Hy. auto.
      + destruct (IHf _ _ _ _ _ _ _ Et He Hv) as [-> [[B1 [B2 B3]] Hv1]].
        split; [reflexivity|]. split; [|exact Hv1]. apply fp_ok_rds; [exact HR|].
        split; [exact B1|split; [exact B2|]].
        intros y Hy. apply in_app_or in Hy as [Hy|Hy]; [left; exact Hy|].
        apply filter_In in Hy as [Hy _]. auto.
    - (* inner loop *)
      rewrite chk_do_eq in Hc.
      match type of Hc with (if ?g then _ else _) = _ => destruct g eqn:Eg; [|discriminate] end.
      destruct (chks P x SL (y :: D) body) as [Db|] eqn:Eb; [|discriminate].
      inversion Hc; subst D1. clear Hc.
      apply andb_true_iff in Eg as [Eg G5]. apply andb_true_iff in Eg as [Eg G4].
      apply andb_true_iff in Eg as [Eg G3]. apply andb_true_iff in Eg as [G1 G2].
      apply negb_true_iff in G5. apply Nat.eqb_neq in G5.
      cbn [exec_stmt] in He.
      destruct (eval s lo) as [l|] eqn:E1; [|discriminate].
      destruct (eval s hi) as [h|] eqn:E2; [|discriminate].
      destruct (eval s st) as [t|] eqn:E3; [|discriminate].
      destruct (t =? 0); [discriminate|].
      apply prepend_ok_inv in He as [tr0 [He ->]].
      destruct (do_loop_fp f body y D Db l t IHf G4 G5 Eb _ _ _ _ _ _ He Hv) as [-> [Hfp Hv1]].
      split; [reflexivity|]. split; [|exact Hv1].
      apply fp_ok_rds; [|exact Hfp].
      intros l0 Hl. apply in_app_or in Hl as [Hl|Hl]; [exact (eok_reads D lo s G1 Hv l0 Hl)|].
      apply in_app_or in Hl as [Hl|Hl]; [exact (eok_reads D hi s G2 Hv l0 Hl)|exact (eok_reads D st s G3 Hv l0 Hl)].
  Qed.

  Lemma good_all : forall f, good f.
  Proof.
    induction f as [|f IHf]; intros ss D D' s s' tr c Hc He Hv.
    - discriminate.
    - destruct ss as [|st rest].
      + cbn [chks] in Hc. inversion Hc; subst D'. rewrite exec_nil in He. inversion He; subst s' tr c.
        split; [reflexivity|]. split; [apply fp_ok_nil|exact Hv].
      + cbn [chks] in Hc. destruct (chk P x SL D st) as [D1|] eqn:E1; [|discriminate].
        rewrite exec_cons in He. apply then_run_ok_inv in He as [[s1 [tr1 [tr2 [H1 [H2 ->]]]]]|[N H1]].
        * destruct (stmt_fp f st D D1 s s1 tr1 CNormal IHf E1 H1 Hv) as [_ [F1 Hv1]].
          destruct (IHf _ _ _ _ _ _ _ Hc H2 Hv1) as [-> [F2 Hv2]].
          split; [reflexivity|]. split; [|exact Hv2]. eapply fp_ok_app; eassumption.
        * destruct (stmt_fp f st D D1 s s' tr c IHf E1 H1 Hv) as [-> _]. contradiction.
  Qed.

  (* one iteration: started with the loop variable set to v *)
  Theorem iter_fp f body D' s s' tr c :
    chks P x SL [x] body = Some D' -> exec f body s = Ok s' tr c -> val s (x, []) = v ->
    c = CNormal /\ (forall l, In l (writes tr) -> allowedW l) /\ (forall l, In l (exposed tr) -> allowedR [x] l).
  Proof.
    intros Hc He Hv. destruct (good_all f _ _ _ _ _ _ _ Hc He Hv) as [-> [[A1 [A2 _]] _]]. auto.
  Qed.
End FP.
