(* C21 — where the numbered rules of the user guide, read literally, and the code disagree:
   concrete valid metadata on which doc_list differs from what caller AND stub do (any variant). *)
From Coq Require Import List Bool Arith.
Import ListNotations.
From PV Require Import C21.Model C21.Safe C21.Proofs C21.Rules.

Definition doc_differs (m : metadata) : Prop :=
  md_valid m = true /\ stub_supported m = true /\
  forall v, erase_list (doc_list m) <> erase_list (call_list v m) /\
            erase_list (doc_list m) <> erase_list (stub_list v m).
Ltac differs :=
  unfold doc_differs; split; [vm_compute; reflexivity|]; split; [vm_compute; reflexivity|];
  intros [b1 b2]; destruct b1, b2; split; vm_compute; discriminate.

(* General 3.2.4: the XORY1D direction is listed after the stencil dofmap; the code (and the shipped
   kernel testkern_stencil_xory1d_mod) pass size, direction, dofmap *)
Definition w_xory1d : metadata :=
  mkM [MField TReal KRdef AInc W1 1 None None; MField TReal KRdef ARead W2 1 (Some SXory1d) None]
      [] [] [] [] [] CellColumn KOther.
Theorem doc_xory1d_ : doc_differs w_xory1d. Proof. differs. Qed.

(* CMA application 4-6: the indirection maps are listed after all function-space blocks; the code
   (and the shipped kernel columnwise_op_app_kernel_mod) interleave them per space *)
Definition w_apply : metadata :=
  mkM [MField TReal KRdef AInc W1 1 None None; MField TReal KRdef ARead W2 1 None None; MCma ARead W1 W2]
      [] [] [] [] [] CellColumn KOther.
Theorem doc_apply_ : doc_differs w_apply. Proof. differs. Qed.

(* CMA assembly 4-5.1: one ncell_3d before the meta_args loop; the code passes <op>_ncell_3d in front
   of every LMA operator, wherever it stands *)
Definition w_assembly : metadata :=
  mkM [MCma AWrite W2 W3; MOp KRdef ARead W2 W3] [] [] [] [] [] CellColumn KOther.
Theorem doc_assembly_ : doc_differs w_assembly. Proof. differs. Qed.

(* General 4.3: "for each operation ... in the order specified in the metadata"; the code always
   passes basis before diff_basis *)
Definition w_basis_order : metadata :=
  mkM [MField TReal KRdef AInc W1 1 None None] [(W1, [DiffBasis; Basis])] [QXyoz] [] [] [] CellColumn KOther.
Theorem doc_basis_order_ : doc_differs w_basis_order. Proof. differs. Qed.

(* General 5.1-5.3: the face normals are said to be INTEGER arrays of kind i_def; caller and stub
   declare them real(r_def) *)
Definition w_refelem : metadata :=
  mkM [MField TReal KRdef AInc W1 1 None None] [] [] [] [NormH] [] CellColumn KOther.
Theorem doc_refelem_ : doc_differs w_refelem. Proof. differs. Qed.

(* "Rules for Domain Kernels": identical to general-purpose kernels apart from ncell_2d_no_halos;
   the caller passes the WHOLE dofmap (rank 2), as the shipped testkern_domain_mod expects.
   (No stub exists for operates_on = domain.) *)
Definition w_domain : metadata :=
  mkM [MScalar TReal KRdef ARead; MField TReal KRdef AReadWrite W3 1 None None] [] [] [] [] [] Domain KOther.
Theorem doc_domain_ : md_valid w_domain = true /\
  forall v, erase_list (doc_list w_domain) <> erase_list (call_list v w_domain).
Proof. split; [vm_compute; reflexivity|]. intros [b1 b2]; destruct b1, b2; vm_compute; discriminate. Qed.

(* non-vacuity of walk_matches_rules: rules_safe holds of non-trivial metadata of every category *)
Definition r_general : metadata :=
  mkM [MOp KRdef AWrite W0 W1; MField TReal KRsolver ARead W0 3 None None;
       MField TReal KRdef ARead W2 1 (Some SCross2d) None; MScalar TInt KIdef ARead]
      [(W0, [Basis]); (W2, [Basis; DiffBasis])] [QXyoz; QEdge; Evaluator] [W0; W1] [] [AdjacentFace]
      CellColumn KOther.
Definition r_intergrid : metadata :=
  mkM [MField TReal KRdef AReadWrite W3 1 None (Some Coarse); MField TReal KRdef ARead W1 3 None (Some Fine)]
      [] [] [] [] [] CellColumn KOther.
Definition r_assembly : metadata :=
  mkM [MOp KRdef ARead W2 W3; MCma AWrite W2 W3; MScalar TReal KRdef ARead; MField TReal KRdef ARead W3 1 None None]
      [] [] [] [] [] CellColumn KOther.
Definition r_apply : metadata :=
  mkM [MField TReal KRdef AInc W2 1 None None; MCma ARead W2 W2; MField TReal KRdef ARead W2 1 None None]
      [] [] [] [] [] CellColumn KOther.
Definition r_mm : metadata :=
  mkM [MCma ARead W2 W3; MScalar TReal KRdef ARead; MCma AWrite W2 W3] [] [] [] [] [] CellColumn KOther.
Lemma rules_nonvacuous_ :
  forallb (fun m => md_valid m && rules_safe v_unchanged m) [r_general; r_intergrid; r_assembly; r_apply; r_mm] = true /\
  length (doc_list r_general) = 40 /\ length (doc_list r_intergrid) = 14.
Proof. repeat split; vm_compute; reflexivity. Qed.
