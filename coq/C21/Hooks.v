(* C21 — obligations tying the hand-written model to tables regenerated from the tree under test
   (coq/C21/GenHooks.v, written by props/C21/translate.py on every run). *)
From Coq Require Import List String.
Import ListNotations.
From PV Require Import C21.Model C21.Safe C21.Proofs C21.Rules C21.RulesProofs C21.GenHooks.
Local Open Scope string_scope.

(* the order in which ArgOrdering.generate mentions the hooks; [walk] emits events in this order
   (per meta_args entry / per function space inside the two loops) *)
Definition model_hook_order : list string :=
  ["cell_position"; "mesh_height"; "_mesh_ncell2d_no_halos"; "_mesh_ncell2d"; "cell_map";
   "field_vector"; "field"; "stencil_2d_unknown_extent"; "stencil_2d_max_extent"; "stencil_unknown_extent";
   "stencil_unknown_direction"; "stencil_2d"; "stencil"; "operator"; "cma_operator"; "scalar";
   "fs_common"; "fs_intergrid"; "fs_compulsory_field"; "banded_dofmap"; "indirection_dofmap";
   "basis"; "diff_basis"; "field_bcs_kernel"; "operator_bcs_kernel";
   "ref_element_properties"; "mesh_properties"; "quad_rule"].

(* which class implements each hook: (ArgOrdering has a body, KernCallArgList defines, KernStubArgList defines).
   This is what [call_args] / [stub_args] assume: e.g. the stub inherits the no-op cell_map,
   _mesh_ncell2d_no_halos and fs_intergrid (empty lists in stub_args), both classes inherit
   banded_dofmap and ref_element_properties, the stub inherits scalar and fs_common. *)
Definition model_overrides : list (string * (bool * bool * bool)) :=
  [("cell_position", (false, true, true)); ("mesh_height", (false, true, true));
   ("_mesh_ncell2d_no_halos", (false, true, false)); ("_mesh_ncell2d", (false, true, true));
   ("cell_map", (false, true, false)); ("field_vector", (false, true, true)); ("field", (false, true, true));
   ("stencil_2d_unknown_extent", (false, true, true)); ("stencil_2d_max_extent", (false, true, true));
   ("stencil_unknown_extent", (false, true, true)); ("stencil_unknown_direction", (false, true, true));
   ("stencil_2d", (false, true, true)); ("stencil", (false, true, true)); ("operator", (false, true, true));
   ("cma_operator", (false, true, true)); ("scalar", (true, true, false)); ("fs_common", (true, true, false));
   ("fs_intergrid", (false, true, false)); ("fs_compulsory_field", (false, true, true));
   ("banded_dofmap", (true, false, false)); ("indirection_dofmap", (true, false, true));
   ("basis", (false, true, true)); ("diff_basis", (false, true, true));
   ("field_bcs_kernel", (false, true, true)); ("operator_bcs_kernel", (false, true, true));
   ("ref_element_properties", (true, false, false)); ("mesh_properties", (false, true, true));
   ("quad_rule", (false, true, true))].

Lemma hook_order_ok_ : gen_hook_order = model_hook_order.
Proof. reflexivity. Qed.
Lemma overrides_ok_ : gen_overrides = model_overrides.
Proof. reflexivity. Qed.

(* the theorems instantiated at the variant found in the tree under test *)
Lemma here_call_matches_stub_ : forall m, safe gen_variant true m = true ->
  call_list gen_variant m = stub_list gen_variant m.
Proof. exact (call_matches_stub_ gen_variant). Qed.
Lemma here_walk_matches_rules_ : forall m, rules_safe gen_variant m = true ->
  erase_list (doc_list m) = erase_list (call_list gen_variant m).
Proof. exact (walk_matches_rules_ gen_variant). Qed.
