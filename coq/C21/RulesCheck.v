(* C21 — executable form of walk_matches_rules (evaluated on generated metadata by the harness;
   the theorem itself is in RulesProofs.v).  Definitions only. *)
From Coq Require Import List Bool Arith.
Import ListNotations.
From PV Require Import C21.Model C21.Safe C21.Rules.

Scheme Equality for fspace.
Scheme Equality for shape.
Scheme Equality for refprop.
Scheme Equality for role.
Scheme Equality for ity.
Scheme Equality for intent.

Definition erased_eqb (a b : role * (ity * nat * intent)) : bool :=
  role_beq (fst a) (fst b) && ity_beq (fst (fst (snd a))) (fst (fst (snd b))) &&
  Nat.eqb (snd (fst (snd a))) (snd (fst (snd b))) && intent_beq (snd (snd a)) (snd (snd b)).
Fixpoint leqb {A} (eqb : A -> A -> bool) (a b : list A) : bool :=
  match a, b with
  | [], [] => true
  | x :: a', y :: b' => eqb x y && leqb eqb a' b'
  | _, _ => false
  end.
(* the documented list equals what the caller passes (kinds aside) *)
Definition doc_matches_call (v : variant) (m : metadata) : bool :=
  leqb erased_eqb (erase_list (doc_list m)) (erase_list (call_list v m)).
Definition doc_matches_stub (v : variant) (m : metadata) : bool :=
  leqb erased_eqb (erase_list (doc_list m)) (erase_list (stub_list v m)).
(* case = (metadata, rules_safe as computed by the harness' mirror) *)
Definition rules_case_ok (v : variant) (c : metadata * bool) : bool :=
  Bool.eqb (snd c) (rules_safe v (fst c)) &&
  (negb (rules_safe v (fst c)) || doc_matches_call v (fst c)).
