(* C21 — walk_matches_rules: for ALL metadata satisfying [rules_safe] the argument list built by
   ArgOrdering.generate + KernCallArgList equals (kinds aside) the list prescribed by the numbered rules
   of the user guide; refutations for the places where the guide and the code disagree. *)
From Coq Require Import List Bool Arith Lia.
Import ListNotations.
From PV Require Import C21.Model C21.Safe C21.Proofs C21.Rules.

(* ------------------------------------------------------------------ generic list facts *)
Lemma flat_map_flat_map : forall {A B C} (g : B -> list C) (f : A -> list B) (l : list A),
  flat_map g (flat_map f l) = flat_map (fun x => flat_map g (f x)) l.
Proof.
  intros A B C g f l; induction l as [|x r IH]; simpl; [reflexivity|].
  rewrite flat_map_app, IH; reflexivity.
Qed.
Lemma flat_map_ext_in : forall {A B} (f g : A -> list B) (l : list A),
  (forall x, In x l -> f x = g x) -> flat_map f l = flat_map g l.
Proof.
  intros A B f g l; induction l as [|x r IH]; simpl; intros H; [reflexivity|].
  rewrite (H x (or_introl eq_refl)), IH; [reflexivity|]. intros y Hy; apply H; right; exact Hy.
Qed.
Lemma flat_map_nil_all : forall {A B} (f : A -> list B) (l : list A),
  (forall x, f x = []) -> flat_map f l = [].
Proof. intros A B f l H; induction l as [|x r IH]; simpl; [reflexivity|]. rewrite H, IH; reflexivity. Qed.

Lemma fs_eqb_eq : forall a b, fs_eqb a b = true -> a = b.
Proof.
  intros a b H; destruct a, b; simpl in H; try discriminate; try reflexivity;
    apply Nat.eqb_eq in H; subst; reflexivity.
Qed.
Lemma fs_eqb_refl : forall a, fs_eqb a a = true.
Proof. intros a; destruct a; simpl; try reflexivity; apply Nat.eqb_refl. Qed.

Lemma dedup_incl : forall {A} (eqb : A -> A -> bool) l seen x, In x (dedup eqb seen l) -> In x l.
Proof.
  intros A eqb l; induction l as [|y r IH]; intros seen x H; [exact H|].
  cbn [dedup] in H. destruct (existsb (eqb y) seen).
  - right; exact (IH _ _ H).
  - destruct H as [H|H]; [left; exact H|right; exact (IH _ _ H)].
Qed.

Lemma is_none_hd : forall {A} (l : list A), is_none (hd_error l) = true -> l = [].
Proof. intros A l H; destruct l; [reflexivity|discriminate]. Qed.

(* ------------------------------------------------------------------ arguments segment *)
Lemma call_args_events : forall v arr l i,
  flat_map (call_args v) (args_events arr i l) =
  doc_args (fun i a => flat_map (call_args v) (arg_events arr i a)) i l.
Proof.
  intros v arr l; induction l as [|a r IH]; intros i; [reflexivity|].
  cbn [args_events doc_args]. rewrite flat_map_app, IH. reflexivity.
Qed.

Lemma doc_args_erase_ext : forall (h h' : nat -> marg -> list slot) l i,
  (forall i a, In a l -> erase_list (h i a) = erase_list (h' i a)) ->
  erase_list (doc_args h i l) = erase_list (doc_args h' i l).
Proof.
  intros h h' l; induction l as [|a r IH]; intros i H; [reflexivity|].
  cbn [doc_args]. unfold erase_list in *. rewrite !map_app.
  rewrite (H i a (or_introl eq_refl)), (IH (S i)); [reflexivity|].
  intros j b Hb; apply H; right; exact Hb.
Qed.

Lemma arg_general : forall v arr i a, no_xory1d a = true ->
  erase_list (flat_map (call_args v) (arg_events arr i a)) = erase_list (doc_arg_general i a).
Proof.
  intros v arr i a H. destruct a as [t k acc|t k acc f vec st ms|k acc t f|acc t f].
  - reflexivity.
  - cbn [arg_events doc_arg_general doc_field].
    unfold no_xory1d in H; cbn [arg_stencil] in H.
    rewrite flat_map_app. unfold erase_list. rewrite !map_app. f_equal.
    + destruct (Nat.ltb 1 vec); cbn [flat_map call_args app]; [|reflexivity].
      rewrite app_nil_r. apply vec_slots_erase; reflexivity.
    + destruct st as [s|]; [|reflexivity]. destruct s; try discriminate; reflexivity.
  - reflexivity.
  - cbn [arg_events doc_arg_general doc_cma flat_map call_args]. destruct (fs_eqb t f); reflexivity.
Qed.

(* ------------------------------------------------------------------ facts about CMA classification *)
Lemma filter_nil_existsb : forall {A} (p : A -> bool) l, filter p l = [] -> existsb p l = false.
Proof.
  intros A p l; induction l as [|x r IH]; simpl; intros H; [reflexivity|].
  destruct (p x); [discriminate|]. exact (IH H).
Qed.
Lemma filter_cons_existsb : forall {A} (p : A -> bool) l x r, filter p l = x :: r -> existsb p l = true.
Proof.
  intros A p l; induction l as [|y t IH]; simpl; intros x r H; [discriminate|].
  destruct (p y); [reflexivity|]. exact (IH _ _ H).
Qed.
Lemma cma_none : forall m, cma_operation m = None -> filter is_cma (m_args m) = [].
Proof.
  intros m H. unfold cma_operation in H. destruct (filter is_cma (m_args m)); [reflexivity|].
  destruct (Nat.eqb _ 0); [discriminate|]. destruct (Nat.eqb _ 1); discriminate.
Qed.
Lemma cma_some : forall m c, cma_operation m = Some c -> existsb is_cma (m_args m) = true.
Proof.
  intros m c H. unfold cma_operation in H. destruct (filter is_cma (m_args m)) eqn:E; [discriminate|].
  exact (filter_cons_existsb _ _ _ _ E).
Qed.
Lemma no_cma_on_space : forall l f, filter is_cma l = [] ->
  existsb (fun a => match a with MCma _ t g => fs_eqb t f || fs_eqb g f | _ => false end) l = false.
Proof.
  intros l f; induction l as [|a r IH]; simpl; intros H; [reflexivity|].
  destruct a; simpl in *; try exact (IH H). discriminate.
Qed.
Lemma no_cma_has_operator : forall l, filter is_cma l = [] ->
  existsb (fun a => is_lma a || is_cma a) l = existsb is_lma l.
Proof.
  intros l; induction l as [|a r IH]; simpl; intros H; [reflexivity|].
  destruct a; simpl in *; try reflexivity; try (rewrite (IH H); reflexivity). discriminate.
Qed.

(* ------------------------------------------------------------------ basis functions of one space *)
Lemma call_basis : forall v f sh tg, v_basis_in_shape_order v || quad_then_eval [] sh = true ->
  call_args v (EBasis f sh tg) =
  basis_in_shape_order (fun s => (RBasisQ f s, real_in 4)) (fun t => (RBasisE f t, real_in 3)) sh tg.
Proof. intros v f sh tg H. exact (event_agree_ v (EBasis f sh tg) H). Qed.
Lemma call_diff_basis : forall v f sh tg, v_basis_in_shape_order v || quad_then_eval [] sh = true ->
  call_args v (EDiffBasis f sh tg) =
  basis_in_shape_order (fun s => (RDiffBasisQ f s, real_in 4)) (fun t => (RDiffBasisE f t, real_in 3)) sh tg.
Proof. intros v f sh tg H. exact (event_agree_ v (EDiffBasis f sh tg) H). Qed.

Definition basis_events (m : metadata) (f : fspace) : list event :=
  match func_of (m_funcs m) f with
  | None => []
  | Some (b, d) =>
      (if b then [EBasis f (eval_shapes m) (eval_targets m)] else []) ++
      (if d then [EDiffBasis f (eval_shapes m) (eval_targets m)] else [])
  end.

Lemma basis_part : forall v m f,
  forallb ops_in_code_order (m_funcs m) = true ->
  v_basis_in_shape_order v || quad_then_eval [] (eval_shapes m) = true ->
  flat_map (call_args v) (basis_events m f) = doc_basis m f.
Proof.
  intros v m f Hops Hq. unfold basis_events, doc_basis.
  generalize (eval_shapes m) (eval_targets m) Hq. intros sh tg Hq'. clear Hq.
  induction (m_funcs m) as [|[g ops] r IH]; [reflexivity|].
  cbn [forallb] in Hops. apply andb_prop in Hops; destruct Hops as [Ho Hr].
  cbn [func_of ops_of]. destruct (fs_eqb g f); [|exact (IH Hr)].
  unfold ops_in_code_order in Ho; cbn [snd] in Ho.
  destruct ops as [|o1 [|o2 [|o3 ops']]]; try destruct o1; try destruct o2; try discriminate;
    cbn [existsb is_basis negb orb app flat_map];
    rewrite ?(call_basis v f sh tg Hq'), ?(call_diff_basis v f sh tg Hq'), ?app_nil_r; reflexivity.
Qed.

(* ------------------------------------------------------------------ trailing segments *)
Lemma qr_part : forall v m, v_basis_in_shape_order v || quad_then_eval [] (eval_shapes m) = true ->
  nodupb shape_eqb (filter is_quad (eval_shapes m)) = true ->
  flat_map (call_args v)
    (if basis_required m then match qr_rules m with [] => [] | q => [EQuadRule q] end else []) =
  flat_map doc_qr (filter is_quad (eval_shapes m)).
Proof.
  intros v m _ Hnd. unfold qr_rules, eval_shapes in *.
  destruct (basis_required m); [|reflexivity].
  assert (Hd : forall l seen, (forall x, In x seen -> existsb (shape_eqb x) l = false) ->
               nodupb shape_eqb l = true -> dedup shape_eqb seen l = l).
  { induction l as [|x r IH]; intros seen Hs Hn; [reflexivity|].
    cbn [nodupb] in Hn. apply andb_prop in Hn; destruct Hn as [Hx Hr]. apply negb_true_iff in Hx.
    cbn [dedup].
    assert (Hns : existsb (shape_eqb x) seen = false).
    { destruct (existsb (shape_eqb x) seen) eqn:E; [|reflexivity].
      apply existsb_exists in E; destruct E as [y [Hy Hxy]].
      specialize (Hs y Hy). cbn [existsb] in Hs. apply orb_false_elim in Hs; destruct Hs as [Hs _].
      destruct x, y; simpl in *; congruence. }
    rewrite Hns. f_equal. apply IH; [|exact Hr].
    intros y [Hy|Hy].
    - subst y. exact Hx.
    - specialize (Hs y Hy). cbn [existsb] in Hs. apply orb_false_elim in Hs; tauto. }
  unfold uniq_shape. rewrite (Hd _ [] (fun x (H : In x []) => match H with end) Hnd).
  assert (Hq : forall s, doc_qr s = qr_slots s) by (intros s; destruct s; reflexivity).
  rewrite (flat_map_ext _ _ Hq).
  destruct (filter is_quad (m_shapes m)) as [|q r] eqn:E; [reflexivity|].
  cbn [flat_map call_args app]. rewrite app_nil_r. reflexivity.
Qed.


(* ------------------------------------------------------------------ general-purpose kernels *)
Lemma fs_general : forall v m f,
  is_intergrid m = false -> cma_operation m = None -> m_opon m = CellColumn -> m_name m = KOther ->
  forallb ops_in_code_order (m_funcs m) = true ->
  v_basis_in_shape_order v || quad_then_eval [] (eval_shapes m) = true ->
  flat_map (call_args v) (fs_events m f) = doc_fs_general m f.
Proof.
  intros v m f Hig Hc Ho Hn Hops Hq.
  unfold fs_events, doc_fs_general, cma_is, cma_on_space.
  rewrite Hig, Hc, Ho, Hn, (no_cma_on_space _ f (cma_none m Hc)).
  fold (basis_events m f). cbn [negb andb]. rewrite !flat_map_app, (basis_part v m f Hops Hq).
  destruct (field_on_space m f); cbn [flat_map call_args app in_cols]; rewrite ?app_nil_r; reflexivity.
Qed.

Lemma mesh_part : forall m, m_refelem m = [] -> mesh_slots (m_mesh m) false = doc_mesh m.
Proof. intros m H. unfold doc_mesh, mesh_slots. rewrite H. reflexivity. Qed.

Lemma rules_general : forall v m,
  is_intergrid m = false -> cma_operation m = None -> m_opon m = CellColumn -> m_name m = KOther ->
  forallb no_xory1d (m_args m) = true -> m_refelem m = [] ->
  forallb ops_in_code_order (m_funcs m) = true ->
  v_basis_in_shape_order v || quad_then_eval [] (eval_shapes m) = true ->
  nodupb shape_eqb (filter is_quad (eval_shapes m)) = true ->
  erase_list (doc_general m false) = erase_list (call_list v m).
Proof.
  intros v m Hig Hc Ho Hn Hx Hr Hops Hq Hnd.
  unfold call_list, walk, doc_general, cma_is, has_operator, has_cma.
  rewrite Hig, Hc, Ho, Hn, Hr, (no_cma_has_operator _ (cma_none m Hc)),
          (filter_nil_existsb _ _ (cma_none m Hc)).
  cbn [orb]. rewrite !flat_map_app.
  rewrite (qr_part v m Hq Hnd), flat_map_flat_map,
          (flat_map_ext _ _ (fun f => fs_general v m f Hig Hc Ho Hn Hops Hq)), call_args_events.
  cbn [flat_map call_args app refelem_slots dedup map existsb in_cols].
  rewrite app_nil_r, (mesh_part m Hr).
  assert (Ha : erase_list (doc_args doc_arg_general 0 (m_args m)) =
               erase_list (doc_args (fun i a => flat_map (call_args v)
                                       (arg_events (sizes_declared_as_arrays m) i a)) 0 (m_args m))).
  { apply doc_args_erase_ext. intros i a Hin. symmetry. apply arg_general.
    exact (proj1 (forallb_forall _ _) Hx a Hin). }
  cbn [doc_refelem existsb map app].
  unfold erase_list in *.
  destruct (existsb is_lma (m_args m)); cbn [flat_map call_args app map]; rewrite !map_app, Ha; reflexivity.
Qed.

(* ------------------------------------------------------------------ helpers for the other categories *)
Lemma cma_has_operator : forall l, existsb is_cma l = true ->
  existsb (fun a => is_lma a || is_cma a) l = true.
Proof.
  intros l; induction l as [|a r IH]; simpl; intros H; [discriminate|].
  destruct (is_cma a); [rewrite orb_true_r; reflexivity|]. simpl in H. rewrite (IH H). apply orb_true_r.
Qed.
Lemma cma_op_of_filter_nil : forall m, filter is_cma (m_args m) = [] -> cma_operation m = None.
Proof. intros m H. unfold cma_operation. rewrite H. reflexivity. Qed.
Lemma fields_no_cma : forall l, forallb is_field l = true -> filter is_cma l = [].
Proof.
  intros l; induction l as [|a r IH]; simpl; intros H; [reflexivity|].
  apply andb_prop in H; destruct H as [Ha Hr]. destruct a; try discriminate. simpl. exact (IH Hr).
Qed.
Lemma fields_no_lma : forall l, forallb is_field l = true -> existsb is_lma l = false.
Proof.
  intros l; induction l as [|a r IH]; simpl; intros H; [reflexivity|].
  apply andb_prop in H; destruct H as [Ha Hr]. destruct a; try discriminate. simpl. exact (IH Hr).
Qed.
Lemma fields_fos : forall m f, forallb is_field (m_args m) = true -> In f (unique_fss m) ->
  field_on_space m f = true.
Proof.
  intros m f Hf Hin. unfold unique_fss, uniq_fs in Hin. apply dedup_incl in Hin.
  apply in_flat_map in Hin. destruct Hin as [a [Ha Hfa]].
  pose proof (proj1 (forallb_forall _ _) Hf a Ha) as Hfield.
  unfold field_on_space. apply existsb_exists. exists a. split; [exact Ha|].
  destruct a; try discriminate. simpl in Hfa. destruct Hfa as [Hfa|[]]. subst. apply fs_eqb_refl.
Qed.
Lemma no_fields_fos : forall l f, forallb (fun a => is_cma a || is_scalar a) l = true ->
  existsb (fun a => match a with MField _ _ _ g _ _ _ => fs_eqb g f | _ => false end) l = false.
Proof.
  intros l f; induction l as [|a r IH]; simpl; intros H; [reflexivity|].
  apply andb_prop in H; destruct H as [Ha Hr]. destruct a; try discriminate; simpl; exact (IH Hr).
Qed.
Lemma field_arg : forall i a, is_field a = true -> doc_arg_general i a = doc_field i a.
Proof. intros i a H; destruct a; try discriminate; reflexivity. Qed.

(* ------------------------------------------------------------------ inter-grid kernels *)
Lemma fs_intergrid : forall v m f,
  is_intergrid m = true -> m_funcs m = [] -> forallb is_field (m_args m) = true ->
  m_opon m = CellColumn -> m_name m = KOther -> In f (unique_fss m) ->
  flat_map (call_args v) (fs_events m f) = doc_fs_intergrid m f.
Proof.
  intros v m f Hig Hf Hfl Ho Hn Hin.
  unfold fs_events, doc_fs_intergrid, cma_on_space.
  rewrite Hig, Hf, Ho, Hn, (fields_fos m f Hfl Hin), (no_cma_on_space _ f (fields_no_cma _ Hfl)).
  cbn [negb andb func_of app]. rewrite andb_false_r. cbn [app flat_map].
  destruct (mesh_of_space (m_args m) f) as [[|]|]; reflexivity.
Qed.

Lemma rules_intergrid : forall v m,
  is_intergrid m = true -> m_funcs m = [] -> m_mesh m = [] -> forallb is_field (m_args m) = true ->
  m_opon m = CellColumn -> m_name m = KOther -> forallb no_xory1d (m_args m) = true -> m_refelem m = [] ->
  erase_list (doc_intergrid m) = erase_list (call_list v m).
Proof.
  intros v m Hig Hf Hm Hfl Ho Hn Hx Hr.
  pose proof (fields_no_cma _ Hfl) as Hnc. pose proof (cma_op_of_filter_nil m Hnc) as Hc.
  unfold call_list, walk, doc_intergrid, cma_is, has_operator, has_cma, basis_required.
  rewrite Hig, Hc, Ho, Hn, Hr, Hm, Hf, (no_cma_has_operator _ Hnc), (fields_no_lma _ Hfl),
          (filter_nil_existsb _ _ Hnc).
  cbn [orb existsb]. rewrite !flat_map_app, flat_map_flat_map,
    (flat_map_ext_in _ _ _ (fun f Hin => fs_intergrid v m f Hig Hf Hfl Ho Hn Hin)), call_args_events.
  cbn [flat_map call_args app refelem_slots mesh_slots dedup map existsb in_cols].
  assert (Ha : erase_list (doc_args doc_field 0 (m_args m)) =
               erase_list (doc_args (fun i a => flat_map (call_args v)
                                       (arg_events (sizes_declared_as_arrays m) i a)) 0 (m_args m))).
  { apply doc_args_erase_ext. intros i a Hin. symmetry.
    rewrite <- (field_arg i a (proj1 (forallb_forall _ _) Hfl a Hin)).
    apply arg_general. exact (proj1 (forallb_forall _ _) Hx a Hin). }
  unfold erase_list in *. cbn [map]. rewrite !map_app, Ha, ?app_nil_r. reflexivity.
Qed.

(* ------------------------------------------------------------------ CMA matrix-matrix kernels *)
Lemma fs_mm : forall v m f,
  is_intergrid m = false -> cma_operation m = Some MatrixMatrix -> m_funcs m = [] ->
  forallb (fun a => is_cma a || is_scalar a) (m_args m) = true -> m_name m = KOther ->
  flat_map (call_args v) (fs_events m f) = [].
Proof.
  intros v m f Hig Hc Hf Hcs Hn.
  unfold fs_events, cma_is, field_on_space. rewrite Hig, Hc, Hf, Hn, (no_fields_fos _ f Hcs).
  cbn [negb andb func_of app]. destruct (cma_on_space m f); reflexivity.
Qed.
Lemma mm_arg : forall i a, is_cma a || is_scalar a = true -> doc_arg_general i a = doc_arg_mm i a.
Proof. intros i a H; destruct a; try discriminate; reflexivity. Qed.

Lemma rules_mm : forall v m,
  is_intergrid m = false -> cma_operation m = Some MatrixMatrix -> m_funcs m = [] -> m_mesh m = [] ->
  forallb (fun a => is_cma a || is_scalar a) (m_args m) = true ->
  m_opon m = CellColumn -> m_name m = KOther -> forallb no_xory1d (m_args m) = true -> m_refelem m = [] ->
  erase_list (doc_mm m) = erase_list (call_list v m).
Proof.
  intros v m Hig Hc Hf Hm Hcs Ho Hn Hx Hr.
  pose proof (cma_some m _ Hc) as Hex.
  unfold call_list, walk, doc_mm, cma_is, has_operator, has_cma, basis_required.
  rewrite Hig, Hc, Ho, Hn, Hr, Hm, Hf, (cma_has_operator _ Hex), Hex.
  cbn [orb existsb]. rewrite !flat_map_app, flat_map_flat_map,
    (flat_map_nil_all _ _ (fun f => fs_mm v m f Hig Hc Hf Hcs Hn)), call_args_events.
  cbn [flat_map call_args app refelem_slots mesh_slots dedup map existsb].
  assert (Ha : erase_list (doc_args doc_arg_mm 0 (m_args m)) =
               erase_list (doc_args (fun i a => flat_map (call_args v)
                                       (arg_events (sizes_declared_as_arrays m) i a)) 0 (m_args m))).
  { apply doc_args_erase_ext. intros i a Hin. symmetry.
    rewrite <- (mm_arg i a (proj1 (forallb_forall _ _) Hcs a Hin)).
    apply arg_general. exact (proj1 (forallb_forall _ _) Hx a Hin). }
  unfold erase_list in *. cbn [map]. rewrite ?map_app, Ha, ?app_nil_r. reflexivity.
Qed.

(* ------------------------------------------------------------------ CMA assembly kernels *)
Lemma fs_asm : forall v m f,
  is_intergrid m = false -> cma_operation m = Some Assembly -> m_funcs m = [] ->
  m_opon m = CellColumn -> m_name m = KOther ->
  flat_map (call_args v) (fs_events m f) = doc_fs_asm m f.
Proof.
  intros v m f Hig Hc Hf Ho Hn.
  unfold fs_events, doc_fs_asm, cma_is. rewrite Hig, Hc, Hf, Ho, Hn.
  cbn [negb andb func_of app].
  destruct (field_on_space m f), (cma_on_space m f); reflexivity.
Qed.
Lemma asm_arg : forall i a, is_lma a = false -> doc_arg_general i a = doc_arg_asm i a.
Proof. intros i a H; destruct a; try discriminate; reflexivity. Qed.

Lemma rules_assembly : forall v m,
  is_intergrid m = false -> cma_operation m = Some Assembly -> m_funcs m = [] -> m_mesh m = [] ->
  lma_first_only m = true ->
  m_opon m = CellColumn -> m_name m = KOther -> forallb no_xory1d (m_args m) = true -> m_refelem m = [] ->
  erase_list (doc_assembly m) = erase_list (call_list v m).
Proof.
  intros v m Hig Hc Hf Hm Hl Ho Hn Hx Hr.
  pose proof (cma_some m _ Hc) as Hex.
  unfold call_list, walk, doc_assembly, cma_is, has_operator, has_cma, basis_required.
  rewrite Hig, Hc, Ho, Hn, Hr, Hm, Hf, (cma_has_operator _ Hex), Hex.
  cbn [orb existsb]. rewrite !flat_map_app, flat_map_flat_map,
    (flat_map_ext _ _ (fun f => fs_asm v m f Hig Hc Hf Ho Hn)), call_args_events.
  unfold lma_first_only in Hl. destruct (m_args m) as [|a r] eqn:Ea; [discriminate|].
  apply andb_prop in Hl; destruct Hl as [Hla Hlr]. apply negb_true_iff in Hlr.
  destruct a as [| |k acc t f|]; try discriminate.
  cbn [forallb] in Hx. apply andb_prop in Hx; destruct Hx as [_ Hxr].
  cbn [first_lma is_lma doc_args doc_arg_asm arg_events].
  cbn [flat_map call_args app refelem_slots mesh_slots dedup map existsb in_cols].
  assert (Ha : erase_list (doc_args doc_arg_asm 1 r) =
               erase_list (doc_args (fun i a => flat_map (call_args v)
                                       (arg_events (sizes_declared_as_arrays m) i a)) 1 r)).
  { apply doc_args_erase_ext. intros i a Hin. symmetry.
    assert (Hna : is_lma a = false).
    { destruct (is_lma a) eqn:E; [|reflexivity].
      assert (existsb is_lma r = true) by (apply existsb_exists; exists a; tauto). congruence. }
    rewrite <- (asm_arg i a Hna).
    apply arg_general. exact (proj1 (forallb_forall _ _) Hxr a Hin). }
  unfold erase_list in *. cbn [map]. rewrite ?map_app, Ha, ?app_nil_r. reflexivity.
Qed.

(* ------------------------------------------------------------------ CMA application kernels *)
Lemma cma_spaces_on : forall m t, cma_spaces m = [t] -> cma_on_space m t = true.
Proof.
  intros m t H. unfold cma_spaces in H.
  destruct (filter is_cma (m_args m)) as [|a r] eqn:E; [discriminate|].
  assert (Hin : In a (m_args m)).
  { apply (proj1 (filter_In is_cma a (m_args m))). rewrite E. left; reflexivity. }
  destruct a as [| | |acc t' f']; try discriminate.
  unfold cma_on_space. apply existsb_exists. exists (MCma acc t' f'). split; [exact Hin|].
  destruct (fs_eqb t' f'); inversion H; subst; rewrite fs_eqb_refl; reflexivity.
Qed.
Lemma apply_arg : forall i a, is_field a || is_cma a = true -> doc_arg_general i a = doc_arg_apply i a.
Proof. intros i a H; destruct a; try discriminate; reflexivity. Qed.

Lemma rules_apply : forall v m t,
  is_intergrid m = false -> cma_operation m = Some Apply -> m_funcs m = [] -> m_mesh m = [] ->
  forallb (fun a => is_field a || is_cma a) (m_args m) = true ->
  cma_spaces m = [t] -> unique_fss m = [t] -> field_on_space m t = true ->
  m_opon m = CellColumn -> m_name m = KOther -> forallb no_xory1d (m_args m) = true -> m_refelem m = [] ->
  erase_list (doc_apply m) = erase_list (call_list v m).
Proof.
  intros v m t Hig Hc Hf Hm Hfc Hcs Hu Hfos Ho Hn Hx Hr.
  pose proof (cma_some m _ Hc) as Hex. pose proof (cma_spaces_on m t Hcs) as Hon.
  unfold call_list, walk, doc_apply, cma_is, has_operator, has_cma, basis_required.
  rewrite Hig, Hc, Ho, Hn, Hr, Hm, Hf, Hcs, Hu, (cma_has_operator _ Hex), Hex.
  cbn [orb existsb]. rewrite !flat_map_app, call_args_events.
  change (flat_map (fs_events m) [t]) with (fs_events m t ++ []). rewrite app_nil_r.
  unfold fs_events, cma_is. rewrite Hig, Hc, Hf, Ho, Hn, Hfos, Hon.
  cbn [negb andb func_of flat_map call_args app refelem_slots mesh_slots dedup map existsb in_cols].
  assert (Ha : erase_list (doc_args doc_arg_apply 0 (m_args m)) =
               erase_list (doc_args (fun i a => flat_map (call_args v)
                                       (arg_events (sizes_declared_as_arrays m) i a)) 0 (m_args m))).
  { apply doc_args_erase_ext. intros i a Hin. symmetry.
    rewrite <- (apply_arg i a (proj1 (forallb_forall _ _) Hfc a Hin)).
    apply arg_general. exact (proj1 (forallb_forall _ _) Hx a Hin). }
  unfold erase_list in *. cbn [map]. rewrite ?map_app, Ha, ?app_nil_r. reflexivity.
Qed.

(* ------------------------------------------------------------------ the theorem *)
Theorem walk_matches_rules_ : forall v m, rules_safe v m = true ->
  erase_list (doc_list m) = erase_list (call_list v m).
Proof.
  intros v m H. unfold rules_safe in H.
  repeat (apply andb_prop in H; let H' := fresh "H" in destruct H as [H H']).
  rename H into Hcc.
  assert (Ho : m_opon m = CellColumn) by (destruct (m_opon m); simpl in Hcc; congruence).
  assert (Hn : m_name m = KOther) by (destruct (m_name m); simpl in *; congruence).
  apply is_none_hd in H4.
  unfold doc_list. destruct (is_intergrid m) eqn:Hig.
  - unfold plain in H0. apply andb_prop in H0; destruct H0 as [Hp Hfl].
    apply andb_prop in Hp; destruct Hp as [Hf Hm]. apply is_none_hd in Hf. apply is_none_hd in Hm.
    apply rules_intergrid; assumption.
  - destruct (cma_operation m) as [[| |]|] eqn:Hc.
    + apply andb_prop in H0; destruct H0 as [Hp Hl]. unfold plain in Hp.
      apply andb_prop in Hp; destruct Hp as [Hf Hm]. apply is_none_hd in Hf. apply is_none_hd in Hm.
      apply rules_assembly; assumption.
    + apply andb_prop in H0; destruct H0 as [Hp Hs]. apply andb_prop in Hp; destruct Hp as [Hp Hfc].
      unfold plain in Hp. apply andb_prop in Hp; destruct Hp as [Hf Hm].
      apply is_none_hd in Hf. apply is_none_hd in Hm.
      destruct (cma_spaces m) as [|t [|t2 r2]] eqn:Hcs; try discriminate.
      destruct (unique_fss m) as [|u [|u2 r3]] eqn:Hu; try discriminate.
      apply andb_prop in Hs; destruct Hs as [Htu Hfos]. apply fs_eqb_eq in Htu. subst u.
      apply (rules_apply v m t); assumption.
    + apply andb_prop in H0; destruct H0 as [Hp Hcs]. unfold plain in Hp.
      apply andb_prop in Hp; destruct Hp as [Hf Hm]. apply is_none_hd in Hf. apply is_none_hd in Hm.
      apply rules_mm; assumption.
    + rewrite Ho. cbn [is_domain]. apply rules_general; assumption.
Qed.

(* with a stub: the generated stub follows the documented rules as well *)
Theorem stub_matches_rules_ : forall v m, rules_safe v m = true -> safe v false m = true ->
  erase_list (doc_list m) = erase_list (stub_list v m).
Proof.
  intros v m Hr Hs. rewrite (walk_matches_rules_ v m Hr). exact (call_matches_stub_modkind_ v m Hs).
Qed.
