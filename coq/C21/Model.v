(* C21 — model of the LFRic kernel-argument ordering machinery.
   walk       = ArgOrdering.generate                 (src/psyclone/domain/lfric/arg_ordering.py 338-523)
   call_args  = the hooks as implemented by KernCallArgList (kern_call_arg_list.py)
   stub_args  = the hooks as implemented by KernStubArgList (kern_stub_arg_list.py) with the types /
                ranks / intents that LFRicKern.gen_stub's declaration collections give the dummies.
   Faithful to the code as it is (including its defects); no proofs in this file. *)
From Coq Require Import List Bool Arith.
Import ListNotations.

(* ------------------------------------------------------------------ argument shapes *)
Inductive ity := TReal | TInt | TLogical.
Inductive kind := KRdef | KRsolver | KRtran | KRbl | KRphys | KIdef | KLdef.
Inductive intent := IIn | IInOut.
Record argshape := mkA { a_ty : ity; a_kind : kind; a_rank : nat; a_intent : intent }.

(* ------------------------------------------------------------------ metadata *)
Inductive access := ARead | AWrite | AReadWrite | AInc | AReadInc.
Inductive fspace := W0 | W1 | W2 | W2trace | W2h | W2htrace | AnyW2 | W3 | Wtheta | W2v | W2vtrace
                  | W2broken | Wchi | AnySpace (n : nat) | AnyDisc (n : nat).
Inductive stencil := SX1d | SY1d | SXory1d | SCross | SRegion | SCross2d.
Inductive mesh := Coarse | Fine.
Inductive shape := QXyoz | QFace | QEdge | Evaluator.
Inductive refprop := NormH | NormV | NormF | OutH | OutV | OutF.
Inductive meshprop := AdjacentFace.
Inductive opon := CellColumn | Domain | Dof.
(* the kernel (subroutine) name only matters through bc_kern_regex / "enforce_operator_bc_code" *)
Inductive kname := KOther | KEnforceBc | KEnforceOperatorBc.
Inductive fop := Basis | DiffBasis.                      (* gh_basis | gh_diff_basis *)

Inductive marg :=
| MScalar (t : ity) (k : kind) (acc : access)
| MField (t : ity) (k : kind) (acc : access) (f : fspace) (vec : nat) (st : option stencil)
         (ms : option mesh)
| MOp (k : kind) (acc : access) (fto ffrom : fspace)
| MCma (acc : access) (fto ffrom : fspace).
(* [k] is the precision the ALGORITHM layer declares for the actual argument (mixed precision);
   the stub generator only sees the metadata and always uses the default kind. *)

Record metadata := mkM {
  m_args : list marg;
  m_funcs : list (fspace * list fop);          (* meta_funcs: space, operations in the order written *)
  m_shapes : list shape;                       (* gh_shape, in metadata order *)
  m_targets : list fspace;                     (* gh_evaluator_targets ([] when absent) *)
  m_refelem : list refprop;
  m_mesh : list meshprop;
  m_opon : opon;
  m_name : kname }.

(* ------------------------------------------------------------------ decidable equalities *)
Definition fs_eqb (a b : fspace) : bool :=
  match a, b with
  | W0, W0 | W1, W1 | W2, W2 | W2trace, W2trace | W2h, W2h | W2htrace, W2htrace | AnyW2, AnyW2
  | W3, W3 | Wtheta, Wtheta | W2v, W2v | W2vtrace, W2vtrace | W2broken, W2broken | Wchi, Wchi => true
  | AnySpace n, AnySpace k => Nat.eqb n k
  | AnyDisc n, AnyDisc k => Nat.eqb n k
  | _, _ => false
  end.
Definition shape_eqb (a b : shape) : bool :=
  match a, b with
  | QXyoz, QXyoz | QFace, QFace | QEdge, QEdge | Evaluator, Evaluator => true
  | _, _ => false
  end.
Definition refprop_eqb (a b : refprop) : bool :=
  match a, b with
  | NormH, NormH | NormV, NormV | NormF, NormF | OutH, OutH | OutV, OutV | OutF, OutF => true
  | _, _ => false
  end.
Definition is_quad (s : shape) : bool := match s with Evaluator => false | _ => true end.
Definition ity_eqb (a b : ity) : bool :=
  match a, b with TReal, TReal | TInt, TInt | TLogical, TLogical => true | _, _ => false end.
Definition kind_eqb (a b : kind) : bool :=
  match a, b with
  | KRdef, KRdef | KRsolver, KRsolver | KRtran, KRtran | KRbl, KRbl | KRphys, KRphys | KIdef, KIdef
  | KLdef, KLdef => true
  | _, _ => false
  end.

Fixpoint dedup {A} (eqb : A -> A -> bool) (seen l : list A) : list A :=
  match l with
  | [] => []
  | x :: r => if existsb (eqb x) seen then dedup eqb seen r else x :: dedup eqb (x :: seen) r
  end.
Definition uniq_fs (l : list fspace) : list fspace := dedup fs_eqb [] l.
Definition uniq_shape (l : list shape) : list shape := dedup shape_eqb [] l.

(* ------------------------------------------------------------------ derived kernel properties *)
Definition is_read (a : access) : bool := match a with ARead => true | _ => false end.
Definition intent_of (a : access) : intent := if is_read a then IIn else IInOut.   (* DynKernelArgument.intent *)
Definition arg_access (a : marg) : access :=
  match a with MScalar _ _ c => c | MField _ _ c _ _ _ _ => c | MOp _ c _ _ => c | MCma c _ _ => c end.
Definition arg_spaces (a : marg) : list fspace :=
  match a with
  | MScalar _ _ _ => []
  | MField _ _ _ f _ _ _ => [f]
  | MOp _ _ t f => [t; f]
  | MCma _ t f => [t; f]
  end.
Definition is_field (a : marg) : bool := match a with MField _ _ _ _ _ _ _ => true | _ => false end.
Definition is_lma (a : marg) : bool := match a with MOp _ _ _ _ => true | _ => false end.
Definition is_cma (a : marg) : bool := match a with MCma _ _ _ => true | _ => false end.
Definition is_scalar (a : marg) : bool := match a with MScalar _ _ _ => true | _ => false end.

(* DynKernelArguments.unique_fss: function spaces in order of first appearance (to before from) *)
Definition unique_fss (m : metadata) : list fspace := uniq_fs (flat_map arg_spaces (m_args m)).
(* arguments.has_operator() / has_operator(op_type="gh_columnwise_operator") *)
Definition has_operator (m : metadata) : bool := existsb (fun a => is_lma a || is_cma a) (m_args m).
Definition has_cma (m : metadata) : bool := existsb is_cma (m_args m).
(* LFRicKernMetadata._validate_inter_grid: a field with a mesh_arg makes the kernel inter-grid *)
Definition arg_mesh (a : marg) : option mesh := match a with MField _ _ _ _ _ _ ms => ms | _ => None end.
Definition is_intergrid (m : metadata) : bool :=
  existsb (fun a => match arg_mesh a with Some _ => true | None => false end) (m_args m).

Inductive cmaop := Assembly | Apply | MatrixMatrix.
(* LFRicKernMetadata._identify_cma_op (classification part; the error branches are in Valid.v) *)
Definition cma_operation (m : metadata) : option cmaop :=
  let cmas := filter is_cma (m_args m) in
  match cmas with
  | [] => None
  | _ => let wc := length (filter (fun a => negb (is_read (arg_access a))) cmas) in
         if Nat.eqb wc 0 then Some Apply
         else if Nat.eqb (length cmas) 1 then Some Assembly else Some MatrixMatrix
  end.
Definition cma_is (m : metadata) (c : cmaop) : bool :=
  match cma_operation m, c with
  | Some Assembly, Assembly | Some Apply, Apply | Some MatrixMatrix, MatrixMatrix => true
  | _, _ => false
  end.

(* FunctionSpace.field_on_space / cma_on_space *)
Definition field_on_space (m : metadata) (f : fspace) : bool :=
  existsb (fun a => match a with MField _ _ _ g _ _ _ => fs_eqb g f | _ => false end) (m_args m).
Definition cma_on_space (m : metadata) (f : fspace) : bool :=
  existsb (fun a => match a with MCma _ t g => fs_eqb t f || fs_eqb g f | _ => false end) (m_args m).
(* kernel.arguments.get_arg_on_space(fs).mesh for an inter-grid kernel: first argument on the space *)
Fixpoint mesh_of_space (args : list marg) (f : fspace) : option mesh :=
  match args with
  | [] => None
  | a :: r => if existsb (fs_eqb f) (arg_spaces a) then arg_mesh a else mesh_of_space r f
  end.
(* FSDescriptors.get_descriptor: first meta_funcs entry for the space;
   FSDescriptor.requires_basis / requires_diff_basis: membership in operator_names *)
Definition is_basis (o : fop) : bool := match o with Basis => true | DiffBasis => false end.
Fixpoint func_of (fs : list (fspace * list fop)) (f : fspace) : option (bool * bool) :=
  match fs with
  | [] => None
  | (g, ops) :: r => if fs_eqb g f then Some (existsb is_basis ops, existsb (fun o => negb (is_basis o)) ops)
                     else func_of r f
  end.
(* LFRicKern._setup_basis: some meta_funcs entry names at least one operation *)
Definition basis_required (m : metadata) : bool :=
  existsb (fun e => match snd e with [] => false | _ => true end) (m_funcs m).
(* LFRicKernMetadata.__init__: evaluator targets = gh_evaluator_targets, or (when gh_evaluator is
   requested) the first space of every argument that is written; duplicates removed.
   LFRicKern._setup only fills eval_targets when "gh_evaluator" is among the shapes. *)
Definition eval_shapes (m : metadata) : list shape := if basis_required m then m_shapes m else [].
Definition eval_targets (m : metadata) : list fspace :=
  if existsb (shape_eqb Evaluator) (eval_shapes m) then
    match m_targets m with
    | [] => uniq_fs (flat_map (fun a => if is_read (arg_access a) then [] else firstn 1 (arg_spaces a)) (m_args m))
    | t => uniq_fs t
    end
  else [].
(* LFRicKern.qr_rules: an OrderedDict keyed by shape *)
Definition qr_rules (m : metadata) : list shape := uniq_shape (filter is_quad (eval_shapes m)).

(* LFRicStencils._declare_unique_extent_vars (stub): every stencil-size dummy is declared with the
   shape required by the FIRST stencil argument of the kernel (f2pygen ignores re-declarations) *)
Definition arg_stencil (a : marg) : option stencil := match a with MField _ _ _ _ _ st _ => st | _ => None end.
Fixpoint first_stencil (args : list marg) : option stencil :=
  match args with
  | [] => None
  | a :: r => match arg_stencil a with Some s => Some s | None => first_stencil r end
  end.
Definition is_cross2d (s : stencil) : bool := match s with SCross2d => true | _ => false end.
Definition sizes_declared_as_arrays (m : metadata) : bool :=
  match first_stencil (m_args m) with Some s => is_cross2d s | None => false end.
Definition horizontal (p : refprop) : bool := match p with NormH | OutH => true | _ => false end.

(* ------------------------------------------------------------------ events = hook invocations *)
Inductive event :=
| ECellPosition | EMeshHeight (o : opon) | ENcell2dNoHalos | ENcell2d | ECellMap
| EField (i : nat) (t : ity) (k : kind) (acc : access)
| EFieldVector (i n : nat) (t : ity) (k : kind) (acc : access)
| EStencilUnknownExtent (i : nat) (arr : bool)
| EStencil2dUnknownExtent (i : nat) (arr : bool)
| EStencil2dMaxExtent (i : nat)
| EStencilUnknownDirection (i : nat)
| EStencil (i : nat) | EStencil2d (i : nat)
| EOperator (i : nat) (k : kind) (acc : access)
| ECmaOperator (i : nat) (samefs : bool) (acc : access)
| EScalar (i : nat) (t : ity) (k : kind) (acc : access)
| EFsCommon (f : fspace) (o : opon)
| EFsCompulsoryField (f : fspace) (o : opon)
| EFsIntergrid (f : fspace) (fine : bool) (o : opon)
| EBandedDofmap (f : fspace) | EIndirectionDofmap (f : fspace)
| EBasis (f : fspace) (shapes : list shape) (targets : list fspace)
| EDiffBasis (f : fspace) (shapes : list shape) (targets : list fspace)
| EFieldBcsKernel (f : fspace) | EOperatorBcsKernel (f : fspace)
| ERefElementProperties (props : list refprop)
| EMeshProperties (props : list meshprop) (has_nfaces_h : bool)
| EQuadRule (rules : list shape).

(* hooks called for one meta_args entry (the body of the `for arg in self._kern.arguments.args` loop) *)
Definition arg_events (arr : bool) (i : nat) (a : marg) : list event :=
  match a with
  | MField t k acc f vec st _ =>
      (if Nat.ltb 1 vec then [EFieldVector i vec t k acc] else [EField i t k acc]) ++
      match st with
      | None => []
      | Some s =>
          (* valid metadata never carries an extent (get_stencil raises NotImplementedError) *)
          (if is_cross2d s then [EStencil2dUnknownExtent i arr; EStencil2dMaxExtent i]
           else [EStencilUnknownExtent i arr]) ++
          (match s with SXory1d => [EStencilUnknownDirection i] | _ => [] end) ++
          (if is_cross2d s then [EStencil2d i] else [EStencil i])
      end
  | MOp k acc _ _ => [EOperator i k acc]
  | MCma acc t f => [ECmaOperator i (fs_eqb t f) acc]
  | MScalar t k acc => [EScalar i t k acc]
  end.
Fixpoint args_events (arr : bool) (i : nat) (l : list marg) : list event :=
  match l with
  | [] => []
  | a :: r => arg_events arr i a ++ args_events arr (S i) r
  end.

(* body of the `for unique_fs in self._kern.arguments.unique_fss` loop *)
Definition fs_events (m : metadata) (f : fspace) : list event :=
  (if negb (cma_is m MatrixMatrix) && negb (is_intergrid m) then [EFsCommon f (m_opon m)] else []) ++
  (if field_on_space m f then
     if is_intergrid m
     then [EFsIntergrid f (match mesh_of_space (m_args m) f with Some Fine => true | _ => false end) (m_opon m)]
     else [EFsCompulsoryField f (m_opon m)]
   else []) ++
  (if cma_on_space m f then
     if cma_is m Assembly then [EBandedDofmap f]
     else if cma_is m Apply then [EIndirectionDofmap f] else []
   else []) ++
  (match func_of (m_funcs m) f with
   | None => []
   | Some (b, d) =>
       (if b then [EBasis f (eval_shapes m) (eval_targets m)] else []) ++
       (if d then [EDiffBasis f (eval_shapes m) (eval_targets m)] else [])
   end) ++
  (match m_name m, f with KEnforceBc, AnySpace 1 => [EFieldBcsKernel f] | _, _ => [] end).

Definition first_to_space (m : metadata) : list fspace :=
  match m_args m with MOp _ _ t _ :: _ => [t] | _ => [] end.

Definition walk (m : metadata) : list event :=
  (if has_operator m then [ECellPosition] else []) ++
  (if cma_is m Apply || cma_is m MatrixMatrix then [] else [EMeshHeight (m_opon m)]) ++
  (match m_opon m with Domain => [ENcell2dNoHalos] | _ => [] end) ++
  (if has_cma m then [ENcell2d] else []) ++
  (if is_intergrid m then [ECellMap] else []) ++
  args_events (sizes_declared_as_arrays m) 0 (m_args m) ++
  flat_map (fs_events m) (unique_fss m) ++
  (match m_name m with KEnforceOperatorBc => map EOperatorBcsKernel (first_to_space m) | _ => [] end) ++
  [ERefElementProperties (m_refelem m)] ++
  [EMeshProperties (m_mesh m) (existsb horizontal (m_refelem m))] ++
  (if basis_required m then match qr_rules m with [] => [] | q => [EQuadRule q] end else []).

(* ------------------------------------------------------------------ roles + shapes of arguments *)
Inductive role :=
| RCell | RNlayers | RNcell2dNoHalos | RNcell2d | RCellMap | RNcpcX | RNcpcY | RNcellF
| RScalar (i : nat) | RField (i : nat) | RFieldV (i c : nat)
| RStSize (i : nat) | RStMax (i : nat) | RStDir (i : nat) | RStMap (i : nat)
| ROpNcell3d (i : nat) | ROp (i : nat)
| RCma (i : nat) | RCmaNrow (i : nat) | RCmaNcol (i : nat) | RCmaBandwidth (i : nat) | RCmaAlpha (i : nat)
| RCmaBeta (i : nat) | RCmaGammaM (i : nat) | RCmaGammaP (i : nat)
| RNdf (f : fspace) | RUndf (f : fspace) | RMap (f : fspace) | RBanded (f : fspace) | RIndirection (f : fspace)
| RBasisQ (f : fspace) (s : shape) | RBasisE (f t : fspace)
| RDiffBasisQ (f : fspace) (s : shape) | RDiffBasisE (f t : fspace)
| RBoundaryDofs
| RNfacesH | RNfacesV | RNfaces | RNormals (p : refprop) | RAdjacentFace
| RQrN1 (s : shape) | RQrN2 (s : shape) | RQrW1 (s : shape) | RQrW2 (s : shape).
Definition slot := (role * argshape)%type.

Definition int_in (r : nat) : argshape := mkA TInt KIdef r IIn.
Definition real_in (r : nat) : argshape := mkA TReal KRdef r IIn.
Definition default_kind (t : ity) : kind := match t with TReal => KRdef | TInt => KIdef | TLogical => KLdef end.

Fixpoint vec_slots (i : nat) (sh : argshape) (c n : nat) : list slot :=
  match n with 0 => [] | S n' => (RFieldV i c, sh) :: vec_slots i sh (S c) n' end.
Definition cma_scalars (i : nat) (samefs : bool) : list slot :=
  [(RCmaNrow i, int_in 0)] ++ (if samefs then [] else [(RCmaNcol i, int_in 0)]) ++
  [(RCmaBandwidth i, int_in 0); (RCmaAlpha i, int_in 0); (RCmaBeta i, int_in 0);
   (RCmaGammaM i, int_in 0); (RCmaGammaP i, int_in 0)].

(* DynReferenceElement.kern_args_symbols (shared by both classes): the face counts in order of first
   use by the listed properties, then one array per property *)
Inductive nf := NfH | NfV | NfA.
Definition nf_of (p : refprop) : nf :=
  match p with NormH | OutH => NfH | NormV | OutV => NfV | NormF | OutF => NfA end.
Definition nf_eqb (a b : nf) : bool :=
  match a, b with NfH, NfH | NfV, NfV | NfA, NfA => true | _, _ => false end.
Definition nf_role (n : nf) : role := match n with NfH => RNfacesH | NfV => RNfacesV | NfA => RNfaces end.
Definition refelem_slots (props : list refprop) : list slot :=
  let ps := dedup refprop_eqb [] props in
  map (fun n => (nf_role n, int_in 0)) (dedup nf_eqb [] (map nf_of ps)) ++
  map (fun p => (RNormals p, real_in 2)) ps.
(* LFRicMeshProperties.kern_args *)
Definition mesh_slots (props : list meshprop) (has_h : bool) : list slot :=
  flat_map (fun p => match p with AdjacentFace =>
    (if has_h then [] else [(RNfacesH, int_in 0)]) ++ [(RAdjacentFace, int_in 1)] end) props.
(* LFRicKern._setup: QRRule.kernel_args *)
Definition qr_slots (s : shape) : list slot :=
  match s with
  | QXyoz => [(RQrN1 s, int_in 0); (RQrN2 s, int_in 0); (RQrW1 s, real_in 1); (RQrW2 s, real_in 1)]
  | QFace | QEdge => [(RQrN1 s, int_in 0); (RQrN2 s, int_in 0); (RQrW1 s, real_in 2)]
  | Evaluator => []
  end.
Definition in_cols (o : opon) : bool := match o with Dof => false | _ => true end.

(* Which of the two known variants of the anchored code the tree under test contains (detected by
   props/C21/translate.py on every run, so that the same development checks the unchanged tree and a
   tree with props/C21/fix.patch applied):
   v_basis_in_shape_order   KernCallArgList.basis/diff_basis follow gh_shape order (as the stub does)
   v_sizes_per_arg          the stub declares each stencil-size dummy with its own argument's shape *)
Record variant := mkV { v_basis_in_shape_order : bool; v_sizes_per_arg : bool }.
Definition v_unchanged : variant := mkV false false.
Definition v_fixed : variant := mkV true true.

Definition basis_in_shape_order (Q : shape -> slot) (E : fspace -> slot) (shapes : list shape)
           (targets : list fspace) : list slot :=
  flat_map (fun s => if is_quad s then [Q s] else map E targets) shapes.
Definition basis_quadrature_first (Q : shape -> slot) (E : fspace -> slot) (shapes : list shape)
           (targets : list fspace) : list slot :=
  map Q (uniq_shape (filter is_quad shapes)) ++
  (if existsb (shape_eqb Evaluator) shapes then map E targets else []).

(* ---- KernCallArgList *)
Definition call_args (v : variant) (e : event) : list slot :=
  match e with
  | ECellPosition => [(RCell, int_in 0)]
  | EMeshHeight o => if in_cols o then [(RNlayers, int_in 0)] else []
  | ENcell2dNoHalos => [(RNcell2dNoHalos, int_in 0)]
  | ENcell2d => [(RNcell2d, int_in 0)]
  | ECellMap => [(RCellMap, int_in 2); (RNcpcX, int_in 0); (RNcpcY, int_in 0); (RNcellF, int_in 0)]
  | EField i t k acc => [(RField i, mkA t k 1 (intent_of acc))]
  | EFieldVector i n t k acc => vec_slots i (mkA t k 1 (intent_of acc)) 1 n
  | EStencilUnknownExtent i _ => [(RStSize i, int_in 0)]
  | EStencil2dUnknownExtent i _ => [(RStSize i, int_in 1)]
  | EStencil2dMaxExtent i => [(RStMax i, int_in 0)]
  | EStencilUnknownDirection i => [(RStDir i, int_in 0)]
  | EStencil i => [(RStMap i, int_in 2)]
  | EStencil2d i => [(RStMap i, int_in 3)]
  | EOperator i k acc => [(ROpNcell3d i, int_in 0); (ROp i, mkA TReal k 3 (intent_of acc))]
  | ECmaOperator i samefs acc => (RCma i, mkA TReal KRsolver 3 (intent_of acc)) :: cma_scalars i samefs
  | EScalar i t k acc => [(RScalar i, mkA t k 0 (intent_of acc))]
  | EFsCommon f o => if in_cols o then [(RNdf f, int_in 0)] else []
  | EFsCompulsoryField f o =>
      [(RUndf f, int_in 0); (RMap f, int_in (match o with Domain => 2 | _ => 1 end))]
  | EFsIntergrid f fine o =>
      if fine then (if in_cols o then [(RNdf f, int_in 0)] else []) ++ [(RUndf f, int_in 0); (RMap f, int_in 2)]
      else [(RUndf f, int_in 0); (RMap f, int_in (match o with Domain => 2 | _ => 1 end))]
  | EBandedDofmap f => [(RBanded f, int_in 2)]
  | EIndirectionDofmap f => [(RIndirection f, int_in 1)]
  | EBasis f shapes targets =>
      (if v_basis_in_shape_order v then basis_in_shape_order else basis_quadrature_first)
        (fun s => (RBasisQ f s, real_in 4)) (fun t => (RBasisE f t, real_in 3)) shapes targets
  | EDiffBasis f shapes targets =>
      (if v_basis_in_shape_order v then basis_in_shape_order else basis_quadrature_first)
        (fun s => (RDiffBasisQ f s, real_in 4)) (fun t => (RDiffBasisE f t, real_in 3)) shapes targets
  | EFieldBcsKernel _ | EOperatorBcsKernel _ => [(RBoundaryDofs, int_in 2)]
  | ERefElementProperties props => refelem_slots props
  | EMeshProperties props has_h => mesh_slots props has_h
  | EQuadRule rules => flat_map qr_slots rules
  end.

(* ---- KernStubArgList (+ the stub's declarations) *)
Definition stub_args (v : variant) (e : event) : list slot :=
  match e with
  | ECellPosition => [(RCell, int_in 0)]
  | EMeshHeight _ => [(RNlayers, int_in 0)]
  | ENcell2dNoHalos => []                            (* not overridden: base-class no-op *)
  | ENcell2d => [(RNcell2d, int_in 0)]
  | ECellMap => []                                   (* not overridden: base-class no-op *)
  | EField i t _ acc => [(RField i, mkA t (default_kind t) 1 (intent_of acc))]
  | EFieldVector i n t _ acc => vec_slots i (mkA t (default_kind t) 1 (intent_of acc)) 1 n
  | EStencilUnknownExtent i arr => [(RStSize i, int_in (if v_sizes_per_arg v then 0 else if arr then 1 else 0))]
  | EStencil2dUnknownExtent i arr => [(RStSize i, int_in (if v_sizes_per_arg v then 1 else if arr then 1 else 0))]
  | EStencil2dMaxExtent i => [(RStMax i, int_in 0)]
  | EStencilUnknownDirection i => [(RStDir i, int_in 0)]
  | EStencil i => [(RStMap i, int_in 2)]
  | EStencil2d i => [(RStMap i, int_in 3)]
  | EOperator i _ acc => [(ROpNcell3d i, int_in 0); (ROp i, mkA TReal KRdef 3 (intent_of acc))]
  | ECmaOperator i samefs acc => (RCma i, mkA TReal KRsolver 3 (intent_of acc)) :: cma_scalars i samefs
  | EScalar i t _ acc => [(RScalar i, mkA t (default_kind t) 0 (intent_of acc))]
  | EFsCommon f _ => [(RNdf f, int_in 0)]
  | EFsCompulsoryField f _ => [(RUndf f, int_in 0); (RMap f, int_in 1)]
  | EFsIntergrid _ _ _ => []                         (* not overridden: base-class no-op *)
  | EBandedDofmap f => [(RBanded f, int_in 2)]
  | EIndirectionDofmap f => [(RIndirection f, int_in 1)]
  | EBasis f shapes targets =>
      basis_in_shape_order (fun s => (RBasisQ f s, real_in 4)) (fun t => (RBasisE f t, real_in 3)) shapes targets
  | EDiffBasis f shapes targets =>
      basis_in_shape_order (fun s => (RDiffBasisQ f s, real_in 4)) (fun t => (RDiffBasisE f t, real_in 3))
                           shapes targets
  | EFieldBcsKernel _ | EOperatorBcsKernel _ => [(RBoundaryDofs, int_in 2)]
  | ERefElementProperties props => refelem_slots props
  | EMeshProperties props has_h => mesh_slots props has_h
  | EQuadRule rules => flat_map qr_slots rules
  end.

Definition call_list (v : variant) (m : metadata) : list slot := flat_map (call_args v) (walk m).
Definition stub_list (v : variant) (m : metadata) : list slot := flat_map (stub_args v) (walk m).

(* ------------------------------------------------------------------ what the stub generator accepts *)
(* LFRicKern.gen_stub refuses operates_on /= cell_column, LFRicKern._setup refuses inter-grid kernels
   outside an InvokeSchedule, DynBasisFunctions refuses (diff-)basis functions on any_space_N /
   any_discontinuous_space_N (the stub cannot know the first dimension). *)
Definition basis_known (f : fspace) : bool := match f with AnySpace _ | AnyDisc _ => false | _ => true end.
Definition stub_supported (m : metadata) : bool :=
  match m_opon m with CellColumn => true | _ => false end &&
  negb (is_intergrid m) &&
  forallb (fun e => basis_known (fst e) || match snd e with [] => true | _ => false end) (m_funcs m).
