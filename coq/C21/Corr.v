(* C21 — executable comparison of the model with the logged behaviour of the implementation.
   An observation is the list of ArgOrdering hook invocations of one class, each with the hook's
   Python name, its key (meta_args index / function space / none) and the (role tag, shape) of every
   argument the hook appended.  No proofs here. *)
From Coq Require Import List Bool Arith String.
Import ListNotations.
From PV Require Import C21.Model.
Local Open Scope string_scope.

Inductive key := KNone | KArg (i : nat) | KFs (f : fspace).
Definition obs_event := (string * key * list (string * argshape))%type.

Definition intent_eqb (a b : intent) : bool :=
  match a, b with IIn, IIn | IInOut, IInOut => true | _, _ => false end.
Definition shape_eq (a b : argshape) : bool :=
  ity_eqb (a_ty a) (a_ty b) && kind_eqb (a_kind a) (a_kind b) && Nat.eqb (a_rank a) (a_rank b) &&
  intent_eqb (a_intent a) (a_intent b).
Definition key_eqb (a b : key) : bool :=
  match a, b with
  | KNone, KNone => true
  | KArg i, KArg j => Nat.eqb i j
  | KFs f, KFs g => fs_eqb f g
  | _, _ => false
  end.
Fixpoint list_eqb {A} (eqb : A -> A -> bool) (a b : list A) : bool :=
  match a, b with
  | [], [] => true
  | x :: a', y :: b' => eqb x y && list_eqb eqb a' b'
  | _, _ => false
  end.
Definition slot_eqb (a b : string * argshape) : bool := String.eqb (fst a) (fst b) && shape_eq (snd a) (snd b).
Definition obs_eqb (a b : obs_event) : bool :=
  String.eqb (fst (fst a)) (fst (fst b)) && key_eqb (snd (fst a)) (snd (fst b)) &&
  list_eqb slot_eqb (snd a) (snd b).

(* Python name of the hook an event stands for *)
Definition ev_hook (e : event) : string :=
  match e with
  | ECellPosition => "cell_position" | EMeshHeight _ => "mesh_height"
  | ENcell2dNoHalos => "_mesh_ncell2d_no_halos" | ENcell2d => "_mesh_ncell2d" | ECellMap => "cell_map"
  | EField _ _ _ _ => "field" | EFieldVector _ _ _ _ _ => "field_vector"
  | EStencilUnknownExtent _ _ => "stencil_unknown_extent"
  | EStencil2dUnknownExtent _ _ => "stencil_2d_unknown_extent"
  | EStencil2dMaxExtent _ => "stencil_2d_max_extent"
  | EStencilUnknownDirection _ => "stencil_unknown_direction"
  | EStencil _ => "stencil" | EStencil2d _ => "stencil_2d"
  | EOperator _ _ _ => "operator" | ECmaOperator _ _ _ => "cma_operator" | EScalar _ _ _ _ => "scalar"
  | EFsCommon _ _ => "fs_common" | EFsCompulsoryField _ _ => "fs_compulsory_field"
  | EFsIntergrid _ _ _ => "fs_intergrid"
  | EBandedDofmap _ => "banded_dofmap" | EIndirectionDofmap _ => "indirection_dofmap"
  | EBasis _ _ _ => "basis" | EDiffBasis _ _ _ => "diff_basis"
  | EFieldBcsKernel _ => "field_bcs_kernel" | EOperatorBcsKernel _ => "operator_bcs_kernel"
  | ERefElementProperties _ => "ref_element_properties" | EMeshProperties _ _ => "mesh_properties"
  | EQuadRule _ => "quad_rule"
  end.
Definition ev_key (e : event) : key :=
  match e with
  | EField i _ _ _ | EFieldVector i _ _ _ _ | EStencilUnknownExtent i _ | EStencil2dUnknownExtent i _
  | EStencil2dMaxExtent i | EStencilUnknownDirection i | EStencil i | EStencil2d i | EOperator i _ _
  | ECmaOperator i _ _ | EScalar i _ _ _ => KArg i
  | EFsCommon f _ | EFsCompulsoryField f _ | EFsIntergrid f _ _ | EBandedDofmap f | EIndirectionDofmap f
  | EBasis f _ _ | EDiffBasis f _ _ | EFieldBcsKernel f | EOperatorBcsKernel f => KFs f
  | _ => KNone
  end.

Definition shape_name (s : shape) : string :=
  match s with QXyoz => "xyoz" | QFace => "face" | QEdge => "edge" | Evaluator => "evaluator" end.
Definition fs_short (f : fspace) : string :=
  match f with
  | W0 => "w0" | W1 => "w1" | W2 => "w2" | W2trace => "w2trace" | W2h => "w2h" | W2htrace => "w2htrace"
  | AnyW2 => "any_w2" | W3 => "w3" | Wtheta => "wtheta" | W2v => "w2v" | W2vtrace => "w2vtrace"
  | W2broken => "w2broken" | Wchi => "wchi" | AnySpace _ | AnyDisc _ => "any"
  end.
Definition prop_name (p : refprop) : string :=
  match p with
  | NormH => "normals_to_horiz_faces" | NormV => "normals_to_vert_faces" | NormF => "normals_to_faces"
  | OutH => "out_normals_to_horiz_faces" | OutV => "out_normals_to_vert_faces" | OutF => "out_normals_to_faces"
  end.
Definition digit (n : nat) : string :=
  match n with 0 => "0" | 1 => "1" | 2 => "2" | 3 => "3" | 4 => "4" | 5 => "5" | 6 => "6" | 7 => "7"
             | 8 => "8" | 9 => "9" | _ => "big" end.
(* the role tag the harness computes from the NAME the implementation gives the argument *)
Definition role_tag (r : role) : string :=
  match r with
  | RCell => "cell" | RNlayers => "nlayers" | RNcell2dNoHalos => "ncell_2d_no_halos" | RNcell2d => "ncell_2d"
  | RCellMap => "cell_map" | RNcpcX => "ncpc_x" | RNcpcY => "ncpc_y" | RNcellF => "ncell_f"
  | RScalar _ => "scalar" | RField _ => "field" | RFieldV _ c => "fieldv:" ++ digit c
  | RStSize _ => "st_size" | RStMax _ => "st_max" | RStDir _ => "st_dir" | RStMap _ => "st_map"
  | ROpNcell3d _ => "op_ncell_3d" | ROp _ => "op"
  | RCma _ => "cma" | RCmaNrow _ => "cma_nrow" | RCmaNcol _ => "cma_ncol" | RCmaBandwidth _ => "cma_bandwidth"
  | RCmaAlpha _ => "cma_alpha" | RCmaBeta _ => "cma_beta" | RCmaGammaM _ => "cma_gamma_m"
  | RCmaGammaP _ => "cma_gamma_p"
  | RNdf _ => "ndf" | RUndf _ => "undf" | RMap _ => "map" | RBanded _ => "banded" | RIndirection _ => "indirection"
  | RBasisQ _ s => "basis_q:" ++ shape_name s | RBasisE _ t => "basis_e:" ++ fs_short t
  | RDiffBasisQ _ s => "diff_basis_q:" ++ shape_name s | RDiffBasisE _ t => "diff_basis_e:" ++ fs_short t
  | RBoundaryDofs => "boundary_dofs"
  | RNfacesH => "nfaces_re_h" | RNfacesV => "nfaces_re_v" | RNfaces => "nfaces_re"
  | RNormals p => prop_name p | RAdjacentFace => "adjacent_face"
  | RQrN1 s => "qr_n1:" ++ shape_name s | RQrN2 s => "qr_n2:" ++ shape_name s
  | RQrW1 s => "qr_w1:" ++ shape_name s | RQrW2 s => "qr_w2:" ++ shape_name s
  end.

Definition expect (side : event -> list slot) (e : event) : obs_event :=
  (ev_hook e, ev_key e, map (fun s => (role_tag (fst s), snd s)) (side e)).

(* what the harness saw of the stub generator *)
Inductive stub_obs := StubEvents (l : list obs_event) | StubRefused | StubUnknown.

Definition check (v : variant) (c : metadata * option (list obs_event) * stub_obs) : bool :=
  let '(m, oc, os) := c in
  match oc with
  | Some l => list_eqb obs_eqb l (map (expect (call_args v)) (walk m))
  | None => true
  end &&
  match os with
  | StubEvents l => stub_supported m && list_eqb obs_eqb l (map (expect (stub_args v)) (walk m))
  | StubRefused => negb (stub_supported m)
  | StubUnknown => true
  end.
