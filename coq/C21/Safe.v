(* C21 — the sufficient condition [safe] under which caller and stub provably agree, the per-event
   condition [ev_ok], and [md_valid], a model of what LFRicArgDescriptor / LFRicKernMetadata accept
   (used to state that the refutation witnesses are valid metadata).  Definitions only. *)
From Coq Require Import List Bool Arith.
Import ListNotations.
From PV Require Import C21.Model.

(* [strict = true]: kinds are compared too (algorithm layer uses the default precisions);
   [strict = false]: mixed precision allowed, kinds are not compared. *)
Definition kind_ok (strict : bool) (k d : kind) : bool := negb strict || kind_eqb k d.

(* shapes = pairwise distinct quadrature shapes, optionally followed by gh_evaluator as LAST entry *)
Fixpoint quad_then_eval (seen l : list shape) : bool :=
  match l with
  | [] => true
  | s :: r => if is_quad s then negb (existsb (shape_eqb s) seen) && quad_then_eval (s :: seen) r
              else match r with [] => true | _ => false end
  end.

Definition ev_ok (v : variant) (strict : bool) (e : event) : bool :=
  match e with
  | EMeshHeight o => in_cols o
  | ENcell2dNoHalos | ECellMap | EFsIntergrid _ _ _ => false
  | EField _ t k _ | EFieldVector _ _ t k _ | EScalar _ t k _ => kind_ok strict k (default_kind t)
  | EOperator _ k _ => kind_ok strict k KRdef
  | EStencilUnknownExtent _ arr => v_sizes_per_arg v || negb arr
  | EStencil2dUnknownExtent _ arr => v_sizes_per_arg v || arr
  | EFsCommon _ o => in_cols o
  | EFsCompulsoryField _ o => match o with Domain => false | _ => true end
  | EBasis _ shapes _ | EDiffBasis _ shapes _ => v_basis_in_shape_order v || quad_then_eval [] shapes
  | _ => true
  end.

Definition arg_default (strict : bool) (a : marg) : bool :=
  match a with
  | MScalar t k _ | MField t k _ _ _ _ _ => kind_ok strict k (default_kind t)
  | MOp k _ _ _ => kind_ok strict k KRdef
  | MCma _ _ _ => true
  end.
Definition stencil_consistent (arr : bool) (a : marg) : bool :=
  match arg_stencil a with None => true | Some s => Bool.eqb (is_cross2d s) arr end.
Definition is_cell_column (o : opon) : bool := match o with CellColumn => true | _ => false end.

(* metadata-level sufficient condition *)
Definition safe (v : variant) (strict : bool) (m : metadata) : bool :=
  is_cell_column (m_opon m) && negb (is_intergrid m) &&
  forallb (arg_default strict) (m_args m) &&
  (v_sizes_per_arg v || forallb (stencil_consistent (sizes_declared_as_arrays m)) (m_args m)) &&
  (v_basis_in_shape_order v || quad_then_eval [] (eval_shapes m)).

Definition erase_kind (s : slot) : role * (ity * nat * intent) :=
  (fst s, (a_ty (snd s), a_rank (snd s), a_intent (snd s))).

(* ------------------------------------------------------------------ parser acceptance (model) *)
Definition continuous (f : fspace) : bool :=
  match f with W0 | W1 | W2 | W2trace | W2h | W2htrace | AnyW2 | AnySpace _ => true | _ => false end.
Definition discontinuous (f : fspace) : bool :=
  match f with W3 | Wtheta | W2v | W2vtrace | W2broken | AnyDisc _ => true | _ => false end.
Definition disc_access (a : access) : bool := match a with ARead | AWrite | AReadWrite => true | _ => false end.
Definition cont_access (a : access) : bool := match a with ARead | AWrite | AInc | AReadInc => true | _ => false end.
Definition is_domain (o : opon) : bool := match o with Domain => true | _ => false end.
Definition field_access_ok (o : opon) (f : fspace) (a : access) : bool :=
  match o with
  | Dof => disc_access a
  | _ => (negb (discontinuous f) || disc_access a) &&
         (negb (continuous f) || (negb (is_domain o) && cont_access a))
  end && (match f with Wchi => is_read a | _ => true end).
Definition real_kind (k : kind) : bool :=
  match k with KRdef | KRsolver | KRtran | KRbl | KRphys => true | _ => false end.
Definition kind_fits (t : ity) (k : kind) : bool :=
  match t with TReal => real_kind k | TInt => kind_eqb k KIdef | TLogical => kind_eqb k KLdef end.
Definition is_none {A} (o : option A) : bool := match o with None => true | _ => false end.
Definition arg_ok (o : opon) (a : marg) : bool :=
  match a with
  | MScalar t k acc => is_read acc && kind_fits t k
  | MField t k acc f vec st ms =>
      negb (ity_eqb t TLogical) && kind_fits t k && Nat.leb 1 vec && field_access_ok o f acc &&
      (is_none st || (is_read acc && negb (is_domain o))) && (is_none st || is_none ms)
  | MOp k acc _ _ => disc_access acc && match k with KRdef | KRsolver | KRtran => true | _ => false end
  | MCma acc _ _ => disc_access acc
  end.
Definition written (a : marg) : bool := negb (is_read (arg_access a)).
Definition real_field_or_other (a : marg) : bool :=
  match a with MField t _ _ _ _ _ _ => ity_eqb t TReal | _ => true end.
Definition all_spaces (m : metadata) : list fspace := flat_map arg_spaces (m_args m).
Definition mem_fs (f : fspace) (l : list fspace) : bool := existsb (fs_eqb f) l.
Fixpoint nodupb {A} (eqb : A -> A -> bool) (l : list A) : bool :=
  match l with [] => true | x :: r => negb (existsb (eqb x) r) && nodupb eqb r end.
Definition need_evaluator (m : metadata) : bool := basis_required m.

Definition cma_valid (m : metadata) : bool :=
  let args := m_args m in
  let cmas := filter is_cma args in
  match cmas with
  | [] => true
  | _ =>
    forallb (fun a => match a with MField _ _ _ _ vec st _ => Nat.eqb vec 1 && is_none st | _ => true end) args &&
    forallb real_field_or_other args &&
    let wc := length (filter written cmas) in
    if Nat.eqb wc 0 then
      Nat.eqb (length cmas) 1 && Nat.eqb (length args) 3 &&
      match cmas with
      | MCma _ t f :: _ =>
          match filter (fun a => is_field a && is_read (arg_access a)) args,
                filter (fun a => is_field a && written a) args with
          | [MField _ _ _ fr _ _ _], [MField _ _ _ fw _ _ _] => fs_eqb fr f && fs_eqb fw t
          | _, _ => false
          end
      | _ => false
      end
    else if Nat.eqb wc 1 then
      Nat.eqb (length (filter written args)) 1 &&
      (if Nat.eqb (length cmas) 1 then existsb (fun a => is_lma a && is_read (arg_access a)) args
       else forallb (fun a => is_cma a || is_scalar a) args)
    else false
  end.

Definition mesh_is (x : mesh) (a : marg) : bool :=
  match arg_mesh a, x with Some Coarse, Coarse | Some Fine, Fine => true | _, _ => false end.
Definition intergrid_valid (m : metadata) : bool :=
  if is_intergrid m then
    forallb is_field (m_args m) &&
    forallb (fun a => negb (is_none (arg_mesh a))) (m_args m) &&
    existsb (mesh_is Coarse) (m_args m) && existsb (mesh_is Fine) (m_args m) &&
    forallb (fun a => negb (mesh_is Coarse a) ||
                      forallb (fun b => negb (mesh_is Fine b) ||
                                        negb (existsb (fun f => mem_fs f (arg_spaces b)) (arg_spaces a)))
                              (m_args m)) (m_args m)
  else true.
Definition domain_valid (m : metadata) : bool :=
  match m_opon m with
  | Domain => forallb (fun a => is_field a || is_scalar a) (m_args m) && negb (need_evaluator m) &&
              is_none (hd_error (m_refelem m)) && is_none (hd_error (m_mesh m)) && negb (is_intergrid m)
  | Dof => forallb (fun a => is_field a || is_scalar a) (m_args m)
  | CellColumn => true
  end.

Definition md_valid (m : metadata) : bool :=
  forallb (arg_ok (m_opon m)) (m_args m) &&
  existsb written (m_args m) &&
  (* meta_funcs: spaces among the argument spaces, unique; gh_shape present iff needed, entries distinct *)
  forallb (fun e => mem_fs (fst e) (all_spaces m)) (m_funcs m) &&
  nodupb fs_eqb (map fst (m_funcs m)) &&
  (if need_evaluator m then negb (is_none (hd_error (m_shapes m))) else is_none (hd_error (m_shapes m))) &&
  nodupb shape_eqb (m_shapes m) &&
  (* gh_evaluator_targets only with gh_evaluator, on argument spaces *)
  (is_none (hd_error (m_targets m)) ||
   (need_evaluator m && existsb (shape_eqb Evaluator) (m_shapes m) &&
    forallb (fun t => mem_fs t (all_spaces m)) (m_targets m))) &&
  (* LMA operators only with real fields *)
  (negb (existsb is_lma (m_args m)) || forallb real_field_or_other (m_args m)) &&
  cma_valid m && intergrid_valid m && domain_valid m &&
  nodupb refprop_eqb (m_refelem m) && Nat.leb (length (m_mesh m)) 1.
