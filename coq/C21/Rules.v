(* C21 — the documented argument-ordering rules, transcribed from doc/user_guide/dynamo0p3.rst
   ("Rules for General-Purpose Kernels" 1-7, "Rules for CMA Kernels" Assembly 1-6 / Application 1-6 /
   Matrix-Matrix 1-3, "Rules for Inter-Grid Kernels" 1-6, "Rules for Domain Kernels").
   The numbering in the comments is the user guide's.  Definitions only.  Where the guide is silent
   (boundary-condition kernels, DoF kernels "not yet implemented") [rules_safe] is false. *)
From Coq Require Import List Bool Arith.
Import ListNotations.
From PV Require Import C21.Model C21.Safe.

Definition int_arr_in (r : nat) : argshape := mkA TInt KIdef r IIn.

(* General 3.1-3.4 (also CMA-assembly 5.3, application 3.1, inter-grid 5.1) *)
Definition doc_field (i : nat) (a : marg) : list slot :=
  match a with
  | MField t _ acc _ vec st _ =>
      let sh := mkA t (default_kind t) 1 (intent_of acc) in
      (if Nat.ltb 1 vec then vec_slots i sh 1 vec               (* 3.3 *)
       else [(RField i, sh)]) ++                               (* 3.2 *)
      match st with
      | None => []
      | Some s =>
          [(RStSize i, int_in (if is_cross2d s then 1 else 0))] ++            (* 3.2.1 *)
          (if is_cross2d s then [(RStMax i, int_in 0)] else []) ++            (* 3.2.2 *)
          [(RStMap i, int_in (if is_cross2d s then 3 else 2))] ++             (* 3.2.3 *)
          (match s with SXory1d => [(RStDir i, int_in 0)] | _ => [] end)      (* 3.2.4 *)
      end
  | _ => []
  end.
Definition doc_scalar (i : nat) (a : marg) : list slot :=
  match a with MScalar t _ acc => [(RScalar i, mkA t (default_kind t) 0 (intent_of acc))] | _ => [] end.
Definition doc_cma (i : nat) (a : marg) : list slot :=       (* Assembly 5.2 (+ 5.2.1-5.2.7) *)
  match a with
  | MCma acc t f => (RCma i, mkA TReal KRsolver 3 (intent_of acc)) :: cma_scalars i (fs_eqb t f)
  | _ => []
  end.
Definition doc_arg_general (i : nat) (a : marg) : list slot :=
  match a with
  | MScalar _ _ _ => doc_scalar i a                                           (* 3.1 *)
  | MField _ _ _ _ _ _ _ => doc_field i a                                     (* 3.2, 3.3 *)
  | MOp _ acc _ _ => [(ROpNcell3d i, int_in 0); (ROp i, mkA TReal KRdef 3 (intent_of acc))]   (* 3.4 *)
  | MCma _ _ _ => doc_cma i a
  end.
Fixpoint doc_args (h : nat -> marg -> list slot) (i : nat) (l : list marg) : list slot :=
  match l with [] => [] | a :: r => h i a ++ doc_args h (S i) r end.

(* meta_funcs operations of a space, in the order written *)
Fixpoint ops_of (fs : list (fspace * list fop)) (f : fspace) : list fop :=
  match fs with [] => [] | (g, ops) :: r => if fs_eqb g f then ops else ops_of r f end.
(* General 4.3: for each operation in metadata order, for each gh_shape entry in order *)
Definition doc_basis (m : metadata) (f : fspace) : list slot :=
  flat_map (fun o =>
    flat_map (fun s =>
      if is_quad s then [((if is_basis o then RBasisQ f s else RDiffBasisQ f s), real_in 4)]     (* 4.3.1 *)
      else map (fun t => ((if is_basis o then RBasisE f t else RDiffBasisE f t), real_in 3))     (* 4.3.2 *)
               (eval_targets m))
      (eval_shapes m))
    (ops_of (m_funcs m) f).
Definition doc_fs_general (m : metadata) (f : fspace) : list slot :=
  [(RNdf f, int_in 0)] ++                                                                       (* 4.1 *)
  (if field_on_space m f then [(RUndf f, int_in 0); (RMap f, int_in 1)] else []) ++             (* 4.2 *)
  doc_basis m f.                                                                                (* 4.3 *)

Definition vertical (p : refprop) : bool := match p with NormV | OutV => true | _ => false end.
Definition allfaces (p : refprop) : bool := match p with NormF | OutF => true | _ => false end.
(* General 5: the guide says the normals are INTEGER arrays of kind i_def *)
Definition doc_refelem (props : list refprop) : list slot :=
  (if existsb horizontal props then [(RNfacesH, int_in 0)] else []) ++
  (if existsb vertical props then [(RNfacesV, int_in 0)] else []) ++
  (if existsb allfaces props then [(RNfaces, int_in 0)] else []) ++
  map (fun p => (RNormals p, int_arr_in 2)) props.                                              (* 5.1-5.3 *)
(* General 6 *)
Definition doc_mesh (m : metadata) : list slot :=
  flat_map (fun p => match p with AdjacentFace =>
     (if existsb horizontal (m_refelem m) then [] else [(RNfacesH, int_in 0)]) ++               (* 6.1 *)
     [(RAdjacentFace, int_in 1)] end) (m_mesh m).                                               (* 6.2 *)
(* General 7 *)
Definition doc_qr (s : shape) : list slot :=
  match s with
  | QXyoz => [(RQrN1 s, int_in 0); (RQrN2 s, int_in 0)] ++ [(RQrW1 s, real_in 1); (RQrW2 s, real_in 1)]
  | QFace | QEdge => [(RQrN1 s, int_in 0); (RQrN2 s, int_in 0)] ++ [(RQrW1 s, real_in 2)]
  | Evaluator => []
  end.

Definition doc_general (m : metadata) (domain : bool) : list slot :=
  (if existsb is_lma (m_args m) then [(RCell, int_in 0)] else []) ++                            (* 1 *)
  [(RNlayers, int_in 0)] ++                                                                     (* 2 *)
  (if domain then [(RNcell2dNoHalos, int_in 0)] else []) ++       (* Domain kernels: second argument *)
  doc_args doc_arg_general 0 (m_args m) ++                                                      (* 3 *)
  flat_map (doc_fs_general m) (unique_fss m) ++                                                 (* 4 *)
  doc_refelem (m_refelem m) ++                                                                  (* 5 *)
  doc_mesh m ++                                                                                 (* 6 *)
  flat_map doc_qr (filter is_quad (eval_shapes m)).                                             (* 7 *)

(* ---- CMA assembly *)
Fixpoint first_lma (i : nat) (l : list marg) : option nat :=
  match l with [] => None | a :: r => if is_lma a then Some i else first_lma (S i) r end.
Definition doc_arg_asm (i : nat) (a : marg) : list slot :=
  match a with
  | MOp _ acc _ _ => [(ROp i, mkA TReal KRdef 3 (intent_of acc))]                               (* 5.1 *)
  | MCma _ _ _ => doc_cma i a                                                                   (* 5.2 *)
  | _ => doc_arg_general i a                                                                    (* 5.3 *)
  end.
Definition doc_fs_asm (m : metadata) (f : fspace) : list slot :=
  [(RNdf f, int_in 0)] ++                                                                       (* 6.1 *)
  (if field_on_space m f then [(RUndf f, int_in 0); (RMap f, int_in 1)] else []) ++             (* 6.2 *)
  (if cma_on_space m f then [(RBanded f, int_in 2)] else []).                                   (* 6.3 *)
Definition doc_assembly (m : metadata) : list slot :=
  [(RCell, int_in 0); (RNlayers, int_in 0); (RNcell2d, int_in 0)] ++                            (* 1-3 *)
  (match first_lma 0 (m_args m) with Some i => [(ROpNcell3d i, int_in 0)] | None => [] end) ++  (* 4 *)
  doc_args doc_arg_asm 0 (m_args m) ++                                                          (* 5 *)
  flat_map (doc_fs_asm m) (unique_fss m).                                                       (* 6 *)

(* ---- CMA application / inverse application *)
Definition doc_arg_apply (i : nat) (a : marg) : list slot :=
  match a with
  | MField _ _ _ _ _ _ _ => doc_field i a                                                       (* 3.1 *)
  | MCma _ _ _ => doc_cma i a                                                                   (* 3.2 *)
  | _ => []
  end.
Definition cma_spaces (m : metadata) : list fspace :=
  match filter is_cma (m_args m) with MCma _ t f :: _ => if fs_eqb t f then [t] else [t; f] | _ => [] end.
Definition doc_apply (m : metadata) : list slot :=
  [(RCell, int_in 0); (RNcell2d, int_in 0)] ++                                                  (* 1-2 *)
  doc_args doc_arg_apply 0 (m_args m) ++                                                        (* 3 *)
  flat_map (fun f => [(RNdf f, int_in 0); (RUndf f, int_in 0); (RMap f, int_in 1)]) (unique_fss m) ++   (* 4 *)
  map (fun f => (RIndirection f, int_in 1)) (cma_spaces m).                                     (* 5, 6 *)

(* ---- CMA matrix-matrix *)
Definition doc_arg_mm (i : nat) (a : marg) : list slot :=
  match a with MCma _ _ _ => doc_cma i a | MScalar _ _ _ => doc_scalar i a | _ => [] end.      (* 3.1, 3.2 *)
Definition doc_mm (m : metadata) : list slot :=
  [(RCell, int_in 0); (RNcell2d, int_in 0)] ++ doc_args doc_arg_mm 0 (m_args m).               (* 1-3 *)

(* ---- inter-grid *)
Definition doc_fs_intergrid (m : metadata) (f : fspace) : list slot :=
  match mesh_of_space (m_args m) f with
  | Some Fine => [(RNdf f, int_in 0); (RUndf f, int_in 0); (RMap f, int_in 2)]                  (* 6 fine 1-3 *)
  | _ => [(RUndf f, int_in 0); (RMap f, int_in 1)]                                              (* 6 coarse 1-2 *)
  end.
Definition doc_intergrid (m : metadata) : list slot :=
  [(RNlayers, int_in 0); (RCellMap, int_in 2); (RNcpcX, int_in 0); (RNcpcY, int_in 0); (RNcellF, int_in 0)] ++ (* 1-4 *)
  doc_args doc_field 0 (m_args m) ++                                                            (* 5 *)
  flat_map (doc_fs_intergrid m) (unique_fss m).                                                 (* 6 *)

Definition doc_list (m : metadata) : list slot :=
  if is_intergrid m then doc_intergrid m
  else match cma_operation m with
       | Some Assembly => doc_assembly m
       | Some Apply => doc_apply m
       | Some MatrixMatrix => doc_mm m
       | None => doc_general m (is_domain (m_opon m))
       end.

(* ------------------------------------------------------------------ where guide and code coincide *)
Definition no_xory1d (a : marg) : bool := match arg_stencil a with Some SXory1d => false | _ => true end.
Definition ops_in_code_order (e : fspace * list fop) : bool :=
  match snd e with [] | [Basis] | [DiffBasis] | [Basis; DiffBasis] => true | _ => false end.
Definition lma_first_only (m : metadata) : bool :=
  match m_args m with
  | a :: r => is_lma a && negb (existsb is_lma r)
  | [] => false
  end.
Definition plain (m : metadata) : bool :=          (* nothing the CMA / inter-grid rules are silent about *)
  is_none (hd_error (m_funcs m)) && is_none (hd_error (m_mesh m)).
Definition rules_safe (v : variant) (m : metadata) : bool :=
  is_cell_column (m_opon m) &&
  match m_name m with KOther => true | _ => false end &&
  forallb no_xory1d (m_args m) &&                       (* guide: direction AFTER the dofmap (3.2.4) *)
  is_none (hd_error (m_refelem m)) &&                   (* guide: normals are integer arrays (5.1-5.3) *)
  forallb ops_in_code_order (m_funcs m) &&              (* guide: operations in metadata order (4.3) *)
  (v_basis_in_shape_order v || quad_then_eval [] (eval_shapes m)) &&   (* call side: quadrature first *)
  nodupb shape_eqb (filter is_quad (eval_shapes m)) &&  (* one quadrature rule per shape *)
  (if is_intergrid m then plain m && forallb is_field (m_args m)
   else match cma_operation m with
        | Some Assembly => plain m && lma_first_only m  (* guide: ONE ncell_3d, before meta_args (4) *)
        | Some Apply =>                                 (* guide: indirection maps last (5, 6) *)
            plain m && forallb (fun a => is_field a || is_cma a) (m_args m) &&
            match cma_spaces m, unique_fss m with
            | [t], [u] => fs_eqb t u && field_on_space m t
            | _, _ => false
            end
        | Some MatrixMatrix => plain m && forallb (fun a => is_cma a || is_scalar a) (m_args m)
        | None => true
        end).

(* executable statement of walk_matches_rules on one metadata (used on generated cases, too) *)
Definition erase_list (l : list slot) := map erase_kind l.
